(** The bundler theorems (statements fixed in /tmp/c05/BundleStatements.v) about Model/Bundle.v,
    each implication with an [Example] that its hypotheses hold on a non-trivial input. *)
From Coq Require Import NArith Arith PeanoNat List Bool Lia.
From DL Require Import Lib.Bytes Model.Rename Model.Bundle Proof.BundleSpec Proof.RenameStream
  Proof.BundleBasics Proof.BundleRel Proof.BundleInv Proof.BundleSound.
Import ListNotations.
Open Scope N_scope.

(** ** from [bundle] to the final state of the run *)

Lemma bundled_inv g roots ms sites :
  bundle g roots = Bundled ms sites ->
  exists s, run_entry g (enough_fuel g) roots = Some (s, sites) /\ errors s = [] /\ defs s = ms.
Proof.
  unfold bundle, bundle_with.
  destruct (run_entry g (enough_fuel g) roots) as [[s xs]|]; [|discriminate].
  destruct (errors s) eqn:E; [|discriminate]. intros [= <- <-]. now exists s.
Qed.

Lemma failed_inv g roots es :
  bundle g roots = Failed es ->
  exists s sites e rest, run_entry g (enough_fuel g) roots = Some (s, sites) /\
    errors s = es /\ es = e :: rest.
Proof.
  unfold bundle, bundle_with.
  destruct (run_entry g (enough_fuel g) roots) as [[s xs]|]; [|discriminate].
  destruct (errors s) as [|e rest] eqn:E; [discriminate|]. intros [= <-].
  now exists s, xs, e, rest.
Qed.

Lemma bundle_cases g roots :
  exists s sites, run_entry g (enough_fuel g) roots = Some (s, sites) /\
    ((errors s = [] /\ bundle g roots = Bundled (defs s) sites) \/
     (exists e rest, errors s = e :: rest /\ bundle g roots = Failed (e :: rest))).
Proof.
  unfold bundle, bundle_with.
  destruct (run_entry g (enough_fuel g) roots) as [[s xs]|] eqn:E;
    [|now apply run_entry_total in E].
  exists s, xs. split; [reflexivity|]. destruct (errors s) as [|e rest]; [now left|right].
  now exists e, rest.
Qed.

(** ** what an error-free final state says *)

Lemma final_facts g fuel roots s sites :
  run_entry g fuel roots = Some (s, sites) ->
  NoDup (map fst (defs s)) /\
  (errors s = [] ->
   Forall2 (site_ok (defs s)) roots sites /\ defs_ok g (defs s) /\ ranked (defs s)).
Proof.
  intros H. apply run_entry_sound in H. apply Vis_good in H.
  destruct (H (Good_init g)) as [G [_ [W N]]]. split; [apply (G_nodup g s G)|].
  intros E. destruct (Good_defs_ok g s G E) as [A B]. split; [|now split].
  eapply wsite_strong; [exact W|]. intros C. now apply N.
Qed.

Lemma Forall2_in_l {A B} (R : A -> B -> Prop) l1 l2 a :
  Forall2 R l1 l2 -> In a l1 -> exists b, In b l2 /\ R a b.
Proof.
  induction 1 as [|x y l1 l2 H F IH]; intros I; [destruct I|].
  destruct I as [<-|I]; [exists y; split; [now left|exact H]|].
  destruct (IH I) as [b [Ib Rb]]. exists b. split; [now right|exact Rb].
Qed.

Lemma site_ok_file ms f x : site_ok ms (RFile f) x -> exists k, x = Some k /\ nth_error (map fst ms) k = Some f.
Proof. destruct x as [k|]; cbn; [|contradiction]. intros H. now exists k. Qed.

Lemma site_ok_notfound ms lit x : ~ site_ok ms (RNotFound lit) x.
Proof. destruct x; cbn; tauto. Qed.

Section Final.
Variable g : graph.
Variable roots : list req.
Variable ms : list (file * list site).
Variable sites : list site.
Hypothesis Hroots : Forall2 (site_ok ms) roots sites.
Hypothesis Hdefs : defs_ok g ms.

(** an edge out of a defined file leads to a defined file, through a recorded site *)
Lemma edge_defined a b sa :
  In (a, sa) ms -> edge g a b ->
  exists j, In (Some j) sa /\ nth_error (map fst ms) j = Some b.
Proof.
  intros Ia [reqs [ret [Hl Hb]]]. pose proof (Hdefs a sa Ia) as D. rewrite Hl in D.
  destruct ret as [[|[|n]]|]; try contradiction.
  destruct (Forall2_in_l _ _ _ _ D Hb) as [x [Ix Sx]].
  apply site_ok_file in Sx as [j [-> Nj]]. now exists j.
Qed.

Lemma reach_defined f : reach g roots f -> In f (map fst ms).
Proof.
  induction 1 as [f Hf|a b Ra IH E].
  - destruct (Forall2_in_l _ _ _ _ Hroots Hf) as [x [Ix Sx]].
    apply site_ok_file in Sx as [j [-> Nj]]. eapply nth_error_In; exact Nj.
  - apply in_map_iff in IH as [[a' sa] [Ea Ia]]. cbn in Ea. subst a'.
    destruct (edge_defined a b sa Ia E) as [j [_ Nj]]. eapply nth_error_In; exact Nj.
Qed.

Lemma defined_proper f sf : In (f, sf) ms -> proper g f.
Proof.
  intros Hin. pose proof (Hdefs f sf Hin) as D. unfold proper.
  destruct (lookup g f) as [[reqs [[|[|n]]|]| |]|]; try exact D; [|exact I].
  intros lit C. destruct (Forall2_in_l _ _ _ _ D C) as [x [_ Sx]].
  now apply site_ok_notfound in Sx.
Qed.

Lemma final_well_formed : well_formed g roots.
Proof.
  split.
  - intros lit C. destruct (Forall2_in_l _ _ _ _ Hroots C) as [x [_ Sx]].
    now apply site_ok_notfound in Sx.
  - intros f R. apply reach_defined in R. apply in_map_iff in R as [[f' sf] [Ef If]].
    cbn in Ef. subst f'. eapply defined_proper; exact If.
Qed.

Hypothesis Hnodup : NoDup (map fst ms).
Hypothesis Hrank : ranked ms.

Lemma path_rank a b : path g a b -> forall ka, nth_error (map fst ms) ka = Some a ->
  exists kb, (kb < ka)%nat /\ nth_error (map fst ms) kb = Some b.
Proof.
  assert (Step : forall a b ka, edge g a b -> nth_error (map fst ms) ka = Some a ->
            exists kb, (kb < ka)%nat /\ nth_error (map fst ms) kb = Some b).
  { intros a0 b0 ka E Na. apply nth_error_map_fst_inv in Na as [sa Na].
    destruct (edge_defined a0 b0 sa (nth_error_In _ _ Na) E) as [j [Ij Nj]].
    exists j. split; [|exact Nj]. eapply Hrank; eassumption. }
  induction 1 as [a b E|a b c E P IH]; intros ka Na.
  - eapply Step; eassumption.
  - destruct (Step _ _ _ E Na) as [kb [L Nb]]. destruct (IH kb Nb) as [kc [L' Nc]].
    exists kc. split; [lia|exact Nc].
Qed.

Lemma final_acyclic : ~ cyclic g roots.
Proof.
  intros [f [R P]]. apply reach_defined in R. apply In_nth_error in R as [k Nk].
  destruct (path_rank f f P k Nk) as [k' [L Nk']].
  assert (k' = k); [|lia].
  apply (proj1 (NoDup_nth_error (map fst ms)) Hnodup); [|congruence].
  apply nth_error_Some. congruence.
Qed.

End Final.

(** ** under [well_formed], the only possible error is a genuine cycle *)

Lemma wf_justified_cyclic g roots e :
  well_formed g roots -> justified g roots e ->
  cyclic g roots /\ exists chain, e = ECyclic chain /\ names_cycle g chain.
Proof.
  intros [WR WP] Je. destruct e as [lit|chain|f|f]; cbn [justified] in Je.
  - exfalso. destruct Je as [C|[f [reqs [r [R [Hl C]]]]]]; [now apply (WR lit)|].
    pose proof (WP f R) as Pf. unfold proper in Pf. rewrite Hl in Pf.
    destruct r as [[|[|n]]|]; try contradiction. now apply (Pf lit).
  - destruct Je as [NC [f [Hd R]]]. split; [|now exists chain].
    exists f. split; [exact R|]. eapply names_cycle_path; eassumption.
  - exfalso. destruct Je as [R Hl]. pose proof (WP f R) as Pf. unfold proper in Pf.
    destruct Hl as [Hl|Hl]; rewrite Hl in Pf; exact Pf.
  - exfalso. destruct Je as [R [reqs [r [Hl Hr]]]]. pose proof (WP f R) as Pf.
    unfold proper in Pf. rewrite Hl in Pf.
    destruct r as [[|[|n]]|]; try contradiction; now apply Hr.
Qed.

(** ** example inputs *)

(** entry -> 1, 2, 1 ; 1 -> 3 ; 2 -> 3, 1 ; 3 is a data file *)
Definition diamond : graph :=
  [(1, KLua [RFile 3] (Some 1%nat)); (2, KLua [RFile 3; RFile 1] (Some 1%nat)); (3, KData)].
Definition diamond_roots : list req := [RFile 1; RFile 2; RFile 1].
Definition diamond_ms : list (file * list site) :=
  [(3, []); (1, [Some 0%nat]); (2, [Some 0%nat; Some 1%nat])].

(** 1 -> 2 -> 1 *)
Definition cycle2 : graph := [(1, KLua [RFile 2] (Some 1%nat)); (2, KLua [RFile 1] (Some 1%nat))].
(** the entry file 0 (entry -> 1) is itself required by 1 *)
Definition entry_cycle : graph := [(0, KLua [RFile 1] (Some 1%nat)); (1, KLua [RFile 0] (Some 1%nat))].
Definition self_loop : graph := [(1, KLua [RFile 1] (Some 1%nat))].
(** broken file, unresolved literals, no return, two returned values, a cycle, a missing file *)
Definition messy : graph :=
  [(1, KLua [RFile 2; RNotFound 7; RFile 3; RFile 4; RFile 5; RFile 2] (Some 1%nat)); (2, KBroken);
   (3, KLua [] None); (4, KLua [RFile 1] (Some 2%nat)); (6, KData)].
Definition messy_roots : list req := [RFile 1; RNotFound 9; RFile 6; RFile 2].

Example diamond_bundles :
  bundle diamond diamond_roots = Bundled diamond_ms [Some 1%nat; Some 2%nat; Some 1%nat].
Proof. vm_compute. reflexivity. Qed.

Example cycle2_fails : bundle cycle2 [RFile 1] = Failed [ECyclic [1; 2; 1]].
Proof. vm_compute. reflexivity. Qed.

Example entry_cycle_fails : bundle entry_cycle [RFile 1] = Failed [ECyclic [1; 0; 1]].
Proof. vm_compute. reflexivity. Qed.

Example self_loop_fails : bundle self_loop [RFile 1] = Failed [ECyclic [1; 1]].
Proof. vm_compute. reflexivity. Qed.

Example messy_fails :
  bundle messy messy_roots =
  Failed [EResource 2; ENotFound 7; EModule 3; ECyclic [1; 4; 1]; EModule 4; EResource 5; ENotFound 9].
Proof. vm_compute. reflexivity. Qed.

(** the hypotheses of the theorems below, established by hand (not through the theorems) *)

Lemma diamond_edges a b :
  edge diamond a b -> (a = 1 /\ b = 3) \/ (a = 2 /\ b = 3) \/ (a = 2 /\ b = 1).
Proof.
  intros [reqs [ret [L H]]]. unfold diamond in L. cbn [lookup] in L.
  destruct (N.eqb_spec 1 a) as [<-|N1].
  { injection L as <- <-. destruct H as [[= <-]|[]]. auto. }
  destruct (N.eqb_spec 2 a) as [<-|N2].
  { injection L as <- <-. destruct H as [[= <-]|[[= <-]|[]]]; auto. }
  destruct (N.eqb_spec 3 a) as [<-|N3]; discriminate.
Qed.

Lemma diamond_reach f : reach diamond diamond_roots f -> f = 1 \/ f = 2 \/ f = 3.
Proof.
  induction 1 as [f Hf|a b Ra IH E].
  - destruct Hf as [[= <-]|[[= <-]|[[= <-]|[]]]]; auto.
  - apply diamond_edges in E as [[_ ->]|[[_ ->]|[_ ->]]]; auto.
Qed.

Example diamond_well_formed : well_formed diamond diamond_roots.
Proof.
  split.
  - intros lit [C|[C|[C|[]]]]; discriminate.
  - intros f R. apply diamond_reach in R as [-> | [-> | ->]]; unfold proper; cbn.
    + intros lit [C|[]]; discriminate.
    + intros lit [C|[C|[]]]; discriminate.
    + exact I.
Qed.

Definition diamond_rank (f : file) : nat := if f =? 3 then 0 else if f =? 1 then 1 else 2.

Lemma diamond_path_rank a b : path diamond a b -> (diamond_rank b < diamond_rank a)%nat.
Proof.
  induction 1 as [a b E|a b c E P IH].
  - apply diamond_edges in E as [[-> ->]|[[-> ->]|[-> ->]]]; cbn; lia.
  - apply diamond_edges in E as [[-> ->]|[[-> ->]|[-> ->]]]; cbn in *; lia.
Qed.

Example diamond_acyclic : ~ cyclic diamond diamond_roots.
Proof. intros [f [_ P]]. apply diamond_path_rank in P. lia. Qed.

Lemma edge_intro g a b reqs ret : lookup g a = Some (KLua reqs ret) -> In (RFile b) reqs -> edge g a b.
Proof. intros L I. now exists reqs, ret. Qed.

Example cycle2_cyclic : cyclic cycle2 [RFile 1].
Proof.
  exists 1. split; [apply reach_root; now left|].
  apply path_step with (b := 2); [|apply path_edge].
  - eapply edge_intro; [reflexivity|now left].
  - eapply edge_intro; [reflexivity|now left].
Qed.

Example cycle2_well_formed : well_formed cycle2 [RFile 1].
Proof.
  assert (E : forall a b, edge cycle2 a b -> (a = 1 /\ b = 2) \/ (a = 2 /\ b = 1)).
  { intros a b [reqs [ret [L H]]]. unfold cycle2 in L. cbn [lookup] in L.
    destruct (N.eqb_spec 1 a) as [<-|N1].
    { injection L as <- <-. destruct H as [[= <-]|[]]. auto. }
    destruct (N.eqb_spec 2 a) as [<-|N2]; [|discriminate].
    injection L as <- <-. destruct H as [[= <-]|[]]. auto. }
  assert (R : forall f, reach cycle2 [RFile 1] f -> f = 1 \/ f = 2).
  { induction 1 as [f Hf|a b Ra IH Eab].
    - destruct Hf as [[= <-]|[]]. auto.
    - apply E in Eab as [[_ ->]|[_ ->]]; auto. }
  split.
  - intros lit [C|[]]. discriminate.
  - intros f Hf. apply R in Hf as [-> | ->]; unfold proper; cbn; intros lit [C|[]]; discriminate.
Qed.

Example entry_cycle_cyclic : cyclic entry_cycle [RFile 1].
Proof.
  exists 1. split; [apply reach_root; now left|].
  apply path_step with (b := 0); [|apply path_edge].
  - eapply edge_intro; [reflexivity|now left].
  - eapply edge_intro; [reflexivity|now left].
Qed.

Example self_loop_cyclic : cyclic self_loop [RFile 1].
Proof.
  exists 1. split; [apply reach_root; now left|]. apply path_edge.
  eapply edge_intro; [reflexivity|now left].
Qed.

(** ** 1. termination *)

Theorem bundle_terminates : forall g roots, bundle g roots <> OutOfFuel.
Proof.
  intros g roots. destruct (bundle_cases g roots) as [s [sites [_ [[_ ->]|[e [rest [_ ->]]]]]]];
    discriminate.
Qed.

Theorem bundle_fuel_stable : forall g roots fuel,
  (enough_fuel g <= fuel)%nat -> bundle_with fuel g roots = bundle g roots.
Proof.
  intros g roots fuel L. unfold bundle, bundle_with.
  destruct (run_entry g (enough_fuel g) roots) as [x|] eqn:E; [|now apply run_entry_total in E].
  now rewrite (run_entry_mono _ _ _ _ _ L E).
Qed.

Example bundle_fuel_stable_ex :
  (enough_fuel diamond <= 100)%nat /\ bundle_with 100 diamond diamond_roots = bundle diamond diamond_roots
  /\ bundle_with 1 diamond diamond_roots = OutOfFuel.
Proof. split; [vm_compute; lia|]. split; vm_compute; reflexivity. Qed.

(** ** every error is about a file the entry reaches *)

Theorem error_justified : forall g roots es e, bundle g roots = Failed es -> In e es ->
  match e with
  | ENotFound lit => In (RNotFound lit) roots \/ exists f reqs r, reach g roots f /\ lookup g f = Some (KLua reqs r) /\ In (RNotFound lit) reqs
  | ECyclic chain => names_cycle g chain /\ exists f, hd_error chain = Some f /\ reach g roots f
  | EResource f => reach g roots f /\ (lookup g f = None \/ lookup g f = Some KBroken)
  | EModule f => reach g roots f /\ exists reqs r, lookup g f = Some (KLua reqs r) /\ r <> Some 1%nat
  end.
Proof.
  intros g roots es e H I. apply failed_inv in H as [s [sites [e0 [rest [Hr [<- _]]]]]].
  apply run_entry_J in Hr. exact (proj1 Hr e I).
Qed.

Example error_justified_ex :
  exists es, bundle messy messy_roots = Failed es /\
    In (ENotFound 7) es /\ In (ENotFound 9) es /\ In (ECyclic [1; 4; 1]) es /\
    In (EResource 2) es /\ In (EResource 5) es /\ In (EModule 3) es /\ In (EModule 4) es.
Proof. eexists. split; [apply messy_fails|]. cbn. intuition. Qed.

Theorem cyclic_error_names_cycle : forall g roots es chain,
  bundle g roots = Failed es -> In (ECyclic chain) es -> names_cycle g chain.
Proof. intros g roots es chain H I. exact (proj1 (error_justified g roots es _ H I)). Qed.

Example cyclic_error_names_cycle_ex :
  bundle messy messy_roots = Failed [EResource 2; ENotFound 7; EModule 3; ECyclic [1; 4; 1]; EModule 4; EResource 5; ENotFound 9]
  /\ In (ECyclic [1; 4; 1]) [EResource 2; ENotFound 7; EModule 3; ECyclic [1; 4; 1]; EModule 4; EResource 5; ENotFound 9].
Proof. split; [apply messy_fails|cbn; tauto]. Qed.

(** ** 2. success characterised *)

Theorem bundled_iff : forall g roots,
  (exists ms sites, bundle g roots = Bundled ms sites) <-> (well_formed g roots /\ ~ cyclic g roots).
Proof.
  intros g roots. split.
  - intros [ms [sites H]]. apply bundled_inv in H as [s [Hr [He <-]]].
    destruct (final_facts _ _ _ _ _ Hr) as [ND F]. destruct (F He) as [A [B C]]. split.
    + eapply final_well_formed; eassumption.
    + eapply final_acyclic; eassumption.
  - intros [WF NC]. destruct (bundle_cases g roots) as [s [sites [Hr [[_ ->]|[e [rest [He _]]]]]]].
    + eauto.
    + exfalso. apply NC. apply run_entry_J in Hr. destruct Hr as [Je _].
      eapply wf_justified_cyclic; [exact WF|]. apply Je. rewrite He. now left.
Qed.

Example bundled_iff_ex :
  (exists ms sites, bundle diamond diamond_roots = Bundled ms sites) /\
  well_formed diamond diamond_roots /\ ~ cyclic diamond diamond_roots.
Proof.
  split; [do 2 eexists; apply diamond_bundles|]. split; [apply diamond_well_formed|apply diamond_acyclic].
Qed.

Lemma wf_failed_cyclic g roots es :
  well_formed g roots -> bundle g roots = Failed es ->
  cyclic g roots /\ exists chain, In (ECyclic chain) es /\ names_cycle g chain.
Proof.
  intros WF H. apply failed_inv in H as [s [sites [e [rest [Hr [He ->]]]]]].
  apply run_entry_J in Hr. destruct Hr as [Je _].
  destruct (wf_justified_cyclic g roots e WF) as [C [chain [-> N]]].
  { apply Je. rewrite He. now left. }
  split; [exact C|]. exists chain. split; [now left|exact N].
Qed.

Theorem cycle_iff_error : forall g roots, well_formed g roots ->
  ((exists es, bundle g roots = Failed es) <-> cyclic g roots).
Proof.
  intros g roots WF. split.
  - intros [es H]. now apply (wf_failed_cyclic g roots es WF).
  - intros C. destruct (bundle g roots) as [ms sites|es|] eqn:E.
    + exfalso. assert (B : exists ms sites, bundle g roots = Bundled ms sites) by eauto.
      apply bundled_iff in B as [_ NC]. now apply NC.
    + now exists es.
    + now apply bundle_terminates in E.
Qed.

Theorem cycle_reported : forall g roots, well_formed g roots -> cyclic g roots ->
  exists es chain, bundle g roots = Failed es /\ In (ECyclic chain) es /\ names_cycle g chain.
Proof.
  intros g roots WF C. apply (cycle_iff_error g roots WF) in C as [es H].
  destruct (wf_failed_cyclic g roots es WF H) as [_ [chain [I N]]]. now exists es, chain.
Qed.

Example cycle_reported_ex :
  well_formed cycle2 [RFile 1] /\ cyclic cycle2 [RFile 1] /\
  bundle cycle2 [RFile 1] = Failed [ECyclic [1; 2; 1]].
Proof. split; [apply cycle2_well_formed|]. split; [apply cycle2_cyclic|apply cycle2_fails]. Qed.

(** ** 3. once only / shared instance *)

Theorem once_only : forall g roots ms sites, bundle g roots = Bundled ms sites -> NoDup (map fst ms).
Proof.
  intros g roots ms sites H. apply bundled_inv in H as [s [Hr [He <-]]].
  now destruct (final_facts _ _ _ _ _ Hr).
Qed.

Theorem shared_instance : forall g roots ms sites, bundle g roots = Bundled ms sites ->
  Forall2 (site_ok ms) roots sites /\ defs_ok g ms.
Proof.
  intros g roots ms sites H. apply bundled_inv in H as [s [Hr [He <-]]].
  destruct (final_facts _ _ _ _ _ Hr) as [_ F]. destruct (F He) as [A [B _]]. now split.
Qed.

Theorem same_path_same_module : forall ms f k1 k2, NoDup (map fst ms) ->
  site_ok ms (RFile f) (Some k1) -> site_ok ms (RFile f) (Some k2) -> k1 = k2.
Proof.
  intros ms f k1 k2 ND H1 H2. cbn [site_ok] in *.
  apply (proj1 (NoDup_nth_error (map fst ms)) ND); [|congruence].
  apply nth_error_Some. congruence.
Qed.

Example same_path_same_module_ex :
  NoDup (map fst diamond_ms) /\ site_ok diamond_ms (RFile 1) (Some 1%nat) /\
  site_ok diamond_ms (RFile 3) (Some 0%nat).
Proof.
  split; [|split; reflexivity]. cbn. repeat constructor; cbn; intuition discriminate.
Qed.

Theorem reachable_defined : forall g roots ms sites, bundle g roots = Bundled ms sites ->
  forall f, reach g roots f <-> In f (map fst ms).
Proof.
  intros g roots ms sites H f. apply bundled_inv in H as [s [Hr [He <-]]].
  destruct (final_facts _ _ _ _ _ Hr) as [_ F]. destruct (F He) as [A [B _]]. split.
  - eapply reach_defined; eassumption.
  - apply run_entry_J in Hr. apply (proj2 Hr).
Qed.

(** ** 4. names *)

Theorem module_names_nodup : forall n, NoDup (module_names n).
Proof.
  intros n. unfold module_names. apply firstn_NoDup. apply NoDup_filter. apply gen_stream_nodup.
Qed.

Theorem module_names_not_cache : forall n, ~ In (of_string "cache") (module_names n).
Proof.
  intros n H. unfold module_names in H. apply firstn_In in H. apply filter_In in H as [_ H].
  unfold not_cache in H. rewrite (proj2 (bytes_eqb_eq _ _) eq_refl) in H. discriminate.
Qed.

Example module_names_ex : map to_string (module_names 4) = ["a"; "b"; "c"; "d"]%string.
Proof. vm_compute. reflexivity. Qed.
