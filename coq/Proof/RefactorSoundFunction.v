(** C16, convert_function_to_assignment: [function a.b.c(ps) body end] / [function a.b:m(ps) body end]
    against the assignment [a.b.c = function(ps) body end] / [a.b.m = function(self, ps) body end].

    The interpreter keeps the method flag in the closure record ([c_self]) and binds [self] at the
    call; the assignment creates a record with an explicit first parameter [self].  Both records
    are [clos_rel]-related (Proof/RefactorSimDefs.v): [call] cannot tell them apart.  Type
    annotations, generics and attributes, which the rule drops, are not looked at by [call] either.

    The function statement allocates the closure BEFORE it walks the path [a.b], the assignment
    evaluates [a.b] first.  With an [__index] metamethod on the path that allocates closures the
    two orders give different addresses; the theorem is stated for paths whose fields are present
    in the tables ([path_raw]: no metamethod runs), which is what a function definition on a
    module table looks like.  The final store operation ([setindex], which may run [__newindex])
    is compared through the closure-representation independence of [setindex]
    (Proof/RefactorSim.v), a section hypothesis here. *)
From Coq Require Import ZArith NArith List Bool String Lia.
From DL Require Import Lib.Bytes Lib.F64 Lua.Syntax Lua.Sem Lua.EvalSpec.
From DL Require Import Model.Removal Model.Refactor.
From DL Require Import Proof.SemFacts Proof.EvaluatorStore Proof.DefaultRulesSem Proof.RefactorSem Proof.RefactorSimDefs.
Import ListNotations.
Open Scope N_scope.

Definition opt_list {A} (o : option A) : list A := match o with Some a => [a] | None => [] end.

(** every field of the path but the last is present in the table it is read from *)
Fixpoint path_raw (tabs : list table) (o : value) (ks : list name) : Prop :=
  match ks with
  | [] => True
  | k :: rest =>
    match rest with
    | [] => True
    | _ => exists a t, o = VTable a /\ nth_N tabs (N.to_nat a) = Some t /\
                       raw_get (t_entries t) (VStr k) <> VNil /\
                       path_raw tabs (raw_get (t_entries t) (VStr k)) rest
    end
  end.

(** the object the last field is set on *)
Fixpoint walk (tabs : list table) (o : value) (ks : list name) : value :=
  match ks with
  | [] => o
  | k :: rest =>
    match rest with
    | [] => o
    | _ => match o with
           | VTable a => match nth_N tabs (N.to_nat a) with
                         | Some t => walk tabs (raw_get (t_entries t) (VStr k)) rest
                         | None => o
                         end
           | _ => o
           end
    end
  end.

Lemma walk_step tabs a t k rest :
  rest <> [] -> nth_N tabs (N.to_nat a) = Some t ->
  walk tabs (VTable a) (k :: rest) = walk tabs (raw_get (t_entries t) (VStr k)) rest.
Proof. destruct rest; [contradiction|]. intros _ Ht. cbn [walk]. rewrite Ht. reflexivity. Qed.

Lemma path_raw_step tabs o k rest :
  rest <> [] -> path_raw tabs o (k :: rest) ->
  exists a t, o = VTable a /\ nth_N tabs (N.to_nat a) = Some t /\
              raw_get (t_entries t) (VStr k) <> VNil /\
              path_raw tabs (raw_get (t_entries t) (VStr k)) rest.
Proof. destruct rest; [contradiction|]. intros _ H. exact H. Qed.

Lemma clos_rel_refl c : clos_rel c c.
Proof. repeat split; auto. Qed.

Lemma store_rel_refl s : store_rel s s.
Proof.
  repeat split; auto. induction (closures s); constructor; auto using clos_rel_refl.
Qed.

Lemma store_rel_new_closure s c1 c2 :
  clos_rel c1 c2 ->
  exists a s1 s2, new_closure c1 s = Ok a s1 /\ new_closure c2 s = Ok a s2 /\ store_rel s1 s2 /\
                  cells s1 = cells s /\ tables s1 = tables s /\ cells s2 = cells s /\ tables s2 = tables s.
Proof.
  intros Hc. unfold new_closure. do 3 eexists. split; [reflexivity|]. split; [reflexivity|].
  split; [|cbn; auto]. repeat split; cbn; auto.
  apply Forall2_app; [|constructor; [exact Hc|constructor]].
  induction (closures s); constructor; auto using clos_rel_refl.
Qed.

(** the two records *)
Lemma function_records_rel ps variadic vt rt gen attrs body rho (method : option name) :
  clos_rel (mkClosure (FBody ps variadic vt rt gen attrs body) rho (match method with Some _ => true | None => false end))
           (mkClosure (FBody (match method with Some _ => Param nm_self None :: ps | None => ps end)
                             variadic None None None 0 body) rho false).
Proof.
  unfold clos_rel, effective_params, closure_variadic, closure_block. cbn [c_body c_self c_env].
  destruct method as [m|]; repeat split; auto.
Qed.

Section Function.
Variable d : dialect.

(** closure-representation independence of [setindex] (Proof/RefactorSim.v) *)
Hypothesis sim_setindex : forall n o k v s1 s2,
  store_rel s1 s2 -> res_rel eq (setindex d n o k v s1) (setindex d n o k v s2).

Lemma reads_same_tabs rho x s s2 v :
  cells s2 = cells s -> tables s2 = tables s -> reads rho x s v -> reads rho x s2 v.
Proof. unfold reads. intros -> ->. auto. Qed.

(** walking the path: the statement's loop *)
Lemma path_go_walk n s : forall ks o,
  path_raw (tables s) o ks -> path_go d (S n) o ks s = Ok (walk (tables s) o ks) s.
Proof.
  induction ks as [|k rest IH]; intros o Hp; [reflexivity|].
  destruct rest as [|k2 rest]; [reflexivity|].
  apply path_raw_step in Hp as (a & t & -> & Ht & Hk & Hp); [|discriminate].
  change (path_go d (S n) (VTable a) (k :: k2 :: rest) s)
    with ((o' <- index d (S n) (VTable a) (VStr k) ;; path_go d (S n) o' (k2 :: rest)) s).
  eapply bind_ok_intro.
  { rewrite (index_raw_hit d n a (VStr k) s t Ht); cbn [norm_key]; [reflexivity|exact Hk]. }
  cbn [norm_key]. rewrite (IH _ Hp). rewrite (walk_step (tables s) a t k (k2 :: rest) ltac:(discriminate) Ht). reflexivity.
Qed.

(** walking the path: the nested field expression of the assignment *)
Lemma prefix_walk rho va s : forall ks acc o ja kl,
  (forall j, (ja <= j)%nat -> eval1 d j rho va acc s = Ok o s) ->
  path_raw (tables s) o (ks ++ [kl]) ->
  forall j, (ja + 2 * List.length ks <= j)%nat ->
  eval1 d j rho va (fold_left (fun a f => EField a f) ks acc) s = Ok (walk (tables s) o (ks ++ [kl])) s.
Proof.
  induction ks as [|k rest IH]; intros acc o ja kl Hacc Hp j L; cbn [fold_left app].
  - cbn [walk]. apply Hacc. cbn [List.length] in L. lia.
  - cbn [app] in Hp |- *.
    assert (Hne : rest ++ [kl] <> []) by (destruct rest; discriminate).
    apply path_raw_step in Hp as (a & t & -> & Ht & Hk & Hp); [|exact Hne].
    rewrite (walk_step _ _ _ _ _ Hne Ht). cbn [List.length] in L.
    apply (IH (EField acc k) _ (ja + 2)%nat kl); [|exact Hp|lia].
    intros i Li. destruct i as [|[|i]]; try lia.
    rewrite eval1_S. eapply bind_ok_intro.
    { rewrite eval_S_field. eapply bind_ok_intro; [apply Hacc; lia|].
      destruct i as [|i]; [specialize (Hacc 0%nat ltac:(lia)); discriminate Hacc|].
      eapply bind_ok_intro; [|reflexivity].
      rewrite (index_raw_hit d i a (VStr k) s t Ht); cbn [norm_key]; [reflexivity|exact Hk]. }
    reflexivity.
Qed.

Lemma last_app_single {A} (l : list A) x dflt : last (l ++ [x]) dflt = x.
Proof. apply last_last. Qed.

Lemma fold_left_field_snoc ks k acc :
  fold_left (fun a f => EField a f) (ks ++ [k]) acc = EField (fold_left (fun a f => EField a f) ks acc) k.
Proof. rewrite fold_left_app. reflexivity. Qed.

Theorem function_to_assign_sound n rho va base fields method f s r sL :
  exec_stmt d n rho va (SFunction base fields method f) s = Ok r sL ->
  (fields ++ opt_list method <> [] ->
   exists o, reads rho base s o /\ path_raw (tables s) o (fields ++ opt_list method)) ->
  exists m, forall j, (m <= j)%nat -> exists sR,
    exec_stmt d j rho va (rw_function_to_assign (SFunction base fields method f)) s = Ok r sR /\
    store_rel sL sR.
Proof.
  intros H Hpath. destruct n as [|n]; [discriminate|]. rewrite exec_stmt_S_function in H.
  destruct f as [ps variadic vt rt gen attrs body].
  pose proof (function_records_rel ps variadic vt rt gen attrs body rho method) as Hrel.
  destruct (store_rel_new_closure s _ _ Hrel) as (c & sA & sB & HnA & HnB & HAB & HcA & HtA & HcB & HtB).
  apply bind_ok in H as (c' & sA' & Hn & H). rewrite HnA in Hn. inversion Hn; subst c' sA'. clear Hn.
  cbn [rw_function_to_assign].
  set (f' := plain_function (match method with Some _ => Param nm_self None :: ps | None => ps end) variadic body) in *.
  change (match method with Some m => [m] | None => [] end) with (opt_list method) in *.
  assert (Hfun : forall j, eval_list d (S (S j)) rho va [f'] s = Ok [VClosure c] sB).
  { intros j. rewrite eval_list_S_one. unfold f', plain_function. rewrite eval_S_function.
    eapply bind_ok_intro; [exact HnB|reflexivity]. }
  unfold function_variable. change (match method with Some m => [m] | None => [] end) with (opt_list method).
  destruct (fields ++ opt_list method) as [|k0 path0] eqn:Epath.
  - (* [function base() end] *)
    clear Hpath. unfold sfunction_store in H.
    apply bind_ok in H as (t & s1 & Ht & H). apply bind_ok in H as (u & s2 & Ha & Hret).
    apply ret_ok in Hret as [-> ->].
    destruct n as [|n]; [discriminate|]. rewrite eval_target_S_ident in Ht.
    exists (S (S (S n))). intros j L. destruct j as [|[|[|j]]]; try lia.
    cbn [fold_left]. rewrite exec_stmt_S_assign.
    destruct (lookup rho base) as [a|] eqn:El; apply ret_ok in Ht as [-> ->].
    + rewrite assign_target_S_cell in Ha. unfold set_cell in Ha. inversion Ha; subst. clear Ha.
      eexists. split.
      * eapply bind_ok_intro.
        { cbn [targets_go]. eapply bind_ok_intro; [rewrite eval_target_S_ident, El; reflexivity|reflexivity]. }
        eapply bind_ok_intro; [apply Hfun|].
        eapply bind_ok_intro; [cbn [assign_go arg nth]; rewrite assign_target_S_cell; reflexivity|reflexivity].
      * destruct HAB as (E1 & E2 & E3 & E4 & E5 & E6). repeat split; cbn; auto. now rewrite E1.
    + rewrite assign_target_S_index in Ha.
      pose proof (sim_setindex n (VTable A_globals) (VStr base) (VClosure c) sA sB HAB) as Hs.
      rewrite Ha in Hs. destruct (setindex d n (VTable A_globals) (VStr base) (VClosure c) sB) as [u' sR| | |] eqn:EB;
        try contradiction. destruct Hs as [_ Hs]. destruct u'.
      exists sR. split; [|exact Hs].
      eapply bind_ok_intro.
      { cbn [targets_go]. eapply bind_ok_intro; [rewrite eval_target_S_ident, El; reflexivity|reflexivity]. }
      eapply bind_ok_intro; [apply Hfun|].
      eapply bind_ok_intro; [|reflexivity].
      cbn [assign_go arg nth]. eapply bind_ok_intro; [|reflexivity].
      rewrite assign_target_S_index. eapply setindex_up; [exact EB|lia].
  - (* [function base.k1...km() end] *)
    destruct (Hpath ltac:(discriminate)) as (o & Hr & Hp). clear Hpath.
    assert (Hst : sfunction_store d n rho va base (k0 :: path0) c =
                  (o <- eval1 d n rho va (EIdent base) ;; o <- path_go d n o (k0 :: path0) ;;
                   _ <- setindex d n o (VStr (last (k0 :: path0) [])) (VClosure c) ;; ret (rho, SigNone)))
      by reflexivity.
    rewrite Hst in H. clear Hst.
    (* split the path into its prefix and last field *)
    destruct (exists_last (l := k0 :: path0) ltac:(discriminate)) as (ks & kl & Eks).
    rewrite Eks in *. clear Eks k0 path0. rewrite last_app_single in H.
    apply bind_ok in H as (o1 & s1 & Ho & H). apply bind_ok in H as (o2 & s2 & Hgo & H).
    apply bind_ok in H as (u & s3 & Hset & Hret). apply ret_ok in Hret as [-> ->].
    (* the base, read after the closure has been allocated *)
    pose proof (reads_same_tabs _ _ _ _ _ HcA HtA Hr) as HrA.
    pose proof (eval1_up d _ (n + 3) _ _ _ _ _ _ Ho ltac:(lia)) as Ho'.
    rewrite (reads_eval1 d rho va base sA o (n + 3) HrA ltac:(lia)) in Ho'.
    assert (o1 = o /\ s1 = sA) as [-> ->] by (inversion Ho'; auto). clear Ho'.
    destruct n as [|n]; [discriminate|].
    rewrite <- HtA in Hp. rewrite (path_go_walk n sA _ _ Hp) in Hgo.
    assert (o2 = walk (tables sA) o (ks ++ [kl]) /\ s2 = sA) as [-> ->] by (inversion Hgo; auto). clear Hgo.
    rewrite HtA in Hp, Hset.
    pose proof (sim_setindex (S n) (walk (tables s) o (ks ++ [kl])) (VStr kl) (VClosure c) sA sB HAB) as Hs.
    rewrite Hset in Hs.
    destruct (setindex d (S n) (walk (tables s) o (ks ++ [kl])) (VStr kl) (VClosure c) sB) as [u' sR| | |] eqn:EB;
      try contradiction. destruct Hs as [_ Hs]. destruct u'. destruct u.
    exists (S n + 2 * List.length ks + 8)%nat. intros j L. exists sR. split; [|exact Hs].
    destruct j as [|[|[|j]]]; try lia.
    rewrite fold_left_field_snoc, exec_stmt_S_assign.
    eapply bind_ok_intro.
    { cbn [targets_go]. eapply bind_ok_intro; [|reflexivity].
      rewrite eval_target_S_field. eapply bind_ok_intro; [|reflexivity].
      apply (prefix_walk rho va s ks (EIdent base) o 3 kl); [|exact Hp|lia].
      intros i Li. apply (reads_eval1 d _ _ _ _ _ _ Hr). exact Li. }
    eapply bind_ok_intro; [apply Hfun|].
    eapply bind_ok_intro; [|reflexivity].
    cbn [assign_go arg nth]. eapply bind_ok_intro; [|reflexivity].
    rewrite assign_target_S_index. eapply setindex_up; [exact EB|lia].
Qed.

End Function.
