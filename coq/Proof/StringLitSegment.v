(** Round trip of interpolated-string segments ([Model/StringLit.v], last section):
    what [segment_bytes] emits for the literal part of a backtick string is read back as the
    same bytes by the reference reader [decode_segment].

    Route: [seg_pre false (segment_bytes s)] is [seg_text s], the same loop with the two extra
    escapes written as the three-digit decimal escapes [\123] and [\096]; that text is then
    decoded by [unescape true 96] exactly as [quote_bytes] is in [quote_bytes_decode]. *)
From DL Require Import Lib.Bytes Model.StringLit Proof.StringLitFacts.
Require Import Lia ZArith ZifyBool ZifyN ZifyNat.
Open Scope N_scope.

(** the text [seg_pre] produces from a segment *)
Fixpoint seg_text (s : bytes) : bytes :=
  match s with
  | [] => []
  | c :: rest =>
    (if c =? 123 then [92; 49; 50; 51]
     else if c =? 96 then [92; 48; 57; 54]
     else if needs_escaping c then escape c (next_is_digit_b rest)
     else [c]) ++ seg_text rest
  end.

(** * [seg_pre] on the pieces emitted for one input byte *)

(** bytes [seg_pre false] copies unchanged *)
Definition plain (b : N) : bool := negb (b =? 92) && negb (b =? 123).

Lemma seg_pre_plain ds R : forallb plain ds = true ->
  seg_pre false (ds ++ R) = option_map (app ds) (seg_pre false R).
Proof.
  induction ds as [|d ds IH]; intros H; cbn [app].
  - destruct (seg_pre false R); reflexivity.
  - cbn [forallb] in H. apply andb_true_iff in H as [Hd H]. unfold plain in Hd.
    cbn [seg_pre]. assert (d =? 92 = false) as -> by lia. assert (d =? 123 = false) as -> by lia.
    rewrite (IH H). destruct (seg_pre false R); reflexivity.
Qed.

(** an escape sequence is a backslash, one byte that is neither brace nor backtick, and
    plain bytes (digits) after it *)
Definition esc_shape (t : bytes) : bool :=
  match t with
  | b :: x :: ds => (b =? 92) && negb (x =? 123) && negb (x =? 96) && forallb plain ds
  | _ => false
  end.

Lemma escape_shape c nd : c < 256 -> esc_shape (escape c nd) = true.
Proof.
  intros Hc. destruct nd.
  - apply (byte_sweep (fun c => esc_shape (escape c true))); [vm_compute; reflexivity | exact Hc].
  - apply (byte_sweep (fun c => esc_shape (escape c false))); [vm_compute; reflexivity | exact Hc].
Qed.

Lemma seg_pre_shape t R : esc_shape t = true ->
  seg_pre false (t ++ R) = option_map (app t) (seg_pre false R).
Proof.
  destruct t as [|b [|x ds]]; try discriminate. cbn [esc_shape].
  intros H. apply andb_true_iff in H as [H Hds]. apply andb_true_iff in H as [H H2].
  apply andb_true_iff in H as [Hb H1]. apply N.eqb_eq in Hb; subst b.
  cbn [app seg_pre]. change (92 =? 92) with true. cbv iota.
  assert (x =? 123 = false) as -> by lia. assert (x =? 96 = false) as -> by lia.
  rewrite (seg_pre_plain ds R Hds). destruct (seg_pre false R); reflexivity.
Qed.

Lemma seg_pre_escape c nd R : c < 256 ->
  seg_pre false (escape c nd ++ R) = option_map (app (escape c nd)) (seg_pre false R).
Proof. intros Hc. apply seg_pre_shape, escape_shape, Hc. Qed.

Lemma seg_pre_raw c R : needs_escaping c = false -> c <> 123 ->
  seg_pre false (c :: R) = option_map (cons c) (seg_pre false R).
Proof.
  intros Hn Hb. apply needs_escaping_false in Hn. cbn [seg_pre].
  assert (c =? 92 = false) as -> by lia. assert (c =? 123 = false) as -> by lia. reflexivity.
Qed.

(** * First half: what [seg_pre] makes of a written segment *)

Lemma seg_pre_segment s : wf_bytes s = true -> seg_pre false (segment_bytes s) = Some (seg_text s).
Proof.
  induction s as [|c rest IH]; intros Hwf; [reflexivity|].
  apply wf_cons in Hwf as [Hc Hwf]. specialize (IH Hwf). cbn [segment_bytes seg_text].
  destruct (N.eqb_spec c 123) as [->|E1].
  { cbn. rewrite IH. reflexivity. }
  destruct (N.eqb_spec c 96) as [->|E2].
  { cbn. rewrite IH. reflexivity. }
  cbn [orb]. destruct (needs_escaping c) eqn:E3.
  - rewrite seg_pre_escape, IH by exact Hc. reflexivity.
  - cbn [app]. rewrite seg_pre_raw, IH by assumption. reflexivity.
Qed.

(** * Second half: the rewritten text is decoded to the value *)

(** the look-ahead of a decimal escape sees a digit in the text only when the next input byte is
    that digit: every other piece starts with a backslash *)
Lemma st_first rest :
  next_is_digit_b (seg_text rest) = true -> next_is_digit_b rest = true.
Proof.
  destruct rest as [|n rest]; [intros H; exact H|]. cbn [seg_text].
  destruct (n =? 123). { intros H. vm_compute in H. discriminate H. }
  destruct (n =? 96). { intros H. vm_compute in H. discriminate H. }
  destruct (needs_escaping n) eqn:E.
  { destruct (escape_hd n (next_is_digit_b rest)) as [tl ->]. cbn [app next_is_digit_b].
    intros H. vm_compute in H. discriminate H. }
  cbn [app next_is_digit_b]. intros H; exact H.
Qed.

Lemma seg_text_decode s : wf_bytes s = true ->
  unescape_from true 96 UNormal (seg_text s) = Some s.
Proof.
  induction s as [|c rest IH]; intros Hwf; [reflexivity|].
  apply wf_cons in Hwf as [Hc Hwf]. specialize (IH Hwf). cbn [seg_text].
  destruct (N.eqb_spec c 123) as [->|E1].
  { cbn [app]. rewrite (dec3 true 96 49 50 51 _ 123), IH by (try reflexivity; lia). reflexivity. }
  destruct (N.eqb_spec c 96) as [->|E2].
  { cbn [app]. rewrite (dec3 true 96 48 57 54 _ 96), IH by (try reflexivity; lia). reflexivity. }
  destruct (needs_escaping c) eqn:E3.
  - rewrite escape_decode, IH; [reflexivity | exact Hc | apply st_first].
  - cbn [app]. rewrite raw_decode, IH; [reflexivity | exact E2 | exact E3].
Qed.

(** * The round trip *)

Theorem segment_roundtrip : forall s,
  wf_bytes s = true -> decode_segment (segment_bytes s) = Some s.
Proof.
  intros s Hwf. unfold decode_segment. rewrite (seg_pre_segment s Hwf).
  exact (seg_text_decode s Hwf).
Qed.

(** non-vacuity: a control byte followed by a digit (padded decimal escape), a brace, a backtick
    and a backslash; the written text is [\0015\{\`\\] *)
Example segment_example :
  let s := [1; 53; 123; 96; 92] in
  wf_bytes s = true /\
  segment_bytes s = [92; 48; 48; 49; 53; 92; 123; 92; 96; 92; 92] /\
  seg_pre false (segment_bytes s) = Some [92; 48; 48; 49; 53; 92; 49; 50; 51; 92; 48; 57; 54; 92; 92] /\
  decode_segment (segment_bytes s) = Some s.
Proof. vm_compute. repeat split. Qed.
