(** Facts about [Lib/F64] (binary64 as [spec_float]) needed by the evaluator soundness
    proofs: every operation returns a valid (canonical) float on valid inputs, and on valid
    floats the bit pattern determines the float.  Validity of the results of
    [binary_round_aux] is taken from Flocq ([IEEE754.BinarySingleNaN]); that part of Flocq
    is proved over the classical real numbers, whose axioms therefore appear in
    [Print Assumptions] of everything that depends on these lemmas. *)
From Coq Require Import ZArith NArith List Bool Lia.
From Coq Require Import Floats.SpecFloat.
From Flocq Require Import Core.Zaux Core.Raux Core.Digits Core.FLX IEEE754.BinarySingleNaN.
From DL Require Import Lib.Bytes Lib.F64.
Open Scope Z_scope.

#[local] Instance prec_gt_0_53 : Prec_gt_0 53. Proof. reflexivity. Qed.
#[local] Instance prec_lt_emax_53 : Prec_lt_emax 53 1024. Proof. reflexivity. Qed.

Definition valid (x : f64) : Prop := valid_binary prec emax x = true.

Lemma rne_equiv s m l : round_nearest_even m l = choice_mode mode_NE s m l.
Proof.
case l; [reflexivity|intro c].
case c; [ | reflexivity..].
now simpl; unfold Round.cond_incr; case Z.even.
Qed.

Lemma bra_equiv sx mx ex lx :
  SpecFloat.binary_round_aux prec emax sx mx ex lx = binary_round_aux prec emax mode_NE sx mx ex lx.
Proof.
unfold SpecFloat.binary_round_aux, binary_round_aux.
set (mrse' := shr_fexp _ _ _ _ _).
case mrse'; intros mrs' e'; simpl.
now rewrite (rne_equiv sx).
Qed.

Lemma br_equiv s m e : SpecFloat.binary_round prec emax s m e = binary_round prec emax mode_NE s m e.
Proof.
unfold SpecFloat.binary_round, binary_round, shl_align_fexp.
set (mez := shl_align _ _ _); case mez as [mz ez].
apply bra_equiv.
Qed.

Lemma valid_fnorm m e sz : valid (fnorm m e sz).
Proof.
  unfold valid, fnorm, SpecFloat.binary_normalize. destruct m; [reflexivity| |];
  rewrite br_equiv; apply (binary_round_correct prec emax _ _ mode_NE).
Qed.

Lemma valid_fmul x y : valid x -> valid y -> valid (fmul x y).
Proof.
  unfold valid, fmul. destruct x as [sx|sx| |sx mx ex], y as [sy|sy| |sy my ey]; try reflexivity.
  intros Hx Hy. cbn [SFmul]. rewrite bra_equiv. apply (Bmult_correct_aux prec emax _ _ mode_NE); assumption.
Qed.

Lemma valid_fdiv_fin sx mx ex sy my ey : valid (fdiv (S754_finite sx mx ex) (S754_finite sy my ey)).
Proof.
  unfold valid, fdiv. cbn [SFdiv].
  generalize (Bdiv_correct_aux prec emax _ _ mode_NE sx mx ex sy my ey). cbv zeta.
  destruct (SFdiv_core_binary prec emax (Z.pos mx) ex (Z.pos my) ey) as [[mz ez] lz].
  rewrite bra_equiv. intros [H _]. exact H.
Qed.

Lemma valid_fdiv x y : valid x -> valid y -> valid (fdiv x y).
Proof.
  destruct x as [sx|sx| |sx mx ex], y as [sy|sy| |sy my ey]; try reflexivity.
  intros _ _. apply valid_fdiv_fin.
Qed.

Lemma valid_fneg x : valid x -> valid (fneg x).
Proof. destruct x; auto. Qed.

Lemma valid_fadd x y : valid x -> valid y -> valid (fadd x y).
Proof.
  destruct x as [sx|sx| |sx mx ex], y as [sy|sy| |sy my ey]; intros Hx Hy; try assumption; try reflexivity;
   try (unfold fadd; cbn [SFadd]; match goal with |- context [if ?c then _ else _] => destruct c end; reflexivity).
  unfold fadd. cbn [SFadd]. apply valid_fnorm.
Qed.

Lemma valid_fsub x y : valid x -> valid y -> valid (fsub x y).
Proof.
  destruct x as [sx|sx| |sx mx ex], y as [sy|sy| |sy my ey]; intros Hx Hy; try assumption; try reflexivity;
   try (unfold fsub; cbn [SFsub]; match goal with |- context [if ?c then _ else _] => destruct c end; reflexivity);
   unfold fsub; cbn [SFsub SFopp]; first [exact Hy | apply valid_fnorm].
Qed.

Lemma valid_fsqrt x : valid x -> valid (fsqrt x).
Proof.
  destruct x as [sx|sx| |sx mx ex]; intros Hx; try reflexivity.
  - destruct sx; reflexivity.
  - unfold fsqrt. cbn [SFsqrt]. destruct sx; [reflexivity|].
    generalize (Bsqrt_correct_aux prec emax _ _ mode_NE mx ex Hx). cbv zeta.
    destruct (SFsqrt_core_binary prec emax (Z.pos mx) ex) as [[mz ez] lz].
    rewrite bra_equiv. intros [H _]. exact H.
Qed.

Lemma valid_ffloor x : valid x -> valid (ffloor x).
Proof.
  destruct x as [sx|sx| |sx mx ex]; intros Hx; try exact Hx.
  unfold ffloor. destruct (0 <=? ex); [exact Hx|]. destruct sx; apply valid_fnorm.
Qed.

Lemma valid_fone : valid fone. Proof. reflexivity. Qed.
Lemma valid_of_Z z : valid (of_Z z). Proof. apply valid_fnorm. Qed.
Lemma valid_of_N n : valid (of_N n). Proof. apply valid_fnorm. Qed.

Lemma valid_fpow x y z : valid x -> valid y -> fpow x y = Some z -> valid z.
Proof.
  intros Hx Hy. unfold fpow.
  destruct (is_zero y). { intros E; injection E as <-; reflexivity. }
  destruct (same_f64 x fone). { intros E; injection E as <-; reflexivity. }
  destruct (is_nan x || is_nan y). { intros E; injection E as <-; reflexivity. }
  destruct (same_f64 y _).
  { destruct x as [sx|sx| |sx mx ex]; try (intros E; injection E as <-; reflexivity).
    destruct sx; intros E; injection E as <-; [reflexivity|]. exact (valid_fsqrt _ Hx). }
  destruct (is_integer y); [|discriminate]. cbv zeta.
  destruct (Z.abs (to_Z y) <=? _);
    [|destruct x as [sx|sx| |sx mx ex];
      [destruct (0 <? to_Z y); intros E; injection E as <-; reflexivity
      |destruct (0 <? to_Z y); intros E; injection E as <-; reflexivity
      |intros E; injection E as <-; reflexivity
      |destruct (same_f64 _ fone);
        [intros E; injection E as <-; destruct (_ && _); reflexivity|];
       destruct (fleb _ _);
        [intros E; injection E as <-; destruct (0 <? to_Z y); reflexivity|];
       destruct (fleb _ _); [|discriminate];
       intros E; injection E as <-; destruct (0 <? to_Z y); reflexivity]].
  destruct x as [sx|sx| |sx mx ex].
  - destruct (0 <? to_Z y); intros E; injection E as <-; reflexivity.
  - destruct (0 <? to_Z y); intros E; injection E as <-; reflexivity.
  - intros E; injection E as <-; reflexivity.
  - (* the candidate result [r] is valid; the exactness test only decides whether it is returned *)
    match goal with |- match ?r with _ => _ end = Some z -> _ => assert (Hr : valid r); [|destruct r as [s0|s0| |s0 m0 e0] eqn:Er] end.
    + destruct (0 <? to_Z y); [apply valid_fnorm|].
      destruct (_ && _); [apply valid_fnorm|reflexivity].
    + discriminate.
    + intros E; injection E as <-. reflexivity.
    + discriminate.
    + match goal with |- (if ?c then _ else _) = _ -> _ => destruct c end; [|discriminate].
      intros E; injection E as <-. exact Hr.
Qed.

Lemma valid_ffmod a b : valid a -> valid b -> valid (ffmod a b).
Proof.
  intros Ha Hb. destruct a as [sx|sx| |sx mx ex], b as [sy|sy| |sy my ey]; try reflexivity; try exact Ha.
  unfold ffmod. apply valid_fnorm.
Qed.

Lemma valid_fmod_luau a b : valid a -> valid b -> valid (fmod_luau a b).
Proof.
  intros Ha Hb. unfold fmod_luau. pose proof (valid_ffmod a b Ha Hb).
  destruct (_ && _); [apply valid_fadd|]; assumption.
Qed.

Lemma valid_fmod_51 a b : valid a -> valid b -> valid (fmod_51 a b).
Proof.
  intros Ha Hb. unfold fmod_51. apply valid_fsub; [assumption|].
  apply valid_fmul; [|assumption]. apply valid_ffloor. apply valid_fdiv; assumption.
Qed.

Lemma valid_of_decimal s dd X : valid (of_decimal s dd X).
Proof.
  unfold of_decimal. destruct dd; try reflexivity.
  destruct (0 <=? X). { apply valid_fnorm. }
  destruct (10 ^ (- X)); try reflexivity. apply valid_fdiv_fin.
Qed.
Lemma valid_of_decimal_c s dd X : valid (of_decimal_c s dd X).
Proof. apply valid_of_decimal. Qed.

Lemma fmul_comm a b : fmul a b = fmul b a.
Proof.
  unfold fmul. destruct a as [sx|sx| |sx mx ex], b as [sy|sy| |sy my ey]; cbn [SFmul]; try reflexivity;
    try (rewrite xorb_comm; reflexivity).
  rewrite xorb_comm, Pos.mul_comm, Z.add_comm. reflexivity.
Qed.

Lemma same_f64_refl x : same_f64 x x = true.
Proof. apply N.eqb_refl. Qed.

Lemma bra_opp m e l :
  SFopp (SpecFloat.binary_round_aux prec emax false m e l) = SpecFloat.binary_round_aux prec emax true m e l.
Proof.
  unfold SpecFloat.binary_round_aux.
  destruct (shr_fexp prec emax m e l) as [mrs e1].
  destruct (shr_fexp prec emax _ e1 loc_Exact) as [mrs2 e2].
  destruct (shr_m mrs2); try reflexivity. destruct (Zle_bool e2 (emax - prec)); reflexivity.
Qed.

Lemma fneg_of_N v : fneg (of_N v) = fnorm (- Z.of_N v) 0 true.
Proof.
  unfold of_N, of_Z, fnorm, fneg. destruct v as [|p]; [reflexivity|].
  cbn [Z.of_N Z.opp SpecFloat.binary_normalize]. unfold SpecFloat.binary_round.
  unfold shl_align_fexp. destruct (shl_align p 0 _) as [mz ez]. apply bra_opp.
Qed.

(** * bit patterns *)

Lemma digits_bounds m : 2 ^ (Z.pos (digits2_pos m) - 1) <= Z.pos m < 2 ^ Z.pos (digits2_pos m).
Proof.
  rewrite Zpos_digits2_pos. pose proof (Zdigits_correct radix2 (Z.pos m)) as H.
  cbn [Z.abs] in H. exact H.
Qed.

Lemma bounded_spec m e : bounded prec emax m e = true <->
  Z.max (Z.pos (digits2_pos m) + e - 53) (-1074) = e /\ e <= 971.
Proof.
  unfold bounded, canonical_mantissa, SpecFloat.fexp, SpecFloat.emin, prec, emax.
  rewrite andb_true_iff. rewrite <- Zeq_is_eq_bool. rewrite <- Zle_is_le_bool. 
  replace (3 - 1024 - 53) with (-1074) by reflexivity. replace (1024 - 53) with 971 by reflexivity. tauto.
Qed.

Lemma fnorm_idem m e : bounded prec emax m e = true -> fnorm (Z.pos m) e false = S754_finite false m e.
Proof.
  intros Hb. pose proof Hb as Hb'. unfold bounded in Hb'. apply andb_true_iff in Hb' as [Hc He].
  unfold canonical_mantissa in Hc. apply Zeq_bool_eq in Hc.
  unfold fnorm, SpecFloat.binary_normalize, SpecFloat.binary_round, shl_align_fexp.
  rewrite Hc. unfold shl_align. rewrite Z.sub_diag.
  unfold SpecFloat.binary_round_aux, shr_fexp. cbn [Zdigits2]. rewrite Hc, Z.sub_diag.
  cbn [shr shr_record_of_loc shr_m loc_of_shr_record shr_r shr_s round_nearest_even Zdigits2].
  rewrite Hc, Z.sub_diag. cbn [shr shr_m]. rewrite He. reflexivity.
Qed.

Ltac Zify.zify_post_hook ::= Z.div_mod_to_equations.

Lemma testbit63 b : 0 <= b < 18446744073709551616 ->
  Z.testbit b 63 = (9223372036854775808 <=? b).
Proof.
  intros H. rewrite Z.testbit_odd, Z.shiftr_div_pow2 by lia.
  change (2 ^ 63) with 9223372036854775808.
  destruct (9223372036854775808 <=? b) eqn:E.
  - assert (b / 9223372036854775808 = 1) as -> by lia. reflexivity.
  - assert (b / 9223372036854775808 = 0) as -> by lia. reflexivity.
Qed.

Lemma pow2_lt_inv a b : 0 <= a -> 0 <= b -> 2 ^ a < 2 ^ b -> a < b.
Proof. intros Ha Hb H. apply Z.pow_lt_mono_r_iff in H; lia. Qed.

Lemma of_to_bits x : valid x -> of_bits (to_bits x) = x.
Proof.
  destruct x as [s|s| |s m e]; intros Hx.
  - destruct s; reflexivity.
  - destruct s; reflexivity.
  - reflexivity.
  - unfold valid in Hx. cbn [valid_binary] in Hx. unfold to_bits. rewrite (fnorm_idem _ _ Hx).
    apply bounded_spec in Hx as [Hmax He]. pose proof (digits_bounds m) as [Hlo Hhi].
    set (dg := Z.pos (digits2_pos m)) in *. assert (0 < dg) by (unfold dg; lia).
    destruct (Z.pos m <? 4503599627370496) eqn:Em.
    + assert (dg <= 52).
      { assert (dg - 1 < 52); [|lia]. apply pow2_lt_inv; try lia;
        change (2 ^ 52) with 4503599627370496; lia. }
      assert (e = -1074) by lia. subst e.
      unfold of_bits. cbv zeta. rewrite Z2N.id by (destruct s; lia).
      set (b := (if s then 9223372036854775808 else 0) + Z.pos m).
      rewrite testbit63 by (unfold b; destruct s; lia).
      assert ((b / 4503599627370496) mod 2048 = 0) as -> by (unfold b; destruct s; lia).
      assert (b mod 4503599627370496 = Z.pos m) as -> by (unfold b; destruct s; lia).
      cbn [Z.eqb]. f_equal. unfold b; destruct s; lia.
    + assert (53 <= dg).
      { assert (52 < dg); [|lia]. apply pow2_lt_inv; try lia;
        change (2 ^ 52) with 4503599627370496; lia. }
      assert (dg = 53) by lia. assert (-1074 <= e) by lia.
      assert (Z.pos m < 9007199254740992) by (change 9007199254740992 with (2 ^ 53); rewrite <- H1; exact Hhi).
      unfold of_bits. cbv zeta.
      set (b := (if s then 9223372036854775808 else 0) + (e + 1075) * 4503599627370496 + (Z.pos m - 4503599627370496)).
      rewrite Z2N.id by (unfold b; destruct s; lia).
      rewrite testbit63 by (unfold b; destruct s; lia).
      assert ((b / 4503599627370496) mod 2048 = e + 1075) as -> by (unfold b; destruct s; lia).
      assert (b mod 4503599627370496 = Z.pos m - 4503599627370496) as -> by (unfold b; destruct s; lia).
      assert (e + 1075 =? 0 = false) as -> by lia.
      assert (e + 1075 =? 2047 = false) as -> by lia.
      replace (Z.pos m - 4503599627370496 + 4503599627370496) with (Z.pos m) by lia.
      f_equal; [unfold b; destruct s; lia | lia].
Qed.

Lemma to_bits_inj x y : valid x -> valid y -> same_f64 x y = true -> x = y.
Proof.
  intros Hx Hy H. apply N.eqb_eq in H. rewrite <- (of_to_bits x Hx), <- (of_to_bits y Hy). now rewrite H.
Qed.

Lemma valid_of_bits b : valid (of_bits b).
Proof.
  unfold of_bits. cbv zeta. set (z := Z.of_N b).
  set (e := (z / 4503599627370496) mod 2048). set (m := z mod 4503599627370496).
  assert (0 <= e < 2048) by (unfold e; lia). assert (0 <= m < 4503599627370496) by (unfold m; lia).
  destruct (e =? 0) eqn:E0.
  { destruct m as [|p|p] eqn:Em; try reflexivity. unfold valid. cbn [valid_binary]. apply bounded_spec.
    pose proof (digits_bounds p) as [Hlo Hhi]. set (dg := Z.pos (digits2_pos p)) in *.
    assert (0 < dg) by (unfold dg; lia).
    assert (dg - 1 < 52).
    { apply pow2_lt_inv; try lia; change (2 ^ 52) with 4503599627370496; lia. }
    lia. }
  destruct (e =? 2047) eqn:E1.
  { destruct (m =? 0); reflexivity. }
  destruct (m + 4503599627370496) as [|p|p] eqn:Em; try reflexivity.
  unfold valid. cbn [valid_binary]. apply bounded_spec.
  pose proof (digits_bounds p) as [Hlo Hhi]. set (dg := Z.pos (digits2_pos p)) in *.
  assert (0 < dg) by (unfold dg; lia).
  assert (dg - 1 < 53).
  { apply pow2_lt_inv; try lia; change (2 ^ 53) with 9007199254740992; lia. }
  assert (52 < dg).
  { apply pow2_lt_inv; try lia; change (2 ^ 52) with 4503599627370496; lia. }
  lia.
Qed.
