(** C01, LIFTING - from the simulation (Proof/LiftingSim.v) to whole programs:
    - [cong_*]/[crel_*] are reflexive;
    - the traversal [DefaultRules.visit] relates every tree to its image ([visit_ok]) as soon as
      each hook relates a node to what it leaves there, in the form "whatever is congruent to the
      hook's result is [crel]-related to the node" ([hooks_ok]; the traversal is pre-order: the
      hook first, then the children of the hook's RESULT);
    - related chunks have the same [run_chunk] outcome at the same fuel ([crel_run_chunk]);
    - the combination [lifting_apply_hooks]. *)
From Coq Require Import ZArith NArith List Bool String Lia.
From DL Require Import Lib.Bytes Lib.F64 Lua.Syntax Lua.Sem Model.DefaultRules.
From DL Require Import Proof.LoweringFuel.
From DL Require Import Proof.SemFacts Proof.DefaultRulesSem.
From DL Require Import Proof.LiftingDefs Proof.LiftingSim.
Import ListNotations.
Open Scope N_scope.

Lemma Forall2_map_r {A} (R : A -> A -> Prop) (f : A -> A) l : (forall x, R x (f x)) -> Forall2 R l (map f l).
Proof. intros H. induction l; cbn; constructor; auto. Qed.

Section Visit.
Variable Re : expr -> expr -> Prop.
Variable Rv : expr -> expr -> Prop.
Variable Rt : list tentry -> list tentry -> Prop.
Variable Rs : stmt -> stmt -> Prop.
Variable Rb : block -> block -> Prop.

Local Notation cE := (crel_expr Re Rv Rt Rs Rb).
Local Notation gE := (cong_expr Re Rv Rt Rs Rb).
Local Notation cV := (crel_var Re Rv Rt Rs Rb).
Local Notation cIS := (crel_iseg Re Rv Rt Rs Rb).
Local Notation cEB := (crel_ebranch Re Rv Rt Rs Rb).
Local Notation cA := (crel_args Re Rv Rt Rs Rb).
Local Notation cT := (crel_entries Re Rv Rt Rs Rb).
Local Notation gT := (cong_tentry Re Rv Rt Rs Rb).
Local Notation cS := (crel_stmt Re Rv Rt Rs Rb).
Local Notation gS := (cong_stmt Re Rv Rt Rs Rb).
Local Notation cSB := (crel_sbranch Re Rv Rt Rs Rb).
Local Notation cB := (crel_block Re Rv Rt Rs Rb).
Local Notation gB := (cong_block Re Rv Rt Rs Rb).
Local Notation cL := (crel_last Re Rv Rt Rs Rb).
Local Notation cF := (frel Re Rv Rt Rs Rb).

(** * Reflexivity *)

Ltac list_refl go elem :=
  match goal with
  | |- Forall2 _ ?l ?l =>
    generalize l; fix go 1; intros [|? ?]; [apply Forall2_nil | apply Forall2_cons; [elem | apply go]]
  end.

Fixpoint gE_refl (e : expr) {struct e} : gE e e
with iseg_refl (s : iseg) {struct s} : cIS s s
with ebranch_refl (b : ebranch) {struct b} : cEB b b
with args_refl (a : args) {struct a} : cA a a
with tentry_refl (t : tentry) {struct t} : gT t t
with fbody_refl (f : fbody) {struct f} : forall self, cF self self f f
with stmt_refl (s : stmt) {struct s} : gS s s
with sbranch_refl (b : sbranch) {struct b} : cSB b b
with block_refl (b : block) {struct b} : gB b b
with last_refl (l : laststmt) {struct l} : cL l l.
Proof.
  - destruct e; constructor; try (apply cr_e_same; apply gE_refl).
    + list_refl go ltac:(apply iseg_refl).
    + apply args_refl.
    + apply fbody_refl.
    + list_refl go ltac:(apply ebranch_refl).
    + apply cr_t_same. list_refl go ltac:(apply tentry_refl).
  - destruct s; constructor. apply cr_e_same; apply gE_refl.
  - destruct b; constructor; apply cr_e_same; apply gE_refl.
  - destruct a; constructor.
    + list_refl go ltac:(apply cr_e_same; apply gE_refl).
    + apply cr_t_same. list_refl go ltac:(apply tentry_refl).
  - destruct t; constructor; apply cr_e_same; apply gE_refl.
  - destruct f. intros self. constructor; [reflexivity|]. apply cr_b_same. apply block_refl.
  - destruct s; try (constructor; fail).
    + constructor; [list_refl go ltac:(apply cr_v_same; apply gE_refl)|list_refl go ltac:(apply cr_e_same; apply gE_refl)].
    + constructor. apply cr_b_same, block_refl.
    + constructor. apply cr_e_same, gE_refl.
    + constructor; [apply cr_v_same, gE_refl|apply cr_e_same, gE_refl].
    + constructor; [reflexivity|apply fbody_refl].
    + constructor; [reflexivity| |apply cr_b_same, block_refl].
      list_refl go ltac:(apply cr_e_same; apply gE_refl).
    + constructor.
      * list_refl go ltac:(apply sbranch_refl).
      * destruct els; constructor. apply cr_b_same, block_refl.
    + constructor; [reflexivity|]. list_refl go ltac:(apply cr_e_same; apply gE_refl).
    + constructor. apply fbody_refl.
    + constructor; try reflexivity; try (apply cr_e_same, gE_refl); try (apply cr_b_same, block_refl).
      destruct step; constructor. apply cr_e_same, gE_refl.
    + constructor; [apply cr_b_same, block_refl|apply cr_e_same, gE_refl].
    + constructor; [apply cr_e_same, gE_refl|apply cr_b_same, block_refl].
  - destruct b; constructor; [apply cr_e_same, gE_refl|apply cr_b_same, block_refl].
  - destruct b as [ss last]. constructor.
    + list_refl go ltac:(apply cr_s_same; apply stmt_refl).
    + destruct last; constructor. apply last_refl.
  - destruct l; constructor. list_refl go ltac:(apply cr_e_same; apply gE_refl).
Qed.

Lemma cE_refl e : cE e e. Proof. apply cr_e_same, gE_refl. Qed.
Lemma cV_refl e : cV e e. Proof. apply cr_v_same, gE_refl. Qed.
Lemma cS_refl s : cS s s. Proof. apply cr_s_same, stmt_refl. Qed.
Lemma cB_refl b : cB b b. Proof. apply cr_b_same, block_refl. Qed.

(** * The traversal *)

Definition call_hook (H : hooks) (x : expr) : expr :=
  match x with ECall _ _ _ => h_call H x | _ => x end.

Record hooks_ok (H : hooks) : Prop := {
  ok_expr : forall e e', gE (call_hook H (h_expr H e)) e' -> cE e e';
  ok_prefix : forall e e', gE (call_hook H (h_prefix H e)) e' -> cE e e';
  ok_var : forall e e', gE (h_var H e) e' -> cV e e';
  ok_call : forall c c', gE (h_call H c) c' -> cE c c';
  ok_table : forall ens ens', Forall2 gT (h_table H ens) ens' -> cT ens ens';
  ok_stmt : forall st st', gS (h_stmt H st) st' -> cS st st';
  ok_block : forall b b', gB (h_block H b) b' -> cB b b'
}.

Section WithHooks.
Variable H : hooks.
Hypothesis Hok : hooks_ok H.

Record vis_ok (r : vis) : Prop := {
  vo_expr : forall e, cE e (v_expr r e);
  vo_prefix : forall e, cE e (v_prefix r e);
  vo_var : forall e, cV e (v_var r e);
  vo_stmt : forall s, cS s (v_stmt r s);
  vo_block : forall b, cB b (v_block r b)
}.

Lemma vis_id_ok : vis_ok vis_id.
Proof. constructor; intros; cbn; first [apply cE_refl | apply cV_refl | apply cS_refl | apply cB_refl]. Qed.

Section Level.
Variable r : vis.
Hypothesis IH : vis_ok r.

Lemma param_names_v ps : map param_name (map (v_param r) ps) = map param_name ps.
Proof. rewrite map_map. apply map_ext. intros [x t]. reflexivity. Qed.

Lemma v_fbody_ok f self : cF self self f (v_fbody r f).
Proof.
  destruct f as [ps v vt rt g at_ body]. cbn [v_fbody]. constructor.
  - unfold eff_names. destruct self; cbn [map]; now rewrite param_names_v.
  - apply (vo_block _ IH).
Qed.

Lemma v_entries_ok ens : cT ens (v_entries H r ens).
Proof.
  unfold v_entries. apply (ok_table _ Hok). apply Forall2_map_r.
  intros [f v|k v|v]; constructor; apply (vo_expr _ IH).
Qed.

Lemma v_args_ok a : cA a (v_args H r a).
Proof.
  destruct a; cbn [v_args]; constructor.
  - apply Forall2_map_r. apply (vo_expr _ IH).
  - apply v_entries_ok.
Qed.

Lemma v_call_ok c : gE (h_call H c) (v_call H r c).
Proof.
  unfold v_call. destruct (h_call H c); try apply gE_refl.
  constructor; [apply (vo_prefix _ IH)|apply v_args_ok].
Qed.

Lemma descend_ok x : gE (call_hook H x) (descend H r x).
Proof.
  destruct x; cbn [call_hook descend].
  - apply gE_refl.
  - apply gE_refl.
  - apply gE_refl.
  - apply gE_refl.
  - apply gE_refl.
  - constructor. apply Forall2_map_r. intros [s|e]; constructor. apply (vo_expr _ IH).
  - apply gE_refl.
  - apply gE_refl.
  - constructor. apply (vo_prefix _ IH).
  - constructor; [apply (vo_prefix _ IH)|apply (vo_expr _ IH)].
  - apply v_call_ok.
  - constructor. apply v_fbody_ok.
  - constructor; [|apply (vo_expr _ IH)]. apply Forall2_map_r. intros [c y]. constructor; apply (vo_expr _ IH).
  - constructor. apply (vo_expr _ IH).
  - constructor. apply v_entries_ok.
  - constructor. apply (vo_expr _ IH).
  - constructor; apply (vo_expr _ IH).
  - constructor. apply (vo_expr _ IH).
  - constructor. apply (vo_prefix _ IH).
Qed.

Lemma descend_var_ok x : gE x (descend_var r x).
Proof.
  destruct x; cbn [descend_var]; try apply gE_refl.
  - constructor. apply (vo_prefix _ IH).
  - constructor; [apply (vo_prefix _ IH)|apply (vo_expr _ IH)].
Qed.

Lemma descend_stmt_ok st : gS st (descend_stmt H r st).
Proof.
  destruct st; cbn [descend_stmt].
  - constructor; apply Forall2_map_r; [apply (vo_var _ IH)|apply (vo_expr _ IH)].
  - constructor. apply (vo_block _ IH).
  - constructor. apply (ok_call _ Hok). apply v_call_ok.
  - constructor; [apply (vo_var _ IH)|apply (vo_expr _ IH)].
  - constructor; [reflexivity|apply v_fbody_ok].
  - constructor; [now rewrite param_names_v| |apply (vo_block _ IH)].
    apply Forall2_map_r. apply (vo_expr _ IH).
  - constructor.
    + apply Forall2_map_r. intros [c b]. constructor; [apply (vo_expr _ IH)|apply (vo_block _ IH)].
    + destruct els; constructor. apply (vo_block _ IH).
  - constructor; [now rewrite param_names_v|]. apply Forall2_map_r. apply (vo_expr _ IH).
  - constructor. apply v_fbody_ok.
  - constructor; try apply (vo_expr _ IH); try apply (vo_block _ IH).
    + destruct var. reflexivity.
    + destruct step; constructor. apply (vo_expr _ IH).
  - constructor; [apply (vo_block _ IH)|apply (vo_expr _ IH)].
  - constructor; [apply (vo_expr _ IH)|apply (vo_block _ IH)].
  - constructor.
  - constructor.
Qed.

Lemma descend_block_ok b : gB b (descend_block r b).
Proof.
  destruct b as [ss last]. cbn [descend_block]. constructor.
  - apply Forall2_map_r. apply (vo_stmt _ IH).
  - destruct last as [[| |es]|]; cbn [option_map]; constructor; constructor.
    apply Forall2_map_r. apply (vo_expr _ IH).
Qed.

End Level.

Lemma visit_ok n : vis_ok (visit H n).
Proof.
  induction n as [|n IHn]; [exact vis_id_ok|]. cbn [visit]. constructor; cbn [v_expr v_prefix v_var v_stmt v_block].
  - intros e. apply (ok_expr _ Hok). now apply descend_ok.
  - intros e. apply (ok_prefix _ Hok). now apply descend_ok.
  - intros e. apply (ok_var _ Hok). now apply descend_var_ok.
  - intros s. apply (ok_stmt _ Hok). now apply descend_stmt_ok.
  - intros b. apply (ok_block _ Hok). now apply descend_block_ok.
Qed.

Theorem apply_hooks_crel b : cB b (apply_hooks H b).
Proof. unfold apply_hooks. apply (vo_block _ (visit_ok _)). Qed.

End WithHooks.

(** * Whole programs *)
Section Run.
Variable d : dialect.
Hypothesis HRe : forall e e1, Re e e1 -> forall n rho va,
  refines (eval d n rho va e) (eval d n rho va e1).
Hypothesis HRv : forall e e1, Rv e e1 -> forall n rho va,
  refines (eval_target d n rho va e) (eval_target d n rho va e1).
Hypothesis HRt : forall ens ens1, Rt ens ens1 -> forall n rho va a pos,
  refines (fill_table d n rho va a ens pos) (fill_table d n rho va a ens1 pos).
Hypothesis HRs : forall st st1, Rs st st1 -> forall n rho va,
  refines (exec_stmt d n rho va st) (exec_stmt d n rho va st1).
Hypothesis HRb : forall b b1, Rb b b1 -> forall n rho va,
  refines (exec_block d n rho va b) (exec_block d n rho va b1).
Hypothesis HRb_repeat : forall b b1, Rb b b1 -> forall n rho va c,
  refines (exec_repeat d n rho va b c) (exec_repeat d n rho va b1 c).

Lemma lstore_rel_initial orc : lstore_rel cB (initial_store orc) (initial_store orc).
Proof. unfold lstore_rel, initial_store. cbn. repeat split; auto. Qed.

Theorem crel_run_chunk : forall b b', cB b b' ->
  forall n orc out, run_chunk d n orc b = out -> out <> OutFuel -> run_chunk d n orc b' = out.
Proof.
  intros b b' Hc n orc out Hrun Hf. subst out. unfold run_chunk in *.
  pose proof (sa_block d Re Rv Rt Rs Rb n
                (sim_all_holds d Re Rv Rt Rs Rb HRe HRv HRt HRs HRb HRb_repeat n)
                [] [] b b' Hc _ _ (lstore_rel_initial orc)) as Hs.
  destruct (exec_block d n [] [] b (initial_store orc)) as [sg s1|e s1| |w];
    destruct (exec_block d n [] [] b' (initial_store orc)) as [sg2 s2|e2 s2| |w2];
    cbn in Hs; try contradiction; try (exfalso; apply Hf; reflexivity).
  - destruct Hs as [<- Hst]. pose proof Hst as (_ & Ht & Htr & _).
    rewrite Htr. f_equal. destruct sg; try reflexivity.
    apply map_ext. intros v. symmetry. now apply render_rel'.
  - destruct Hs as [<- (_ & _ & Htr & _)]. now rewrite Htr.
  - now subst.
Qed.

Theorem lifting_apply_hooks : forall H, hooks_ok H ->
  forall n orc b out, run_chunk d n orc b = out -> out <> OutFuel ->
  run_chunk d n orc (apply_hooks H b) = out.
Proof.
  intros H Hok n orc b out. apply crel_run_chunk. now apply apply_hooks_crel.
Qed.

End Run.
End Visit.
