(** The evaluator's string -> number coercion ([number_coercion]: UTF-8 decode, Rust [trim],
    optional '-', darklua's number-literal reader) agrees with the reference coercion
    ([F64.str2num]) wherever both yield a number. *)
From Coq Require Import ZArith NArith List Bool String Lia.
From Coq Require Import Floats.SpecFloat.
From DL Require Import Lib.Bytes Lib.F64 Lua.Syntax Model.StringLit Model.NumberLit Model.Evaluator
  Proof.StringLitFacts Proof.EvaluatorF64.
Import ListNotations.
Open Scope N_scope.
Local Notation llen := List.length.

(** * Matches on literal characters, as boolean tests *)

Ltac lit_default c :=
  destruct c as [|?p]; [reflexivity|];
  repeat (match goal with p : positive |- _ => destruct p as [p|p|]; try reflexivity end).

Lemma match46 {A} (l : bytes) (F : bytes -> A) (G : A) :
  match l with 46 :: r => F r | _ => G end =
  match l with c :: r => if c =? 46 then F r else G | [] => G end.
Proof. destruct l as [|c r]; [reflexivity|]. lit_default c. Qed.

Lemma match45 {A} (l : bytes) (F : bytes -> A) (G : A) :
  match l with 45 :: r => F r | _ => G end =
  match l with c :: r => if c =? 45 then F r else G | [] => G end.
Proof. destruct l as [|c r]; [reflexivity|]. lit_default c. Qed.

Lemma match43 {A} (l : bytes) (F : bytes -> A) (G : A) :
  match l with 43 :: r => F r | _ => G end =
  match l with c :: r => if c =? 43 then F r else G | [] => G end.
Proof. destruct l as [|c r]; [reflexivity|]. lit_default c. Qed.

Lemma match48 {A} (l : bytes) (F : bytes -> A) (G : A) :
  match l with 48 :: r => F r | _ => G end =
  match l with c :: r => if c =? 48 then F r else G | [] => G end.
Proof. destruct l as [|c r]; [reflexivity|]. lit_default c. Qed.

Lemma match_sign {A} (l : bytes) (F1 F2 : bytes -> A) (G : A) :
  match l with 45 :: r => F1 r | 43 :: r => F2 r | _ => G end =
  match l with c :: r => if c =? 45 then F1 r else if c =? 43 then F2 r else G | [] => G end.
Proof. destruct l as [|c r]; [reflexivity|]. lit_default c. Qed.

Lemma match48_2 {A} (l : bytes) (F : N -> bytes -> A) (G : A) :
  match l with 48 :: x :: h => F x h | _ => G end =
  match l with c :: x :: h => if c =? 48 then F x h else G | _ => G end.
Proof. destruct l as [|c [|x h]]; try reflexivity; lit_default c. Qed.

(** * Trimming *)

Definition ascii (c : N) : bool := c <? 128.

Lemma ltrim_split s : exists pre, s = pre ++ ltrim s /\ forallb is_space_c pre = true.
Proof.
  induction s as [|c s (pre & E & H)]; [exists []; auto|].
  cbn [ltrim]. destruct (is_space_c c) eqn:Ec.
  - exists (c :: pre). cbn [app forallb]. rewrite Ec, H. split; [f_equal; exact E|reflexivity].
  - exists []. auto.
Qed.

Lemma trim_split s : exists pre post, s = pre ++ trim s ++ post /\
  forallb is_space_c pre = true /\ forallb is_space_c post = true.
Proof.
  destruct (ltrim_split s) as (pre & E1 & H1).
  destruct (ltrim_split (rev (ltrim s))) as (post & E2 & H2).
  exists pre, (rev post). unfold trim. split; [|split; [exact H1|]].
  - rewrite E1 at 1. f_equal. rewrite <- rev_app_distr, <- E2, rev_involutive. reflexivity.
  - rewrite forallb_forall in *. intros x Hx. apply H2. now apply in_rev.
Qed.

Lemma space_ascii c : is_space_c c = true -> ascii c = true.
Proof. unfold is_space_c, ascii. lia. Qed.

Lemma ws_ascii c : ascii c = true -> is_unicode_ws c = is_space_c c.
Proof. unfold ascii, is_unicode_ws, is_space_c. intros H. lia. Qed.

Lemma ltrim_cps_ascii s : forallb ascii s = true -> ltrim_cps s = ltrim s.
Proof.
  induction s as [|c s IH]; [reflexivity|]. cbn [forallb]. intros H. apply andb_true_iff in H as [Hc Hs].
  cbn [ltrim_cps ltrim]. rewrite (ws_ascii _ Hc). rewrite (IH Hs). reflexivity.
Qed.

Lemma forallb_rev {A} (f : A -> bool) l : forallb f (rev l) = forallb f l.
Proof.
  induction l as [|x l IH]; [reflexivity|]. cbn [rev forallb]. rewrite forallb_app, IH. cbn. 
  rewrite andb_true_r. apply andb_comm.
Qed.

Lemma ltrim_ascii s : forallb ascii s = true -> forallb ascii (ltrim s) = true.
Proof.
  intros H. destruct (ltrim_split s) as (pre & E & _). rewrite E in H. rewrite forallb_app in H.
  now apply andb_true_iff in H.
Qed.

Lemma trim_cps_ascii s : forallb ascii s = true -> trim_cps s = trim s.
Proof.
  intros H. unfold trim_cps, trim. rewrite (ltrim_cps_ascii _ H).
  rewrite ltrim_cps_ascii; [reflexivity|]. rewrite forallb_rev. now apply ltrim_ascii.
Qed.

Lemma encode_ascii s : forallb ascii s = true -> flat_map utf8_encode s = s.
Proof.
  induction s as [|c s IH]; [reflexivity|]. cbn [forallb]. intros H. apply andb_true_iff in H as [Hc Hs].
  cbn [flat_map]. unfold utf8_encode at 1. unfold ascii in Hc. rewrite Hc. cbn [app]. now rewrite IH.
Qed.

Definition coerce_trimmed (t : bytes) : option f64 :=
  match t with
  | 45 :: rest => option_map (fun n => fneg (compute_value n)) (from_str rest)
  | _ => option_map compute_value (from_str t)
  end.

Lemma number_coercion_ascii s : forallb ascii s = true ->
  number_coercion (LString s) =
  match coerce_trimmed (trim s) with Some x => LNumber x | None => LString s end.
Proof.
  intros H. unfold number_coercion. rewrite (utf8_decode_ascii s H). cbv zeta.
  rewrite (trim_cps_ascii _ H).
  assert (forallb ascii (trim s) = true) as Ht.
  { destruct (trim_split s) as (pre & post & E & _). rewrite E in H. rewrite !forallb_app in H.
    rewrite !andb_true_iff in H. tauto. }
  rewrite (encode_ascii _ Ht). reflexivity.
Qed.

(** * Decimal literals *)

Definition dchar (c : N) : bool :=
  is_digit c || (c =? 46) || (c =? 101) || (c =? 69) || (c =? 43) || (c =? 45).

Lemma take_digits_split : forall s acc n a n' r, take_digits s acc n = (a, n', r) ->
  exists p, s = p ++ r /\ forallb is_digit p = true /\ n' = (n + Z.of_nat (llen p))%Z.
Proof.
  induction s as [|c s IH]; intros acc n a n' r H; cbn [take_digits] in H.
  - inversion H; subst. exists []. cbn. split; [reflexivity|split; [reflexivity|lia]].
  - destruct (is_digit c) eqn:Ec.
    + apply IH in H as (p & E & Hp & Hn). exists (c :: p). cbn [app forallb llen]. rewrite Ec, Hp.
      split; [f_equal; exact E|split; [reflexivity|lia]].
    + inversion H; subst. exists []. cbn. split; [reflexivity|split; [reflexivity|lia]].
Qed.

Lemma digit_dchar p : forallb is_digit p = true -> forallb dchar p = true.
Proof.
  intros H. rewrite forallb_forall in *. intros x Hx. unfold dchar. rewrite (H x Hx). reflexivity.
Qed.

Definition head_ok (u : bytes) : Prop :=
  match u with c :: _ => is_digit c = true \/ c = 46 | [] => False end.

Lemma parse_decimal_shape u d X : parse_decimal u = Some (d, X) ->
  forallb dchar u = true /\ head_ok u.
Proof.
  unfold parse_decimal. destruct (take_digits u 0 0) as [[ip ni] r1] eqn:E1.
  apply take_digits_split in E1 as (p1 & -> & Hp1 & Hn1).
  rewrite match46.
  assert (forall mant nf r2 (q : bytes),
    (forallb dchar q = true) -> (nf <> 0%Z -> head_ok q) ->
    (if (ni + nf =? 0)%Z then None
     else match r2 with
          | [] => Some (mant, (- nf)%Z)
          | c :: r3 =>
            if (c =? 101) || (c =? 69)
            then let '(neg, r4) := match r3 with 45 :: r => (true, r) | 43 :: r => (false, r) | _ => (false, r3) end in
                 let '(ex, ne, r5) := take_digits r4 0 0 in
                 if (ne =? 0)%Z then None
                 else match r5 with [] => Some (mant, ((if neg then - ex else ex) - nf)%Z) | _ => None end
            else None
          end) = Some (d, X) ->
    forallb dchar (p1 ++ q ++ r2) = true /\ head_ok (p1 ++ q ++ r2)) as Tail.
  { intros mant nf r2 q Hq Hhead H.
    destruct (ni + nf =? 0)%Z eqn:Ez; [discriminate|].
    assert (head_ok (p1 ++ q ++ r2)) as Hh.
    { destruct p1 as [|c p1].
      - cbn [app]. assert (nf <> 0%Z) as Hnf by (cbn in Hn1; lia). specialize (Hhead Hnf).
        destruct q; [contradiction|exact Hhead].
      - cbn [app head_ok]. cbn [forallb] in Hp1. apply andb_true_iff in Hp1. tauto. }
    split; [|exact Hh]. rewrite !forallb_app, (digit_dchar _ Hp1), Hq. cbn [andb].
    destruct r2 as [|c r3]; [reflexivity|].
    destruct ((c =? 101) || (c =? 69)) eqn:Ec; [|discriminate].
    rewrite match_sign in H.
    assert (forall r4, (let '(ex, ne, r5) := take_digits r4 0 0 in
                        if (ne =? 0)%Z then None
                        else match r5 with [] => Some (mant, ex) | _ => None end) <> None ->
                       forallb dchar r4 = true) as Hexp.
    { intros r4. destruct (take_digits r4 0 0) as [[ex ne] r5] eqn:E5.
      apply take_digits_split in E5 as (p3 & -> & Hp3 & _).
      destruct (ne =? 0)%Z; [congruence|]. destruct r5; [|congruence]. intros _.
      rewrite app_nil_r. now apply digit_dchar. }
    cbn [forallb]. assert (dchar c = true) as -> by (unfold dchar; lia). cbn [andb].
    destruct r3 as [|c3 r4'].
    - exfalso. cbn in H. discriminate.
    - destruct (c3 =? 45) eqn:E45; [|destruct (c3 =? 43) eqn:E43].
      + cbn [forallb]. assert (dchar c3 = true) as -> by (unfold dchar; lia). cbn [andb].
        apply Hexp. destruct (take_digits r4' 0 0) as [[ex ne] r5].
        destruct (ne =? 0)%Z; [discriminate|]. destruct r5; congruence.
      + cbn [forallb]. assert (dchar c3 = true) as -> by (unfold dchar; lia). cbn [andb].
        apply Hexp. destruct (take_digits r4' 0 0) as [[ex ne] r5].
        destruct (ne =? 0)%Z; [discriminate|]. destruct r5; congruence.
      + apply Hexp. destruct (take_digits (c3 :: r4') 0 0) as [[ex ne] r5].
        destruct (ne =? 0)%Z; [discriminate|]. destruct r5; congruence. }
  destruct r1 as [|c r].
  - intros H. specialize (Tail ip 0%Z [] [] eq_refl (fun E => False_ind _ (E eq_refl)) H).
    exact Tail.
  - destruct (c =? 46) eqn:Ec.
    + destruct (take_digits r ip 0) as [[m nf] r'] eqn:E2.
      apply take_digits_split in E2 as (p2 & -> & Hp2 & Hn2).
      intros H. apply N.eqb_eq in Ec. subst c.
      specialize (Tail m nf r' (46 :: p2)).
      replace (p1 ++ 46 :: p2 ++ r') with (p1 ++ (46 :: p2) ++ r') by reflexivity.
      apply Tail; auto.
      * cbn [forallb]. rewrite (digit_dchar _ Hp2). reflexivity.
      * intros _. cbn. auto.
    + intros H. specialize (Tail ip 0%Z (c :: r) [] eq_refl (fun E => False_ind _ (E eq_refl)) H).
      exact Tail.
Qed.

Definition f64_tail (neg : bool) (u : bytes) : option f64 :=
  let l := lower_bytes u in
  if bytes_eqb l (of_string "inf") || bytes_eqb l (of_string "infinity") then Some (S754_infinity neg)
  else if bytes_eqb l (of_string "nan") then Some S754_nan
  else
    let '(ip, ni, r1) := take_digits u 0 0 in
    let '(mant, nf, r2) :=
      match r1 with
      | 46 :: r => let '(m, nf, r') := take_digits r ip 0 in (m, nf, r')
      | _ => (ip, 0%Z, r1)
      end in
    if (ni + nf =? 0)%Z then None
    else
      let finish (ex : Z) : option f64 := Some (of_decimal_c neg mant (ex - nf)) in
      match r2 with
      | [] => finish 0%Z
      | c :: r3 =>
        if (c =? 101) || (c =? 69) then
          let '(eneg, r4) := match r3 with
                             | 45 :: r => (true, r)
                             | 43 :: r => (false, r)
                             | _ => (false, r3)
                             end in
          let '(ex, ne, r5) := take_digits r4 0 0 in
          if (ne =? 0)%Z then None
          else match r5 with
               | [] => finish (if eneg then - ex else ex)%Z
               | _ => None
               end
        else None
      end.

Lemma parse_f64_unfold s :
  parse_f64 s =
  let '(neg, u) := match s with 45 :: r => (true, r) | 43 :: r => (false, r) | _ => (false, s) end in
  f64_tail neg u.
Proof. reflexivity. Qed.

Lemma f64_tail_dec neg u d X : parse_decimal u = Some (d, X) ->
  f64_tail neg u = Some (of_decimal_c neg d X).
Proof.
  intros H. destruct (parse_decimal_shape _ _ _ H) as [_ Hh].
  unfold f64_tail. cbv zeta.
  assert (forall w, bytes_eqb (lower_bytes u) (105 :: w) = false) as Ei.
  { intros w. destruct u as [|c u]; [contradiction|]. cbn [lower_bytes map bytes_eqb].
    destruct Hh as [Hd| ->]; [|reflexivity]. unfold is_digit in Hd. unfold lower.
    assert ((65 <=? c) && (c <=? 90) = false) as -> by lia.
    assert (c =? 105 = false) as -> by lia. reflexivity. }
  assert (forall w, bytes_eqb (lower_bytes u) (110 :: w) = false) as En.
  { intros w. destruct u as [|c u]; [contradiction|]. cbn [lower_bytes map bytes_eqb].
    destruct Hh as [Hd| ->]; [|reflexivity]. unfold is_digit in Hd. unfold lower.
    assert ((65 <=? c) && (c <=? 90) = false) as -> by lia.
    assert (c =? 110 = false) as -> by lia. reflexivity. }
  change (of_string "inf") with (105 :: of_string "nf").
  change (of_string "infinity") with (105 :: of_string "nfinity").
  change (of_string "nan") with (110 :: of_string "an").
  rewrite !Ei, En. cbn [orb].
  unfold parse_decimal in H.
  destruct (take_digits u 0 0) as [[ip ni] r1].
  rewrite match46 in *.
  destruct (match r1 with
            | [] => (ip, 0%Z, r1)
            | c :: r => if c =? 46 then let '(m, nf, r') := take_digits r ip 0 in (m, nf, r') else (ip, 0%Z, r1)
            end) as [[mant nf] r2].
  destruct (ni + nf =? 0)%Z; [discriminate|].
  destruct r2 as [|c r3].
  - injection H as <- <-. reflexivity.
  - destruct ((c =? 101) || (c =? 69)); [|discriminate].
    destruct (match r3 with 45 :: r => (true, r) | 43 :: r => (false, r) | _ => (false, r3) end) as [eneg r4].
    destruct (take_digits r4 0 0) as [[ex ne] r5].
    destruct (ne =? 0)%Z; [discriminate|]. destruct r5; [|discriminate].
    injection H as <- <-. reflexivity.
Qed.

Lemma parse_f64_dec u d X : parse_decimal u = Some (d, X) ->
  parse_f64 u = Some (of_decimal_c false d X) /\ parse_f64 (43 :: u) = Some (of_decimal_c false d X).
Proof.
  intros H. destruct (parse_decimal_shape _ _ _ H) as [_ Hh]. split.
  - rewrite parse_f64_unfold. rewrite match_sign.
    destruct u as [|c u]; [contradiction|].
    assert (c =? 45 = false) as -> by (destruct Hh as [Hd| ->]; [unfold is_digit in Hd; lia|reflexivity]).
    assert (c =? 43 = false) as -> by (destruct Hh as [Hd| ->]; [unfold is_digit in Hd; lia|reflexivity]).
    now apply f64_tail_dec.
  - change (parse_f64 (43 :: u)) with (f64_tail false u). now apply f64_tail_dec.
Qed.

(** * darklua's literal reader on these strings *)

Definition dec_body (value : bytes) : option number :=
  if prefix_b [46; 95] value then None
  else
    match (match index_of 101 value 0 with
           | Some i => Some (false, i)
           | None => match index_of 69 value 0 with
                     | Some i => Some (true, i)
                     | None => None
                     end
           end) with
    | Some (upper, i) =>
      if find_sub [95; 45] value || find_sub [95; 43] value then None
      else
        match parse_i64 (filter_underscore (skipn (S i) value)),
              parse_f64 (filter_underscore (firstn i value)),
              parse_f64 (filter_underscore value) with
        | Some ex, Some _, Some x => Some (NDec (to_bits x) (Some (ex, upper)))
        | _, _, _ => None
        end
    | None =>
      match parse_f64 (filter_underscore value) with
      | Some x => Some (NDec (to_bits x) None)
      | None => None
      end
    end.

Definition hex_body (value : bytes) (position : nat) (notation : N) : option number :=
  match (match index_of 112 value 0 with
         | Some i => Some (false, i)
         | None => match index_of 80 value 0 with
                   | Some i => Some (true, i)
                   | None => None
                   end
         end) with
  | Some (eupper, i) =>
    match parse_u32 (skipn (S i) value),
          parse_u64_radix 16 (firstn (i - S position) (skipn (S position) value)) with
    | Some ex, Some v => Some (NHex v (is_upper notation) (Some (ex, eupper)))
    | _, _ => None
    end
  | None =>
    match parse_u64_radix 16 (filter_underscore (skipn (S position) value)) with
    | Some v => Some (NHex v (is_upper notation) None)
    | None => None
    end
  end.

Lemma from_str_unfold value :
  from_str value =
  if match value with 48 :: _ => true | _ => false end then
    match nth_non_underscore value 1 0 with
    | Some (position, notation) =>
      if (notation =? 120) || (notation =? 88) then hex_body value position notation
      else if (notation =? 98) || (notation =? 66) then
        match parse_u64_radix 2 (filter_underscore (skipn (S position) value)) with
        | Some v => Some (NBin v (is_upper notation))
        | None => None
        end
      else dec_body value
    | None => dec_body value
    end
  else dec_body value.
Proof. reflexivity. Qed.

Lemma dec_body_shape value n : dec_body value = Some n ->
  exists x ex, parse_f64 (filter_underscore value) = Some x /\ n = NDec (to_bits x) ex.
Proof.
  unfold dec_body. destruct (prefix_b [46; 95] value); [discriminate|].
  destruct (match index_of 101 value 0 with
            | Some i => Some (false, i)
            | None => match index_of 69 value 0 with Some i => Some (true, i) | None => None end
            end) as [[upper i]|].
  - destruct (find_sub [95; 45] value || find_sub [95; 43] value); [discriminate|].
    destruct (parse_i64 _); [|discriminate]. destruct (parse_f64 (filter_underscore (firstn i value))); [|discriminate].
    destruct (parse_f64 (filter_underscore value)) as [x|]; [|discriminate].
    intros E; injection E as <-. eauto.
  - destruct (parse_f64 (filter_underscore value)) as [x|]; [|discriminate].
    intros E; injection E as <-. eauto.
Qed.

Lemma nth_non_underscore_in : forall s k pos p c, nth_non_underscore s k pos = Some (p, c) -> In c s.
Proof.
  induction s as [|x s IH]; intros k pos p c H; cbn [nth_non_underscore] in H; [discriminate|].
  destruct (x =? 95).
  - right. eapply IH; eauto.
  - destruct k.
    + injection H as _ <-. now left.
    + right. eapply IH; eauto.
Qed.

Lemma filter_underscore_id s : forallb (fun c => negb (c =? 95)) s = true -> filter_underscore s = s.
Proof.
  induction s as [|c s IH]; [reflexivity|]. cbn [forallb]. intros H. apply andb_true_iff in H as [Hc Hs].
  unfold filter_underscore. cbn [filter]. rewrite Hc. f_equal. now apply IH.
Qed.

Lemma dchar_no_underscore s : forallb dchar s = true -> forallb (fun c => negb (c =? 95)) s = true.
Proof.
  intros H. rewrite forallb_forall in *. intros x Hx. specialize (H x Hx). unfold dchar, is_digit in H. lia.
Qed.

(** on a string of decimal-literal characters only the decimal reader can succeed *)
Lemma from_str_dchar value n : forallb dchar value = true -> from_str value = Some n ->
  exists x ex, parse_f64 value = Some x /\ n = NDec (to_bits x) ex.
Proof.
  intros Hd H. rewrite from_str_unfold in H.
  assert (dec_body value = Some n) as Hb.
  { destruct (match value with 48 :: _ => true | _ => false end); [|exact H].
    destruct (nth_non_underscore value 1 0) as [[position notation]|] eqn:En; [|exact H].
    apply nth_non_underscore_in in En. rewrite forallb_forall in Hd. specialize (Hd _ En).
    assert ((notation =? 120) || (notation =? 88) = false) as E1 by (unfold dchar, is_digit in Hd; lia).
    assert ((notation =? 98) || (notation =? 66) = false) as E2 by (unfold dchar, is_digit in Hd; lia).
    rewrite E1, E2 in H. exact H. }
  apply dec_body_shape in Hb. rewrite (filter_underscore_id _ (dchar_no_underscore _ Hd)) in Hb. exact Hb.
Qed.

(** * Hexadecimal integers *)

Lemma digit_val_hex c : is_hex_c c = true -> digit_val 16 c = Some (unhexdigit c).
Proof.
  unfold is_hex_c, digit_val, unhexdigit, lower. intros H.
  destruct ((48 <=? c) && (c <=? 57)) eqn:E1.
  { assert (c - 48 <? 16 = true) as -> by lia. reflexivity. }
  destruct ((65 <=? c) && (c <=? 90)) eqn:E2.
  { assert ((97 <=? c + 32) && (c + 32 <=? 122) = true) as -> by lia.
    assert (c + 32 - 87 <? 16 = true) as -> by lia.
    assert ((97 <=? c) && (c <=? 102) = false) as -> by lia.
    assert ((65 <=? c) && (c <=? 70) = true) as -> by lia. f_equal. lia. }
  assert ((97 <=? c) && (c <=? 102) = true) as E3 by lia. rewrite E3.
  assert ((97 <=? c) && (c <=? 122) = true) as -> by lia.
  assert (c - 87 <? 16 = true) as -> by lia. reflexivity.
Qed.

Lemma take_hex_spec : forall h acc nn v n, take_hex h acc nn = (v, n, []) -> (0 <= acc)%Z ->
  forallb is_hex_c h = true /\ (acc <= v)%Z /\ n = (nn + Z.of_nat (llen h))%Z /\
  ((v < 18446744073709551616)%Z ->
   parse_digits 16 18446744073709551615 h (Z.to_N acc) = Some (Z.to_N v)).
Proof.
  induction h as [|c h IH]; intros acc nn v n H Hacc; cbn [take_hex] in H.
  - inversion H; subst. cbn. repeat split; try lia.
  - destruct (is_hex_c c) eqn:Ec; [|discriminate].
    apply IH in H as (Hh & Hle & Hn & Hp); [|lia].
    cbn [forallb llen]. rewrite Ec, Hh. repeat split; try lia.
    intros Hv. cbn [parse_digits]. rewrite (digit_val_hex _ Ec).
    assert (Z.to_N acc * 16 + unhexdigit c = Z.to_N (acc * 16 + Z.of_N (unhexdigit c))) as -> by lia.
    assert (18446744073709551615 <? Z.to_N (acc * 16 + Z.of_N (unhexdigit c)) = false) as -> by lia.
    now apply Hp.
Qed.

Lemma hex_no_char h c0 : (is_hex_c c0 = false) -> forallb is_hex_c h = true ->
  forall k, index_of c0 h k = None.
Proof.
  intros Hc. induction h as [|c h IH]; intros H k; [reflexivity|].
  cbn [forallb] in H. apply andb_true_iff in H as [H1 H2]. cbn [index_of].
  destruct (c =? c0) eqn:E; [|now apply IH]. apply N.eqb_eq in E. subst. congruence.
Qed.

Lemma hex_no_underscore h : forallb is_hex_c h = true -> forallb (fun c => negb (c =? 95)) h = true.
Proof.
  intros H. rewrite forallb_forall in *. intros x Hx. specialize (H x Hx). unfold is_hex_c in H. lia.
Qed.

Lemma from_str_hex c h v n : (c = 120 \/ c = 88) -> take_hex h 0 0 = (v, n, []) -> n <> 0%Z ->
  (v < 18446744073709551616)%Z ->
  from_str (48 :: c :: h) = Some (NHex (Z.to_N v) (is_upper c) None).
Proof.
  intros Hc Ht Hn Hv. apply take_hex_spec in Ht as (Hh & Hle & Hlen & Hp); [|lia].
  specialize (Hp Hv). change (Z.to_N 0) with 0 in Hp.
  rewrite from_str_unfold.
  assert (nth_non_underscore (48 :: c :: h) 1 0 = Some (1%nat, c)) as ->.
  { destruct Hc as [-> | ->]; reflexivity. }
  assert ((c =? 120) || (c =? 88) = true) as -> by (destruct Hc as [-> | ->]; reflexivity).
  cbv iota. unfold hex_body.
  assert (index_of 112 (48 :: c :: h) 0 = None) as ->.
  { cbn [index_of]. assert (c =? 112 = false) as -> by (destruct Hc as [-> | ->]; reflexivity).
    cbn. now apply hex_no_char. }
  assert (index_of 80 (48 :: c :: h) 0 = None) as ->.
  { cbn [index_of]. assert (c =? 80 = false) as -> by (destruct Hc as [-> | ->]; reflexivity).
    cbn. now apply hex_no_char. }
  cbn [skipn]. rewrite (filter_underscore_id _ (hex_no_underscore _ Hh)).
  unfold parse_u64_radix, parse_unsigned. rewrite match43.
  destruct h as [|c0 h]; [cbn in Hlen; lia|].
  assert (c0 =? 43 = false) as ->.
  { cbn [forallb] in Hh. apply andb_true_iff in Hh as [Hc0 _]. unfold is_hex_c in Hc0. lia. }
  rewrite Hp. reflexivity.
Qed.

(** with a leading '+' the reader takes the decimal route, which rejects the 'x' *)
Lemma from_str_plus_hex c h : (c = 120 \/ c = 88) -> forallb is_hex_c h = true ->
  from_str (43 :: 48 :: c :: h) = None.
Proof.
  intros Hc Hh. rewrite from_str_unfold. cbv iota.
  destruct (dec_body (43 :: 48 :: c :: h)) as [n|] eqn:E; [|reflexivity].
  exfalso. apply dec_body_shape in E as (x & ex & E & _).
  assert (forallb (fun c => negb (c =? 95)) (43 :: 48 :: c :: h) = true) as Hu.
  { cbn [forallb]. rewrite (hex_no_underscore _ Hh). destruct Hc as [-> | ->]; reflexivity. }
  rewrite (filter_underscore_id _ Hu) in E.
  change (parse_f64 (43 :: 48 :: c :: h)) with (f64_tail false (48 :: c :: h)) in E.
  unfold f64_tail in E. cbv zeta in E.
  assert (lower c = 120) as Hl by (destruct Hc as [-> | ->]; reflexivity).
  cbn [lower_bytes map bytes_eqb of_string] in E. rewrite Hl in E. cbn in E.
  destruct Hc as [-> | ->]; cbn in E; discriminate.
Qed.

(** * Signs *)

Lemma bra_opp' m e l :
  SFopp (SpecFloat.binary_round_aux prec emax true m e l) = SpecFloat.binary_round_aux prec emax false m e l.
Proof.
  unfold SpecFloat.binary_round_aux.
  destruct (shr_fexp prec emax m e l) as [mrs e1].
  destruct (shr_fexp prec emax _ e1 loc_Exact) as [mrs2 e2].
  destruct (shr_m mrs2); try reflexivity. destruct (Zle_bool e2 (emax - prec)); reflexivity.
Qed.

Lemma fneg_fnorm z e : fneg (fnorm z e false) = fnorm (- z) e true.
Proof.
  unfold fnorm, fneg. destruct z as [|p|p]; [reflexivity| |];
    cbn [Z.opp SpecFloat.binary_normalize]; unfold SpecFloat.binary_round;
    destruct (shl_align p e _) as [mz ez]; [apply bra_opp|apply bra_opp'].
Qed.

Lemma fneg_of_decimal d X : fneg (of_decimal false d X) = of_decimal true d X.
Proof.
  unfold of_decimal. destruct d as [|p|p]; try reflexivity.
  destruct (0 <=? X)%Z.
  - apply fneg_fnorm.
  - destruct (10 ^ (- X))%Z as [|q|q]; try reflexivity.
    unfold fdiv, fneg. cbn [SFdiv xorb].
    destruct (SFdiv_core_binary prec emax (Z.pos p) 0 (Z.pos q) 0) as [[mz ez] lz]. apply bra_opp.
Qed.

Lemma fneg_of_decimal_c d X : fneg (of_decimal_c false d X) = of_decimal_c true d X.
Proof. apply fneg_of_decimal. Qed.

(** * The agreement *)

Lemma dchar_ascii s : forallb dchar s = true -> forallb ascii s = true.
Proof.
  intros H. rewrite forallb_forall in *. intros x Hx. specialize (H x Hx).
  unfold dchar, is_digit in H. unfold ascii. lia.
Qed.
Lemma hex_ascii s : forallb is_hex_c s = true -> forallb ascii s = true.
Proof.
  intros H. rewrite forallb_forall in *. intros x Hx. specialize (H x Hx).
  unfold is_hex_c in H. unfold ascii. lia.
Qed.

Lemma dec_agrees u d X n :
  parse_decimal u = Some (d, X) ->
  (from_str u = Some n \/ from_str (43 :: u) = Some n) ->
  compute_value n = of_decimal_c false d X.
Proof.
  intros Hp H. destruct (parse_decimal_shape _ _ _ Hp) as [Hd _].
  destruct (parse_f64_dec _ _ _ Hp) as [P1 P2].
  destruct H as [H|H].
  - apply from_str_dchar in H as (x & ex & Hx & ->); [|exact Hd].
    rewrite P1 in Hx. injection Hx as <-. cbn [compute_value]. apply of_to_bits. apply valid_of_decimal_c.
  - apply from_str_dchar in H as (x & ex & Hx & ->); [|cbn [forallb]; rewrite Hd; reflexivity].
    rewrite P2 in Hx. injection Hx as <-. cbn [compute_value]. apply of_to_bits. apply valid_of_decimal_c.
Qed.

Lemma coerce_trimmed_other t : (forall r, t <> 45 :: r) ->
  coerce_trimmed t = option_map compute_value (from_str t).
Proof.
  intros H. unfold coerce_trimmed. rewrite match45. destruct t as [|c r]; [reflexivity|].
  destruct (c =? 45) eqn:E; [|reflexivity]. apply N.eqb_eq in E. subst. exfalso. now apply (H r).
Qed.

Theorem coercion_agrees : forall s x y,
  str2num s = Some x -> number_coercion (LString s) = LNumber y -> y = x /\ valid x.
Proof.
  intros s x y Hx Hy.
  destruct (trim_split s) as (pre & post & Es & Hpre & Hpost).
  assert (forallb ascii (trim s) = true -> forallb ascii s = true) as Hascii.
  { intros Ht. rewrite Es, !forallb_app, Ht.
    assert (forall l, forallb is_space_c l = true -> forallb ascii l = true) as Hsp.
    { intros l Hl. rewrite forallb_forall in *. intros c Hc. apply space_ascii. now apply Hl. }
    rewrite (Hsp _ Hpre), (Hsp _ Hpost). reflexivity. }
  unfold str2num in Hx. set (t := trim s) in *.
  destruct (match t with 45 :: r => (true, r) | 43 :: r => (false, r) | _ => (false, t) end)
    as [neg u] eqn:Esign.
  rewrite match_sign in Esign.
  (* the model's reader on [t], given what [u] reads as *)
  assert (forall z : f64,
    (forallb ascii u = true) ->
    (forall n, from_str u = Some n \/ from_str (43 :: u) = Some n -> compute_value n = z) ->
    (forall r, u <> 45 :: r) -> (forall r, u <> 43 :: r) ->
    y = (if neg then fneg z else z)) as Model.
  { intros z Hu Hn Hne1 Hne2.
    assert (forallb ascii t = true) as Ht.
    { destruct t as [|c r]; [reflexivity|].
      destruct (c =? 45) eqn:E1; [|destruct (c =? 43) eqn:E2]; injection Esign as <- <-.
      - cbn [forallb]. rewrite Hu. unfold ascii. assert (c <? 128 = true) as -> by lia. reflexivity.
      - cbn [forallb]. rewrite Hu. unfold ascii. assert (c <? 128 = true) as -> by lia. reflexivity.
      - exact Hu. }
    rewrite (number_coercion_ascii _ (Hascii Ht)) in Hy. fold t in Hy.
    destruct (coerce_trimmed t) as [y'|] eqn:Ec; [|discriminate]. injection Hy as <-.
    destruct t as [|c r].
    - injection Esign as <- <-. rewrite coerce_trimmed_other in Ec by (intros; discriminate).
      destruct (from_str []) as [n|] eqn:En; [|discriminate]. injection Ec as <-. apply Hn. now left.
    - destruct (c =? 45) eqn:E1; [|destruct (c =? 43) eqn:E2]; injection Esign as <- <-.
      + apply N.eqb_eq in E1. subst c. change (coerce_trimmed (45 :: r)) with
          (option_map (fun n => fneg (compute_value n)) (from_str r)) in Ec.
        destruct (from_str r) as [n|] eqn:En; [|discriminate]. injection Ec as <-.
        f_equal. apply Hn. now left.
      + apply N.eqb_eq in E2. subst c. rewrite coerce_trimmed_other in Ec by (intros; discriminate).
        destruct (from_str (43 :: r)) as [n|] eqn:En; [|discriminate]. injection Ec as <-.
        apply Hn. now right.
      + rewrite coerce_trimmed_other in Ec by (intros r0 E; injection E as -> _; discriminate).
        destruct (from_str (c :: r)) as [n|] eqn:En; [|discriminate]. injection Ec as <-.
        apply Hn. now left. }
  (* decimal reading *)
  assert (forall d X, parse_decimal u = Some (d, X) -> x = of_decimal_c neg d X ->
                      y = x /\ valid x) as Dec.
  { intros d X Hp ->. split; [|apply valid_of_decimal_c].
    destruct (parse_decimal_shape _ _ _ Hp) as [Hd Hh].
    rewrite (Model (of_decimal_c false d X)).
    - destruct neg; [apply fneg_of_decimal_c|reflexivity].
    - now apply dchar_ascii.
    - intros n Hn. eapply dec_agrees; eauto.
    - intros r ->. cbn in Hh. destruct Hh as [Hh|Hh]; discriminate.
    - intros r ->. cbn in Hh. destruct Hh as [Hh|Hh]; discriminate. }
  rewrite match48_2 in Hx.
  destruct u as [|c0 [|c1 h]].
  - destruct (parse_decimal []) as [[d X]|] eqn:Ep; [|discriminate]. injection Hx as <-. eapply Dec; eauto.
  - destruct (parse_decimal [c0]) as [[d X]|] eqn:Ep; [|discriminate]. injection Hx as <-. eapply Dec; eauto.
  - destruct (c0 =? 48) eqn:E0.
    + destruct ((c1 =? 120) || (c1 =? 88)) eqn:E1.
      * apply N.eqb_eq in E0. subst c0.
        assert (c1 = 120 \/ c1 = 88) as Hc by lia.
        destruct (take_hex h 0 0) as [[v n] r] eqn:Eh. destruct r; [|discriminate].
        destruct (n =? 0)%Z eqn:En; [discriminate|].
        destruct (v <? 18446744073709551616)%Z eqn:Ev; [|discriminate]. injection Hx as <-.
        split; [|apply valid_fnorm].
        pose proof Eh as Eh'. apply take_hex_spec in Eh' as (Hh & Hle & _ & _); [|lia].
        rewrite (Model (of_N (Z.to_N v))).
        -- destruct neg.
           ++ rewrite fneg_of_N. rewrite Z2N.id by lia. reflexivity.
           ++ unfold of_N, of_Z. rewrite Z2N.id by lia. reflexivity.
        -- cbn [forallb]. rewrite (hex_ascii _ Hh). destruct Hc as [-> | ->]; reflexivity.
        -- intros n0 [Hn|Hn].
           ++ rewrite (from_str_hex c1 h v n Hc Eh) in Hn by lia. injection Hn as <-. reflexivity.
           ++ rewrite (from_str_plus_hex c1 h Hc Hh) in Hn. discriminate.
        -- intros r; discriminate.
        -- intros r; discriminate.
      * destruct (parse_decimal (c0 :: c1 :: h)) as [[d X]|] eqn:Ep; [|discriminate].
        injection Hx as <-. eapply Dec; eauto.
    + destruct (parse_decimal (c0 :: c1 :: h)) as [[d X]|] eqn:Ep; [|discriminate].
      injection Hx as <-. eapply Dec; eauto.
Qed.
