(** Where the two locators start looking (Model/Require.v: [head_path]) and the
    characterisation of [find_require_path] as "first existing candidate from that head". *)
From DL Require Import Lib.Bytes Model.Paths Model.Require Proof.PathsBasics Proof.PathsFacts.
Require Import Lia PeanoNat.
Open Scope N_scope.

(** * head selection *)

(** path mode: `./x` and `../x` are joined to the directory of the requiring file *)
Lemma head_relative_path_mode c rc src p :
  c_luau c = false -> is_require_relative p = true -> head_path c rc src p = inl (join (pop src) p).
Proof. intros Hc Hp. unfold head_path. rewrite Hp, Hc. reflexivity. Qed.

(** luau mode: the same, except that a module-folder file starts from the parent of its folder *)
Lemma head_relative_luau_mode c rc src p :
  c_luau c = true -> is_require_relative p = true ->
  head_path c rc src p =
  inl (join (if is_module_folder_name c src
             then get_relative_parent_path (get_relative_parent_path src)
             else get_relative_parent_path src) p).
Proof. intros Hc Hp. unfold head_path. rewrite Hp, Hc. destruct (is_module_folder_name c src); reflexivity. Qed.

(** an absolute path is used as it is *)
Lemma head_absolute c rc src p :
  is_require_relative p = false -> has_root p = true -> head_path c rc src p = inl p.
Proof. intros Hr Hp. unfold head_path. rewrite Hr, Hp. reflexivity. Qed.

(** path mode: the first component names a source; its location (relative to the project
    location for configured sources) replaces it *)
Lemma head_source_path_mode c rc src name rest :
  c_luau c = false ->
  head_path c rc src (Norm name :: rest) =
  match get_source c rc name (project_location c src) with
  | Some loc => inl (extend loc rest)
  | None => inr EUnknownSource
  end.
Proof. intros Hc. unfold head_path. cbn [is_require_relative starts_with_cur starts_with_par orb has_root comp_bytes]. rewrite Hc. reflexivity. Qed.

(** luau mode: `@self` is the directory of the requiring file *)
Lemma head_self_luau_mode c rc src rest :
  c_luau c = true ->
  head_path c rc src (Norm self_name :: rest) = inl (join (get_relative_parent_path src) rest).
Proof.
  intros Hc. unfold head_path.
  cbn [is_require_relative starts_with_cur starts_with_par orb has_root comp_bytes].
  rewrite Hc, bytes_eqb_refl. reflexivity.
Qed.

(** luau mode: another `@name` is an alias *)
Lemma head_alias_luau_mode c rc src a name rest :
  c_luau c = true -> bytes_eqb (at_sign :: name) self_name = false -> a = at_sign ->
  head_path c rc src (Norm (a :: name) :: rest) =
  match get_source c rc (a :: name) (project_location c src) with
  | Some loc => inl (extend loc rest)
  | None => inr EUnknownSource
  end.
Proof.
  intros Hc Hs ->. unfold head_path.
  cbn [is_require_relative starts_with_cur starts_with_par orb has_root comp_bytes].
  rewrite Hc, Hs, N.eqb_refl. reflexivity.
Qed.

(** luau mode: a first component that does not start with `@` is not looked up at all (the
    documentation allows such alias names): the path is used relative to the working directory *)
Lemma head_plain_luau_mode c rc src a name rest :
  c_luau c = true -> (a =? at_sign) = false ->
  head_path c rc src (Norm (a :: name) :: rest) = inl (Norm (a :: name) :: rest).
Proof.
  intros Hc Ha. unfold head_path.
  cbn [is_require_relative starts_with_cur starts_with_par orb has_root comp_bytes].
  rewrite Hc.
  assert (E : bytes_eqb (a :: name) self_name = false).
  { unfold self_name. cbn [bytes_eqb]. change (a =? 64) with (a =? at_sign). rewrite Ha. reflexivity. }
  rewrite E, Ha. reflexivity.
Qed.

(** the empty require is an error in both modes *)
Lemma head_empty c rc src : head_path c rc src [] = inr EEmpty.
Proof. reflexivity. Qed.

(** ** the same, for a requiring file [d/s] below the working directory *)

Lemma relative_to_requiring_file c rc d s r :
  d <> [] -> (c_luau c = false \/ is_module_folder_name c (d ++ [Norm s]) = false) ->
  head_path c rc (d ++ [Norm s]) (Cur :: r) = inl (d ++ r).
Proof.
  intros Hd Hc. destruct (c_luau c) eqn:E.
  - rewrite head_relative_luau_mode by (try exact E; reflexivity).
    destruct Hc as [Hc|Hc]; [discriminate|]. rewrite Hc.
    unfold get_relative_parent_path. rewrite parent_snoc by discriminate.
    destruct d; [congruence|]. reflexivity.
  - rewrite head_relative_path_mode by (try exact E; reflexivity).
    rewrite pop_snoc by discriminate. rewrite join_cur_nonempty by exact Hd. reflexivity.
Qed.

(** luau mode, the requiring file is the module-folder file of [d0/x]: `./r` is [d0/r] *)
Lemma relative_to_parent_of_module_folder c rc d0 x s r :
  d0 <> [] -> c_luau c = true -> is_module_folder_name c ((d0 ++ [Norm x]) ++ [Norm s]) = true ->
  head_path c rc ((d0 ++ [Norm x]) ++ [Norm s]) (Cur :: r) = inl (d0 ++ r).
Proof.
  intros Hd Hc Hm. rewrite head_relative_luau_mode by (try exact Hc; reflexivity). rewrite Hm.
  assert (E1 : get_relative_parent_path ((d0 ++ [Norm x]) ++ [Norm s]) = d0 ++ [Norm x]).
  { unfold get_relative_parent_path. rewrite parent_snoc by discriminate.
    destruct (d0 ++ [Norm x]) eqn:E; [destruct d0; discriminate|reflexivity]. }
  rewrite E1. unfold get_relative_parent_path. rewrite parent_snoc by discriminate.
  destruct d0; [congruence|]. reflexivity.
Qed.

(** ... but a module-folder file directly in the working directory stays in the working
    directory (documented: the parent) *)
Lemma toplevel_module_folder_file_stays c rc s r :
  c_luau c = true ->
  head_path c rc [Norm s] (Cur :: r) = inl (Cur :: r).
Proof.
  intros Hc. rewrite head_relative_luau_mode by (try exact Hc; reflexivity).
  destruct (is_module_folder_name c [Norm s]); reflexivity.
Qed.

(** * [find_require_path] = first existing candidate from the head *)

Theorem find_require_path_first_existing c rcs f src p r :
  find_require_path c rcs f src p = Found r <->
  exists h l1 q l2,
    head_path c (rc_aliases c rcs src) src p = inl h /\
    candidates (normalize true h) (module_folder_name c) = l1 ++ q :: l2 /\
    is_file f q = true /\ (forall x, In x l1 -> is_file f x = false) /\ r = normalize true q.
Proof.
  unfold find_require_path. destruct (head_path c _ src p) as [h|e].
  - rewrite first_existing. split.
    + intros (l1 & q & l2 & H). exists h, l1, q, l2. split; [reflexivity|exact H].
    + intros (h' & l1 & q & l2 & Hh & H). inversion Hh; subst. exists l1, q, l2. exact H.
  - split; [discriminate|]. intros (h' & l1 & q & l2 & Hh & _). discriminate.
Qed.

Theorem find_require_path_errors c rcs f src p e :
  find_require_path c rcs f src p = Failed e ->
  (e = ENotFound /\ exists h, head_path c (rc_aliases c rcs src) src p = inl h /\
      forall x, In x (candidates (normalize true h) (module_folder_name c)) -> is_file f x = false)
  \/ head_path c (rc_aliases c rcs src) src p = inr e.
Proof.
  unfold find_require_path. destruct (head_path c _ src p) as [h|e'] eqn:E.
  - intros H. left. pose proof (locate_error _ _ _ _ H) as ->. split; [reflexivity|].
    exists h. split; [reflexivity|]. apply none_existing. eexists. exact H.
  - intros H. inversion H; subst. right. reflexivity.
Qed.
