(** Where the two locators start looking (Model/Require.v: [head_path]) and the
    characterisation of [find_require_path] as "first existing candidate from that head". *)
From DL Require Import Lib.Bytes Model.Paths Model.Require Proof.PathsBasics Proof.PathsFacts.
Require Import Lia PeanoNat.
Open Scope N_scope.

(** * head selection *)

(** path mode: `./x` and `../x` are joined to the directory of the requiring file *)
Lemma head_relative_path_mode c rc src p :
  c_luau c = false -> is_require_relative p = true -> head_path c rc src p = inl (join (pop src) p).
Proof. intros Hc Hp. unfold head_path. rewrite Hp, Hc. reflexivity. Qed.

(** luau mode: the same, except that a module-folder file starts from the parent of its folder *)
Lemma head_relative_luau_mode c rc src p :
  c_luau c = true -> is_require_relative p = true ->
  head_path c rc src p =
  inl (join (if is_module_folder_name c src
             then get_relative_parent_path (get_relative_parent_path src)
             else get_relative_parent_path src) p).
Proof. intros Hc Hp. unfold head_path. rewrite Hp, Hc. destruct (is_module_folder_name c src); reflexivity. Qed.

(** an absolute path is used as it is *)
Lemma head_absolute c rc src p :
  is_require_relative p = false -> has_root p = true -> head_path c rc src p = inl p.
Proof. intros Hr Hp. unfold head_path. rewrite Hr, Hp. reflexivity. Qed.

(** path mode: the first component names a source; its location (relative to the project
    location for configured sources) replaces it *)
Lemma head_source_path_mode c rc src name rest :
  c_luau c = false ->
  head_path c rc src (Norm name :: rest) =
  match get_source c rc name (project_location c src) with
  | Some loc => inl (extend loc rest)
  | None => inr EUnknownSource
  end.
Proof. intros Hc. unfold head_path. cbn [is_require_relative starts_with_cur starts_with_par orb has_root comp_bytes]. rewrite Hc. reflexivity. Qed.

(** luau mode: `@self` is the directory of the requiring file *)
Lemma head_self_luau_mode c rc src rest :
  c_luau c = true ->
  head_path c rc src (Norm self_name :: rest) = inl (join (get_relative_parent_path src) rest).
Proof.
  intros Hc. unfold head_path.
  cbn [is_require_relative starts_with_cur starts_with_par orb has_root comp_bytes].
  rewrite Hc, bytes_eqb_refl. reflexivity.
Qed.

(** luau mode: another `@name` is an alias *)
Lemma head_alias_luau_mode c rc src a name rest :
  c_luau c = true -> bytes_eqb (at_sign :: name) self_name = false -> a = at_sign ->
  head_path c rc src (Norm (a :: name) :: rest) =
  match get_source c rc (a :: name) (project_location c src) with
  | Some loc => inl (extend loc rest)
  | None => inr EUnknownSource
  end.
Proof.
  intros Hc Hs ->. unfold head_path.
  cbn [is_require_relative starts_with_cur starts_with_par orb has_root comp_bytes].
  rewrite Hc, Hs, N.eqb_refl. reflexivity.
Qed.

(** luau mode: a first component that does not start with `@` is not looked up at all (the
    documentation allows such alias names): the path is used relative to the working directory *)
Lemma head_plain_luau_mode c rc src a name rest :
  c_luau c = true -> (a =? at_sign) = false ->
  head_path c rc src (Norm (a :: name) :: rest) = inl (Norm (a :: name) :: rest).
Proof.
  intros Hc Ha. unfold head_path.
  cbn [is_require_relative starts_with_cur starts_with_par orb has_root comp_bytes].
  rewrite Hc.
  assert (E : bytes_eqb (a :: name) self_name = false).
  { unfold self_name. cbn [bytes_eqb]. change (a =? 64) with (a =? at_sign). rewrite Ha. reflexivity. }
  rewrite E, Ha. reflexivity.
Qed.

(** the empty require is an error in both modes *)
Lemma head_empty c rc src : head_path c rc src [] = inr EEmpty.
Proof. reflexivity. Qed.

(** ** the same, for a requiring file [d/s] below the working directory *)

Lemma relative_to_requiring_file c rc d s r :
  d <> [] -> (c_luau c = false \/ is_module_folder_name c (d ++ [Norm s]) = false) ->
  head_path c rc (d ++ [Norm s]) (Cur :: r) = inl (d ++ r).
Proof.
  intros Hd Hc. destruct (c_luau c) eqn:E.
  - rewrite head_relative_luau_mode by (try exact E; reflexivity).
    destruct Hc as [Hc|Hc]; [discriminate|]. rewrite Hc.
    unfold get_relative_parent_path. rewrite parent_snoc by discriminate.
    destruct d; [congruence|]. reflexivity.
  - rewrite head_relative_path_mode by (try exact E; reflexivity).
    rewrite pop_snoc by discriminate. rewrite join_cur_nonempty by exact Hd. reflexivity.
Qed.

(** luau mode, the requiring file is the module-folder file of [d0/x]: `./r` is [d0/r] *)
Lemma relative_to_parent_of_module_folder c rc d0 x s r :
  d0 <> [] -> c_luau c = true -> is_module_folder_name c ((d0 ++ [Norm x]) ++ [Norm s]) = true ->
  head_path c rc ((d0 ++ [Norm x]) ++ [Norm s]) (Cur :: r) = inl (d0 ++ r).
Proof.
  intros Hd Hc Hm. rewrite head_relative_luau_mode by (try exact Hc; reflexivity). rewrite Hm.
  assert (E1 : get_relative_parent_path ((d0 ++ [Norm x]) ++ [Norm s]) = d0 ++ [Norm x]).
  { unfold get_relative_parent_path. rewrite parent_snoc by discriminate.
    destruct (d0 ++ [Norm x]) eqn:E; [destruct d0; discriminate|reflexivity]. }
  rewrite E1. unfold get_relative_parent_path. rewrite parent_snoc by discriminate.
  destruct d0; [congruence|]. reflexivity.
Qed.

(** ... but a module-folder file directly in the working directory stays in the working
    directory (documented: the parent) *)
Lemma toplevel_module_folder_file_stays c rc s r :
  c_luau c = true ->
  head_path c rc [Norm s] (Cur :: r) = inl (Cur :: r).
Proof.
  intros Hc. rewrite head_relative_luau_mode by (try exact Hc; reflexivity).
  destruct (is_module_folder_name c [Norm s]); reflexivity.
Qed.

(** * [find_require_path] = first existing candidate from the head *)

Theorem find_require_path_first_existing c rcs f src p r :
  find_require_path c rcs f src p = Found r <->
  exists h l1 q l2,
    head_path c (rc_aliases c rcs src) src p = inl h /\
    candidates (normalize true h) (module_folder_name c) = l1 ++ q :: l2 /\
    is_file f q = true /\ (forall x, In x l1 -> is_file f x = false) /\ r = normalize true q.
Proof.
  unfold find_require_path. destruct (head_path c _ src p) as [h|e].
  - rewrite first_existing. split.
    + intros (l1 & q & l2 & H). exists h, l1, q, l2. split; [reflexivity|exact H].
    + intros (h' & l1 & q & l2 & Hh & H). inversion Hh; subst. exists l1, q, l2. exact H.
  - split; [discriminate|]. intros (h' & l1 & q & l2 & Hh & _). discriminate.
Qed.

Theorem find_require_path_errors c rcs f src p e :
  find_require_path c rcs f src p = Failed e ->
  (e = ENotFound /\ exists h, head_path c (rc_aliases c rcs src) src p = inl h /\
      forall x, In x (candidates (normalize true h) (module_folder_name c)) -> is_file f x = false)
  \/ head_path c (rc_aliases c rcs src) src p = inr e.
Proof.
  unfold find_require_path. destruct (head_path c _ src p) as [h|e'] eqn:E.
  - intros H. left. pose proof (locate_error _ _ _ _ H) as ->. split; [reflexivity|].
    exists h. split; [reflexivity|]. apply none_existing. eexists. exact H.
  - intros H. inversion H; subst. right. reflexivity.
Qed.

(** * what each kind of alias is relative to

    [rel] below is [project_location c src]: the directory of the darklua configuration file
    when there is one ([c_project c = Some location]), wherever that is; otherwise the directory
    of the requiring file. *)

Lemma project_location_configured c src location :
  c_project c = Some location -> project_location c src = location.
Proof. intros H. unfold project_location. rewrite H. reflexivity. Qed.

Lemma project_location_default c d s :
  c_project c = None -> project_location c (d ++ [Norm s]) = d.
Proof. intros H. unfold project_location. rewrite H, parent_snoc by discriminate. reflexivity. Qed.

(** a configured [sources] / [aliases] entry is joined onto the configuration location *)
Lemma get_source_configured_path_mode c rc name rel alias :
  c_luau c = false -> assoc name (c_sources c) = Some alias ->
  get_source c rc name rel = Some (join rel alias).
Proof. intros Hc Ha. unfold get_source. rewrite Hc, Ha. reflexivity. Qed.

Lemma get_source_configured_luau_mode c rc name rel alias :
  c_luau c = true -> rc_lookup rc name = None -> assoc name (c_sources c) = Some alias ->
  get_source c rc name rel = Some (join rel alias).
Proof. intros Hc Hr Ha. unfold get_source. rewrite Hc, Hr, Ha. reflexivity. Qed.

(** a [.luaurc] alias is used as it is: it was resolved against the directory of its [.luaurc]
    and is NOT joined onto the configuration location *)
Lemma get_source_luaurc_path_mode c rc name rel p :
  c_luau c = false -> assoc name (c_sources c) = None -> rc_lookup rc name = Some p ->
  get_source c rc name rel = Some p.
Proof. intros Hc Ha Hr. unfold get_source. rewrite Hc, Ha. exact Hr. Qed.

Lemma get_source_luaurc_luau_mode c rc name rel p :
  c_luau c = true -> rc_lookup rc name = Some p -> get_source c rc name rel = Some p.
Proof. intros Hc Hr. unfold get_source. rewrite Hc, Hr. reflexivity. Qed.

(** the nearest [.luaurc]: the first ancestor of the requiring file that has one *)
Lemma first_rc_nearest rcs dirs d al :
  first_rc rcs dirs = Some (d, al) ->
  exists l1 l2, dirs = l1 ++ d :: l2 /\ rc_at rcs d = Some al /\ (forall x, In x l1 -> rc_at rcs x = None).
Proof.
  induction dirs as [|x dirs IH]; cbn [first_rc]; [discriminate|].
  destruct (rc_at rcs x) as [al'|] eqn:E.
  - intros H. inversion H; subst. exists [], dirs. repeat split; auto. intros y [].
  - intros H. destruct (IH H) as (l1 & l2 & -> & Hd & Hl1). exists (x :: l1), l2. repeat split; auto.
    intros y [<-|Hy]; auto.
Qed.

Lemma assoc_at_map (g : path -> path) k al :
  assoc (at_sign :: k) (map (fun kv => (at_sign :: fst kv, g (snd kv))) al) = option_map g (assoc k al).
Proof.
  induction al as [|[k' v] al IH]; [reflexivity|].
  cbn [map assoc fst snd bytes_eqb]. rewrite N.eqb_refl. cbn [andb].
  destruct (bytes_eqb k k'); [reflexivity|exact IH].
Qed.

(** the aliases of the nearest [.luaurc], in directory [d], are [@name -> normalize (d/value)] *)
Lemma rc_lookup_luaurc c rcs src d al k :
  c_use_rc c = true -> first_rc rcs (ancestors src) = Some (d, al) ->
  rc_lookup (rc_aliases c rcs src) (at_sign :: k) = option_map (fun v => normalize false (join d v)) (assoc k al).
Proof.
  intros Hc Hf. unfold rc_aliases. rewrite Hc, Hf. unfold rc_lookup.
  apply (assoc_at_map (fun v => normalize false (join d v))).
Qed.

Lemma rc_lookup_disabled c rcs src name : c_use_rc c = false -> rc_lookup (rc_aliases c rcs src) name = None.
Proof. intros H. unfold rc_aliases. rewrite H. reflexivity. Qed.

(** path mode, [require("@k/rest")] where [@k] is only a [.luaurc] alias: the head is the alias
    value relative to the [.luaurc] directory [d], whatever the configuration location is *)
Theorem head_luaurc_alias_path_mode c rcs src d al k v rest :
  c_luau c = false -> c_use_rc c = true ->
  first_rc rcs (ancestors src) = Some (d, al) -> assoc k al = Some v ->
  assoc (at_sign :: k) (c_sources c) = None ->
  head_path c (rc_aliases c rcs src) src (Norm (at_sign :: k) :: rest) = inl (extend (normalize false (join d v)) rest).
Proof.
  intros Hc Hu Hf Hk Hs. rewrite head_source_path_mode by exact Hc.
  rewrite (get_source_luaurc_path_mode c _ _ _ (normalize false (join d v)) Hc Hs).
  - reflexivity.
  - rewrite (rc_lookup_luaurc c rcs src d al k Hu Hf), Hk. reflexivity.
Qed.

(** luau mode: the same (the [.luaurc] alias also has precedence over a configured one) *)
Theorem head_luaurc_alias_luau_mode c rcs src d al k v rest :
  c_luau c = true -> c_use_rc c = true ->
  first_rc rcs (ancestors src) = Some (d, al) -> assoc k al = Some v ->
  bytes_eqb (at_sign :: k) self_name = false ->
  head_path c (rc_aliases c rcs src) src (Norm (at_sign :: k) :: rest) = inl (extend (normalize false (join d v)) rest).
Proof.
  intros Hc Hu Hf Hk Hs. rewrite head_alias_luau_mode by (try exact Hc; try exact Hs; reflexivity).
  rewrite (get_source_luaurc_luau_mode c _ _ _ (normalize false (join d v)) Hc).
  - reflexivity.
  - rewrite (rc_lookup_luaurc c rcs src d al k Hu Hf), Hk. reflexivity.
Qed.

(** a configured source, with the configuration in [location]: the head is [location/alias/rest] *)
Theorem head_configured_source_path_mode c rc src location name alias rest :
  c_luau c = false -> c_project c = Some location -> assoc name (c_sources c) = Some alias ->
  head_path c rc src (Norm name :: rest) = inl (extend (join location alias) rest).
Proof.
  intros Hc Hp Ha. rewrite head_source_path_mode by exact Hc.
  rewrite (project_location_configured c src location Hp).
  rewrite (get_source_configured_path_mode c rc name location alias Hc Ha). reflexivity.
Qed.

Theorem head_configured_alias_luau_mode c rc src location k alias rest :
  c_luau c = true -> c_project c = Some location -> bytes_eqb (at_sign :: k) self_name = false ->
  rc_lookup rc (at_sign :: k) = None -> assoc (at_sign :: k) (c_sources c) = Some alias ->
  head_path c rc src (Norm (at_sign :: k) :: rest) = inl (extend (join location alias) rest).
Proof.
  intros Hc Hp Hs Hr Ha. rewrite head_alias_luau_mode by (try exact Hc; try exact Hs; reflexivity).
  rewrite (project_location_configured c src location Hp).
  rewrite (get_source_configured_luau_mode c rc _ location alias Hc Hr Ha). reflexivity.
Qed.

(** a nearest [.luaurc] without aliases hides every outer [.luaurc]: no [.luaurc] alias at all *)
Lemma rc_lookup_nearest_without_aliases c rcs src d name :
  first_rc rcs (ancestors src) = Some (d, []) -> rc_lookup (rc_aliases c rcs src) name = None.
Proof.
  intros Hf. unfold rc_aliases. destruct (c_use_rc c); [|reflexivity]. rewrite Hf. reflexivity.
Qed.
