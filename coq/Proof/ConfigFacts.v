(** C19 — proofs about Model/Config.v: strictness, round trip and injectivity of the rule (de)serializer. *)
From Coq Require Import List Bool String Ascii ZArith NArith Lia Permutation.
From DL Require Import Model.Config Proof.ConfigBasics.
Import ListNotations.
Open Scope string_scope.

Definition reserved : list string := ["rule"; "apply_to_files"; "skip_files"].

(** decidable condition on a property table: a property that is required (alone or as one of a set) is a
    declared property and has no "same as absent" value *)
Definition spec_ok (s : rule_spec) : bool :=
  forallb (fun n => match find_prop s n with
                    | Some p => match p_default p with None => true | Some _ => false end
                    | None => false
                    end) (s_required s ++ s_required_any s).

Definition specs_ok (specs : list rule_spec) : bool := forallb spec_ok specs.

Lemma forallb_ext_eq {A} (f g : A -> bool) l : (forall x, f x = g x) -> forallb f l = forallb g l.
Proof. intros H. induction l as [|x l IH]; cbn; [reflexivity|]. rewrite H, IH. reflexivity. Qed.

Lemma existsb_ext_eq {A} (f g : A -> bool) l : (forall x, f x = g x) -> existsb f l = existsb g l.
Proof. intros H. induction l as [|x l IH]; cbn; [reflexivity|]. rewrite H, IH. reflexivity. Qed.

Lemma NoDup_snoc {A} (l : list A) x : NoDup l -> ~ In x l -> NoDup (l ++ [x]).
Proof.
  induction l as [|y l IH]; cbn; intros ND Hx.
  - constructor; [tauto|constructor].
  - inversion ND; subst. constructor.
    + rewrite in_app_iff. cbn. intros [H|[H|[]]]; [tauto|subst; tauto].
    + apply IH; tauto.
Qed.

Lemma not_reserved k : ~ In k reserved ->
  String.eqb k "rule" = false /\ String.eqb k "apply_to_files" = false /\ String.eqb k "skip_files" = false.
Proof.
  unfold reserved. cbn [In]. intros H. repeat split; apply String.eqb_neq; intros ->; tauto.
Qed.

Section ConfigFacts.

Variable valid_glob : string -> bool.
Variable valid_regex : string -> bool.
Variable valid_ident : string -> bool.
Variable norm_globals : list string -> list string.
Variable norm_reqmode : json -> option json.
Variable env_json_ok : string -> bool.
Variable specs : list rule_spec.

(** assumed behaviour of the oracles *)
Hypothesis H_req_idem : forall j j', norm_reqmode j = Some j' -> norm_reqmode j' = Some j'.
Hypothesis H_req_obj : forall j j', norm_reqmode j = Some j' -> exists l, j' = JObj l.
Hypothesis H_glob_idem : forall l, norm_globals (norm_globals l) = norm_globals l.
Hypothesis H_glob_ok : forall l, forallb (globals_item_ok valid_ident) l = true ->
                                 forallb (globals_item_ok valid_ident) (norm_globals l) = true.

Notation classify := (classify norm_reqmode).
Notation accepts_kind := (accepts_kind valid_regex valid_ident env_json_ok).
Notation norm_value := (norm_value norm_globals).
Notation configure_props := (configure_props valid_regex valid_ident norm_globals env_json_ok).
Notation configure := (configure valid_regex valid_ident norm_globals env_json_ok).
Notation one_or_many := (one_or_many valid_glob).
Notation scan := (scan valid_glob norm_reqmode).
Notation deserialize_rule :=
  (deserialize_rule valid_glob valid_regex valid_ident norm_globals norm_reqmode env_json_ok specs).
Notation serialize_rule := (serialize_rule specs).
Notation find_spec := (find_spec specs).

(** * property values *)

Definition wf_pvalue (v : pvalue) : Prop :=
  match v with
  | PUsize n => (Z.of_N n <= usize_max)%Z
  | PFloat (NInt z) => ((0 <=? z) && (z <=? usize_max))%Z = false
  | PReqMode j => norm_reqmode j = Some j /\ exists l, j = JObj l
  | PMap l => norm_reqmode (JObj l) = None
  | PArr l => as_strings l = None /\ norm_reqmode (JArr l) = None
  | _ => True
  end.

Lemma classify_wf j : wf_pvalue (classify j).
Proof.
  destruct j as [| b | [z|r] | s | l | l]; cbn [Config.classify wf_pvalue]; auto.
  - destruct ((0 <=? z)%Z && (z <=? usize_max)%Z) eqn:E; cbn [wf_pvalue]; [|exact E].
    apply andb_true_iff in E. destruct E as [E1 E2]. apply Z.leb_le in E1. apply Z.leb_le in E2.
    rewrite Z2N.id; assumption.
  - destruct (as_strings l) eqn:E; cbn [wf_pvalue]; [exact I|].
    destruct (norm_reqmode (JArr l)) eqn:E2; cbn [wf_pvalue]; [|split; assumption].
    split; [eapply H_req_idem; exact E2|eapply H_req_obj; exact E2].
  - destruct (norm_reqmode (JObj l)) eqn:E2; cbn [wf_pvalue]; [|exact E2].
    split; [eapply H_req_idem; exact E2|eapply H_req_obj; exact E2].
Qed.

Lemma classify_unclassify v : wf_pvalue v -> classify (unclassify v) = v.
Proof.
  destruct v as [b|s|n|[z|r]|l|j| |l|l]; cbn [unclassify Config.classify wf_pvalue]; intros W; try reflexivity.
  - assert (E : ((0 <=? Z.of_N n)%Z && (Z.of_N n <=? usize_max)%Z) = true).
    { apply andb_true_iff. split; apply Z.leb_le; [apply N2Z.is_nonneg|exact W]. }
    rewrite E, N2Z.id. reflexivity.
  - rewrite W. reflexivity.
  - rewrite as_strings_map_JStr. reflexivity.
  - destruct W as [W [l ->]]. cbn [Config.classify]. rewrite W. reflexivity.
  - rewrite W. reflexivity.
  - destruct W as [W1 W2]. rewrite W1, W2. reflexivity.
Qed.

Lemma norm_value_accepts k v : accepts_kind k v = true -> accepts_kind k (norm_value k v) = true.
Proof.
  destruct k; destruct v; cbn [Config.norm_value Config.accepts_kind]; auto.
Qed.

Lemma norm_value_idem k v : norm_value k (norm_value k v) = norm_value k v.
Proof.
  destruct k; destruct v; cbn [Config.norm_value]; try reflexivity. rewrite H_glob_idem. reflexivity.
Qed.

Lemma norm_value_wf k v : wf_pvalue v -> wf_pvalue (norm_value k v).
Proof. destruct k; destruct v; cbn [Config.norm_value wf_pvalue]; auto. Qed.

(** * what `configure` returns *)

Definition plain_entry (kv : string * pvalue) : Prop := ~ In (fst kv) reserved /\ wf_pvalue (snd kv).

Definition good_entry (s : rule_spec) (kv : string * pvalue) : Prop :=
  plain_entry kv /\
  exists p, find_prop s (fst kv) = Some p /\ accepts_kind (p_kind p) (snd kv) = true /\
            norm_value (p_kind p) (snd kv) = snd kv /\ is_default p (snd kv) = false.

Definition good_props (s : rule_spec) (ps : list (string * pvalue)) : Prop :=
  NoDup (map fst ps) /\ Forall (good_entry s) ps /\
  required_ok s ps = true /\ required_any_ok s ps = true /\ collisions_ok s ps = true.

Lemma configure_props_good s ps : Forall (good_entry s) ps -> configure_props s ps = Some ps.
Proof.
  induction 1 as [|[k v] ps [_ [p [Hf [Ha [Hn Hd]]]]] _ IH]; cbn [Config.configure_props]; [reflexivity|].
  cbn [fst snd] in *. rewrite Hf, Ha, IH, Hn, Hd. reflexivity.
Qed.

Lemma configure_good s ps : good_props s ps -> configure s ps = Some ps.
Proof.
  intros [_ [HF [H1 [H2 H3]]]]. unfold Config.configure. rewrite H1, H2, H3. cbn [andb].
  apply configure_props_good. exact HF.
Qed.

Lemma configure_props_out s : forall ps0 out,
  configure_props s ps0 = Some out -> Forall plain_entry ps0 ->
  Forall (good_entry s) out /\
  (forall k, In k (map fst out) -> In k (map fst ps0)) /\
  (forall k p, In k (map fst ps0) -> find_prop s k = Some p -> p_default p = None -> In k (map fst out)).
Proof.
  induction ps0 as [|[k v] ps0 IH]; cbn [Config.configure_props]; intros out H HP.
  - inversion H; subst. repeat split; [constructor|auto|auto].
  - inversion HP as [|? ? Hkv HP']; subst.
    destruct (find_prop s k) as [p|] eqn:Hf; [|discriminate].
    destruct (accepts_kind (p_kind p) v) eqn:Ha; [|discriminate].
    destruct (configure_props s ps0) as [out'|] eqn:Hc; [|discriminate].
    destruct (IH out' eq_refl HP') as [G [Sub Keep]].
    destruct (is_default p (norm_value (p_kind p) v)) eqn:Hd; inversion H; subst; clear H.
    + repeat split; [exact G| |].
      * intros k' Hin. right. apply Sub. exact Hin.
      * intros k' p' Hin Hf' Hnone. cbn [map fst In] in Hin. destruct Hin as [<-|Hin].
        -- exfalso. rewrite Hf in Hf'. inversion Hf'; subst. unfold is_default in Hd. rewrite Hnone in Hd. discriminate.
        -- eapply Keep; eassumption.
    + repeat split.
      * constructor; [|exact G]. split.
        -- destruct Hkv as [Hr Hw]. split; [exact Hr|]. cbn [snd] in *. apply norm_value_wf. exact Hw.
        -- exists p. cbn [fst snd]. repeat split; [exact Hf|apply norm_value_accepts; exact Ha|apply norm_value_idem|exact Hd].
      * intros k' Hin. cbn [map fst In] in *. destruct Hin as [<-|Hin]; [left; reflexivity|right; apply Sub; exact Hin].
      * intros k' p' Hin Hf' Hnone. cbn [map fst In] in *. destruct Hin as [<-|Hin]; [left; reflexivity|].
        right. eapply Keep; eassumption.
Qed.

Lemma configure_props_nodup s : forall ps0 out,
  configure_props s ps0 = Some out -> Forall plain_entry ps0 -> NoDup (map fst ps0) -> NoDup (map fst out).
Proof.
  induction ps0 as [|[k v] ps0 IH]; cbn [Config.configure_props]; intros out H HP ND.
  - inversion H; subst. constructor.
  - inversion HP as [|? ? Hkv HP']; subst. inversion ND as [|? ? Hnot ND']; subst.
    destruct (find_prop s k) as [p|] eqn:Hf; [|discriminate].
    destruct (accepts_kind (p_kind p) v) eqn:Ha; [|discriminate].
    destruct (configure_props s ps0) as [out'|] eqn:Hc; [|discriminate].
    pose proof (IH out' eq_refl HP' ND') as NDo.
    destruct (configure_props_out s ps0 out' Hc HP') as [_ [Sub _]].
    destruct (is_default p (norm_value (p_kind p) v)); inversion H; subst; [exact NDo|].
    cbn [map fst]. constructor; [|exact NDo]. intros Hin. apply Hnot. apply Sub. exact Hin.
Qed.

Lemma configure_out s ps0 out :
  spec_ok s = true -> configure s ps0 = Some out -> Forall plain_entry ps0 -> NoDup (map fst ps0) ->
  good_props s out.
Proof.
  intros Hok H HP ND. unfold Config.configure in H.
  destruct (required_ok s ps0 && required_any_ok s ps0 && collisions_ok s ps0) eqn:E; [|discriminate].
  apply andb_true_iff in E. destruct E as [E E3]. apply andb_true_iff in E. destruct E as [E1 E2].
  destruct (configure_props_out s ps0 out H HP) as [G [Sub Keep]].
  pose proof (configure_props_nodup s ps0 out H HP ND) as NDo.
  unfold spec_ok in Hok. rewrite forallb_forall in Hok.
  assert (KeepReq : forall n, In n (s_required s ++ s_required_any s) -> has_key n ps0 = true -> has_key n out = true).
  { intros n Hn Hk. specialize (Hok n Hn). destruct (find_prop s n) as [p|] eqn:Hf; [|discriminate].
    destruct (p_default p) eqn:Hd; [discriminate|].
    apply has_key_true_iff. eapply Keep; [apply has_key_true_iff; exact Hk|exact Hf|exact Hd]. }
  repeat split; [exact NDo|exact G| | |].
  - unfold required_ok in *. rewrite forallb_forall in *. intros n Hn. apply KeepReq; [apply in_or_app; left; exact Hn|apply E1; exact Hn].
  - unfold required_any_ok in *. destruct (s_required_any s) as [|n0 ns] eqn:Ea; [reflexivity|].
    rewrite existsb_exists in *. destruct E2 as [n [Hn Hk]]. exists n. split; [exact Hn|].
    apply KeepReq; [apply in_or_app; right; exact Hn|exact Hk].
  - unfold collisions_ok in *. rewrite forallb_forall in *. intros names Hn. specialize (E3 names Hn).
    apply Nat.leb_le. apply Nat.leb_le in E3. eapply Nat.le_trans; [|exact E3].
    apply filter_length_le. intros n Hk. apply has_key_true_iff. apply Sub. apply has_key_true_iff. exact Hk.
Qed.

Lemma good_props_perm s ps ps' : Permutation ps ps' -> good_props s ps -> good_props s ps'.
Proof.
  intros P [ND [F [H1 [H2 H3]]]].
  assert (HK : forall k, has_key k ps' = has_key k ps) by (intros k; symmetry; apply has_key_perm; exact P).
  repeat split.
  - eapply Permutation_NoDup; [apply Permutation_map; exact P|exact ND].
  - eapply Permutation_Forall; eassumption.
  - unfold required_ok in *. rewrite <- H1. apply forallb_ext_eq. intros n. apply HK.
  - unfold required_any_ok in *. destruct (s_required_any s); [reflexivity|]. rewrite <- H2. apply existsb_ext_eq. intros n. apply HK.
  - unfold collisions_ok in *. rewrite <- H3. apply forallb_ext_eq. intros names.
    rewrite (filter_ext _ _ HK). reflexivity.
Qed.

(** * the key loop of visit_map *)

Definition st_ok (st : scan_state) : Prop :=
  NoDup (map fst (sc_props st)) /\ Forall plain_entry (sc_props st) /\
  forallb valid_glob (or_nil (sc_apply st)) = true /\ forallb valid_glob (or_nil (sc_skip st)) = true.

Lemma one_or_many_valid j l : one_or_many j = Some l -> forallb valid_glob l = true.
Proof.
  destruct j as [| | |s|a|]; cbn [Config.one_or_many]; try discriminate.
  - destruct (valid_glob s) eqn:E; [|discriminate]. intros [= <-]. cbn. rewrite E. reflexivity.
  - destruct (as_strings a) as [ss|]; [|discriminate]. destruct (forallb valid_glob ss) eqn:E; [|discriminate].
    intros [= <-]. exact E.
Qed.

Lemma scan_ok : forall kvs st st', scan kvs st = Some st' -> st_ok st -> st_ok st'.
Proof.
  induction kvs as [|[k j] kvs IH]; cbn [Config.scan]; intros st st' H Hst.
  - inversion H; subst. exact Hst.
  - destruct Hst as [ND [FP [GA GS]]].
    destruct (String.eqb k "rule") eqn:Ek1.
    { destruct (sc_rule st); [discriminate|]. destruct j; try discriminate.
      eapply IH; [exact H|]. repeat split; assumption. }
    destruct (String.eqb k "apply_to_files") eqn:Ek2.
    { destruct (sc_apply st); [discriminate|]. destruct (one_or_many j) as [l|] eqn:Eo; [|discriminate].
      eapply IH; [exact H|]. repeat split; try assumption. cbn [sc_apply or_nil]. eapply one_or_many_valid; exact Eo. }
    destruct (String.eqb k "skip_files") eqn:Ek3.
    { destruct (sc_skip st); [discriminate|]. destruct (one_or_many j) as [l|] eqn:Eo; [|discriminate].
      eapply IH; [exact H|]. repeat split; try assumption. cbn [sc_skip or_nil]. eapply one_or_many_valid; exact Eo. }
    destruct (has_key k (sc_props st)) eqn:Ehk; [discriminate|].
    eapply IH; [exact H|]. unfold st_ok. cbn [sc_props sc_apply sc_skip]. repeat split; try assumption.
    + rewrite map_app. cbn [map fst]. apply NoDup_snoc; [exact ND|]. apply has_key_false_iff. exact Ehk.
    + apply Forall_app. split; [exact FP|]. constructor; [|constructor]. split; cbn [fst snd].
      * unfold reserved. cbn [In]. apply String.eqb_neq in Ek1, Ek2, Ek3. intros [<-|[<-|[<-|[]]]]; congruence.
      * apply classify_wf.
Qed.

(** every key of the object is one of the three reserved ones or ends up, classified, in the property map *)
Lemma scan_keys : forall kvs st st', scan kvs st = Some st' ->
  (forall kv, In kv (sc_props st) -> In kv (sc_props st')) /\
  (forall k j, In (k, j) kvs -> In k reserved \/ In (k, classify j) (sc_props st')).
Proof.
  induction kvs as [|[k j] kvs IH]; cbn [Config.scan]; intros st st' H.
  - inversion H; subst. split; [auto|intros k j []].
  - assert (Step : forall st1, scan kvs st1 = Some st' -> sc_props st1 = sc_props st -> In k reserved ->
             (forall kv, In kv (sc_props st) -> In kv (sc_props st')) /\
             (forall k0 j0, In (k0, j0) ((k, j) :: kvs) -> In k0 reserved \/ In (k0, classify j0) (sc_props st'))).
    { intros st1 H1 Hp Hr. destruct (IH st1 st' H1) as [Keep All]. rewrite Hp in Keep. split; [exact Keep|].
      intros k0 j0 [Heq|Hin]; [inversion Heq; subst; left; exact Hr|apply All; exact Hin]. }
    destruct (String.eqb k "rule") eqn:Ek1.
    { apply String.eqb_eq in Ek1. subst k. destruct (sc_rule st); [discriminate|]. destruct j; try discriminate.
      eapply Step; [exact H|reflexivity|cbn; auto]. }
    destruct (String.eqb k "apply_to_files") eqn:Ek2.
    { apply String.eqb_eq in Ek2. subst k. destruct (sc_apply st); [discriminate|].
      destruct (one_or_many j) as [l|]; [|discriminate]. eapply Step; [exact H|reflexivity|cbn; auto]. }
    destruct (String.eqb k "skip_files") eqn:Ek3.
    { apply String.eqb_eq in Ek3. subst k. destruct (sc_skip st); [discriminate|].
      destruct (one_or_many j) as [l|]; [|discriminate]. eapply Step; [exact H|reflexivity|cbn; auto]. }
    destruct (has_key k (sc_props st)); [discriminate|].
    destruct (IH _ st' H) as [Keep All]. cbn [sc_props] in Keep. split.
    + intros kv Hin. apply Keep. apply in_or_app. left. exact Hin.
    + intros k0 j0 [Heq|Hin]; [|apply All; exact Hin]. inversion Heq; subst. right. apply Keep.
      apply in_or_app. right. left. reflexivity.
Qed.

Lemma scan_app : forall a b st,
  scan (a ++ b) st = match scan a st with Some st' => scan b st' | None => None end.
Proof.
  induction a as [|[k j] a IH]; intros b st; cbn [app Config.scan]; [reflexivity|].
  destruct (String.eqb k "rule").
  { destruct (sc_rule st); [reflexivity|]. destruct j; try reflexivity. apply IH. }
  destruct (String.eqb k "apply_to_files").
  { destruct (sc_apply st); [reflexivity|]. destruct (one_or_many j); [apply IH|reflexivity]. }
  destruct (String.eqb k "skip_files").
  { destruct (sc_skip st); [reflexivity|]. destruct (one_or_many j); [apply IH|reflexivity]. }
  destruct (has_key k (sc_props st)); [reflexivity|apply IH].
Qed.

Definition enc (ps : list (string * pvalue)) : list (string * json) :=
  map (fun kv => (fst kv, unclassify (snd kv))) ps.

Lemma scan_enc : forall ps st,
  NoDup (map fst ps) -> (forall k, In k (map fst ps) -> ~ In k (map fst (sc_props st))) ->
  Forall plain_entry ps ->
  scan (enc ps) st = Some (Scan (sc_rule st) (sc_props st ++ ps) (sc_apply st) (sc_skip st)).
Proof.
  induction ps as [|[k v] ps IH]; intros st ND Hnew HP; cbn [enc map Config.scan].
  - rewrite app_nil_r. destruct st; reflexivity.
  - inversion ND as [|? ? Hnot ND']; subst. inversion HP as [|? ? [Hr Hw] HP']; subst. cbn [fst snd] in *.
    destruct (not_reserved k Hr) as [E1 [E2 E3]]. rewrite E1, E2, E3.
    assert (Ehk : has_key k (sc_props st) = false).
    { apply has_key_false_iff. apply Hnew. left. reflexivity. }
    rewrite Ehk, (classify_unclassify v Hw).
    fold (enc ps). rewrite IH; [|exact ND'| |exact HP'].
    + cbn [sc_rule sc_props sc_apply sc_skip]. rewrite <- app_assoc. reflexivity.
    + intros k' Hin. cbn [sc_props]. rewrite map_app, in_app_iff. cbn [map fst In]. intros [H|[H|[]]].
      * eapply Hnew; [right; exact Hin|exact H].
      * subst k'. apply Hnot. exact Hin.
Qed.

Lemma one_or_many_list l : forallb valid_glob l = true -> one_or_many (JArr (map JStr l)) = Some l.
Proof. intros H. cbn [Config.one_or_many]. rewrite as_strings_map_JStr, H. reflexivity. Qed.

Definition opt_list (l : list string) : option (list string) := match l with [] => None | _ => Some l end.

Lemma or_nil_opt_list l : or_nil (opt_list l) = l.
Proof. destruct l; reflexivity. Qed.

Lemma scan_apply_entry l rest st :
  sc_rule st <> None \/ True -> sc_apply st = None -> forallb valid_glob l = true ->
  scan (filter_entry "apply_to_files" l ++ rest) st =
  scan rest (Scan (sc_rule st) (sc_props st) (opt_list l) (sc_skip st)).
Proof.
  intros _ Hnone Hv. destruct l as [|s [|s2 l]].
  - cbn [filter_entry app opt_list]. destruct st; cbn in *; subst; reflexivity.
  - cbn [filter_entry app Config.scan String.eqb Ascii.eqb Bool.eqb opt_list]. rewrite Hnone.
    cbn [Config.one_or_many]. cbn [forallb] in Hv. apply andb_true_iff in Hv. destruct Hv as [Hv _]. rewrite Hv. reflexivity.
  - cbn [filter_entry app Config.scan String.eqb Ascii.eqb Bool.eqb opt_list]. rewrite Hnone.
    rewrite (one_or_many_list _ Hv). reflexivity.
Qed.

Lemma scan_skip_entry l rest st :
  sc_skip st = None -> forallb valid_glob l = true ->
  scan (filter_entry "skip_files" l ++ rest) st =
  scan rest (Scan (sc_rule st) (sc_props st) (sc_apply st) (opt_list l)).
Proof.
  intros Hnone Hv. destruct l as [|s [|s2 l]].
  - cbn [filter_entry app opt_list]. destruct st; cbn in *; subst; reflexivity.
  - cbn [filter_entry app Config.scan String.eqb Ascii.eqb Bool.eqb opt_list]. rewrite Hnone.
    cbn [Config.one_or_many]. cbn [forallb] in Hv. apply andb_true_iff in Hv. destruct Hv as [Hv _]. rewrite Hv. reflexivity.
  - cbn [filter_entry app Config.scan String.eqb Ascii.eqb Bool.eqb opt_list]. rewrite Hnone.
    rewrite (one_or_many_list _ Hv). reflexivity.
Qed.

(** * rules *)

(** what reading establishes *)
Definition rule_inv (r : rule_cfg) : Prop :=
  exists s, find_spec (r_name r) = Some s /\ good_props s (r_props r) /\
            forallb valid_glob (r_apply r) = true /\ forallb valid_glob (r_skip r) = true.

(** the rule only uses properties that its `serialize_to_properties` writes *)
Definition ser_complete (r : rule_cfg) : Prop :=
  forall s, find_spec (r_name r) = Some s ->
  forall kv, In kv (r_props r) -> exists p, find_prop s (fst kv) = Some p /\ p_ser p = true.

Definition rule_equiv (r r' : rule_cfg) : Prop :=
  r_name r = r_name r' /\ Permutation (r_props r) (r_props r') /\ r_apply r = r_apply r' /\ r_skip r = r_skip r'.

Hypothesis H_specs : specs_ok specs = true.

Lemma find_spec_ok name s : find_spec name = Some s -> spec_ok s = true.
Proof.
  unfold Config.find_spec. intros H. apply find_some in H. destruct H as [Hin _].
  unfold specs_ok in H_specs. rewrite forallb_forall in H_specs. apply H_specs. exact Hin.
Qed.

Lemma scan_start_ok : st_ok scan_start.
Proof. repeat split; cbn; constructor. Qed.

Lemma deserialize_rule_inv j r : deserialize_rule j = Some r -> rule_inv r.
Proof.
  destruct j as [| | |name| |kvs]; cbn [Config.deserialize_rule]; try discriminate.
  - destruct (find_spec name) as [s|] eqn:Hs; [|discriminate].
    destruct (configure s []) as [ps|] eqn:Hc; [|discriminate]. intros [= <-]. exists s. cbn [r_name r_props r_apply r_skip].
    split; [exact Hs|]. split; [|split; reflexivity].
    eapply configure_out; [eapply find_spec_ok; exact Hs|exact Hc|constructor|constructor].
  - destruct (scan kvs scan_start) as [st|] eqn:Hscan; [|discriminate].
    destruct (sc_rule st) as [name|] eqn:Hn; [|discriminate].
    destruct (find_spec name) as [s|] eqn:Hs; [|discriminate].
    destruct (configure s (sc_props st)) as [ps|] eqn:Hc; [|discriminate]. intros [= <-].
    destruct (scan_ok _ _ _ Hscan scan_start_ok) as [ND [FP [GA GS]]].
    exists s. cbn [r_name r_props r_apply r_skip]. split; [exact Hs|]. split; [|split; assumption].
    eapply configure_out; [eapply find_spec_ok; exact Hs|exact Hc|exact FP|exact ND].
Qed.

Definition ser_obj (name : string) (props : list (string * pvalue)) (a sk : list string) : json :=
  JObj (("rule", JStr name) :: filter_entry "apply_to_files" a ++ filter_entry "skip_files" sk ++ enc props).

Lemma serialize_rule_shape r s :
  find_spec (r_name r) = Some s ->
  let props := sort_by_key (ser_props s (r_props r)) in
  (props = [] /\ r_apply r = [] /\ r_skip r = [] /\ serialize_rule r = JStr (r_name r)) \/
  serialize_rule r = ser_obj (r_name r) props (r_apply r) (r_skip r).
Proof.
  intros Hs props. unfold Config.serialize_rule. rewrite Hs. fold props. unfold ser_obj, enc.
  destruct props; [|right; reflexivity].
  destruct (r_apply r); [|right; reflexivity].
  destruct (r_skip r); [|right; reflexivity].
  left. repeat split; reflexivity.
Qed.

Lemma ser_props_complete r s :
  find_spec (r_name r) = Some s -> ser_complete r -> ser_props s (r_props r) = r_props r.
Proof.
  intros Hs Hc. unfold ser_props. apply filter_all_true. intros kv Hin.
  destruct (Hc s Hs kv Hin) as [p [Hf Hp]]. rewrite Hf. exact Hp.
Qed.

Lemma read_ser_obj name s props a sk :
  find_spec name = Some s -> good_props s props ->
  forallb valid_glob a = true -> forallb valid_glob sk = true ->
  deserialize_rule (ser_obj name props a sk) = Some (RuleCfg name props a sk).
Proof.
  intros Hs G Ha Hsk. unfold ser_obj. cbn [Config.deserialize_rule].
  assert (Hscan : scan (("rule", JStr name) :: filter_entry "apply_to_files" a ++ filter_entry "skip_files" sk ++ enc props)
                       scan_start = Some (Scan (Some name) props (opt_list a) (opt_list sk))).
  { cbn [Config.scan String.eqb Ascii.eqb Bool.eqb scan_start sc_rule sc_props sc_apply sc_skip].
    rewrite scan_apply_entry; [|right; exact I|reflexivity|exact Ha].
    rewrite scan_skip_entry; [|reflexivity|exact Hsk].
    cbn [sc_rule sc_props sc_apply sc_skip].
    destruct G as [ND [F _]].
    rewrite scan_enc; [reflexivity|exact ND|intros k _ []|].
    eapply Forall_impl; [|exact F]. intros kv [Hp _]. exact Hp. }
  rewrite Hscan. cbn [sc_rule sc_props sc_apply sc_skip]. rewrite Hs, (configure_good s props G), !or_nil_opt_list.
  reflexivity.
Qed.

(** reading back what the serializer wrote gives the same rule with its properties in key order *)
Lemma rule_read_back r :
  rule_inv r -> ser_complete r ->
  deserialize_rule (serialize_rule r) = Some (RuleCfg (r_name r) (sort_by_key (r_props r)) (r_apply r) (r_skip r)).
Proof.
  intros [s [Hs [G [Ha Hsk]]]] Hc.
  pose proof (good_props_perm s _ _ (Permutation_sym (sort_by_key_perm (r_props r))) G) as Gs.
  destruct (serialize_rule_shape r s Hs) as [[Hp [Hna [Hns Hser]]]|Hser];
    rewrite (ser_props_complete r s Hs Hc) in *.
  - rewrite Hser, Hp, Hna, Hns. cbn [Config.deserialize_rule]. rewrite Hs.
    rewrite Hp in Gs. rewrite (configure_good s [] Gs). reflexivity.
  - rewrite Hser. apply (read_ser_obj _ s); assumption.
Qed.

Theorem rule_roundtrip j r :
  deserialize_rule j = Some r -> ser_complete r ->
  exists r', deserialize_rule (serialize_rule r) = Some r' /\ rule_equiv r r'.
Proof.
  intros Hd Hc. eexists. split; [apply rule_read_back; [eapply deserialize_rule_inv; exact Hd|exact Hc]|].
  repeat split; cbn [r_name r_props r_apply r_skip]; try reflexivity.
  apply Permutation_sym. apply sort_by_key_perm.
Qed.

Theorem rule_injective j1 j2 r1 r2 :
  deserialize_rule j1 = Some r1 -> deserialize_rule j2 = Some r2 ->
  ser_complete r1 -> ser_complete r2 ->
  serialize_rule r1 = serialize_rule r2 -> rule_equiv r1 r2.
Proof.
  intros H1 H2 C1 C2 E.
  pose proof (rule_read_back r1 (deserialize_rule_inv _ _ H1) C1) as B1.
  pose proof (rule_read_back r2 (deserialize_rule_inv _ _ H2) C2) as B2.
  rewrite E, B2 in B1. inversion B1 as [[En Ep Ea Es]].
  repeat split; try congruence.
  rewrite <- (sort_by_key_perm (r_props r1)), <- (sort_by_key_perm (r_props r2)). rewrite Ep. reflexivity.
Qed.

(** an accepted rule object has no key outside {rule, apply_to_files, skip_files} and the properties of
    that rule, and every property value has the kind the rule expects *)
Lemma configure_props_strict s : forall ps out, configure_props s ps = Some out ->
  forall k v, In (k, v) ps -> exists p, find_prop s k = Some p /\ accepts_kind (p_kind p) v = true.
Proof.
  induction ps as [|[k0 v0] ps IH]; cbn [Config.configure_props]; intros out H k v Hin; [destruct Hin|].
  destruct (find_prop s k0) as [p|] eqn:Hf; [|discriminate].
  destruct (accepts_kind (p_kind p) v0) eqn:Ha; [|discriminate].
  destruct (configure_props s ps) as [out'|] eqn:Hc; [|discriminate].
  destruct Hin as [Heq|Hin].
  - inversion Heq; subst. exists p. split; assumption.
  - eapply IH; [reflexivity|exact Hin].
Qed.

Theorem rule_strict kvs r :
  deserialize_rule (JObj kvs) = Some r ->
  exists s, find_spec (r_name r) = Some s /\
  forall k j, In (k, j) kvs ->
    In k reserved \/ exists p, find_prop s k = Some p /\ accepts_kind (p_kind p) (classify j) = true.
Proof.
  cbn [Config.deserialize_rule].
  destruct (scan kvs scan_start) as [st|] eqn:Hscan; [|discriminate].
  destruct (sc_rule st) as [name|] eqn:Hn; [|discriminate].
  destruct (find_spec name) as [s|] eqn:Hs; [|discriminate].
  destruct (configure s (sc_props st)) as [ps|] eqn:Hc; [|discriminate]. intros [= <-].
  exists s. cbn [r_name]. split; [exact Hs|]. intros k j Hin.
  destruct (scan_keys _ _ _ Hscan) as [_ All]. destruct (All k j Hin) as [Hr|Hp]; [left; exact Hr|right].
  unfold Config.configure in Hc. destruct (required_ok s (sc_props st) && required_any_ok s (sc_props st) && collisions_ok s (sc_props st)); [|discriminate].
  eapply configure_props_strict; eassumption.
Qed.

(** no key twice *)
Theorem rule_no_duplicate_key : forall kvs r, deserialize_rule (JObj kvs) = Some r -> NoDup (map fst kvs).
Proof.
  intros kvs r. cbn [Config.deserialize_rule].
  destruct (scan kvs scan_start) as [st|] eqn:Hscan; [|discriminate]. intros _.
  (* generalized: keys already seen are those of the state *)
  assert (Gen : forall kvs st st', scan kvs st = Some st' ->
            NoDup (map fst kvs) /\
            (forall k, In k (map fst kvs) ->
               (k = "rule" -> sc_rule st = None) /\ (k = "apply_to_files" -> sc_apply st = None) /\
               (k = "skip_files" -> sc_skip st = None) /\ (~ In k reserved -> ~ In k (map fst (sc_props st))))).
  { clear. induction kvs as [|[k j] kvs IH]; cbn [Config.scan map fst]; intros st st' H.
    - split; [constructor|intros k []].
    - destruct (String.eqb k "rule") eqn:Ek1.
      { apply String.eqb_eq in Ek1. subst k. destruct (sc_rule st) eqn:Er; [discriminate|]. destruct j; try discriminate.
        destruct (IH _ _ H) as [ND Fresh]. cbn [sc_rule sc_props sc_apply sc_skip] in Fresh. split.
        - constructor; [|exact ND]. intros Hin. destruct (Fresh _ Hin) as [F1 _]. specialize (F1 eq_refl). discriminate.
        - intros k [<-|Hin].
          + repeat split; intros Hx; try discriminate Hx; try exact Er; try (exfalso; apply Hx; cbn; auto).
          + destruct (Fresh _ Hin) as [F1 [F2 [F3 F4]]]. repeat split; auto. }
      destruct (String.eqb k "apply_to_files") eqn:Ek2.
      { apply String.eqb_eq in Ek2. subst k. destruct (sc_apply st) eqn:Er; [discriminate|].
        destruct (one_or_many j); [|discriminate].
        destruct (IH _ _ H) as [ND Fresh]. cbn [sc_rule sc_props sc_apply sc_skip] in Fresh. split.
        - constructor; [|exact ND]. intros Hin. destruct (Fresh _ Hin) as [_ [F2 _]]. specialize (F2 eq_refl). discriminate.
        - intros k [<-|Hin].
          + repeat split; intros Hx; try discriminate Hx; try exact Er; try (exfalso; apply Hx; cbn; auto).
          + destruct (Fresh _ Hin) as [F1 [F2 [F3 F4]]]. repeat split; auto. }
      destruct (String.eqb k "skip_files") eqn:Ek3.
      { apply String.eqb_eq in Ek3. subst k. destruct (sc_skip st) eqn:Er; [discriminate|].
        destruct (one_or_many j); [|discriminate].
        destruct (IH _ _ H) as [ND Fresh]. cbn [sc_rule sc_props sc_apply sc_skip] in Fresh. split.
        - constructor; [|exact ND]. intros Hin. destruct (Fresh _ Hin) as [_ [_ [F3 _]]]. specialize (F3 eq_refl). discriminate.
        - intros k [<-|Hin].
          + repeat split; intros Hx; try discriminate Hx; try exact Er; try (exfalso; apply Hx; cbn; auto).
          + destruct (Fresh _ Hin) as [F1 [F2 [F3 F4]]]. repeat split; auto. }
      destruct (has_key k (sc_props st)) eqn:Ehk; [discriminate|].
      apply String.eqb_neq in Ek1, Ek2, Ek3.
      assert (Hnr : ~ In k reserved) by (unfold reserved; cbn [In]; intros [<-|[<-|[<-|[]]]]; congruence).
      destruct (IH _ _ H) as [ND Fresh]. cbn [sc_rule sc_props sc_apply sc_skip] in Fresh. split.
      + constructor; [|exact ND]. intros Hin. destruct (Fresh _ Hin) as [_ [_ [_ F4]]]. apply (F4 Hnr).
        rewrite map_app, in_app_iff. right. left. reflexivity.
      + intros k' [<-|Hin].
        * repeat split; try (intros ->; congruence). intros _. apply has_key_false_iff. exact Ehk.
        * destruct (Fresh _ Hin) as [F1 [F2 [F3 F4]]]. repeat split; auto.
          intros Hr Hin'. apply (F4 Hr). rewrite map_app, in_app_iff. left. exact Hin'. }
  destruct (Gen _ _ _ Hscan) as [ND _]. exact ND.
Qed.

End ConfigFacts.
