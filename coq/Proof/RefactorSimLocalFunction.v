(** C16, convert_local_function_to_assign ([rw_local_function], Model/Refactor.v) is sound for
    the reference interpreter: [local function x(ps) body end] and [local x = function(ps) body end]
    run every continuation alike when [x] is a parameter or [body] does not mention [x].
    The two statements leave stores that differ only in the record of the new closure
    (captured environment with / without [x], dropped annotations), related by [clos_rel];
    the continuation cannot tell (Proof/RefactorSim.v). *)
From Coq Require Import ZArith NArith List Bool String Lia.
From DL Require Import Lib.Bytes Lib.F64 Lua.Syntax Lua.Sem Model.Refactor.
From DL Require Import Proof.SemFacts Proof.DefaultRulesSem Proof.RefactorSem Proof.RefactorSimDefs.
From DL Require Import Proof.RefactorSimA Proof.RefactorSimB Proof.RefactorSim.
Import ListNotations.
Open Scope N_scope.

Theorem store_rel_refl s : store_rel s s.
Proof. exact (RefactorSimB.store_rel_refl s). Qed.

(** related stores are observed alike: same trace, same rendering of any values *)
Theorem store_rel_observation s1 s2 vs :
  store_rel s1 s2 -> rev (trace s1) = rev (trace s2) /\ map (render 3 s1) vs = map (render 3 s2) vs.
Proof.
  intros (_ & Ht & Htr & _). split; [now rewrite Htr|].
  apply map_ext. intros v. now apply render_rel.
Qed.

Lemma set_nth_last {A} (l : list A) (u v : A) :
  set_nth (l ++ [u]) (N.to_nat (N.of_nat (List.length l))) v = l ++ [v].
Proof.
  rewrite Nat2N.id. induction l as [|w l IH]; cbn [List.length app set_nth]; [reflexivity|].
  now rewrite IH.
Qed.

Lemma bind_ok_eq {A B} (m : M A) (f : A -> M B) s a s1 : m s = Ok a s1 -> bind m f s = f a s1.
Proof. intros H. unfold bind. now rewrite H. Qed.

Lemma has_parameter_in x ps : has_parameter x ps = true -> In x (param_names ps).
Proof.
  unfold has_parameter, param_names. intros H. apply existsb_exists in H as (p & Hp & E).
  apply bytes_eqb_eq in E. subst x. now apply in_map.
Qed.

Section LocalFunction.
Variable d : dialect.

(** the two statements, run from the same store *)
Definition lf_cell (s : store) : N := N.of_nat (List.length (cells s)).
Definition lf_clos (s : store) : N := N.of_nat (List.length (closures s)).

Lemma lf_lhs n rho va x f s :
  exec_stmt d (S n) rho va (SLocalFunction x f) s =
  Ok ((x, lf_cell s) :: rho, SigNone)
     (mkStore (set_nth (cells s ++ [VNil]) (N.to_nat (lf_cell s)) (VClosure (lf_clos s)))
              (tables s) (closures s ++ [mkClosure f ((x, lf_cell s) :: rho) false])
              (trace s) (oracle s) (fresh s)).
Proof. rewrite exec_stmt_S_localfunction. reflexivity. Qed.

Lemma lf_rhs n rho va x k f' s :
  exec_stmt d (S (S (S n))) rho va (SLocal k [Param x None] [EFunction f']) s =
  Ok ((x, lf_cell s) :: rho, SigNone)
     (mkStore (cells s ++ [VClosure (lf_clos s)])
              (tables s) (closures s ++ [mkClosure f' rho false])
              (trace s) (oracle s) (fresh s)).
Proof. rewrite exec_stmt_S_local, eval_list_S_one, eval_S_function. reflexivity. Qed.

(** the closure records the two statements create *)
Lemma lf_clos_rel x a rho ps v vt rt g at_ body :
  has_parameter x ps || negb (ment_block [x] body) = true ->
  clos_rel (mkClosure (FBody ps v vt rt g at_ body) ((x, a) :: rho) false)
           (mkClosure (FBody ps v None None None 0 body) rho false).
Proof.
  intros H. unfold clos_rel, effective_params, closure_variadic, closure_block.
  cbn [c_body c_env c_self]. repeat split; auto.
  intros y Hy. cbn [lookup]. destruct (bytes_eqb y x) eqn:E; [|now right].
  apply bytes_eqb_eq in E. subst y. left. rewrite Hy in H. cbn [negb] in H. rewrite orb_false_r in H.
  now apply has_parameter_in.
Qed.

Theorem local_function_sound n rho va x f rest last s :
  rw_local_function (SLocalFunction x f) <> SLocalFunction x f ->
  (4 <= n)%nat ->
  res_rel eq (exec_stmts d n rho va (SLocalFunction x f :: rest) last s)
             (exec_stmts d n rho va (rw_local_function (SLocalFunction x f) :: rest) last s).
Proof.
  intros Hfire Hn. destruct f as [ps v vt rt g at_ body]. cbn [rw_local_function] in *.
  destruct (has_parameter x ps || negb (ment_block [x] body)) eqn:Hg; [clear Hfire|now elim Hfire].
  unfold plain_function.
  destruct n as [|[|[|[|n]]]]; try lia.
  rewrite !exec_stmts_S_cons.
  rewrite (bind_ok_eq _ _ _ _ _ (lf_lhs _ _ _ _ _ _)), (bind_ok_eq _ _ _ _ _ (lf_rhs _ _ _ _ _ _ _)).
  unfold lf_cell, lf_clos. rewrite set_nth_last.
  unfold stmts_cont.
  apply sim_exec_stmts with (P := fun _ => true).
  - reflexivity.
  - apply env_agree_refl.
  - unfold store_rel. cbn [cells tables closures trace oracle fresh]. repeat split; auto.
    apply Forall2_app; [apply (RefactorSimB.store_rel_refl s)|].
    constructor; [|constructor]. now apply lf_clos_rel.
Qed.

End LocalFunction.

(** * Examples *)

Definition nm (s : string) : name := of_string s.
Definition num (z : Z) : expr := ENumber (NDec (to_bits (of_Z z)) None).

Definition returned (r : res signal) : option (list value) :=
  match r with Ok (SigReturn vs) _ => Some vs | _ => None end.
Definition is_err (r : res signal) : bool := match r with Err _ _ => true | _ => false end.

(** [local function f(a) return a end  return f(1)] *)
Definition ex_f : fbody :=
  FBody [Param (nm "a") None] false None None None 0 (Block [] (Some (LReturn [EIdent (nm "a")]))).
Definition ex_last : option laststmt :=
  Some (LReturn [ECall (EIdent (nm "f")) None (ATuple [num 1])]).

Example local_function_fires :
  rw_local_function (SLocalFunction (nm "f") ex_f) <> SLocalFunction (nm "f") ex_f.
Proof. vm_compute. discriminate. Qed.

Example local_function_sound_nonvacuous :
  returned (exec_stmts L51 30 [] [] [SLocalFunction (nm "f") ex_f] ex_last (initial_store [])) = Some [VNum (of_Z 1)] /\
  returned (exec_stmts L51 30 [] [] [rw_local_function (SLocalFunction (nm "f") ex_f)] ex_last (initial_store []))
  = Some [VNum (of_Z 1)].
Proof. split; vm_compute; reflexivity. Qed.

(** the fuel bound 4 is the smallest one: at fuel 3 the function statement is done while the
    function expression of the rewritten statement is still out of fuel *)
Example local_function_bound_tight :
  exec_stmts L51 3 [] [] [SLocalFunction (nm "f") ex_f] None (initial_store []) <> Fuel /\
  exec_stmts L51 3 [] [] [rw_local_function (SLocalFunction (nm "f") ex_f)] None (initial_store []) = Fuel.
Proof. split; vm_compute; [discriminate|reflexivity]. Qed.

(** [local function f(n) if n == 0 then return 0 end return f(n - 1) end  return f(1)]:
    the rule does not fire, and the UNGUARDED rewrite would change the result - the body's [f]
    becomes the global [f] (nil), the recursive call fails *)
Definition ex_rec : fbody :=
  FBody [Param (nm "n") None] false None None None 0
    (Block [SIf [SBranch (EBinary BEq (EIdent (nm "n")) (num 0)) (Block [] (Some (LReturn [num 0])))] None]
           (Some (LReturn [ECall (EIdent (nm "f")) None (ATuple [EBinary BSub (EIdent (nm "n")) (num 1)])]))).

Example local_function_recursive_refuted :
  exists d n rho va x f rest last s,
    rw_local_function (SLocalFunction x f) = SLocalFunction x f /\
    returned (exec_stmts d n rho va (SLocalFunction x f :: rest) last s) = Some [VNum (of_Z 0)] /\
    is_err (exec_stmts d n rho va (SLocal false [Param x None] [EFunction f] :: rest) last s) = true.
Proof.
  exists L51, 40%nat, [], [], (nm "f"), ex_rec, [], ex_last, (initial_store []).
  split; [|split]; vm_compute; reflexivity.
Qed.

Print Assumptions local_function_sound.
Print Assumptions sim_exec_stmts.
Print Assumptions store_rel_observation.
