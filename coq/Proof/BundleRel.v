(** Bundler model (Model/Bundle.v): the fuel-free big-step reading of [inline] / [visit (try_inline _)],
    one constructor per path through the code, and the fact that a run of the executable model
    is a derivation.  All invariants (BundleInv.v, BundleSound.v) go by induction on derivations. *)
From Coq Require Import NArith Arith PeanoNat List Bool Lia.
From DL Require Import Lib.Bytes Model.Rename Model.Bundle Proof.BundleSpec Proof.BundleBasics.
Import ListNotations.
Open Scope N_scope.

Section Rel.
Variable g : graph.

(** [Inl stack f s s' r]: inline_require(f) with require stack [stack] takes [s] to [s'] with result [r];
    [Vis stack rs s s' xs]: the call sites [rs], processed in order with require stack [stack] *)
Inductive Inl : list file -> file -> state -> state -> inlined -> Prop :=
| I_cached stack f s k :
    cache_get (cache s) f = Some k -> Inl stack f s s (inl k)
| I_cyclic stack f s i :
    cache_get (cache s) f = None -> index_of f stack = Some i ->
    Inl stack f s s (inr (ECyclic (skipn i stack ++ [f])))
| I_resource stack f s :
    cache_get (cache s) f = None -> index_of f stack = None ->
    (lookup g f = None \/ lookup g f = Some KBroken) ->
    Inl stack f s s (inr (EResource f))
| I_data stack f s :
    cache_get (cache s) f = None -> index_of f stack = None ->
    lookup g f = Some KData ->
    Inl stack f s (fst (define f [] s)) (inl (List.length (defs s)))
| I_lua stack f s reqs s1 sites :
    cache_get (cache s) f = None -> index_of f stack = None ->
    lookup g f = Some (KLua reqs (Some 1%nat)) ->
    Vis (stack ++ [f]) reqs s s1 sites ->
    Inl stack f s (fst (define f sites s1)) (inl (List.length (defs s1)))
| I_module stack f s reqs ret s1 sites :
    cache_get (cache s) f = None -> index_of f stack = None ->
    lookup g f = Some (KLua reqs ret) -> ret <> Some 1%nat ->
    Vis (stack ++ [f]) reqs s s1 sites ->
    Inl stack f s s1 (inr (EModule f))
with Vis : list file -> list req -> state -> state -> list site -> Prop :=
| V_nil stack s : Vis stack [] s s []
| V_notfound stack lit rest s s' xs :
    Vis stack rest (push_error (ENotFound lit) s) s' xs ->
    Vis stack (RNotFound lit :: rest) s s' (None :: xs)
| V_skip stack f rest s s' xs :
    memf f (skip s) = true ->
    Vis stack rest s s' xs ->
    Vis stack (RFile f :: rest) s s' (None :: xs)
| V_inl stack f rest s s1 k s' xs :
    memf f (skip s) = false ->
    Inl stack f s s1 (inl k) ->
    Vis stack rest s1 s' xs ->
    Vis stack (RFile f :: rest) s s' (Some k :: xs)
| V_inr stack f rest s s1 e s' xs :
    memf f (skip s) = false ->
    Inl stack f s s1 (inr e) ->
    Vis stack rest (add_skip f (push_error e s1)) s' xs ->
    Vis stack (RFile f :: rest) s s' (None :: xs).

Scheme Inl_mind := Minimality for Inl Sort Prop
  with Vis_mind := Minimality for Vis Sort Prop.
Combined Scheme Inl_Vis_ind from Inl_mind, Vis_mind.

(** ** a run is a derivation *)

Lemma visit_sound irec stack :
  (forall f s s' r, irec f s = Some (s', r) -> Inl stack f s s' r) ->
  forall rs s s' xs, visit (try_inline irec) rs s = Some (s', xs) -> Vis stack rs s s' xs.
Proof.
  intros HI rs; induction rs as [|r rs IH]; intros s s' xs H; cbn [visit] in H.
  - injection H as <- <-. constructor.
  - destruct (try_inline irec r s) as [[s1 x]|] eqn:E; [|discriminate].
    destruct (visit (try_inline irec) rs s1) as [[s2 ys]|] eqn:E2; [|discriminate].
    injection H as <- <-. apply IH in E2.
    destruct r as [f|lit]; cbn [try_inline] in E.
    + destruct (memf f (skip s)) eqn:Em.
      * injection E as <- <-. now apply V_skip.
      * destruct (irec f s) as [[s0 [k|e]]|] eqn:Ei; try discriminate; injection E as <- <-.
        -- eapply V_inl; eauto.
        -- eapply V_inr; eauto.
    + injection E as <- <-. now apply V_notfound.
Qed.

Lemma inline_sound : forall fuel stack f s s' r,
  inline g fuel stack f s = Some (s', r) -> Inl stack f s s' r.
Proof.
  induction fuel as [|fuel IH]; intros stack f s s' r H; [discriminate|].
  rewrite inline_S in H.
  destruct (cache_get (cache s) f) as [k|] eqn:Ec.
  { injection H as <- <-. now apply I_cached. }
  destruct (index_of f stack) as [i|] eqn:Ei.
  { injection H as <- <-. now apply I_cyclic. }
  destruct (lookup g f) as [[reqs ret| |]|] eqn:El.
  - destruct (visit (try_inline (inline g fuel (stack ++ [f]))) reqs s) as [[s1 sites]|] eqn:Ev;
      [|discriminate].
    apply (visit_sound _ (stack ++ [f]) (IH (stack ++ [f]))) in Ev.
    destruct ret as [[|[|n]]|].
    + injection H as <- <-. eapply I_module; eauto. discriminate.
    + unfold define in H. injection H as <- <-. eapply (I_lua stack f s reqs s1 sites); eauto.
    + injection H as <- <-. eapply I_module; eauto. discriminate.
    + injection H as <- <-. eapply I_module; eauto. discriminate.
  - unfold define in H. injection H as <- <-. now apply (I_data stack f s).
  - injection H as <- <-. apply I_resource; auto.
  - injection H as <- <-. apply I_resource; auto.
Qed.

Lemma run_entry_sound fuel roots s sites :
  run_entry g fuel roots = Some (s, sites) -> Vis [] roots init s sites.
Proof. unfold run_entry. apply visit_sound. apply inline_sound. Qed.

(** ** errors and definitions only grow *)

Definition grows (s s' : state) : Prop :=
  (exists more, defs s' = defs s ++ more) /\ (exists more, errors s' = errors s ++ more).

Lemma grows_refl s : grows s s.
Proof. split; exists []; now rewrite app_nil_r. Qed.

Lemma grows_trans s1 s2 s3 : grows s1 s2 -> grows s2 s3 -> grows s1 s3.
Proof.
  intros [[d1 D1] [e1 E1]] [[d2 D2] [e2 E2]]. split.
  - exists (d1 ++ d2). now rewrite D2, D1, app_assoc.
  - exists (e1 ++ e2). now rewrite E2, E1, app_assoc.
Qed.

Lemma grows_define f sites s : grows s (fst (define f sites s)).
Proof. split; cbn; [now exists [(f, sites)]|exists []; now rewrite app_nil_r]. Qed.

Lemma grows_push e s : grows s (push_error e s).
Proof. split; cbn; [exists []; now rewrite app_nil_r|now exists [e]]. Qed.

Lemma grows_skip_push f e s : grows s (add_skip f (push_error e s)).
Proof. split; cbn; [exists []; now rewrite app_nil_r|now exists [e]]. Qed.

Lemma Inl_Vis_grows :
  (forall stack f s s' r, Inl stack f s s' r -> grows s s') /\
  (forall stack rs s s' xs, Vis stack rs s s' xs -> grows s s').
Proof.
  apply Inl_Vis_ind; intros; try apply grows_refl.
  - apply grows_define.
  - eapply grows_trans; [eassumption|apply grows_define].
  - assumption.
  - eapply grows_trans; [apply grows_push|eassumption].
  - assumption.
  - eapply grows_trans; eassumption.
  - eapply grows_trans; [eassumption|]. eapply grows_trans; [apply grows_skip_push|eassumption].
Qed.

Definition Inl_grows := proj1 Inl_Vis_grows.
Definition Vis_grows := proj2 Inl_Vis_grows.

Lemma grows_errors_nonempty s s' : grows s s' -> errors s <> [] -> errors s' <> [].
Proof. intros [_ [m E]] H. rewrite E. destruct (errors s); [contradiction|discriminate]. Qed.

Lemma grows_errors_nil s s' : grows s s' -> errors s' = [] -> errors s = [].
Proof. intros [_ [m E]] H. rewrite E in H. now apply app_eq_nil in H. Qed.

Lemma grows_nth_fst s s' k f : grows s s' ->
  nth_error (map fst (defs s)) k = Some f -> nth_error (map fst (defs s')) k = Some f.
Proof. intros [[m E] _] H. rewrite E, map_app. now apply nth_error_app_some. Qed.

Lemma grows_len s s' : grows s s' -> (List.length (defs s) <= List.length (defs s'))%nat.
Proof. intros [[m E] _]. rewrite E, app_length. lia. Qed.

End Rel.
