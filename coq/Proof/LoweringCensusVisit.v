(** Generic theorems about the traversal of Model/Visit.v, for any processor [H]:

    - [visit_weight]: if the hooks do not increase the size measure, neither does the traversal;
    - [visit_gen]: an invariant theorem.  For a family of predicates [P] on nodes such that
      the hooks map a [P]-node to a node whose root carries no occurrence of feature [i] and
      whose children are [P]-nodes again, the traversal of a [P]-node with fuel at least its
      size yields a tree without any occurrence of feature [i];
    - its two instances: [visit_removes] (a rule removes every occurrence of the construct
      whose root it rewrites: [P] = every node) and [visit_preserves] (a rule whose hooks
      introduce no occurrence of feature [j] into trees free of it keeps trees free of it);
    - [visit_stable]: fuel at least the size of the tree is sufficient - the result is the
      same for every larger fuel. *)
From Coq Require Import ZArith NArith List Bool Lia ZifyBool ZifyN ZifyNat.
From DL Require Import Lib.Bytes Lua.Syntax Lua.Census Model.Visit Proof.LoweringCensusBase
  Proof.LoweringCensusKids.
Import ListNotations.
Local Open Scope nat_scope.

(** the visitors of one level: fuel [n], [k] live temporaries ([kc] for a repeat condition) *)
Definition Vof (H : hooks) (n k kc : nat) : vis :=
  mkVis (visit_expr H n k) (visit_prefix H n k) (visit_var H n k) (visit_call H n k) (visit_expr H n kc)
        (visit_block H n k) (visit_ty H n k).

Section Unfold.
Variable H : hooks.

Lemma visit_expr_S n k e :
  visit_expr H (S n) k e =
  expr_children (ve (Vof H n k k)) (vp (Vof H n k k)) (vb (Vof H n k k)) (vt (Vof H n k k)) (h_expr H e).
Proof. reflexivity. Qed.
Lemma visit_prefix_S n k e :
  visit_prefix H (S n) k e =
  expr_children (ve (Vof H n k k)) (vp (Vof H n k k)) (vb (Vof H n k k)) (vt (Vof H n k k))
                (if is_prefix_form e then h_prefix H e else h_expr H e).
Proof. reflexivity. Qed.
Lemma visit_var_S n k e :
  visit_var H (S n) k e =
  expr_children (ve (Vof H n k k)) (vp (Vof H n k k)) (vb (Vof H n k k)) (vt (Vof H n k k))
                (if is_var_form e then e else h_expr H e).
Proof. reflexivity. Qed.
Lemma visit_call_S n k e :
  visit_call H (S n) k e =
  expr_children (ve (Vof H n k k)) (vp (Vof H n k k)) (vb (Vof H n k k)) (vt (Vof H n k k))
                (if is_call_form e then e else h_expr H e).
Proof. reflexivity. Qed.
Lemma visit_ty_S n k t :
  visit_ty H (S n) k t = ty_children (ve (Vof H n k k)) (vt (Vof H n k k)) t.
Proof. reflexivity. Qed.

Definition repeat_k (k' : nat) (s' : stmt) : nat :=
  match s' with SRepeat b _ => final_k H k' b | _ => k' end.

Lemma visit_stmt_S n k s :
  visit_stmt H (S n) k s =
  (let s' := fst (h_stmt H k s) in let k' := snd (h_stmt H k s) in
   let V := Vof H n k' (repeat_k k' s') in
   (stmt_children (ve V) (vb V) (vt V) (vv V) (vc V) (vr V) s', k')).
Proof.
  change (visit_stmt H (S n) k s) with
    (let (s', k') := h_stmt H k s in
     let kc := match s' with SRepeat b _ => final_k H k' b | _ => k' end in
     (stmt_children (visit_expr H n k') (visit_block H n k') (visit_ty H n k')
                    (visit_var H n k') (visit_call H n k') (visit_expr H n kc) s', k')).
  destruct (h_stmt H k s) as [s' k']. reflexivity.
Qed.

Lemma visit_block_S n k b :
  visit_block H (S n) k b =
  match h_block H b with
  | Block ss last =>
    Block (fst (thread (visit_stmt H n) k ss))
          (option_map (last_children (visit_expr H n (snd (thread (visit_stmt H n) k ss)))) last)
  end.
Proof.
  change (visit_block H (S n) k b) with
    (match h_block H b with
     | Block ss last =>
       let (ss', k') := thread (visit_stmt H n) k ss in
       Block ss' (option_map (last_children (visit_expr H n k')) last)
     end).
  destruct (h_block H b) as [ss last].
  destruct (thread (visit_stmt H n) k ss) as [ss' k']. reflexivity.
Qed.
End Unfold.

(** * [thread] *)
Lemma thread_cons f k x r :
  thread f k (x :: r) = (fst (f k x) :: fst (thread f (snd (f k x)) r), snd (thread f (snd (f k x)) r)).
Proof. cbn [thread]. destruct (f k x) as [x' k']. cbn [fst snd]. destruct (thread f k' r). reflexivity. Qed.

Lemma thread_Forall (Q : stmt -> Prop) f l : (forall k s, In s l -> Q (fst (f k s))) ->
  forall k, Forall Q (fst (thread f k l)).
Proof.
  induction l as [|x r IH]; intros Hq k; [constructor|].
  rewrite thread_cons. cbn [fst]. constructor; [apply Hq; left; reflexivity|].
  apply IH. intros; apply Hq; right; assumption.
Qed.

Lemma thread_weight f l : (forall k s, In s l -> w_stmt (fst (f k s)) <= w_stmt s) ->
  forall k, sum (map w_stmt (fst (thread f k l))) <= sum (map w_stmt l).
Proof.
  induction l as [|x r IH]; intros Hq k; [cbn; lia|].
  rewrite thread_cons. cbn [fst map]. rewrite !sum_cons.
  pose proof (Hq k x (or_introl eq_refl)).
  assert (sum (map w_stmt (fst (thread f (snd (f k x)) r))) <= sum (map w_stmt r))
    by (apply IH; intros; apply Hq; right; assumption). lia.
Qed.

Lemma thread_ext f g l : (forall k s, In s l -> f k s = g k s) -> forall k, thread f k l = thread g k l.
Proof.
  induction l as [|x r IH]; intros Hq k; [reflexivity|].
  rewrite !thread_cons. rewrite (Hq k x (or_introl eq_refl)).
  rewrite IH by (intros; apply Hq; right; assumption). reflexivity.
Qed.

(** * Weight *)
Definition hooks_w (H : hooks) : Prop :=
  (forall e, w_expr (h_expr H e) <= w_expr e) /\
  (forall e, w_expr (h_prefix H e) <= w_expr e) /\
  (forall k s, w_stmt (fst (h_stmt H k s)) <= w_stmt s) /\
  (forall b, w_block (h_block H b) <= w_block b).

Definition weight_at (H : hooks) (n : nat) : Prop :=
  (forall k e, w_expr (visit_expr H n k e) <= w_expr e) /\
  (forall k e, w_expr (visit_prefix H n k e) <= w_expr e) /\
  (forall k e, w_expr (visit_var H n k e) <= w_expr e) /\
  (forall k e, w_expr (visit_call H n k e) <= w_expr e) /\
  (forall k t, w_ty (visit_ty H n k t) <= w_ty t) /\
  (forall k s, w_stmt (fst (visit_stmt H n k s)) <= w_stmt s) /\
  (forall k b, w_block (visit_block H n k b) <= w_block b).

Theorem visit_weight H : hooks_w H -> forall n, weight_at H n.
Proof.
  intros (We & Wp & Ws & Wb). induction n as [|n IH].
  - unfold weight_at. repeat match goal with |- _ /\ _ => split end; intros; cbn; lia.
  - destruct IH as (Ie & Ip & Iv & Ic & It & Is & Ib).
    assert (forall k kc e', w_expr (expr_children (ve (Vof H n k kc)) (vp (Vof H n k kc)) (vb (Vof H n k kc))
                                                   (vt (Vof H n k kc)) e') <= w_expr e') as X.
    { intros k kc e'. apply w_expr_children; cbn [Vof ve vp vv vc vr vb vt]; auto. }
    unfold weight_at. repeat match goal with |- _ /\ _ => split end.
    + intros k e. rewrite visit_expr_S. pose proof (X k k (h_expr H e)). pose proof (We e). lia.
    + intros k e. rewrite visit_prefix_S. destruct (is_prefix_form e).
      * pose proof (X k k (h_prefix H e)). pose proof (Wp e). lia.
      * pose proof (X k k (h_expr H e)). pose proof (We e). lia.
    + intros k e. rewrite visit_var_S. destruct (is_var_form e).
      * apply X.
      * pose proof (X k k (h_expr H e)). pose proof (We e). lia.
    + intros k e. rewrite visit_call_S. destruct (is_call_form e).
      * apply X.
      * pose proof (X k k (h_expr H e)). pose proof (We e). lia.
    + intros k t. rewrite visit_ty_S. apply w_ty_children; cbn [Vof ve vp vv vc vr vb vt]; auto.
    + intros k s. rewrite visit_stmt_S. cbv zeta. cbn [fst].
      pose proof (Ws k s).
      match goal with |- w_stmt (stmt_children (ve ?V) _ _ _ _ _ ?s') <= _ =>
        assert (w_stmt (stmt_children (ve V) (vb V) (vt V) (vv V) (vc V) (vr V) s') <= w_stmt s')
          by (apply w_stmt_children; cbn [Vof ve vp vv vc vr vb vt]; auto) end.
      lia.
    + intros k b. rewrite visit_block_S. pose proof (Wb b). destruct (h_block H b) as [ss last].
      weq. weq_in H0.
      pose proof (thread_weight (visit_stmt H n) ss (fun k s _ => Is k s) k).
      assert (wopt w_last (option_map (last_children (visit_expr H n (snd (thread (visit_stmt H n) k ss)))) last)
              <= wopt w_last last).
      { destruct last as [l|]; cbn [option_map wopt]; [|lia].
        apply (w_last_children (Vof H n (snd (thread (visit_stmt H n) k ss)) 0)); cbn [Vof ve vp vv vc vr vb vt]; auto. }
      lia.
Qed.

(** * The invariant theorem *)
Record pre := mkPre { pe : expr -> Prop; pb : block -> Prop; pt : ty -> Prop; ps : stmt -> Prop }.

Definition pkid (P : pre) (c : kid) : Prop :=
  match c with
  | KE e | KP e | KV e | KC e | KR e => pe P e
  | KB b => pb P b
  | KT t => pt P t
  end.

Section Gen.
Variable i : nat.
Variable H : hooks.
Variable P : pre.
Hypothesis HW : hooks_w H.
Hypothesis C_expr : forall e, pe P e ->
  root_expr i (h_expr H e) = 0%N /\ forall c, In c (kids_expr (h_expr H e)) -> pkid P c.
Hypothesis C_prefix : forall e, pe P e -> is_prefix_form e = true ->
  root_expr i (h_prefix H e) = 0%N /\ forall c, In c (kids_expr (h_prefix H e)) -> pkid P c.
Hypothesis C_plain : forall e, pe P e -> is_var_form e = true \/ is_call_form e = true ->
  root_expr i e = 0%N /\ forall c, In c (kids_expr e) -> pkid P c.
Hypothesis C_ty : forall t, pt P t -> u i 7 = 0%N /\ forall c, In c (kids_ty t) -> pkid P c.
Hypothesis C_stmt : forall k s, ps P s ->
  root_stmt i (fst (h_stmt H k s)) = 0%N /\ forall c, In c (kids_stmt (fst (h_stmt H k s))) -> pkid P c.
Hypothesis C_block : forall b, pb P b ->
  match h_block H b with
  | Block ss last =>
    (forall s, In s ss -> ps P s) /\
    (forall l, last = Some l -> root_last i l = 0%N /\ forall c, In c (kids_last l) -> pkid P c)
  end.

Definition gen_at (n : nat) : Prop :=
  (forall k e, pe P e -> w_expr e <= n -> f_expr i (visit_expr H n k e) = 0%N) /\
  (forall k e, pe P e -> w_expr e <= n -> f_expr i (visit_prefix H n k e) = 0%N) /\
  (forall k e, pe P e -> w_expr e <= n -> f_expr i (visit_var H n k e) = 0%N) /\
  (forall k e, pe P e -> w_expr e <= n -> f_expr i (visit_call H n k e) = 0%N) /\
  (forall k t, pt P t -> w_ty t <= n -> f_ty i (visit_ty H n k t) = 0%N) /\
  (forall k s, ps P s -> w_stmt s <= n -> f_stmt i (fst (visit_stmt H n k s)) = 0%N) /\
  (forall k b, pb P b -> w_block b <= n -> f_block i (visit_block H n k b) = 0%N).

Lemma kid_step n k kc : gen_at n -> forall c, pkid P c -> w_kid c <= n -> f_kid i (vkid (Vof H n k kc) c) = 0%N.
Proof.
  intros (Ie & Ip & Iv & Ic & It & Is & Ib) c Hc Hw.
  destruct c; cbn [vkid f_kid Vof ve vp vv vc vr vb vt] in *; auto.
Qed.

Lemma expr_step n k e' : gen_at n -> w_expr e' <= S n ->
  root_expr i e' = 0%N -> (forall c, In c (kids_expr e') -> pkid P c) ->
  f_expr i (expr_children (ve (Vof H n k k)) (vp (Vof H n k k)) (vb (Vof H n k k)) (vt (Vof H n k k)) e') = 0%N.
Proof.
  intros G Hw Hr Hk. rewrite f_expr_children; [exact Hr|].
  intros c Hc. apply kid_step; [exact G|apply Hk, Hc|]. pose proof (w_kids_expr e' c Hc). lia.
Qed.

Theorem visit_gen : forall n, gen_at n.
Proof.
  destruct HW as (We & Wp & Ws & Wb).
  induction n as [|n IH].
  - unfold gen_at. repeat match goal with |- _ /\ _ => split end; intros k x _ Hx; exfalso;
      [pose proof (w_expr_pos x)|pose proof (w_expr_pos x)|pose proof (w_expr_pos x)|pose proof (w_expr_pos x)
      |pose proof (w_ty_pos x)|pose proof (w_stmt_pos x)|pose proof (w_block_pos x)]; lia.
  - unfold gen_at. repeat match goal with |- _ /\ _ => split end.
    + intros k e Hp Hw. rewrite visit_expr_S. destruct (C_expr e Hp) as [Hr Hk].
      apply expr_step; auto. pose proof (We e). lia.
    + intros k e Hp Hw. rewrite visit_prefix_S. destruct (is_prefix_form e) eqn:E.
      * destruct (C_prefix e Hp E) as [Hr Hk]. apply expr_step; auto. pose proof (Wp e). lia.
      * destruct (C_expr e Hp) as [Hr Hk]. apply expr_step; auto. pose proof (We e). lia.
    + intros k e Hp Hw. rewrite visit_var_S. destruct (is_var_form e) eqn:E.
      * destruct (C_plain e Hp (or_introl E)) as [Hr Hk]. apply expr_step; auto.
      * destruct (C_expr e Hp) as [Hr Hk]. apply expr_step; auto. pose proof (We e). lia.
    + intros k e Hp Hw. rewrite visit_call_S. destruct (is_call_form e) eqn:E.
      * destruct (C_plain e Hp (or_intror E)) as [Hr Hk]. apply expr_step; auto.
      * destruct (C_expr e Hp) as [Hr Hk]. apply expr_step; auto. pose proof (We e). lia.
    + intros k t Hp Hw. rewrite visit_ty_S. destruct (C_ty t Hp) as [Hr Hk].
      rewrite f_ty_children; [exact Hr|].
      intros c Hc. apply kid_step; [exact IH|apply Hk, Hc|]. pose proof (w_kids_ty t c Hc). lia.
    + intros k s Hp Hw. rewrite visit_stmt_S. cbv zeta. cbn [fst].
      destruct (C_stmt k s Hp) as [Hr Hk].
      rewrite f_stmt_children; [exact Hr|].
      intros c Hc. apply kid_step; [exact IH|apply Hk, Hc|].
      pose proof (w_kids_stmt _ c Hc). pose proof (Ws k s). lia.
    + intros k b Hp Hw. rewrite visit_block_S. pose proof (C_block b Hp) as Cb. pose proof (Wb b) as Wbb.
      destruct (h_block H b) as [ss last]. destruct Cb as [Css Cl]. weq_in Wbb. feq.
      destruct IH as (Ie & Ip & Iv & Ic & It & Is & Ib).
      assert (sumN (map (f_stmt i) (fst (thread (visit_stmt H n) k ss))) = 0%N) as ->.
      { apply sumN_map_zero. apply Forall_forall. apply thread_Forall.
        intros k0 s Hs. apply Is; [apply Css, Hs|]. pose proof (sum_in w_stmt ss s Hs). lia. }
      destruct last as [l|]; cbn [option_map optN]; [|reflexivity].
      destruct (Cl l eq_refl) as [Hr Hk].
      rewrite (f_last_children i (Vof H n (snd (thread (visit_stmt H n) k ss)) 0)); [rewrite Hr; reflexivity|].
      intros c Hc. apply kid_step; [unfold gen_at; auto 10|apply Hk, Hc|].
      pose proof (w_kids_last l c Hc). cbn [wopt] in Wbb. lia.
Qed.
End Gen.

(** * Instance 1: the rule removes the construct *)
Definition tyfree (i : nat) (l : list kid) : Prop :=
  forall c, In c l -> match c with KT _ => u i 7 = 0%N | _ => True end.

Lemma plain_forms_ok i e : is_var_form e = true \/ is_call_form e = true ->
  root_expr i e = 0%N /\ tyfree i (kids_expr e).
Proof.
  intros [E|E]; destruct e; try discriminate E; (split; [reflexivity|]); intros c Hc; cbn [kids_expr] in Hc.
  - contradiction.
  - destruct Hc as [<-|[]]. exact I.
  - destruct Hc as [<-|[<-|[]]]; exact I.
  - destruct Hc as [<-|Hc]; [exact I|]. destruct a; cbn [kids_args] in Hc.
    + apply in_map_iff in Hc as (x & <- & _). exact I.
    + contradiction.
    + apply in_flat_map in Hc as ([f v|k0 v|v] & _ & Hc); cbn in Hc; intuition (subst; exact I).
Qed.

Section Removes.
Variable i : nat.
Variable H : hooks.
Variable okS : stmt -> Prop.       (* the statements a processed block can hold *)
Hypothesis HW : hooks_w H.
Hypothesis R_expr : forall e, root_expr i (h_expr H e) = 0%N /\ tyfree i (kids_expr (h_expr H e)).
Hypothesis R_prefix : forall e, is_prefix_form e = true ->
  root_expr i (h_prefix H e) = 0%N /\ tyfree i (kids_expr (h_prefix H e)).
Hypothesis R_stmt : forall k s, okS s ->
  root_stmt i (fst (h_stmt H k s)) = 0%N /\ tyfree i (kids_stmt (fst (h_stmt H k s))).
Hypothesis R_block : forall b,
  match h_block H b with
  | Block ss last => (forall s, In s ss -> okS s) /\ (forall l, last = Some l -> root_last i l = 0%N)
  end.

Definition P_all : pre := mkPre (fun _ => True) (fun _ => True) (fun _ => u i 7 = 0%N) okS.

Lemma tyfree_pkid l : tyfree i l -> forall c, In c l -> pkid P_all c.
Proof. intros T c Hc. specialize (T c Hc). destruct c; cbn; auto. Qed.

Theorem visit_removes : forall n, gen_at i H P_all n.
Proof.
  apply visit_gen; try exact HW.
  - intros e _. destruct (R_expr e) as [A B]. split; [exact A|apply tyfree_pkid, B].
  - intros e _ E. destruct (R_prefix e E) as [A B]. split; [exact A|apply tyfree_pkid, B].
  - intros e _ E. destruct (plain_forms_ok i e E) as [A B]. split; [exact A|apply tyfree_pkid, B].
  - intros t Ht. split; [exact Ht|]. intros c Hc. destruct t as [k subs es]. cbn [kids_ty] in Hc.
    apply in_app_or in Hc as [Hc|Hc]; apply in_map_iff in Hc as (x & <- & _); cbn; auto.
  - intros k s Hs. destruct (R_stmt k s Hs) as [A B]. split; [exact A|apply tyfree_pkid, B].
  - intros b _. pose proof (R_block b) as Rb. destruct (h_block H b) as [ss last]. destruct Rb as [Rs Rl].
    split; [exact Rs|].
    intros l ->. split; [apply Rl; reflexivity|]. intros c Hc. destruct l; cbn [kids_last] in Hc; try contradiction.
    apply in_map_iff in Hc as (x & <- & _). exact I.
Qed.
End Removes.

(** * Instance 2: the rule keeps a tree free of feature [j] free of it *)
Section Preserves.
Variable j : nat.
Variable H : hooks.
Hypothesis HW : hooks_w H.
Hypothesis Z_expr : forall e, f_expr j e = 0%N -> f_expr j (h_expr H e) = 0%N.
Hypothesis Z_prefix : forall e, f_expr j e = 0%N -> f_expr j (h_prefix H e) = 0%N.
Hypothesis Z_stmt : forall k s, f_stmt j s = 0%N -> f_stmt j (fst (h_stmt H k s)) = 0%N.
Hypothesis Z_block : forall b, f_block j b = 0%N -> f_block j (h_block H b) = 0%N.

Definition P_zero : pre :=
  mkPre (fun e => f_expr j e = 0%N) (fun b => f_block j b = 0%N) (fun t => f_ty j t = 0%N) (fun s => f_stmt j s = 0%N).

Lemma zero_pkid l : (forall c, In c l -> f_kid j c = 0%N) -> forall c, In c l -> pkid P_zero c.
Proof. intros T c Hc. specialize (T c Hc). destruct c; cbn in *; auto. Qed.

Theorem visit_preserves : forall n, gen_at j H P_zero n.
Proof.
  apply visit_gen; try exact HW.
  - intros e He. destruct (f_expr_zero_inv j _ (Z_expr e He)) as [A B]. split; [exact A|apply zero_pkid, B].
  - intros e He _. destruct (f_expr_zero_inv j _ (Z_prefix e He)) as [A B]. split; [exact A|apply zero_pkid, B].
  - intros e He _. destruct (f_expr_zero_inv j _ He) as [A B]. split; [exact A|apply zero_pkid, B].
  - intros t Ht. destruct (f_ty_zero_inv j _ Ht) as [A B]. split; [exact A|apply zero_pkid, B].
  - intros k s Hs. destruct (f_stmt_zero_inv j _ (Z_stmt k s Hs)) as [A B]. split; [exact A|apply zero_pkid, B].
  - intros b Hb. pose proof (Z_block b Hb) as Zb. destruct (h_block H b) as [ss last]. revert Zb. feq. intros Zb.
    split.
    + intros s Hs. cbn [P_zero ps]. apply (sumN_map_zero_inv (f_stmt j) ss); [lia|exact Hs].
    + intros l ->. cbn [optN] in Zb. assert (f_last j l = 0%N) as Zl by lia.
      destruct (f_last_zero_inv j _ Zl) as [A B]. split; [exact A|apply zero_pkid, B].
Qed.
End Preserves.

(** * Sufficiency of the fuel *)
Definition stable_at (H : hooks) (n : nat) : Prop :=
  forall m,
  (forall k e, w_expr e <= n -> w_expr e <= m -> visit_expr H n k e = visit_expr H m k e) /\
  (forall k e, w_expr e <= n -> w_expr e <= m -> visit_prefix H n k e = visit_prefix H m k e) /\
  (forall k e, w_expr e <= n -> w_expr e <= m -> visit_var H n k e = visit_var H m k e) /\
  (forall k e, w_expr e <= n -> w_expr e <= m -> visit_call H n k e = visit_call H m k e) /\
  (forall k t, w_ty t <= n -> w_ty t <= m -> visit_ty H n k t = visit_ty H m k t) /\
  (forall k s, w_stmt s <= n -> w_stmt s <= m -> visit_stmt H n k s = visit_stmt H m k s) /\
  (forall k b, w_block b <= n -> w_block b <= m -> visit_block H n k b = visit_block H m k b).

Lemma kid_agree_step H n m k kc : stable_at H n ->
  forall c, w_kid c <= n -> w_kid c <= m -> kid_agree (Vof H n k kc) (Vof H m k kc) c.
Proof.
  intros S c Hn Hm. destruct (S m) as (Ie & Ip & Iv & Ic & It & Is & Ib).
  destruct c; unfold kid_agree; cbn [vkid Vof ve vp vv vc vr vb vt w_kid] in *; f_equal; auto.
Qed.

Theorem visit_stable H : hooks_w H -> forall n, stable_at H n.
Proof.
  intros (We & Wp & Ws & Wb). induction n as [|n IH].
  - intros m. repeat match goal with |- _ /\ _ => split end; intros k x Hx; exfalso;
      [pose proof (w_expr_pos x)|pose proof (w_expr_pos x)|pose proof (w_expr_pos x)|pose proof (w_expr_pos x)
      |pose proof (w_ty_pos x)|pose proof (w_stmt_pos x)|pose proof (w_block_pos x)]; lia.
  - intros m. destruct m as [|m].
    { repeat match goal with |- _ /\ _ => split end; intros k x _ Hx; exfalso;
      [pose proof (w_expr_pos x)|pose proof (w_expr_pos x)|pose proof (w_expr_pos x)|pose proof (w_expr_pos x)
      |pose proof (w_ty_pos x)|pose proof (w_stmt_pos x)|pose proof (w_block_pos x)]; lia. }
    assert (forall k kc e', w_expr e' <= S n -> w_expr e' <= S m ->
      expr_children (ve (Vof H n k kc)) (vp (Vof H n k kc)) (vb (Vof H n k kc)) (vt (Vof H n k kc)) e' =
      expr_children (ve (Vof H m k kc)) (vp (Vof H m k kc)) (vb (Vof H m k kc)) (vt (Vof H m k kc)) e') as X.
    { intros k kc e' Hn Hm. apply expr_children_agree. intros c Hc. pose proof (w_kids_expr e' c Hc).
      apply kid_agree_step; [exact IH|lia|lia]. }
    repeat match goal with |- _ /\ _ => split end.
    + intros k e Hn Hm. rewrite !visit_expr_S. pose proof (We e). apply X; lia.
    + intros k e Hn Hm. rewrite !visit_prefix_S. pose proof (We e). pose proof (Wp e).
      destruct (is_prefix_form e); apply X; lia.
    + intros k e Hn Hm. rewrite !visit_var_S. pose proof (We e). destruct (is_var_form e); apply X; lia.
    + intros k e Hn Hm. rewrite !visit_call_S. pose proof (We e). destruct (is_call_form e); apply X; lia.
    + intros k t Hn Hm. rewrite !visit_ty_S.
      apply (ty_children_agree (Vof H n k k) (Vof H m k k)). intros c Hc. pose proof (w_kids_ty t c Hc).
      apply kid_agree_step; [exact IH|lia|lia].
    + intros k s Hn Hm. rewrite !visit_stmt_S. cbv zeta. f_equal.
      apply stmt_children_agree. intros c Hc. pose proof (w_kids_stmt _ c Hc). pose proof (Ws k s).
      apply kid_agree_step; [exact IH|lia|lia].
    + intros k b Hn Hm. rewrite !visit_block_S. pose proof (Wb b) as Wbb. destruct (h_block H b) as [ss last].
      weq_in Wbb.
      assert (thread (visit_stmt H n) k ss = thread (visit_stmt H m) k ss) as ->.
      { apply thread_ext. intros k0 s Hs. pose proof (sum_in w_stmt ss s Hs).
        destruct (IH m) as (_ & _ & _ & _ & _ & Is & _). apply Is; lia. }
      f_equal. destruct last as [l|]; [|reflexivity]. cbn [option_map]. f_equal.
      apply (last_children_agree (Vof H n (snd (thread (visit_stmt H m) k ss)) 0)
                                 (Vof H m (snd (thread (visit_stmt H m) k ss)) 0)).
      intros c Hc. pose proof (w_kids_last l c Hc). cbn [wopt] in Wbb.
      apply kid_agree_step; [exact IH|lia|lia].
Qed.

(** a rule run with fuel [w_block b] gives the result of every larger fuel *)
Corollary run_rule_stable H b n : hooks_w H -> w_block b <= n -> visit_block H n 0 b = run_rule H b.
Proof.
  intros HW Hn. unfold run_rule. symmetry.
  destruct (visit_stable H HW (w_block b) n) as (_ & _ & _ & _ & _ & _ & Hb). apply Hb; lia.
Qed.
