(** Basis of the C07 proofs.

    1. [f_*]: the feature census of [Lua/Census.v] read at one index, as plain sums in [N],
       and the bridge [census_nth]: [nth i (c_x x) 0 = f_x i x] (with [length (c_x x) = 9]),
       by induction on the size measure [w_*] of Model/Visit.v (the syntax is a nested mutual
       inductive type; the size measure gives the induction principle).
    2. one level of a tree: the root's own contribution [root_*], its children [kids_*]
       tagged by the position in which the traversal visits them, and the facts
         F1  f x = root x + sum of f over the kids,
         F2  the children maps of Model/Visit.v map the kids and keep the root,
         F3  every kid is lighter than its parent,
         F4  children maps that agree on the kids agree on the node,
       plus: children maps with weight-non-increasing visitors do not increase the weight. *)
From Coq Require Import ZArith NArith List Bool Lia ZifyBool ZifyN ZifyNat.
From DL Require Import Lib.Bytes Lua.Syntax Lua.Census Model.Visit.
Import ListNotations.
Local Open Scope nat_scope.

(** * Sums *)

Definition sumN (l : list N) : N := fold_right N.add 0%N l.
Definition optN {A} (f : A -> N) (o : option A) : N := match o with Some a => f a | None => 0%N end.

Lemma sumN_app a b : sumN (a ++ b) = (sumN a + sumN b)%N.
Proof. induction a as [|x a IH]; cbn [sumN fold_right app]; [reflexivity|]. fold (sumN (a ++ b)) (sumN a). lia. Qed.

Lemma sumN_cons x a : sumN (x :: a) = (x + sumN a)%N.
Proof. reflexivity. Qed.

Lemma sumN_flat_map {A B} (f : B -> N) (g : A -> list B) l :
  sumN (map f (flat_map g l)) = sumN (map (fun x => sumN (map f (g x))) l).
Proof.
  induction l as [|x l IH]; [reflexivity|].
  cbn [flat_map map]. rewrite map_app, sumN_app, IH. reflexivity.
Qed.

Lemma sumN_zero l : sumN l = 0%N <-> Forall (fun x => x = 0%N) l.
Proof.
  induction l as [|x l IH]; [split; [constructor|reflexivity]|].
  rewrite sumN_cons. split.
  - intros H. constructor; [lia|]. apply IH. lia.
  - intros H. inversion H; subst. apply IH in H3. lia.
Qed.

Lemma sumN_map_zero {A} (f : A -> N) l : (forall x, In x l -> f x = 0%N) -> sumN (map f l) = 0%N.
Proof. intros H. apply sumN_zero. apply Forall_forall. intros y Hy. apply in_map_iff in Hy as (x & <- & Hx). auto. Qed.

Lemma sumN_map_zero_inv {A} (f : A -> N) l : sumN (map f l) = 0%N -> forall x, In x l -> f x = 0%N.
Proof. intros H x Hx. apply sumN_zero in H. rewrite Forall_forall in H. apply H. apply in_map. exact Hx. Qed.

Lemma sumN_map_ext {A} (f g : A -> N) l : (forall x, In x l -> f x = g x) -> sumN (map f l) = sumN (map g l).
Proof.
  induction l as [|x l IH]; intros H; [reflexivity|]. cbn [map]. rewrite !sumN_cons.
  rewrite (H x (or_introl eq_refl)), IH; [reflexivity|]. intros; apply H; right; assumption.
Qed.

Lemma sum_app a b : sum (a ++ b) = sum a + sum b.
Proof. induction a as [|x a IH]; cbn [sum fold_right app]; [reflexivity|]. fold (sum (a ++ b)) (sum a). lia. Qed.

Lemma sum_cons x a : sum (x :: a) = x + sum a.
Proof. reflexivity. Qed.

Lemma sum_in {A} (f : A -> nat) l x : In x l -> f x <= sum (map f l).
Proof.
  induction l as [|y l IH]; intros H; [contradiction|]. cbn [map]. rewrite sum_cons.
  destruct H as [->|H]; [lia|]. apply IH in H. lia.
Qed.

Lemma sum_map_le {A} (f : A -> nat) (g : A -> A) l :
  (forall x, In x l -> f (g x) <= f x) -> sum (map f (map g l)) <= sum (map f l).
Proof.
  induction l as [|y l IH]; intros H; [cbn; lia|]. cbn [map]. rewrite !sum_cons.
  pose proof (H y (or_introl eq_refl)). assert (sum (map f (map g l)) <= sum (map f l)).
  { apply IH. intros; apply H; right; assumption. } lia.
Qed.

Lemma sum_flat_map {A B} (f : B -> nat) (g : A -> list B) l :
  sum (map f (flat_map g l)) = sum (map (fun x => sum (map f (g x))) l).
Proof.
  induction l as [|x l IH]; [reflexivity|].
  cbn [flat_map map]. rewrite map_app, sum_app, IH. reflexivity.
Qed.

(** * The census at one index *)

Definition u (i j : nat) : N := if Nat.eqb i j then 1%N else 0%N.

Fixpoint f_ty (i : nat) (t : ty) {struct t} : N :=
  match t with
  | TyNode _ subs es => (u i 7 + (sumN (map (f_ty i) subs) + sumN (map (f_expr i) es)))%N
  end

with f_expr (i : nat) (e : expr) {struct e} : N :=
  match e with
  | ENil | ETrue | EFalse | EString _ | EVarArgs | EIdent _ => 0%N
  | ENumber n => if luau_number n then u i 5 else 0%N
  | EInterp segs => (u i 3 + sumN (map (f_iseg i) segs))%N
  | EField p _ => f_expr i p
  | EIndex p k => (f_expr i p + f_expr i k)%N
  | ECall p _ a => (f_expr i p + f_args i a)%N
  | EFunction f => f_fbody i f
  | EIf bs els => (u i 2 + (sumN (map (f_ebranch i) bs) + f_expr i els))%N
  | EParen e' => f_expr i e'
  | ETable entries => sumN (map (f_tentry i) entries)
  | EUnary _ e' => f_expr i e'
  | EBinary op l r => ((match op with BIDiv => u i 4 | _ => 0 end) + (f_expr i l + f_expr i r))%N
  | ETypeCast e' t => (u i 7 + (f_expr i e' + f_ty i t))%N
  | ETypeInst p tys => (u i 7 + (f_expr i p + sumN (map (f_ty i) tys)))%N
  end

with f_iseg (i : nat) (s : iseg) {struct s} : N :=
  match s with ISStr _ => 0%N | ISExpr e => f_expr i e end

with f_ebranch (i : nat) (b : ebranch) {struct b} : N :=
  match b with EBranch c r => (f_expr i c + f_expr i r)%N end

with f_args (i : nat) (a : args) {struct a} : N :=
  match a with
  | ATuple es => sumN (map (f_expr i) es)
  | AString _ => 0%N
  | ATable entries => sumN (map (f_tentry i) entries)
  end

with f_tentry (i : nat) (t : tentry) {struct t} : N :=
  match t with
  | TField _ v => f_expr i v
  | TIndex k v => (f_expr i k + f_expr i v)%N
  | TValue v => f_expr i v
  end

with f_fbody (i : nat) (f : fbody) {struct f} : N :=
  match f with
  | FBody ps _ vt rt gen attrs body =>
    (sumN (map (f_param i) ps) + (optN (f_ty i) vt + (optN (f_ty i) rt + (optN (f_ty i) gen
       + ((if (attrs =? 0)%N then 0 else u i 8) + f_block i body)))))%N
  end

with f_param (i : nat) (p : param) {struct p} : N :=
  match p with Param _ t => optN (f_ty i) t end

with f_stmt (i : nat) (s : stmt) {struct s} : N :=
  match s with
  | SAssign vars vals => (sumN (map (f_expr i) vars) + sumN (map (f_expr i) vals))%N
  | SDo b => f_block i b
  | SCall c => f_expr i c
  | SCompound op var v =>
    (u i 0 + ((match op with BIDiv => u i 4 | _ => 0 end) + (f_expr i var + f_expr i v)))%N
  | SFunction _ _ _ f => f_fbody i f
  | SGenericFor vars es b => (sumN (map (f_param i) vars) + (sumN (map (f_expr i) es) + f_block i b))%N
  | SIf bs els => (sumN (map (f_sbranch i) bs) + optN (f_block i) els)%N
  | SLocal is_const vars vals =>
    ((if is_const then u i 6 else 0) + (sumN (map (f_param i) vars) + sumN (map (f_expr i) vals)))%N
  | SLocalFunction _ f => f_fbody i f
  | SNumericFor var a b step body =>
    (f_param i var + (f_expr i a + (f_expr i b + (optN (f_expr i) step + f_block i body))))%N
  | SRepeat b c => (f_block i b + f_expr i c)%N
  | SWhile c b => (f_expr i c + f_block i b)%N
  | STypeDecl _ _ gen t => (u i 7 + (optN (f_ty i) gen + f_ty i t))%N
  | STypeFunction _ _ f => (u i 7 + f_fbody i f)%N
  end

with f_sbranch (i : nat) (b : sbranch) {struct b} : N :=
  match b with SBranch c body => (f_expr i c + f_block i body)%N end

with f_block (i : nat) (b : block) {struct b} : N :=
  match b with
  | Block stmts last => (sumN (map (f_stmt i) stmts) + optN (f_last i) last)%N
  end

with f_last (i : nat) (l : laststmt) {struct l} : N :=
  match l with
  | LBreak => 0%N
  | LContinue => u i 1
  | LReturn es => sumN (map (f_expr i) es)
  end.

(** unfolding equations for the constructors that carry lists ([cbn] would leave the raw
    mutual fixpoint under [map]) *)
Lemma f_ty_eq i k subs es : f_ty i (TyNode k subs es) = (u i 7 + (sumN (map (f_ty i) subs) + sumN (map (f_expr i) es)))%N.
Proof. reflexivity. Qed.
Lemma f_expr_interp_eq i segs : f_expr i (EInterp segs) = (u i 3 + sumN (map (f_iseg i) segs))%N.
Proof. reflexivity. Qed.
Lemma f_expr_if_eq i bs els : f_expr i (EIf bs els) = (u i 2 + (sumN (map (f_ebranch i) bs) + f_expr i els))%N.
Proof. reflexivity. Qed.
Lemma f_expr_table_eq i en : f_expr i (ETable en) = sumN (map (f_tentry i) en).
Proof. reflexivity. Qed.
Lemma f_expr_inst_eq i p tys : f_expr i (ETypeInst p tys) = (u i 7 + (f_expr i p + sumN (map (f_ty i) tys)))%N.
Proof. reflexivity. Qed.
Lemma f_args_tuple_eq i es : f_args i (ATuple es) = sumN (map (f_expr i) es).
Proof. reflexivity. Qed.
Lemma f_args_table_eq i en : f_args i (ATable en) = sumN (map (f_tentry i) en).
Proof. reflexivity. Qed.
Lemma f_fbody_eq i ps va vt rt gen attrs body :
  f_fbody i (FBody ps va vt rt gen attrs body) =
  (sumN (map (f_param i) ps) + (optN (f_ty i) vt + (optN (f_ty i) rt + (optN (f_ty i) gen
     + ((if (attrs =? 0)%N then 0 else u i 8) + f_block i body)))))%N.
Proof. reflexivity. Qed.
Lemma f_param_eq i x t : f_param i (Param x t) = optN (f_ty i) t.
Proof. reflexivity. Qed.
Lemma f_stmt_assign_eq i vars vals : f_stmt i (SAssign vars vals) = (sumN (map (f_expr i) vars) + sumN (map (f_expr i) vals))%N.
Proof. reflexivity. Qed.
Lemma f_stmt_genfor_eq i vars es b :
  f_stmt i (SGenericFor vars es b) = (sumN (map (f_param i) vars) + (sumN (map (f_expr i) es) + f_block i b))%N.
Proof. reflexivity. Qed.
Lemma f_stmt_if_eq i bs els : f_stmt i (SIf bs els) = (sumN (map (f_sbranch i) bs) + optN (f_block i) els)%N.
Proof. reflexivity. Qed.
Lemma f_stmt_local_eq i c vars vals :
  f_stmt i (SLocal c vars vals) = ((if c then u i 6 else 0) + (sumN (map (f_param i) vars) + sumN (map (f_expr i) vals)))%N.
Proof. reflexivity. Qed.
Lemma f_stmt_numfor_eq i var a b step body :
  f_stmt i (SNumericFor var a b step body) =
  (f_param i var + (f_expr i a + (f_expr i b + (optN (f_expr i) step + f_block i body))))%N.
Proof. reflexivity. Qed.
Lemma f_stmt_typedecl_eq i ex x gen t : f_stmt i (STypeDecl ex x gen t) = (u i 7 + (optN (f_ty i) gen + f_ty i t))%N.
Proof. reflexivity. Qed.
Lemma f_block_eq i ss last : f_block i (Block ss last) = (sumN (map (f_stmt i) ss) + optN (f_last i) last)%N.
Proof. reflexivity. Qed.
Lemma f_last_return_eq i es : f_last i (LReturn es) = sumN (map (f_expr i) es).
Proof. reflexivity. Qed.

Ltac feq :=
  rewrite ?f_ty_eq, ?f_expr_interp_eq, ?f_expr_if_eq, ?f_expr_table_eq, ?f_expr_inst_eq, ?f_args_tuple_eq,
    ?f_args_table_eq, ?f_fbody_eq, ?f_param_eq, ?f_stmt_assign_eq, ?f_stmt_genfor_eq, ?f_stmt_if_eq, ?f_stmt_local_eq,
    ?f_stmt_numfor_eq, ?f_stmt_typedecl_eq, ?f_block_eq, ?f_last_return_eq.

Lemma w_ty_eq k subs es : w_ty (TyNode k subs es) = S (sum (map w_ty subs) + sum (map w_expr es)).
Proof. reflexivity. Qed.
Lemma w_expr_interp_eq segs : w_expr (EInterp segs) = 8 + sum (map w_iseg segs).
Proof. reflexivity. Qed.
Lemma w_expr_if_eq bs els : w_expr (EIf bs els) = S (sum (map w_ebranch bs) + w_expr els).
Proof. reflexivity. Qed.
Lemma w_expr_table_eq en : w_expr (ETable en) = S (sum (map w_tentry en)).
Proof. reflexivity. Qed.
Lemma w_expr_inst_eq p tys : w_expr (ETypeInst p tys) = 2 + (w_expr p + sum (map w_ty tys)).
Proof. reflexivity. Qed.
Lemma w_args_tuple_eq es : w_args (ATuple es) = S (sum (map w_expr es)).
Proof. reflexivity. Qed.
Lemma w_args_table_eq en : w_args (ATable en) = S (sum (map w_tentry en)).
Proof. reflexivity. Qed.
Lemma w_fbody_eq ps va vt rt gen attrs body :
  w_fbody (FBody ps va vt rt gen attrs body) =
  S (sum (map w_param ps) + (wopt w_ty vt + (wopt w_ty rt + (wopt w_ty gen + w_block body)))).
Proof. reflexivity. Qed.
Lemma w_param_eq x t : w_param (Param x t) = S (wopt w_ty t).
Proof. reflexivity. Qed.
Lemma w_stmt_assign_eq vars vals : w_stmt (SAssign vars vals) = S (sum (map w_expr vars) + sum (map w_expr vals)).
Proof. reflexivity. Qed.
Lemma w_stmt_genfor_eq vars es b :
  w_stmt (SGenericFor vars es b) = S (sum (map w_param vars) + (sum (map w_expr es) + w_block b)).
Proof. reflexivity. Qed.
Lemma w_stmt_if_eq bs els : w_stmt (SIf bs els) = S (sum (map w_sbranch bs) + wopt w_block els).
Proof. reflexivity. Qed.
Lemma w_stmt_local_eq c vars vals : w_stmt (SLocal c vars vals) = S (sum (map w_param vars) + sum (map w_expr vals)).
Proof. reflexivity. Qed.
Lemma w_stmt_numfor_eq var a b step body :
  w_stmt (SNumericFor var a b step body) =
  S (w_param var + (w_expr a + (w_expr b + (wopt w_expr step + w_block body)))).
Proof. reflexivity. Qed.
Lemma w_stmt_typedecl_eq ex x gen t : w_stmt (STypeDecl ex x gen t) = S (wopt w_ty gen + w_ty t).
Proof. reflexivity. Qed.
Lemma w_block_eq ss last : w_block (Block ss last) = S (sum (map w_stmt ss) + wopt w_last last).
Proof. reflexivity. Qed.
Lemma w_last_return_eq es : w_last (LReturn es) = S (sum (map w_expr es)).
Proof. reflexivity. Qed.

Ltac weq :=
  rewrite ?w_ty_eq, ?w_expr_interp_eq, ?w_expr_if_eq, ?w_expr_table_eq, ?w_expr_inst_eq, ?w_args_tuple_eq,
    ?w_args_table_eq, ?w_fbody_eq, ?w_param_eq, ?w_stmt_assign_eq, ?w_stmt_genfor_eq, ?w_stmt_if_eq, ?w_stmt_local_eq,
    ?w_stmt_numfor_eq, ?w_stmt_typedecl_eq, ?w_block_eq, ?w_last_return_eq.
Ltac weq_in H :=
  rewrite ?w_ty_eq, ?w_expr_interp_eq, ?w_expr_if_eq, ?w_expr_table_eq, ?w_expr_inst_eq, ?w_args_tuple_eq,
    ?w_args_table_eq, ?w_fbody_eq, ?w_param_eq, ?w_stmt_assign_eq, ?w_stmt_genfor_eq, ?w_stmt_if_eq, ?w_stmt_local_eq,
    ?w_stmt_numfor_eq, ?w_stmt_typedecl_eq, ?w_block_eq, ?w_last_return_eq in H.

Lemma sum_nil : sum [] = 0. Proof. reflexivity. Qed.
Lemma sumN_nil : sumN [] = 0%N. Proof. reflexivity. Qed.

(** unfold [w_*] / [f_*] on constructors; [cbn] leaves the raw mutual fixpoint under [map],
    [fold] restores the constants *)
Ltac wfold := fold w_ty w_expr w_iseg w_ebranch w_args w_tentry w_fbody w_param w_stmt w_sbranch w_block w_last.
Ltac wsimp :=
  repeat (progress (cbn [map wopt w_ty w_expr w_iseg w_ebranch w_args w_tentry w_fbody w_param w_stmt w_sbranch
                         w_block w_last]; wfold; rewrite ?sum_cons, ?sum_nil)).
Ltac ffold j :=
  fold (f_ty j) (f_expr j) (f_iseg j) (f_ebranch j) (f_args j) (f_tentry j) (f_fbody j) (f_param j) (f_stmt j)
       (f_sbranch j) (f_block j) (f_last j).
Ltac fsimp j :=
  repeat (progress (cbn [map optN f_ty f_expr f_iseg f_ebranch f_args f_tentry f_fbody f_param f_stmt f_sbranch
                         f_block f_last]; ffold j; rewrite ?sumN_cons, ?sumN_nil)).

(** * Bridge to the vectors of [Lua/Census.v] *)

Definition Vok (v : vec) (g : nat -> N) : Prop :=
  List.length v = 9 /\ forall i, i < 9 -> nth i v 0%N = g i.

Lemma Vok_ext v g g' : Vok v g -> (forall i, g i = g' i) -> Vok v g'.
Proof. intros [L H] E. split; [exact L|]. intros i Hi. rewrite <- E. apply H, Hi. Qed.

Lemma vadd_length a b : List.length a = 9 -> List.length b = 9 -> List.length (vadd a b) = 9.
Proof.
  intros Ha Hb.
  do 10 (destruct a as [|? a]; try discriminate Ha). do 10 (destruct b as [|? b]; try discriminate Hb).
  reflexivity.
Qed.

Lemma vadd_nth a b i : List.length a = 9 -> List.length b = 9 -> i < 9 ->
  nth i (vadd a b) 0%N = (nth i a 0 + nth i b 0)%N.
Proof.
  intros Ha Hb Hi.
  do 10 (destruct a as [|? a]; try discriminate Ha). do 10 (destruct b as [|? b]; try discriminate Hb).
  do 9 (destruct i as [|i]; [reflexivity|]). lia.
Qed.

Lemma Vok_vadd a b ga gb g : Vok a ga -> Vok b gb -> (forall i, g i = (ga i + gb i)%N) -> Vok (vadd a b) g.
Proof.
  intros [La Ha] [Lb Hb] E. split; [apply vadd_length; assumption|].
  intros i Hi. rewrite vadd_nth by assumption. rewrite Ha, Hb by assumption. symmetry. apply E.
Qed.

Lemma Vok_vzero : Vok vzero (fun _ => 0%N).
Proof. split; [reflexivity|]. intros i Hi. do 9 (destruct i as [|i]; [reflexivity|]). lia. Qed.

Lemma Vok_unit j : j < 9 -> Vok (unit_at j) (fun i => u i j).
Proof.
  intros Hj. do 9 (destruct j as [|j]; [split; [reflexivity|]; intros i Hi;
    do 9 (destruct i as [|i]; [reflexivity|]); lia|]). lia.
Qed.

Lemma Vok_vsum {A} (c : A -> vec) (f : nat -> A -> N) l :
  (forall x, In x l -> Vok (c x) (fun i => f i x)) ->
  Vok (vsum (map c l)) (fun i => sumN (map (f i) l)).
Proof.
  induction l as [|x l IH]; intros H; [exact Vok_vzero|].
  cbn [map vsum fold_right]. fold (vsum (map c l)).
  eapply Vok_vadd; [apply H; left; reflexivity|apply IH; intros; apply H; right; assumption|].
  intros i. reflexivity.
Qed.

Lemma Vok_opt {A} (c : A -> vec) (f : nat -> A -> N) o :
  (forall x, o = Some x -> Vok (c x) (fun i => f i x)) ->
  Vok (opt c o) (fun i => optN (f i) o).
Proof. destruct o as [x|]; intros H; [apply H; reflexivity|exact Vok_vzero]. Qed.

Lemma wopt_some {A} (f : A -> nat) o x : o = Some x -> wopt f o = f x.
Proof. intros ->; reflexivity. Qed.

(** every node weighs at least 1 *)
Lemma w_ty_pos t : 1 <= w_ty t. Proof. destruct t; cbn [w_ty]; lia. Qed.
Lemma w_expr_pos e : 1 <= w_expr e. Proof. destruct e; cbn [w_expr]; try lia. destruct op; lia. Qed.
Lemma w_iseg_pos s : 1 <= w_iseg s. Proof. destruct s; cbn [w_iseg]; lia. Qed.
Lemma w_ebranch_pos b : 1 <= w_ebranch b. Proof. destruct b; cbn [w_ebranch]; lia. Qed.
Lemma w_args_pos a : 1 <= w_args a. Proof. destruct a; cbn [w_args]; lia. Qed.
Lemma w_tentry_pos t : 1 <= w_tentry t. Proof. destruct t; cbn [w_tentry]; lia. Qed.
Lemma w_fbody_pos f : 1 <= w_fbody f. Proof. destruct f; cbn [w_fbody]; lia. Qed.
Lemma w_param_pos p : 1 <= w_param p. Proof. destruct p; cbn [w_param]; lia. Qed.
Lemma w_stmt_pos s : 1 <= w_stmt s. Proof. destruct s; cbn [w_stmt]; lia. Qed.
Lemma w_sbranch_pos b : 1 <= w_sbranch b. Proof. destruct b; cbn [w_sbranch]; lia. Qed.
Lemma w_block_pos b : 1 <= w_block b. Proof. destruct b; cbn [w_block]; lia. Qed.
Lemma w_last_pos l : 1 <= w_last l. Proof. destruct l; cbn [w_last]; lia. Qed.

(** the statement proved by induction on the size *)
Definition bridge_at (n : nat) : Prop :=
  (forall t, w_ty t <= n -> Vok (c_ty t) (fun i => f_ty i t)) /\
  (forall e, w_expr e <= n -> Vok (c_expr e) (fun i => f_expr i e)) /\
  (forall s, w_iseg s <= n -> Vok (c_iseg s) (fun i => f_iseg i s)) /\
  (forall b, w_ebranch b <= n -> Vok (c_ebranch b) (fun i => f_ebranch i b)) /\
  (forall a, w_args a <= n -> Vok (c_args a) (fun i => f_args i a)) /\
  (forall t, w_tentry t <= n -> Vok (c_tentry t) (fun i => f_tentry i t)) /\
  (forall f, w_fbody f <= n -> Vok (c_fbody f) (fun i => f_fbody i f)) /\
  (forall p, w_param p <= n -> Vok (c_param p) (fun i => f_param i p)) /\
  (forall s, w_stmt s <= n -> Vok (c_stmt s) (fun i => f_stmt i s)) /\
  (forall b, w_sbranch b <= n -> Vok (c_sbranch b) (fun i => f_sbranch i b)) /\
  (forall b, w_block b <= n -> Vok (c_block b) (fun i => f_block i b)) /\
  (forall l, w_last l <= n -> Vok (c_last l) (fun i => f_last i l)).

Ltac vok_step :=
  match goal with
  | |- Vok vzero _ => exact Vok_vzero
  | |- Vok (unit_at _) _ => apply Vok_unit; lia
  | |- Vok F_compound _ => apply (Vok_unit 0); lia
  | |- Vok F_continue _ => apply (Vok_unit 1); lia
  | |- Vok F_ifexpr _ => apply (Vok_unit 2); lia
  | |- Vok F_interp _ => apply (Vok_unit 3); lia
  | |- Vok F_floordiv _ => apply (Vok_unit 4); lia
  | |- Vok F_luaunum _ => apply (Vok_unit 5); lia
  | |- Vok F_const _ => apply (Vok_unit 6); lia
  | |- Vok F_type _ => apply (Vok_unit 7); lia
  | |- Vok F_attr _ => apply (Vok_unit 8); lia
  | |- Vok (vadd _ _) _ => eapply Vok_vadd; [| |intros ?; reflexivity]
  | |- Vok (vsum (map _ _)) _ => apply Vok_vsum; intros ? ?
  | |- Vok (opt _ _) _ => apply Vok_opt; intros ? ?
  end.

Lemma bridge_all : forall n, bridge_at n.
Proof.
  induction n as [|n IH].
  - unfold bridge_at. repeat match goal with |- _ /\ _ => split end; intros x Hx; exfalso;
      [pose proof (w_ty_pos x)|pose proof (w_expr_pos x)|pose proof (w_iseg_pos x)|pose proof (w_ebranch_pos x)
      |pose proof (w_args_pos x)|pose proof (w_tentry_pos x)|pose proof (w_fbody_pos x)|pose proof (w_param_pos x)
      |pose proof (w_stmt_pos x)|pose proof (w_sbranch_pos x)|pose proof (w_block_pos x)|pose proof (w_last_pos x)]; lia.
  - destruct IH as (Ity & Ie & Iis & Ieb & Ia & Ite & Ifb & Ip & Is & Isb & Ib & Il).
    unfold bridge_at. repeat match goal with |- _ /\ _ => split end.
    + (* ty *) intros [k subs es] Hw. cbn [w_ty] in Hw. cbn [c_ty].
      eapply Vok_ext.
      * repeat vok_step.
        -- apply Ity. pose proof (sum_in w_ty subs _ H). lia.
        -- apply Ie. pose proof (sum_in w_expr es _ H). lia.
      * intros i. reflexivity.
    + (* expr *) intros e Hw. destruct e; cbn [w_expr] in Hw; cbn [c_expr].
      all: try (eapply Vok_ext; [exact Vok_vzero|intros; reflexivity]).
      * (* number *) destruct (luau_number n0) eqn:E.
        -- eapply Vok_ext; [apply (Vok_unit 5); lia|]. intros i. cbn [f_expr]. rewrite E. reflexivity.
        -- eapply Vok_ext; [exact Vok_vzero|]. intros i. cbn [f_expr]. rewrite E. reflexivity.
      * (* interp *) eapply Vok_ext; [repeat vok_step|intros i; reflexivity].
        apply Iis. pose proof (sum_in w_iseg segs _ H). lia.
      * (* field *) eapply Vok_ext; [apply Ie; lia|intros; reflexivity].
      * (* index *) eapply Vok_ext; [repeat vok_step; apply Ie; lia|intros; reflexivity].
      * (* call *) eapply Vok_ext; [repeat vok_step; [apply Ie; lia|apply Ia; lia]|intros; reflexivity].
      * (* function *) eapply Vok_ext; [apply Ifb; lia|intros; reflexivity].
      * (* if *) eapply Vok_ext; [repeat vok_step|intros; reflexivity].
        -- apply Ieb. pose proof (sum_in w_ebranch branches _ H). lia.
        -- apply Ie. lia.
      * (* paren *) eapply Vok_ext; [apply Ie; lia|intros; reflexivity].
      * (* table *) eapply Vok_ext; [repeat vok_step|intros; reflexivity].
        apply Ite. pose proof (sum_in w_tentry entries _ H). lia.
      * (* unary *) eapply Vok_ext; [apply Ie; lia|intros; reflexivity].
      * (* binary *) assert (w_expr e1 <= n /\ w_expr e2 <= n) as [H1 H2] by (destruct op; lia).
        eapply Vok_ext; [repeat vok_step|].
        -- instantiate (1 := fun i => match op with BIDiv => u i 4 | _ => 0%N end).
           destruct op; try exact Vok_vzero. apply (Vok_unit 4); lia.
        -- apply Ie; exact H1.
        -- apply Ie; exact H2.
        -- intros i. reflexivity.
      * (* cast *) eapply Vok_ext; [repeat vok_step; [apply Ie; lia|apply Ity; lia]|intros; reflexivity].
      * (* inst *) eapply Vok_ext; [repeat vok_step; [apply Ie; lia|]|intros; reflexivity].
        apply Ity. pose proof (sum_in w_ty tys _ H). lia.
    + (* iseg *) intros [b|e] Hw; cbn [w_iseg] in Hw; cbn [c_iseg].
      * eapply Vok_ext; [exact Vok_vzero|intros; reflexivity].
      * eapply Vok_ext; [apply Ie; lia|intros; reflexivity].
    + (* ebranch *) intros [c r] Hw; cbn [w_ebranch] in Hw; cbn [c_ebranch].
      eapply Vok_ext; [repeat vok_step; apply Ie; lia|intros; reflexivity].
    + (* args *) intros [es|s|en] Hw; cbn [w_args] in Hw; cbn [c_args].
      * eapply Vok_ext; [repeat vok_step|intros; reflexivity].
        apply Ie. pose proof (sum_in w_expr es _ H). lia.
      * eapply Vok_ext; [exact Vok_vzero|intros; reflexivity].
      * eapply Vok_ext; [repeat vok_step|intros; reflexivity].
        apply Ite. pose proof (sum_in w_tentry en _ H). lia.
    + (* tentry *) intros [f v|k v|v] Hw; cbn [w_tentry] in Hw; cbn [c_tentry].
      * eapply Vok_ext; [apply Ie; lia|intros; reflexivity].
      * eapply Vok_ext; [repeat vok_step; apply Ie; lia|intros; reflexivity].
      * eapply Vok_ext; [apply Ie; lia|intros; reflexivity].
    + (* fbody *) intros [ps va vt rt gen attrs body] Hw; cbn [w_fbody] in Hw; cbn [c_fbody].
      eapply Vok_ext.
      * repeat vok_step.
        -- apply Ip. pose proof (sum_in w_param ps _ H). lia.
        -- apply Ity. rewrite (wopt_some _ _ _ H) in Hw. lia.
        -- apply Ity. rewrite (wopt_some _ _ _ H) in Hw. lia.
        -- apply Ity. rewrite (wopt_some _ _ _ H) in Hw. lia.
        -- instantiate (1 := fun i => if (attrs =? 0)%N then 0%N else u i 8).
           destruct (attrs =? 0)%N; [exact Vok_vzero|apply (Vok_unit 8); lia].
        -- apply Ib. lia.
      * intros i. reflexivity.
    + (* param *) intros [x t] Hw; cbn [w_param] in Hw; cbn [c_param].
      eapply Vok_ext; [repeat vok_step|intros; reflexivity].
      apply Ity. rewrite (wopt_some _ _ _ H) in Hw. lia.
    + (* stmt *) intros s Hw. destruct s; cbn [w_stmt] in Hw; cbn [c_stmt].
      * eapply Vok_ext; [repeat vok_step|intros; reflexivity].
        -- apply Ie. pose proof (sum_in w_expr vars _ H). lia.
        -- apply Ie. pose proof (sum_in w_expr vals _ H). lia.
      * eapply Vok_ext; [apply Ib; lia|intros; reflexivity].
      * eapply Vok_ext; [apply Ie; lia|intros; reflexivity].
      * eapply Vok_ext; [repeat vok_step|].
        -- instantiate (1 := fun i => match op with BIDiv => u i 4 | _ => 0%N end).
           destruct op; try exact Vok_vzero. apply (Vok_unit 4); lia.
        -- apply Ie; lia.
        -- apply Ie; lia.
        -- intros i. reflexivity.
      * eapply Vok_ext; [apply Ifb; lia|intros; reflexivity].
      * eapply Vok_ext; [repeat vok_step|intros; reflexivity].
        -- apply Ip. pose proof (sum_in w_param vars _ H). lia.
        -- apply Ie. pose proof (sum_in w_expr es _ H). lia.
        -- apply Ib. lia.
      * eapply Vok_ext; [repeat vok_step|intros; reflexivity].
        -- apply Isb. pose proof (sum_in w_sbranch branches _ H). lia.
        -- apply Ib. rewrite (wopt_some _ _ _ H) in Hw. lia.
      * eapply Vok_ext; [repeat vok_step|].
        -- instantiate (1 := fun i => if is_const then u i 6 else 0%N).
           destruct is_const; [apply (Vok_unit 6); lia|exact Vok_vzero].
        -- apply Ip. pose proof (sum_in w_param vars _ H). lia.
        -- apply Ie. pose proof (sum_in w_expr vals _ H). lia.
        -- intros i. reflexivity.
      * eapply Vok_ext; [apply Ifb; lia|intros; reflexivity].
      * eapply Vok_ext; [repeat vok_step|intros; reflexivity].
        -- apply Ip. lia.
        -- apply Ie. lia.
        -- apply Ie. lia.
        -- apply Ie. rewrite (wopt_some _ _ _ H) in Hw. lia.
        -- apply Ib. lia.
      * eapply Vok_ext; [repeat vok_step; [apply Ib; lia|apply Ie; lia]|intros; reflexivity].
      * eapply Vok_ext; [repeat vok_step; [apply Ie; lia|apply Ib; lia]|intros; reflexivity].
      * eapply Vok_ext; [repeat vok_step|intros; reflexivity].
        -- apply Ity. rewrite (wopt_some _ _ _ H) in Hw. lia.
        -- apply Ity. lia.
      * eapply Vok_ext; [repeat vok_step; apply Ifb; lia|intros; reflexivity].
    + (* sbranch *) intros [c b] Hw; cbn [w_sbranch] in Hw; cbn [c_sbranch].
      eapply Vok_ext; [repeat vok_step; [apply Ie; lia|apply Ib; lia]|intros; reflexivity].
    + (* block *) intros [ss last] Hw; cbn [w_block] in Hw; cbn [c_block].
      eapply Vok_ext; [repeat vok_step|intros; reflexivity].
      * apply Is. pose proof (sum_in w_stmt ss _ H). lia.
      * apply Il. rewrite (wopt_some _ _ _ H) in Hw. lia.
    + (* last *) intros [| |es] Hw; cbn [w_last] in Hw; cbn [c_last].
      * eapply Vok_ext; [exact Vok_vzero|intros; reflexivity].
      * eapply Vok_ext; [apply (Vok_unit 1); lia|intros; reflexivity].
      * eapply Vok_ext; [repeat vok_step|intros; reflexivity].
        apply Ie. pose proof (sum_in w_expr es _ H). lia.
Qed.

(** the census of a block at index [i] is the sum [f_block i] *)
Theorem feature_f_block i b : i < 9 -> feature i b = f_block i b.
Proof.
  intros Hi. unfold feature, census.
  destruct (bridge_all (w_block b)) as (_ & _ & _ & _ & _ & _ & _ & _ & _ & _ & Hb & _).
  destruct (Hb b (Nat.le_refl _)) as [_ H]. apply H, Hi.
Qed.

Lemma census_length b : List.length (census b) = 9.
Proof.
  destruct (bridge_all (w_block b)) as (_ & _ & _ & _ & _ & _ & _ & _ & _ & _ & Hb & _).
  destruct (Hb b (Nat.le_refl _)) as [H _]. exact H.
Qed.

(** a tree is a Lua 5.1 tree exactly when every feature count is zero *)
Lemma lua51_tree_iff b : lua51_tree b = true <-> forall i, i < 9 -> feature i b = 0%N.
Proof.
  unfold lua51_tree, feature. pose proof (census_length b) as L.
  destruct (census b) as [|x0 [|x1 [|x2 [|x3 [|x4 [|x5 [|x6 [|x7 [|x8 [|]]]]]]]]]]; try discriminate L.
  cbn [forallb]. rewrite !andb_true_iff, !N.eqb_eq. split.
  - intros H i Hi. do 9 (destruct i as [|i]; [cbn; lia|]). lia.
  - intros H.
    pose proof (H 0 ltac:(lia)). pose proof (H 1 ltac:(lia)). pose proof (H 2 ltac:(lia)).
    pose proof (H 3 ltac:(lia)). pose proof (H 4 ltac:(lia)). pose proof (H 5 ltac:(lia)).
    pose proof (H 6 ltac:(lia)). pose proof (H 7 ltac:(lia)). pose proof (H 8 ltac:(lia)).
    cbn in *. repeat split; auto; lia.
Qed.
