(** C06: remove_floor_division ([a // b] => [math.floor(a / b)]) and
    remove_compound_assignment on an identifier ([x op= e] => [x = x op e]). *)
From Coq Require Import ZArith NArith List Bool String Lia.
From DL Require Import Lib.Bytes Lib.F64 Lua.Syntax Lua.Sem Model.Evaluator Lua.EvalSpec Lua.EvalSpec2
  Proof.SemFacts Proof.EvaluatorStore Proof.LoweringFuel Proof.LoweringFuelUp Proof.LoweringSoundBasic
  Model.Visit Model.Lowering.
Import ListNotations.
Open Scope N_scope.
Local Notation llen := List.length.

(** * More unfolding equations of the interpreter *)
Lemma eval_S_call_plain d n rho va p a :
  eval d (S n) rho va (ECall p None a) =
  (o <- eval1 d n rho va p ;; args <- eval_args d n rho va a ;; call d n o args).
Proof. reflexivity. Qed.
Lemma eval_args_S_tuple d n rho va es : eval_args d (S n) rho va (ATuple es) = eval_list d n rho va es.
Proof. reflexivity. Qed.
Lemma eval_list_S_one d n rho va e : eval_list d (S n) rho va [e] = eval d n rho va e.
Proof. reflexivity. Qed.
Lemma call_S_builtin d n b args : call d (S n) (VBuiltin b) args = call_builtin d n b args.
Proof. reflexivity. Qed.
Lemma call_builtin_floor d n q : call_builtin d (S n) B_floor [VNum q] = ret [VNum (ffloor q)].
Proof. reflexivity. Qed.
Lemma index_S_any d n o k :
  index d (S n) o k =
  match o with
  | VTable a =>
    t <- get_table a ;;
    match raw_get (t_entries t) (match norm_key k with Some k' => k' | None => k end) with
    | VNil =>
      h <- metamethod o "__index" ;;
      match h with
      | VNil => ret VNil
      | VTable _ => index d n h k
      | _ => vs <- call d n h [o; k] ;; ret (first vs)
      end
    | v => ret v
    end
  | _ =>
    h <- metamethod o "__index" ;;
    match h with
    | VNil => fail 11
    | VTable _ => index d n h k
    | _ => vs <- call d n h [o; k] ;; ret (first vs)
    end
  end.
Proof. reflexivity. Qed.

(** * remove_floor_division *)

(** the global [math] is a table whose field [floor] is the builtin *)
Definition math_floor_bound (s : store) : Prop :=
  exists g m tm,
    nth_N (tables s) (N.to_nat A_globals) = Some g /\
    raw_get (t_entries g) (VStr (lnm "math")) = VTable m /\
    nth_N (tables s) (N.to_nat m) = Some tm /\
    raw_get (t_entries tm) (VStr (lnm "floor")) = VBuiltin B_floor.

Lemma initial_store_math_floor orc : math_floor_bound (initial_store orc).
Proof. exists (nth 0 initial_tables (mkTable [] None)), A_math, (nth 1 initial_tables (mkTable [] None)). repeat split. Qed.

Lemma index_found d n a k t v s :
  nth_N (tables s) (N.to_nat a) = Some t -> norm_key k = Some k ->
  raw_get (t_entries t) k = v -> v <> VNil ->
  index d (S n) (VTable a) k s = Ok v s.
Proof.
  intros Ht Hk Hv Hn. rewrite index_S_any. unfold bind. rewrite (get_table_some _ _ _ Ht). rewrite Hk, Hv.
  destruct v; try reflexivity. contradiction.
Qed.

Lemma eval1_math_floor d k rho va s :
  lookup rho (lnm "math") = None -> math_floor_bound s ->
  eval1 d (5 + k) rho va (EField (EIdent (lnm "math")) (lnm "floor")) s = Ok (VBuiltin B_floor) s.
Proof.
  intros Hl (g & m & tm & Hg & Hm & Htm & Hf).
  change (5 + k)%nat with (S (S (S (S (S k))))).
  rewrite eval1_S, eval_S_field, eval1_S, eval_S_ident, Hl. unfold bind.
  rewrite (index_found d k A_globals (VStr (lnm "math")) g (VTable m) s Hg eq_refl Hm ltac:(discriminate)).
  cbn [ret first].
  rewrite (index_found d _ m (VStr (lnm "floor")) tm (VBuiltin B_floor) s Htm eq_refl Hf ltac:(discriminate)).
  reflexivity.
Qed.

(** an operand that always yields a number or a string that reads as one *)
Definition numeric (d : dialect) (rho : env) (va : list value) (e : expr) : Prop :=
  forall n s v s1, eval1 d n rho va e s = Ok v s1 -> tonum v <> None.

Theorem floordiv_sound : forall d n rho va a b s vs s',
  lookup rho (lnm "math") = None -> math_floor_bound s ->
  numeric d rho va a -> numeric d rho va b ->
  eval d n rho va (EBinary BIDiv a b) s = Ok vs s' ->
  exists n', eval d n' rho va (rw_floor_division (EBinary BIDiv a b)) s = Ok vs s'.
Proof.
  intros d n rho va a b s vs s' Hl Hm Na Nb H.
  destruct n as [|n]; [discriminate H|]. rewrite eval_S_binop in H by reflexivity.
  apply bind_ok in H as (av & s1 & Ha & H). apply bind_ok in H as (bv & s2 & Hb & H).
  cbn [binop_sem] in H. apply bind_ok in H as (q & s3 & Hq & H). apply ret_ok in H as [-> ->].
  destruct n as [|n]; [discriminate Hq|]. rewrite arith_S in Hq.
  pose proof (Na _ _ _ _ Ha) as Ta. pose proof (Nb _ _ _ _ Hb) as Tb.
  destruct (tonum av) as [x|] eqn:Ex; [|contradiction]. destruct (tonum bv) as [y|] eqn:Ey; [|contradiction].
  cbn [arith_num] in Hq. apply ret_ok in Hq as [-> ->].
  cbn [rw_floor_division].
  exists (S (5 + n)). rewrite eval_S_call_plain. unfold bind at 1.
  rewrite (eval1_math_floor d n rho va s Hl Hm).
  change (5 + n)%nat with (S (S (S (S (S n))))).
  rewrite eval_args_S_tuple, eval_list_S_one. unfold bind at 1.
  rewrite eval_S_binop by reflexivity. unfold bind at 1.
  rewrite (eval1_up _ _ _ _ _ _ _ _ (S (S n)) Ha) by lia. unfold bind at 1.
  rewrite (eval1_up _ _ _ _ _ _ _ _ (S (S n)) Hb) by lia.
  cbn [binop_sem]. unfold bind at 1. rewrite arith_S, Ex, Ey. cbn [arith_num ret].
  rewrite call_S_builtin, call_builtin_floor. reflexivity.
Qed.

Example floordiv_example :
  let a := ENumber (NDec 4619567317775286272 None) in   (* 7 *)
  let b := EString [50] in                              (* "2" *)
  lookup [] (lnm "math") = None /\ math_floor_bound (initial_store []) /\
  (exists s', eval Luau 5 [] [] (EBinary BIDiv a b) (initial_store []) = Ok [VNum (of_Z 3)] s' /\
              eval Luau 9 [] [] (rw_floor_division (EBinary BIDiv a b)) (initial_store []) = Ok [VNum (of_Z 3)] s').
Proof. split; [reflexivity|]. split; [apply initial_store_math_floor|]. vm_compute. eexists. split; reflexivity. Qed.

(** literals are numeric operands *)
Lemma numeric_number d rho va x : numeric d rho va (ENumber x).
Proof.
  intros n s v s1 H. destruct n; [discriminate H|]. rewrite eval1_S in H.
  apply bind_ok in H as (vs & s2 & Hv & H). apply ret_ok in H as [-> ->].
  destruct n; [discriminate Hv|]. rewrite eval_S_number in Hv. apply ret_ok in Hv as [-> ->]. discriminate.
Qed.

(** * remove_compound_assignment, identifier target *)

Lemma exec_S_compound d n rho va op var e :
  exec_stmt d (S n) rho va (SCompound op var e) =
  (t <- eval_target d n rho va var ;;
   rhs <- eval1 d n rho va e ;;
   cur <- (match t with
           | (Some a, _, _) => get_cell a
           | (None, o, k) => index d n o k
           end) ;;
   r <- (match op with
         | BConcat => concat d n cur rhs
         | _ => arith d n op cur rhs
         end) ;;
   _ <- assign_target d n rho t r ;;
   ret (rho, SigNone)).
Proof. reflexivity. Qed.

Lemma eval_target_S_ident d n rho va x :
  eval_target d (S n) rho va (EIdent x) =
  match lookup rho x with
  | Some a => ret (Some a, VNil, VNil)
  | None => ret (None, VTable A_globals, VStr x)
  end.
Proof. reflexivity. Qed.

Lemma assign_target_S d n rho tgt v :
  assign_target d (S n) rho tgt v =
  match tgt with
  | (Some a, _, _) => set_cell a v
  | (None, o, k) => setindex d n o k v
  end.
Proof. reflexivity. Qed.

Definition assign_tgts (d : dialect) (n : nat) (rho : env) (va : list value) :=
  fix go (vs : list expr) : M (list (option N * value * value)) :=
    match vs with
    | [] => ret []
    | v :: rest => t <- eval_target d n rho va v ;; ts <- go rest ;; ret (t :: ts)
    end.
Definition assign_all (d : dialect) (n : nat) (rho : env) :=
  fix go (ts : list (option N * value * value)) (vs : list value) : M unit :=
    match ts with
    | [] => ret tt
    | t :: rest => _ <- assign_target d n rho t (arg vs 0) ;; go rest (tl vs)
    end.

Lemma exec_S_assign d n rho va vars vals :
  exec_stmt d (S n) rho va (SAssign vars vals) =
  (tgts <- assign_tgts d n rho va vars ;;
   vs <- eval_list d n rho va vals ;;
   _ <- assign_all d n rho tgts vs ;;
   ret (rho, SigNone)).
Proof. reflexivity. Qed.

Definition compound_op (op : binop) : bool :=
  match op with
  | BAdd | BSub | BMul | BDiv | BIDiv | BMod | BPow | BConcat => true
  | _ => false
  end.

Lemma binop_sem_compound d n op cur rhs s r s' : compound_op op = true ->
  (match op with BConcat => concat d n cur rhs | _ => arith d n op cur rhs end) s = Ok r s' ->
  forall m, (n <= m)%nat -> binop_sem d m op cur rhs s = Ok [r] s'.
Proof.
  intros C H m Hm. destruct op; try discriminate C; cbn [binop_sem]; unfold bind;
    try (rewrite (arith_up _ _ _ _ _ _ _ _ m H Hm); reflexivity).
  rewrite (concat_up _ _ _ _ _ _ _ m H Hm). reflexivity.
Qed.

(** evaluating [e] does not change the cell [a] (the rewritten statement reads [x] before
    it evaluates [e], the compound assignment after) *)
Definition leaves_cell (d : dialect) (rho : env) (va : list value) (e : expr) (s : store) (a : N) : Prop :=
  forall n v s1, eval1 d n rho va e s = Ok v s1 ->
  nth_N (cells s1) (N.to_nat a) = nth_N (cells s) (N.to_nat a).

Lemma get_cell_some a s v : nth_N (cells s) (N.to_nat a) = Some v -> get_cell a s = Ok v s.
Proof. intros H. unfold get_cell. rewrite H. reflexivity. Qed.
Lemma get_cell_inv a s v s' : get_cell a s = Ok v s' -> s' = s /\ nth_N (cells s) (N.to_nat a) = Some v.
Proof. unfold get_cell. destruct (nth_N (cells s) (N.to_nat a)); intros H; inversion H; auto. Qed.

Theorem compound_local_sound : forall d n rho va op x a e s r s',
  lookup rho x = Some a -> compound_op op = true -> leaves_cell d rho va e s a ->
  exec_stmt d n rho va (SCompound op (EIdent x) e) s = Ok r s' ->
  exists n', exec_stmt d n' rho va (rw_compound_assign (SCompound op (EIdent x) e)) s = Ok r s'.
Proof.
  intros d n rho va op x a e s r s' Hl Hop Hst H.
  destruct n as [|n]; [discriminate H|]. rewrite exec_S_compound in H.
  destruct n as [|n]; [discriminate H|]. rewrite eval_target_S_ident, Hl in H.
  apply bind_ok in H as (t & s0 & Ht & H). apply ret_ok in Ht as [-> ->].
  apply bind_ok in H as (rhs & s1 & Hrhs & H). apply bind_ok in H as (cur & s2 & Hcur & H).
  apply get_cell_inv in Hcur as [-> Hcell].
  apply bind_ok in H as (q & s3 & Hq & H). apply bind_ok in H as (u0 & s4 & Hset & H). apply ret_ok in H as [-> ->].
  rewrite assign_target_S in Hset.
  pose proof (Hst _ _ _ Hrhs) as Hsame. rewrite Hcell in Hsame.
  unfold rw_compound_assign. cbn [rw_compound_assign_k fst]. unfold plain_assign.
  exists (S (S (S (S (S n))))). rewrite exec_S_assign.
  assert (is_andor op = false) as Hno by (destruct op; try discriminate Hop; reflexivity).
  (* the target *)
  erewrite bind_eq; [|cbn [assign_tgts]; rewrite eval_target_S_ident, Hl; reflexivity].
  (* the value: x is read first, in the initial store *)
  erewrite bind_eq.
  2:{ rewrite eval_list_S_one, eval_S_binop by exact Hno.
      erewrite bind_eq; [|rewrite eval1_S, eval_S_ident, Hl;
                          erewrite bind_eq; [|erewrite bind_eq; [reflexivity|apply get_cell_some; symmetry; exact Hsame]];
                          reflexivity].
      cbn [first]. erewrite bind_eq; [|apply (eval1_up _ _ _ _ _ _ _ _ (S (S n)) Hrhs); lia].
      apply (binop_sem_compound d (S n) op cur rhs s1 q s3 Hop Hq). lia. }
  (* the assignment *)
  cbn [assign_all arg nth]. rewrite assign_target_S.
  erewrite bind_eq; [|erewrite bind_eq; [reflexivity|exact Hset]]. reflexivity.
Qed.

Example compound_local_example :
  let st := SCompound BAdd (EIdent [120]) (ENumber (NDec 4607182418800017408 None)) in
  let s := mkStore [VNum (of_Z 41)] initial_tables [] [] [] 0 in
  lookup [([120], 0)] [120] = Some 0 /\
  rw_compound_assign st = SAssign [EIdent [120]] [EBinary BAdd (EIdent [120]) (ENumber (NDec 4607182418800017408 None))] /\
  exists s', exec_stmt Luau 6 [([120], 0)] [] st s = Ok ([([120], 0)], SigNone) s' /\ cells s' = [VNum (of_Z 42)] /\
             exec_stmt Luau 6 [([120], 0)] [] (rw_compound_assign st) s = Ok ([([120], 0)], SigNone) s'.
Proof. split; [reflexivity|]. split; [reflexivity|]. vm_compute. eexists. repeat split. Qed.

(** ** global variable *)

(** what reading the global [x] yields when the globals table has no metatable *)
Definition global_read (s : store) (x : name) : option value :=
  match nth_N (tables s) (N.to_nat A_globals) with
  | Some g => match t_meta g with None => Some (raw_get (t_entries g) (VStr x)) | Some _ => None end
  | None => None
  end.

Lemma index_global d n s x v : global_read s x = Some v ->
  index d (S n) (VTable A_globals) (VStr x) s = Ok v s.
Proof.
  unfold global_read. destruct (nth_N (tables s) (N.to_nat A_globals)) as [g|] eqn:Eg; [|discriminate].
  destruct (t_meta g) eqn:Em; [discriminate|]. intros E. inversion E; subst. clear E.
  rewrite index_S_table. erewrite bind_eq; [|apply get_table_some; exact Eg]. cbn [norm_key].
  destruct (raw_get (t_entries g) (VStr x)) eqn:Er; try reflexivity.
  assert (metamethod (VTable A_globals) "__index" s = Ok VNil s) as Hmm.
  { unfold metamethod, metatable_of.
    erewrite bind_eq; [|erewrite bind_eq; [|apply get_table_some; exact Eg]; reflexivity]. rewrite Em. reflexivity. }
  erewrite bind_eq; [|exact Hmm]. reflexivity.
Qed.

Lemma eval_global_ident d n rho va x s v :
  lookup rho x = None -> is_ext_name x = false -> global_read s x = Some v ->
  eval d (S (S n)) rho va (EIdent x) s = Ok [v] s.
Proof.
  intros Hl Hx Hv. rewrite eval_S_ident, Hl. erewrite bind_eq; [|apply index_global; exact Hv].
  destruct v; try reflexivity. rewrite Hx. reflexivity.
Qed.

(** evaluating [e] changes neither the value of the global [x] nor the plainness of the
    globals table *)
Definition leaves_global (d : dialect) (rho : env) (va : list value) (e : expr) (s : store) (x : name) : Prop :=
  exists v, global_read s x = Some v /\
            forall n r s1, eval1 d n rho va e s = Ok r s1 -> global_read s1 x = Some v.

Theorem compound_global_sound : forall d n rho va op x e s r s',
  lookup rho x = None -> is_ext_name x = false -> compound_op op = true -> leaves_global d rho va e s x ->
  exec_stmt d n rho va (SCompound op (EIdent x) e) s = Ok r s' ->
  exists n', exec_stmt d n' rho va (rw_compound_assign (SCompound op (EIdent x) e)) s = Ok r s'.
Proof.
  intros d n rho va op x e s r s' Hl Hx Hop (v & Hv & Hst) H.
  destruct n as [|n]; [discriminate H|]. rewrite exec_S_compound in H.
  destruct n as [|n]; [discriminate H|]. rewrite eval_target_S_ident, Hl in H.
  apply bind_ok in H as (t & s0 & Ht & H). apply ret_ok in Ht as [-> ->].
  apply bind_ok in H as (rhs & s1 & Hrhs & H). apply bind_ok in H as (cur & s2 & Hcur & H).
  pose proof (Hst _ _ _ Hrhs) as Hv1.
  rewrite (index_global d n s1 x v Hv1) in Hcur. inversion Hcur; subst cur s2. clear Hcur.
  apply bind_ok in H as (q & s3 & Hq & H). apply bind_ok in H as (u0 & s4 & Hset & H). apply ret_ok in H as [-> ->].
  rewrite assign_target_S in Hset.
  unfold rw_compound_assign. cbn [rw_compound_assign_k fst]. unfold plain_assign.
  exists (S (S (S (S (S (S n)))))). rewrite exec_S_assign.
  assert (is_andor op = false) as Hno by (destruct op; try discriminate Hop; reflexivity).
  erewrite bind_eq; [|cbn [assign_tgts]; rewrite eval_target_S_ident, Hl; reflexivity].
  erewrite bind_eq.
  2:{ rewrite eval_list_S_one, eval_S_binop by exact Hno.
      erewrite bind_eq;
        [|rewrite eval1_S; erewrite bind_eq; [|apply (eval_global_ident d n rho va x s v Hl Hx Hv)]; reflexivity].
      cbn [first].
      erewrite bind_eq; [|apply (eval1_up _ _ _ _ _ _ _ _ (S (S (S n))) Hrhs); lia].
      apply (binop_sem_compound d (S n) op v rhs s1 q s3 Hop Hq). lia. }
  cbn [assign_all arg nth]. rewrite assign_target_S.
  erewrite bind_eq; [|erewrite bind_eq; [reflexivity|eapply setindex_mono; [|exact Hset]; lia]]. reflexivity.
Qed.

Definition store_of {A} (r : res A) (dflt : store) : store := match r with Ok _ s => s | _ => dflt end.

Example compound_global_example :
  let st := SCompound BConcat (EIdent [103]) (EString [33]) in
  let s0 := initial_store [] in
  let s1 := store_of (exec_stmt Luau 9 [] [] (SAssign [EIdent [103]] [EString [104]]) s0) s0 in
  let s' := store_of (exec_stmt Luau 9 [] [] st s1) s1 in
  lookup [] [103] = None /\ is_ext_name [103] = false /\ global_read s1 [103] = Some (VStr [104]) /\
  exec_stmt Luau 9 [] [] st s1 = Ok ([], SigNone) s' /\
  exec_stmt Luau 9 [] [] (rw_compound_assign st) s1 = Ok ([], SigNone) s' /\
  global_read s' [103] = Some (VStr [104; 33]).
Proof. vm_compute. repeat split. Qed.

(** The order of evaluation matters: without [leaves_cell] the rewritten statement is NOT
    equivalent in the reference semantics ([x += f()] where [f] assigns [x]) *)
Theorem compound_order_refuted :
  exists rho st s r s' r2 s2,
    exec_stmt Luau 20 rho [] st s = Ok r s' /\
    exec_stmt Luau 20 rho [] (rw_compound_assign st) s = Ok r2 s2 /\ cells s' <> cells s2.
Proof.
  (* x at cell 0 = 1; f at cell 1 = closure 0: function() x = 10 return 1 end *)
  set (body := Block [SAssign [EIdent [120]] [ENumber (NDec 4621819117588971520 None)]]
                     (Some (LReturn [ENumber (NDec 4607182418800017408 None)]))).
  set (rho := [([120], 0); ([102], 1)] : env).
  set (s := mkStore [VNum (of_Z 1); VClosure 0] initial_tables
                    [mkClosure (FBody [] false None None None 0 body) rho false] [] [] 0).
  set (st := SCompound BAdd (EIdent [120]) (ECall (EIdent [102]) None (ATuple []))).
  exists rho, st, s.
  destruct (exec_stmt Luau 20 rho [] st s) as [r s'| | |] eqn:E1; try (vm_compute in E1; discriminate E1).
  destruct (exec_stmt Luau 20 rho [] (rw_compound_assign st) s) as [r2 s2| | |] eqn:E2; try (vm_compute in E2; discriminate E2).
  exists r, s', r2, s2. split; [reflexivity|]. split; [reflexivity|].
  vm_compute in E1. vm_compute in E2. inversion E1; subst. inversion E2; subst. cbn [cells]. discriminate.
Qed.

(** Regression witness of a repaired defect (known_findings.txt, fixed: C06): an
    interpolated-string key used to be treated as a literal and duplicated together with the calls
    inside it.  Source: [local n = 0 local function f() n += 1 return n end
    local t = { k1 = 10 } t[`k{f()}`] += 1 return t.k1, n]: original and output return (11, 1). *)
Definition interp_key_witness : block :=
  Block [SLocal false [Param (of_string "n") None] [ENumber (NDec 0 None)];
         SLocalFunction (of_string "f")
           (FBody [] false None None None 0
              (Block [SCompound BAdd (EIdent (of_string "n")) (ENumber (NDec 4607182418800017408 None))]
                     (Some (LReturn [EIdent (of_string "n")]))));
         SLocal false [Param (of_string "t") None]
           [ETable [TField (of_string "k1") (ENumber (NDec 4621819117588971520 None))]];
         SCompound BAdd (EIndex (EIdent (of_string "t"))
                                (EInterp [ISStr [107]; ISExpr (ECall (EIdent (of_string "f")) None (ATuple []))]))
                   (ENumber (NDec 4607182418800017408 None))]
        (Some (LReturn [EField (EIdent (of_string "t")) (of_string "k1"); EIdent (of_string "n")])).

Theorem compound_interp_key_once :
  run_chunk Luau 100 [] interp_key_witness = OutOk [] [RNum 4622382067542392832; RNum 4607182418800017408] /\
  run_chunk Luau 100 [] (rule_compound_assign interp_key_witness) = OutOk [] [RNum 4622382067542392832; RNum 4607182418800017408] /\
  run_chunk L51 100 [] (rule_compound_assign interp_key_witness) = OutOk [] [RNum 4622382067542392832; RNum 4607182418800017408].
Proof. vm_compute. repeat split. Qed.
