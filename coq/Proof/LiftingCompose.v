(** C01, LIFTING - the covered rules in any number, subset and order. *)
From Coq Require Import ZArith NArith List Bool String.
From DL Require Import Lib.Bytes Lib.F64 Lua.Syntax Lua.Sem Model.DefaultRules.
From DL Require Import Proof.LiftingRulesExpr Proof.LiftingRulesBlock Proof.LiftingRulesIf Proof.LiftingRulesConst.
Import ListNotations.
Open Scope N_scope.

(** what every lifted theorem says of its rule *)
Definition rule_sound (r : block -> block) : Prop :=
  forall d n orc b out, run_chunk d n orc b = out -> out <> OutFuel -> run_chunk d n orc (r b) = out.

(** the rules of a list, applied one after the other *)
Definition apply_rules (rs : list (block -> block)) (b : block) : block :=
  fold_left (fun acc r => r acc) rs b.

Theorem rules_sound_compose rs : Forall rule_sound rs -> rule_sound (apply_rules rs).
Proof.
  unfold apply_rules. induction 1 as [|r rs Hr Hrs IH]; intros d n orc b out Hrun Hf; cbn [fold_left].
  - exact Hrun.
  - apply IH; [|exact Hf]. now apply Hr.
Qed.

Definition covered_rules : list (block -> block) :=
  [ rule_remove_function_call_parens; rule_remove_empty_do; rule_filter_after_early_return;
    rule_remove_method_definition; rule_convert_index_to_field_const; rule_remove_unused_while_const;
    rule_remove_unused_if_branch_const; rule_compute_expression_const ].

Lemma covered_rules_sound : Forall rule_sound covered_rules.
Proof.
  unfold covered_rules. repeat constructor; intros d.
  - apply lifting_remove_function_call_parens.
  - apply lifting_remove_empty_do.
  - apply lifting_filter_after_early_return.
  - apply lifting_remove_method_definition.
  - apply lifting_convert_index_to_field_const.
  - apply lifting_remove_unused_while_const.
  - apply lifting_remove_unused_if_branch_const.
  - apply lifting_compute_expression_const.
Qed.

(** any list drawn from the covered rules (subset, order, repetition) *)
Theorem lifting_covered_rules : forall rs, (forall r, In r rs -> In r covered_rules) ->
  forall d n orc b out, run_chunk d n orc b = out -> out <> OutFuel ->
  run_chunk d n orc (apply_rules rs b) = out.
Proof.
  intros rs Hin. apply rules_sound_compose. apply Forall_forall. intros r Hr.
  exact (proj1 (Forall_forall _ _) covered_rules_sound r (Hin r Hr)).
Qed.

(** the same without compute_expression (whose constant folding rests on the validity lemmas
    of the float library and, through them, on the classical axioms of the real numbers) *)
Definition covered_rules_nofold : list (block -> block) :=
  [ rule_remove_function_call_parens; rule_remove_empty_do; rule_filter_after_early_return;
    rule_remove_method_definition; rule_convert_index_to_field_const; rule_remove_unused_while_const;
    rule_remove_unused_if_branch_const ].

Lemma covered_rules_nofold_sound : Forall rule_sound covered_rules_nofold.
Proof.
  unfold covered_rules_nofold. repeat constructor; intros d.
  - apply lifting_remove_function_call_parens.
  - apply lifting_remove_empty_do.
  - apply lifting_filter_after_early_return.
  - apply lifting_remove_method_definition.
  - apply lifting_convert_index_to_field_const.
  - apply lifting_remove_unused_while_const.
  - apply lifting_remove_unused_if_branch_const.
Qed.

Theorem lifting_covered_rules_nofold : forall rs, (forall r, In r rs -> In r covered_rules_nofold) ->
  forall d n orc b out, run_chunk d n orc b = out -> out <> OutFuel ->
  run_chunk d n orc (apply_rules rs b) = out.
Proof.
  intros rs Hin. apply rules_sound_compose. apply Forall_forall. intros r Hr.
  exact (proj1 (Forall_forall _ _) covered_rules_nofold_sound r (Hin r Hr)).
Qed.
