(** The invariant of the worker model and its preservation by every tree operation.

    [wf] is the structural part (node indices, free list, external-dependency container);
    [inv] adds the semantic part: every [Done] item that no unreported change touches is
    [good], i.e. its status, registered dependencies and output file are those of [xform] on
    the current files. *)
From Coq Require Import Arith PeanoNat Lia.
From DL Require Import Lib.Bytes Model.WorkerFs Model.Worker Proof.WorkerBasics.
Open Scope N_scope.

Lemma get_set_slot s i j v :
  (i < List.length s)%nat ->
  get_slot (set_slot s i v) j = if Nat.eqb i j then v else get_slot s j.
Proof.
  intros Hi. destruct (Nat.eqb i j) eqn:E.
  - apply Nat.eqb_eq in E. subst. apply get_set_slot_same. exact Hi.
  - apply Nat.eqb_neq in E. apply get_set_slot_other. exact E.
Qed.

Lemma item_reset_idem it : item_reset (item_reset it) = item_reset it.
Proof. reflexivity. Qed.

Section Inv.
  Variable cfg : Type.
  Variable hash : cfg -> N.
  Variable xform : cfg -> path -> content -> fs -> option content * list path.
  Variable inp outp : path.

  Hypothesis io_disjoint1 : starts_with inp outp = false.
  Hypothesis io_disjoint2 : starts_with outp inp = false.

  Notation out_of := (out_of inp outp).
  Notation is_source := (is_source inp).

  Variable f0 : fs.
  (** every path that is ever a user file *)
  Variable E : list path.
  Hypothesis E_nonest : forall a b, In a E -> In b E -> starts_with a b = true -> a = b.

  Lemma source_not_out q : is_source q = true -> starts_with outp q = false.
  Proof.
    unfold Worker.is_source. intros H. apply andb_true_iff in H as [H _].
    destruct (starts_with outp q) eqn:Eo; [|reflexivity].
    destruct (prefixes_comparable _ _ _ H Eo) as [C|C]; congruence.
  Qed.

  Lemma out_of_under q : starts_with outp (out_of q) = true.
  Proof. apply rebase_starts. Qed.

  Lemma out_of_inj p q : is_source p = true -> is_source q = true -> out_of p = out_of q -> p = q.
  Proof.
    unfold Worker.is_source. intros Hp Hq. apply andb_true_iff in Hp as [Hp _]. apply andb_true_iff in Hq as [Hq _].
    apply rebase_inj; assumption.
  Qed.

  Lemma source_neq_out q : is_source q = true -> q <> out_of q.
  Proof.
    intros H Heq. pose proof (out_of_under q) as Ho. rewrite <- Heq in Ho.
    rewrite (source_not_out _ H) in Ho. discriminate.
  Qed.

  (** * Structural invariant *)

  Record wf (t : wtree) : Prop := mkWf {
    wf_nodup : forall i j a b,
        get_slot (slots t) i = Some a -> get_slot (slots t) j = Some b -> i_src a = i_src b -> i = j;
    wf_ext : forall p i, In i (ext_get (ext t) p) ->
                         exists it, get_slot (slots t) i = Some it /\ In p (i_deps it);
    wf_free : forall i, In i (free t) -> get_slot (slots t) i = None /\ (i < List.length (slots t))%nat;
    wf_free_nodup : NoDup (free t);
    wf_item : forall i it, get_slot (slots t) i = Some it ->
                           i_out it = out_of (i_src it) /\ is_source (i_src it) = true /\ In (i_src it) E;
    wf_notstarted : forall i it, get_slot (slots t) i = Some it -> i_st it = NotStarted -> i_deps it = [];
    wf_linked : forall i it dep, get_slot (slots t) i = Some it -> In dep (i_deps it) ->
                                 In i (ext_get (ext t) dep);
    wf_rmf : forall p, In p (rmf t) -> exists q, In q E /\ is_source q = true /\ p = out_of q;
    wf_done_rmf : forall i it, get_slot (slots t) i = Some it -> is_done (i_st it) = true ->
                               ~ In (i_out it) (rmf t)
  }.

  Lemma wf_empty : wf empty_tree.
  Proof.
    constructor; cbn; intros; try contradiction; try constructor;
      try (unfold get_slot in *; destruct i; discriminate).
    all: try (match goal with H : get_slot [] ?i = Some _ |- _ => unfold get_slot in H; destruct i; discriminate end).
  Qed.

  (** ** restart_work *)

  Lemma restart_work_ok t i it :
    wf t -> get_slot (slots t) i = Some it ->
    exists t', restart_work t i = Ok t' /\ wf t' /\
               rmf t' = rmf t /\ last_hash t' = last_hash t /\ free t' = free t /\ snap t' = snap t /\
               List.length (slots t') = List.length (slots t) /\
               forall j, get_slot (slots t') j =
                         if Nat.eqb i j then Some (item_reset it) else get_slot (slots t) j.
  Proof.
    intros W Hi. unfold restart_work. rewrite Hi. eexists. split; [reflexivity|].
    pose proof (get_slot_some_lt _ _ _ Hi) as Hlt.
    assert (Hget : forall j, get_slot (set_slot (slots t) i (Some (item_reset it))) j =
                             if Nat.eqb i j then Some (item_reset it) else get_slot (slots t) j)
      by (intros j; apply get_set_slot; exact Hlt).
    split; [|cbn; repeat split; try reflexivity; [apply set_slot_length | exact Hget]].
    constructor; cbn [slots ext free rmf set_ext set_slots last_hash].
    - intros a b x y Ha Hb Hs. rewrite Hget in Ha, Hb.
      destruct (Nat.eqb i a) eqn:Ea, (Nat.eqb i b) eqn:Eb.
      + apply Nat.eqb_eq in Ea, Eb. congruence.
      + apply Nat.eqb_eq in Ea. subst a. inversion Ha; subst x. cbn in Hs.
        eapply (wf_nodup _ W); eassumption.
      + apply Nat.eqb_eq in Eb. subst b. inversion Hb; subst y. cbn in Hs.
        eapply (wf_nodup _ W); eassumption.
      + eapply (wf_nodup _ W); eassumption.
    - intros p j Hj. apply ext_get_unlink_all in Hj as [Hj Hn].
      apply (wf_ext _ W) in Hj as [itj [Hs Hd]]. rewrite Hget.
      destruct (Nat.eqb i j) eqn:Eij.
      + apply Nat.eqb_eq in Eij. subst j. exfalso. apply Hn. split; [|reflexivity]. congruence.
      + eauto.
    - intros j Hj. apply (wf_free _ W) in Hj as [H1 H2]. rewrite Hget, set_slot_length.
      split; [|exact H2]. destruct (Nat.eqb i j) eqn:Eij; [|exact H1].
      apply Nat.eqb_eq in Eij. subst j. congruence.
    - apply (wf_free_nodup _ W).
    - intros j itj Hj. rewrite Hget in Hj. destruct (Nat.eqb i j) eqn:Eij.
      + inversion Hj; subst itj. cbn. eapply (wf_item _ W); eassumption.
      + eapply (wf_item _ W); eassumption.
    - intros j itj Hj Hst. rewrite Hget in Hj. destruct (Nat.eqb i j) eqn:Eij.
      + inversion Hj; subst itj. reflexivity.
      + eapply (wf_notstarted _ W); eassumption.
    - intros j itj dep Hj Hd. rewrite Hget in Hj. destruct (Nat.eqb i j) eqn:Eij.
      + inversion Hj; subst itj. cbn in Hd. contradiction.
      + apply ext_get_unlink_all. split; [eapply (wf_linked _ W); eassumption|].
        intros [_ Heq]. apply Nat.eqb_neq in Eij. congruence.
    - apply (wf_rmf _ W).
    - intros j itj Hj Hdone. rewrite Hget in Hj. destruct (Nat.eqb i j) eqn:Eij.
      + inversion Hj; subst itj. discriminate.
      + eapply (wf_done_rmf _ W); eassumption.
  Qed.

  Definition reset_if (b : bool) (it : item) : item := if b then item_reset it else it.

  Lemma restart_all_ok t idxs :
    wf t -> (forall i, In i idxs -> get_slot (slots t) i <> None) ->
    exists t', restart_all t idxs = Ok t' /\ wf t' /\
               rmf t' = rmf t /\ last_hash t' = last_hash t /\ free t' = free t /\ snap t' = snap t /\
               List.length (slots t') = List.length (slots t) /\
               forall j, get_slot (slots t') j =
                         option_map (reset_if (mem_nat j idxs)) (get_slot (slots t) j).
  Proof.
    revert t; induction idxs as [|i idxs IH]; intros t W Hocc; cbn [restart_all].
    - exists t. split; [reflexivity|]. split; [exact W|]. repeat split; try reflexivity.
      intros j. cbn. destruct (get_slot (slots t) j); reflexivity.
    - destruct (get_slot (slots t) i) as [it|] eqn:Hi; [|exfalso; apply (Hocc i); [left; reflexivity|exact Hi]].
      destruct (restart_work_ok t i it W Hi) as [t1 [R1 [W1 [Hr [Hh [Hf [Hsn [Hl Hg]]]]]]]].
      rewrite R1.
      destruct (IH t1 W1) as [t2 [R2 [W2 [Hr2 [Hh2 [Hf2 [Hsn2 [Hl2 Hg2]]]]]]]].
      { intros j Hj. rewrite Hg. destruct (Nat.eqb i j); [discriminate|]. apply Hocc. right. exact Hj. }
      exists t2. split; [exact R2|]. split; [exact W2|].
      repeat split; try congruence.
      intros j. rewrite Hg2, Hg. unfold mem_nat. cbn [existsb].
      rewrite (Nat.eqb_sym j i).
      destruct (Nat.eqb i j) eqn:Eij; cbn [orb].
      + apply Nat.eqb_eq in Eij. subst j. rewrite Hi. cbn [option_map].
        destruct (existsb (Nat.eqb i) idxs); reflexivity.
      + reflexivity.
  Qed.

  (** indices registered for a path are occupied *)
  Lemma ext_occupied t p : wf t -> forall i, In i (ext_get (ext t) p) -> get_slot (slots t) i <> None.
  Proof. intros W i Hi. apply (wf_ext _ W) in Hi as [it [H _]]. congruence. Qed.

  (** ** remove_node *)

  Lemma remove_node_ok t i it :
    wf t -> get_slot (slots t) i = Some it -> i_deps it = [] ->
    let t' := queue_removal (remove_node t i) it in
    wf t' /\
    rmf t' = (rmf t ++ [i_out it])%list /\ last_hash t' = last_hash t /\ ext t' = ext t /\
    forall j, get_slot (slots t') j = if Nat.eqb i j then None else get_slot (slots t) j.
  Proof.
    intros W Hi Hd. pose proof (get_slot_some_lt _ _ _ Hi) as Hlt.
    destruct (wf_item _ W _ _ Hi) as [Ho [Hs HE]].
    assert (Hneq : path_eqb (i_src it) (i_out it) = false).
    { apply path_eqb_neq. rewrite Ho. apply source_neq_out. exact Hs. }
    unfold queue_removal, remove_node. rewrite Hi, Hneq. cbn zeta.
    assert (Hget : forall j, get_slot (set_slot (slots t) i None) j =
                             if Nat.eqb i j then None else get_slot (slots t) j)
      by (intros j; apply get_set_slot; exact Hlt).
    cbn [slots ext free rmf set_ext set_slots set_free set_rmf last_hash].
    split; [|repeat split; try reflexivity; exact Hget].
    constructor; cbn [slots ext free rmf set_ext set_slots set_free set_rmf last_hash].
    - intros a b x y Ha Hb. rewrite Hget in Ha, Hb.
      destruct (Nat.eqb i a); [discriminate|]. destruct (Nat.eqb i b); [discriminate|].
      eapply (wf_nodup _ W); eassumption.
    - intros p j Hj. apply (wf_ext _ W) in Hj as [itj [Hsj Hdj]]. rewrite Hget.
      destruct (Nat.eqb i j) eqn:Eij; [|eauto].
      apply Nat.eqb_eq in Eij. subst j. rewrite Hi in Hsj. inversion Hsj; subst itj.
      rewrite Hd in Hdj. contradiction.
    - intros j [<-|Hj]; rewrite Hget, set_slot_length.
      + rewrite Nat.eqb_refl. split; [reflexivity|exact Hlt].
      + apply (wf_free _ W) in Hj as [H1 H2]. split; [|exact H2]. destruct (Nat.eqb i j); [reflexivity|exact H1].
    - constructor; [|apply (wf_free_nodup _ W)]. intros Hin. apply (wf_free _ W) in Hin as [H1 _]. congruence.
    - intros j itj Hj. rewrite Hget in Hj. destruct (Nat.eqb i j); [discriminate|]. eapply (wf_item _ W); eassumption.
    - intros j itj Hj. rewrite Hget in Hj. destruct (Nat.eqb i j); [discriminate|]. eapply (wf_notstarted _ W); eassumption.
    - intros j itj dep Hj. rewrite Hget in Hj. destruct (Nat.eqb i j); [discriminate|]. eapply (wf_linked _ W); eassumption.
    - intros p Hp. apply in_app_or in Hp as [Hp|[<-|[]]]; [apply (wf_rmf _ W); exact Hp|].
      exists (i_src it). auto.
    - intros j itj Hj Hdone Hin. rewrite Hget in Hj. destruct (Nat.eqb i j) eqn:Eij; [discriminate|].
      apply in_app_or in Hin as [Hin|[Heq|[]]]; [eapply (wf_done_rmf _ W); eassumption|].
      destruct (wf_item _ W _ _ Hj) as [Hoj [Hsj _]]. rewrite Ho, Hoj in Heq.
      apply out_of_inj in Heq; [|assumption|assumption].
      apply Nat.eqb_neq in Eij. apply Eij. eapply (wf_nodup _ W); eassumption.
  Qed.

  Lemma remove_nodes_ok idxs : forall t,
    wf t ->
    (forall i it, In i idxs -> get_slot (slots t) i = Some it -> i_deps it = []) ->
    let t' := remove_nodes t idxs in
    wf t' /\ last_hash t' = last_hash t /\ ext t' = ext t /\
    (forall j, get_slot (slots t') j = if mem_nat j idxs then None else get_slot (slots t) j) /\
    (forall p, In p (rmf t') <->
               In p (rmf t) \/ exists i it, In i idxs /\ get_slot (slots t) i = Some it /\ i_out it = p).
  Proof.
    induction idxs as [|i idxs IH]; intros t W Hd; cbn [remove_nodes].
    - cbn. split; [exact W|]. split; [reflexivity|]. split; [reflexivity|]. split; [reflexivity|].
      intros p. split; [auto|]. intros [H|[i [it [[] _]]]]. exact H.
    - destruct (get_slot (slots t) i) as [it|] eqn:Hi.
      + destruct (remove_node_ok t i it W Hi) as [W1 [Hr1 [Hh1 [He1 Hg1]]]].
        { eapply Hd; [left; reflexivity|exact Hi]. }
        set (t1 := queue_removal (remove_node t i) it) in *.
        destruct (IH t1 W1) as [W2 [Hh2 [He2 [Hg2 Hr2]]]].
        { intros j itj Hj Hs. rewrite Hg1 in Hs. destruct (Nat.eqb i j); [discriminate|].
          eapply Hd; [right; exact Hj|exact Hs]. }
        cbn zeta in *. split; [exact W2|]. split; [congruence|]. split; [congruence|]. split.
        * intros j. rewrite Hg2, Hg1. unfold mem_nat. cbn [existsb]. rewrite (Nat.eqb_sym j i).
          destruct (Nat.eqb i j); cbn [orb]; [destruct (existsb (Nat.eqb j) idxs); reflexivity|reflexivity].
        * intros p. rewrite Hr2, Hr1. split.
          -- intros [Hp|[j [itj [Hj [Hs Ho]]]]].
             ++ apply in_app_or in Hp as [Hp|[<-|[]]]; [left; exact Hp|].
                right. exists i, it. split; [left; reflexivity|auto].
             ++ rewrite Hg1 in Hs. destruct (Nat.eqb i j) eqn:Eij; [discriminate|].
                right. exists j, itj. split; [right; exact Hj|auto].
          -- intros [Hp|[j [itj [[<-|Hj] [Hs Ho]]]]].
             ++ left. apply in_or_app. left. exact Hp.
             ++ rewrite Hi in Hs. inversion Hs; subst itj. left. apply in_or_app. right. left. exact Ho.
             ++ destruct (Nat.eqb i j) eqn:Eij.
                ** apply Nat.eqb_eq in Eij. subst j. rewrite Hi in Hs. inversion Hs; subst itj.
                   left. apply in_or_app. right. left. exact Ho.
                ** right. exists j, itj. split; [exact Hj|]. rewrite Hg1, Eij. auto.
      + destruct (IH t W) as [W2 [Hh2 [He2 [Hg2 Hr2]]]].
        { intros j itj Hj Hs. eapply Hd; [right; exact Hj|exact Hs]. }
        cbn zeta in *. split; [exact W2|]. split; [exact Hh2|]. split; [exact He2|]. split.
        * intros j. rewrite Hg2. unfold mem_nat. cbn [existsb]. rewrite (Nat.eqb_sym j i).
          destruct (Nat.eqb i j) eqn:Eij; cbn [orb]; [|reflexivity].
          apply Nat.eqb_eq in Eij. subst j. rewrite Hi. destruct (existsb (Nat.eqb i) idxs); reflexivity.
        * intros p. rewrite Hr2. split.
          -- intros [Hp|[j [itj [Hj [Hs Ho]]]]]; [left; exact Hp|].
             right. exists j, itj. split; [right; exact Hj|auto].
          -- intros [Hp|[j [itj [[<-|Hj] [Hs Ho]]]]]; [left; exact Hp| |].
             ++ congruence.
             ++ right. exists j, itj. auto.
  Qed.

  (** ** add_node *)

  Lemma insert_source_ok t p :
    wf t -> node_of t p = None -> is_source p = true -> In p E ->
    let it := mkItem p (out_of p) NotStarted [] in
    let t' := insert_source t p (out_of p) in
    wf t' /\ rmf t' = rmf t /\ last_hash t' = last_hash t /\ ext t' = ext t /\
    exists k, get_slot (slots t) k = None /\
              forall j, get_slot (slots t') j = if Nat.eqb k j then Some it else get_slot (slots t) j.
  Proof.
    intros W Hn Hs HE it t'. subst t'. unfold insert_source, add_node. fold it.
    assert (Hnew : forall j itj, get_slot (slots t) j = Some itj -> i_src itj <> p)
      by (intros j itj Hj; eapply node_of_none; eassumption).
    destruct (free t) as [|k fr] eqn:Hfree.
    - (* append *)
      set (k := List.length (slots t)).
      assert (Hget : forall j, get_slot (slots t ++ [Some it]) j =
                               if Nat.eqb k j then Some it else get_slot (slots t) j).
      { intros j. destruct (Nat.eqb k j) eqn:Ekj.
        - apply Nat.eqb_eq in Ekj. subst j. apply get_slot_app_new.
        - apply Nat.eqb_neq in Ekj. destruct (Nat.lt_ge_cases j k) as [L|L].
          + apply get_slot_app_old. exact L.
          + rewrite get_slot_app_beyond by (unfold k in *; lia).
            unfold get_slot. symmetry. apply nth_overflow. unfold k in *. lia. }
      assert (Hk : get_slot (slots t) k = None) by (unfold get_slot; apply nth_overflow; unfold k; lia).
      cbn [slots ext free rmf set_ext set_slots set_free set_rmf last_hash].
      split; [|repeat split; try reflexivity; exists k; split; [exact Hk|exact Hget]].
      constructor; cbn [slots ext free rmf set_ext set_slots set_free set_rmf last_hash].
      + intros a b x y Ha Hb Hsrc. rewrite Hget in Ha, Hb.
        destruct (Nat.eqb k a) eqn:Ea, (Nat.eqb k b) eqn:Eb.
        * apply Nat.eqb_eq in Ea, Eb. congruence.
        * inversion Ha; subst x. cbn in Hsrc. exfalso. eapply Hnew; eauto.
        * inversion Hb; subst y. cbn in Hsrc. exfalso. eapply Hnew; eauto.
        * eapply (wf_nodup _ W); eassumption.
      + intros q j Hj. apply (wf_ext _ W) in Hj as [itj [H1 H2]]. rewrite Hget.
        destruct (Nat.eqb k j) eqn:Ekj; [|eauto]. apply Nat.eqb_eq in Ekj. subst j. congruence.
      + rewrite Hfree. intros j [].
      + rewrite Hfree. constructor.
      + intros j itj Hj. rewrite Hget in Hj. destruct (Nat.eqb k j).
        * inversion Hj; subst itj. cbn. auto.
        * eapply (wf_item _ W); eassumption.
      + intros j itj Hj Hst. rewrite Hget in Hj. destruct (Nat.eqb k j).
        * inversion Hj; subst itj. reflexivity.
        * eapply (wf_notstarted _ W); eassumption.
      + intros j itj dep Hj Hd. rewrite Hget in Hj. destruct (Nat.eqb k j).
        * inversion Hj; subst itj. contradiction.
        * eapply (wf_linked _ W); eassumption.
      + apply (wf_rmf _ W).
      + intros j itj Hj Hdone. rewrite Hget in Hj. destruct (Nat.eqb k j).
        * inversion Hj; subst itj. discriminate.
        * eapply (wf_done_rmf _ W); eassumption.
    - (* reuse the most recently freed index *)
      destruct (wf_free _ W k) as [Hk Hlt]; [rewrite Hfree; left; reflexivity|].
      assert (Hget : forall j, get_slot (set_slot (slots t) k (Some it)) j =
                               if Nat.eqb k j then Some it else get_slot (slots t) j)
        by (intros j; apply get_set_slot; exact Hlt).
      pose proof (wf_free_nodup _ W) as Hnd. rewrite Hfree in Hnd. inversion Hnd as [|? ? Hnotin Hnd']; subst.
      cbn [slots ext free rmf set_ext set_slots set_free set_rmf last_hash].
      split; [|repeat split; try reflexivity; exists k; split; [exact Hk|exact Hget]].
      constructor; cbn [slots ext free rmf set_ext set_slots set_free set_rmf last_hash].
      + intros a b x y Ha Hb Hsrc. rewrite Hget in Ha, Hb.
        destruct (Nat.eqb k a) eqn:Ea, (Nat.eqb k b) eqn:Eb.
        * apply Nat.eqb_eq in Ea, Eb. congruence.
        * inversion Ha; subst x. cbn in Hsrc. exfalso. eapply Hnew; eauto.
        * inversion Hb; subst y. cbn in Hsrc. exfalso. eapply Hnew; eauto.
        * eapply (wf_nodup _ W); eassumption.
      + intros q j Hj. apply (wf_ext _ W) in Hj as [itj [H1 H2]]. rewrite Hget.
        destruct (Nat.eqb k j) eqn:Ekj; [|eauto]. apply Nat.eqb_eq in Ekj. subst j. congruence.
      + intros j Hj. rewrite Hget, set_slot_length.
        destruct (wf_free _ W j) as [H1 H2]; [rewrite Hfree; right; exact Hj|].
        split; [|exact H2]. destruct (Nat.eqb k j) eqn:Ekj; [|exact H1].
        apply Nat.eqb_eq in Ekj. subst j. contradiction.
      + exact Hnd'.
      + intros j itj Hj. rewrite Hget in Hj. destruct (Nat.eqb k j).
        * inversion Hj; subst itj. cbn. auto.
        * eapply (wf_item _ W); eassumption.
      + intros j itj Hj Hst. rewrite Hget in Hj. destruct (Nat.eqb k j).
        * inversion Hj; subst itj. reflexivity.
        * eapply (wf_notstarted _ W); eassumption.
      + intros j itj dep Hj Hd. rewrite Hget in Hj. destruct (Nat.eqb k j).
        * inversion Hj; subst itj. contradiction.
        * eapply (wf_linked _ W); eassumption.
      + apply (wf_rmf _ W).
      + intros j itj Hj Hdone. rewrite Hget in Hj. destruct (Nat.eqb k j).
        * inversion Hj; subst itj. discriminate.
        * eapply (wf_done_rmf _ W); eassumption.
  Qed.
End Inv.
