(** C17, value position: what [RemoveFunctionCallProcessor::process_expression] leaves in place
    of a removed call.

    - [expressions_as_expression]: [(e1 or true) and ((e2 or true) and nil)] evaluates every kept
      argument once, in order, each truncated to one value, and yields [nil];
    - remove_debug_profiling: the call of a no-op function in single-value position vs that
      expression ([profile_value_removal_sound]); in MULTI-value position (last argument, last
      returned expression, last table item) the no-op returns no value where the replacement
      returns one [nil] ([profile_value_tail_refuted]);
    - remove_assertions with [assert] bound to [function(...) return ... end]:
      [assert()] -> [nil], [assert(e)] -> [e] (all values), [assert(e1, e2, ...)] ->
      [select(1, e1, e2, ...)]. *)
From Coq Require Import ZArith NArith List Bool String Lia.
From DL Require Import Lib.Bytes Lib.F64 Lua.Syntax Lua.Sem Lua.EvalSpec.
From DL Require Import Model.Evaluator Model.Removal.
From DL Require Import Proof.SemFacts Proof.EvaluatorStore Proof.DefaultRulesSem Proof.RefactorSem.
Import ListNotations.
Open Scope N_scope.

Section Value.
Variable d : dialect.
Variable rho : env.
Variable va : list value.

(** the expressions are evaluated one after the other, threading the store *)
Inductive evals_in_order : list expr -> store -> store -> Prop :=
| eio_nil s : evals_in_order [] s s
| eio_cons e es s k vs s1 s' :
    eval d k rho va e s = Ok vs s1 -> evals_in_order es s1 s' -> evals_in_order (e :: es) s s'.

Lemma eval1_of_eval k e s vs s1 m :
  eval d k rho va e s = Ok vs s1 -> (k + 1 <= m)%nat -> eval1 d m rho va e s = Ok (first vs) s1.
Proof.
  intros H L. destruct m as [|m]; [lia|]. rewrite eval1_S.
  eapply bind_ok_intro; [eapply eval_up; [exact H|lia]|reflexivity].
Qed.

Lemma eval1_true_inv j s b sb : eval1 d j rho va ETrue s = Ok b sb -> b = VBool true /\ sb = s.
Proof.
  intros H. destruct j as [|j]; [discriminate|]. rewrite eval1_S in H.
  apply bind_ok in H as (x & sx & Hx & Hret). destruct j as [|j]; [discriminate|].
  rewrite eval_S_true in Hx. apply ret_ok in Hx as [-> ->]. apply ret_ok in Hret as [-> ->]. auto.
Qed.

(** * [(e or true) and rest] *)
Lemma keep_step k e s vs s1 rest r s' m :
  eval d k rho va e s = Ok vs s1 ->
  (forall j, (m <= j)%nat -> eval d j rho va rest s1 = Ok [r] s') ->
  forall j, (k + m + 5 <= j)%nat ->
  eval d j rho va (EBinary BAnd (EBinary BOr e ETrue) rest) s = Ok [r] s'.
Proof.
  intros He Hrest j L. destruct j as [|[|[|j]]]; try lia.
  rewrite eval_S_and.
  assert (Hor : exists a, truthy a = true /\ eval1 d (S (S j)) rho va (EBinary BOr e ETrue) s = Ok a s1).
  { assert (He1 : eval1 d j rho va e s = Ok (first vs) s1) by (apply (eval1_of_eval _ _ _ _ _ _ He); lia).
    destruct (truthy (first vs)) eqn:Et.
    - exists (first vs). split; [exact Et|]. rewrite eval1_S. eapply bind_ok_intro.
      { rewrite eval_S_or. eapply bind_ok_intro; [exact He1|]. rewrite Et. reflexivity. }
      reflexivity.
    - exists (VBool true). split; [reflexivity|]. rewrite eval1_S. eapply bind_ok_intro.
      { rewrite eval_S_or. eapply bind_ok_intro; [exact He1|]. rewrite Et.
        destruct j as [|[|j]]; try lia. rewrite eval1_S, eval_S_true. reflexivity. }
      reflexivity. }
  destruct Hor as (a & Ha & Hor). eapply bind_ok_intro; [exact Hor|]. rewrite Ha.
  eapply bind_ok_intro.
  { rewrite eval1_S. eapply bind_ok_intro; [apply Hrest; lia|reflexivity]. }
  reflexivity.
Qed.

Theorem expressions_as_expression_sound es s s' :
  evals_in_order es s s' ->
  exists m, forall j, (m <= j)%nat -> eval d j rho va (expressions_as_expression es) s = Ok [VNil] s'.
Proof.
  induction 1 as [s|e es s k vs s1 s' He Hes (m & IH)].
  - exists 1%nat. intros j L. destruct j; [lia|]. reflexivity.
  - exists (k + m + 5)%nat. intros j L. cbn [expressions_as_expression fold_right].
    eapply keep_step; [exact He|exact IH|exact L].
Qed.

(** conversely, the expression can do nothing else *)
Theorem expressions_as_expression_inv es : forall j s r s',
  eval d j rho va (expressions_as_expression es) s = Ok r s' -> r = [VNil] /\ evals_in_order es s s'.
Proof.
  induction es as [|e es IH]; intros j s r s' H; cbn [expressions_as_expression fold_right] in H.
  - destruct j; [discriminate|]. rewrite eval_S_nil in H. inv_ok H. subst. split; [reflexivity|constructor].
  - destruct j as [|j]; [discriminate|]. rewrite eval_S_and in H.
    apply bind_ok in H as (a & s0 & Hor & Hk).
    destruct j as [|j]; [discriminate|]. rewrite eval1_S in Hor.
    apply bind_ok in Hor as (vor & sor & Hor & Hret). apply ret_ok in Hret as [-> ->].
    destruct j as [|j]; [discriminate|]. rewrite eval_S_or in Hor.
    apply bind_ok in Hor as (ae & se & He & Hk2).
    destruct j as [|j]; [discriminate|]. rewrite eval1_S in He.
    apply bind_ok in He as (vs & s1 & He & Hret). apply ret_ok in Hret as [-> ->].
    assert (Hs : truthy (first vor) = true /\ sor = s1).
    { destruct (truthy (first vs)) eqn:Et.
      - apply ret_ok in Hk2 as [-> ->]. cbn [first]. auto.
      - apply bind_ok in Hk2 as (b & sb & Hb & Hret). apply ret_ok in Hret as [-> ->].
        apply eval1_true_inv in Hb as [-> ->]. cbn [first]. auto. }
    destruct Hs as [Ha ->]. rewrite Ha in Hk.
    apply bind_ok in Hk as (b & sb & Hb & Hret). apply ret_ok in Hret as [-> ->].
    rewrite eval1_S in Hb. apply bind_ok in Hb as (vr & sr & Hr & Hret). apply ret_ok in Hret as [-> ->].
    fold (expressions_as_expression es) in Hr.
    destruct (IH _ _ _ _ Hr) as [-> Hes]. split; [reflexivity|].
    econstructor; [exact He|exact Hes].
Qed.

(** * argument lists *)

(** a dropped argument: its evaluation changes no store *)
Definition quiet (e : expr) : Prop :=
  forall k s vs s', eval d k rho va e s = Ok vs s' -> s' = s.

Fixpoint simple_quiet (e : expr) : bool :=
  match e with
  | ENil | ETrue | EFalse | ENumber _ | EString _ | EVarArgs => true
  | EIdent x => match lookup rho x with Some _ => true | None => false end
  | EParen e' => simple_quiet e'
  | ETypeCast e' _ => simple_quiet e'
  | EUnary UNot e' => simple_quiet e'
  | _ => false
  end.

Lemma simple_quiet_quiet e : simple_quiet e = true -> quiet e.
Proof.
  unfold quiet.
  induction e as [ | | | nb | str | segs | | x | p IHp f | p IHp ky IHk | p IHp m a | f | bs els IHels
                 | e' IH | ens | op e' IH | op l IHl r IHr | e' IH t | p IHp tys ];
    cbn [simple_quiet]; intros Hq k st vs st' H; try discriminate Hq;
    (destruct k as [|k]; [discriminate|]).
  - rewrite eval_S_nil in H. apply ret_ok in H as [_ ->]. reflexivity.
  - rewrite eval_S_true in H. apply ret_ok in H as [_ ->]. reflexivity.
  - rewrite eval_S_false in H. apply ret_ok in H as [_ ->]. reflexivity.
  - rewrite eval_S_number in H. apply ret_ok in H as [_ ->]. reflexivity.
  - rewrite eval_S_string in H. apply ret_ok in H as [_ ->]. reflexivity.
  - rewrite eval_S_varargs in H. apply ret_ok in H as [_ ->]. reflexivity.
  - rewrite eval_S_ident in H. destruct (lookup rho x); [|discriminate].
    apply bind_ok in H as (v & s1 & Hc & Hret). apply ret_ok in Hret as [_ ->].
    apply get_cell_ok in Hc. exact Hc.
  - rewrite eval_S_paren in H. apply bind_ok in H as (v & s1 & H1 & Hret). apply ret_ok in Hret as [_ ->].
    destruct k; [discriminate|]. rewrite eval1_S in H1. apply bind_ok in H1 as (vs1 & s2 & H1 & Hret).
    apply ret_ok in Hret as [_ ->]. eauto.
  - destruct op; try discriminate. rewrite eval_S_unary in H.
    apply bind_ok in H as (v & s1 & H1 & Hret). apply ret_ok in Hret as [_ ->].
    destruct k; [discriminate|]. rewrite eval1_S in H1. apply bind_ok in H1 as (vs1 & s2 & H1 & Hret).
    apply ret_ok in Hret as [_ ->]. eauto.
  - rewrite eval_S_typecast in H. apply bind_ok in H as (v & s1 & H1 & Hret). apply ret_ok in Hret as [_ ->].
    destruct k; [discriminate|]. rewrite eval1_S in H1. apply bind_ok in H1 as (vs1 & s2 & H1 & Hret).
    apply ret_ok in Hret as [_ ->]. eauto.
Qed.

(** every argument is either kept ([has_side_effects]) or dropped and quiet *)
Definition kept_or_quiet (e : expr) : Prop := hse e = true \/ (hse e = false /\ quiet e).

Lemma eval_list_in_order es : forall k s vs s',
  Forall kept_or_quiet es -> eval_list d k rho va es s = Ok vs s' ->
  evals_in_order (filter hse es) s s'.
Proof.
  induction es as [|e es IH]; intros k s vs s' Hf H.
  - destruct k; [discriminate|]. rewrite eval_list_S_nil in H. inv_ok H. subst. constructor.
  - inversion Hf as [|? ? He Hes]; subst. destruct k as [|k]; [discriminate|].
    assert (Hsplit : exists j vs1 s1 k2 vs2, eval d j rho va e s = Ok vs1 s1 /\ eval_list d k2 rho va es s1 = Ok vs2 s').
    { destruct es as [|e2 rest].
      - rewrite eval_list_S_one in H. exists k, vs, s', 1%nat, []. split; [exact H|reflexivity].
      - rewrite eval_list_S_cons in H. inv_ok H. destruct k; [discriminate|]. rewrite eval1_S in H0. inv_ok H0.
        subst. eauto 10. }
    destruct Hsplit as (j & vs1 & s1 & k2 & vs2 & H1 & H2).
    cbn [filter]. destruct He as [Hk|[Hk Hq]]; rewrite Hk.
    + econstructor; [exact H1|]. eapply IH; eauto.
    + rewrite (Hq _ _ _ _ H1) in H2. eapply IH; eauto.
Qed.

(** * the removed call *)

(** the callee evaluates without effect to a function that, called on the evaluated arguments in
    the store they leave, returns nothing and leaves the store alone: [debug.profilebegin] /
    [debug.profileend] replaced by no-ops.  (The call is only constrained in that store: a
    closure is an address, which means nothing in an unrelated store.) *)
Definition noop_callee (p : expr) (es : list expr) (s : store) : Prop :=
  forall k f s0, eval1 d k rho va p s = Ok f s0 ->
    s0 = s /\ forall k2 args s1, eval_list d k2 rho va es s = Ok args s1 ->
              forall j r s2, call d j f args s1 = Ok r s2 -> r = [] /\ s2 = s1.

(** decomposition of a plain call *)
Lemma call_inv n p a s r s' :
  eval d n rho va (ECall p None a) s = Ok r s' ->
  exists n1 f s0 args s1,
    n = S n1 /\ eval1 d n1 rho va p s = Ok f s0 /\ eval_args d n1 rho va a s0 = Ok args s1 /\
    call d n1 f args s1 = Ok r s'.
Proof.
  intros H. destruct n as [|n]; [discriminate|]. rewrite eval_S_call in H.
  apply bind_ok in H as (f & s0 & Hf & H). apply bind_ok in H as (args & s1 & Ha & Hc).
  exists n, f, s0, args, s1. auto.
Qed.

Theorem profile_value_removal_sound n p es s v s' :
  noop_callee p es s -> Forall kept_or_quiet es ->
  eval1 d n rho va (ECall p None (ATuple es)) s = Ok v s' ->
  v = VNil /\
  exists m, forall j, (m <= j)%nat ->
    eval1 d j rho va (expressions_as_expression (preserve_args (ATuple es))) s = Ok VNil s'.
Proof.
  intros Hn Hf H. destruct n as [|n]; [discriminate|]. rewrite eval1_S in H.
  apply bind_ok in H as (r & sr & H & Hret). apply ret_ok in Hret as [-> ->].
  apply call_inv in H as (n1 & f & s0 & args & s1 & -> & Hp & Ha & Hc).
  destruct (Hn _ _ _ Hp) as [-> Hcall].
  destruct n1 as [|n1]; [discriminate|]. rewrite eval_args_S_tuple in Ha.
  destruct (Hcall _ _ _ Ha _ _ _ Hc) as [-> ->].
  split; [reflexivity|].
  pose proof (eval_list_in_order _ _ _ _ _ Hf Ha) as Hio.
  destruct (expressions_as_expression_sound _ _ _ Hio) as (m & Hm).
  exists (S m). intros j L. cbn [preserve_args].
  change VNil with (first [VNil]). eapply eval1_of_eval; [apply (Hm m); lia|lia].
Qed.

(** [assert] replaced by [function(...) return ... end] *)
Definition identity_callee (p : expr) (es : list expr) (s : store) : Prop :=
  forall k f s0, eval1 d k rho va p s = Ok f s0 ->
    s0 = s /\ forall k2 args s1, eval_list d k2 rho va es s = Ok args s1 ->
              forall j r s2, call d j f args s1 = Ok r s2 -> r = args /\ s2 = s1.

Theorem assert_value_removal_sound_0 n p s r s' :
  identity_callee p [] s ->
  eval d n rho va (ECall p None (ATuple [])) s = Ok r s' ->
  r = [] /\ s' = s /\ assert_result false [] = ENil.
Proof.
  intros Hn H. apply call_inv in H as (n1 & f & s0 & args & s1 & -> & Hp & Ha & Hc).
  destruct (Hn _ _ _ Hp) as [-> Hcall].
  destruct n1 as [|n1]; [discriminate|]. rewrite eval_args_S_tuple in Ha.
  destruct (Hcall _ _ _ Ha _ _ _ Hc) as [-> ->].
  destruct n1 as [|n1]; [discriminate|]. rewrite eval_list_S_nil in Ha.
  apply ret_ok in Ha as [-> ->]. auto.
Qed.

Theorem assert_value_removal_sound_1 n p e s r s' :
  identity_callee p [e] s ->
  eval d n rho va (ECall p None (ATuple [e])) s = Ok r s' ->
  assert_result false [e] = e /\ forall j, (n <= j)%nat -> eval d j rho va e s = Ok r s'.
Proof.
  intros Hn H. split; [reflexivity|].
  apply call_inv in H as (n1 & f & s0 & args & s1 & -> & Hp & Ha & Hc).
  destruct (Hn _ _ _ Hp) as [-> Hcall].
  destruct n1 as [|n1]; [discriminate|]. rewrite eval_args_S_tuple in Ha.
  destruct (Hcall _ _ _ Ha _ _ _ Hc) as [-> ->].
  destruct n1 as [|n1]; [discriminate|]. rewrite eval_list_S_one in Ha.
  intros j L. eapply eval_up; [exact Ha|lia].
Qed.

(** two or more arguments: [select(1, e1, e2, ...)], [sel] being the name [select] or the alias
    the rule declared for it; it must denote the builtin *)
Theorem assert_value_removal_sound_many n p sel es s r s' :
  identity_callee p es s -> (2 <= List.length es)%nat ->
  reads rho sel s (VBuiltin B_select) ->
  eval d n rho va (ECall p None (ATuple es)) s = Ok r s' ->
  forall j, (n + 4 <= j)%nat ->
  eval d j rho va (ECall (EIdent sel) None (ATuple (one :: es))) s = Ok r s'.
Proof.
  intros Hn Hlen Hsel H j L.
  apply call_inv in H as (n1 & f & s0 & args & s1 & -> & Hp & Ha & Hc).
  destruct (Hn _ _ _ Hp) as [-> Hcall].
  destruct n1 as [|n1]; [discriminate|]. rewrite eval_args_S_tuple in Ha.
  destruct (Hcall _ _ _ Ha _ _ _ Hc) as [-> ->].
  destruct es as [|e1 [|e2 rest]]; cbn [List.length] in Hlen; try lia.
  destruct j as [|[|[|[|[|j]]]]]; try lia.
  rewrite eval_S_call. eapply bind_ok_intro; [apply (reads_eval1 d _ _ _ _ _ _ Hsel); lia|].
  eapply bind_ok_intro.
  { rewrite eval_args_S_tuple, eval_list_S_cons. eapply bind_ok_intro.
    { unfold one. rewrite eval1_S, eval_S_number. reflexivity. }
    eapply bind_ok_intro; [eapply eval_list_up; [exact Ha|lia]|reflexivity]. }
  cbn [first]. rewrite call_S_builtin.
  replace (number_value (NDec (to_bits fone) None)) with fone by (vm_compute; reflexivity).
  rewrite call_builtin_S_select_one. reflexivity.
Qed.

End Value.

(** * satisfiable hypotheses, and the tail-position difference *)

Definition noop_body : fbody := FBody [] false None None None 0 (Block [] None).
Definition st_noop : store := mkStore [VClosure 0] initial_tables [mkClosure noop_body [] false] [] [] 0.
Definition rho_noop : env := [(of_string "f", 0)].
Definition call_f (es : list expr) : expr := ECall (EIdent (of_string "f")) None (ATuple es).
Definition ext_call : expr := ECall (EIdent (of_string "ext_a")) None (ATuple []).

(** [f(ext_a(), 1)] with [f] a no-op: the external call is made once, the value is [nil] *)
Example profile_value_example :
  exists s', eval1 L51 12 rho_noop [] (call_f [ext_call; one]) st_noop = Ok VNil s' /\
             eval1 L51 12 rho_noop [] (expressions_as_expression (preserve_args (ATuple [ext_call; one]))) st_noop = Ok VNil s'.
Proof. eexists. split; vm_compute; reflexivity. Qed.

(** in multi-value position the original yields NO value, the replacement ONE *)
Theorem profile_value_tail_refuted :
  exists dl rho va p s r1 r2 s1 s2,
    eval dl 12 rho va (ECall p None (ATuple [])) s = Ok r1 s1 /\
    eval dl 12 rho va (expressions_as_expression (preserve_args (ATuple []))) s = Ok r2 s2 /\
    r1 = [] /\ r2 = [VNil].
Proof.
  exists L51, rho_noop, [], (EIdent (of_string "f")), st_noop, [], [VNil], st_noop, st_noop.
  repeat split; vm_compute; reflexivity.
Qed.
