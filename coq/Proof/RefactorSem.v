(** Infrastructure shared by the soundness proofs of the refactoring rules (C16) and of the
    removal / injection rules (C17): fuel monotonicity in [rewrite]-friendly form (from
    Proof/LoweringFuel.v), a few more one-step unfolding equations of the reference interpreter
    (the others: Proof/SemFacts.v, Proof/DefaultRulesSem.v), and the facts about reading an
    identifier (a local cell, or a global of a globals table that needs no metamethod). *)
From Coq Require Import ZArith NArith List Bool String Lia.
From DL Require Import Lib.Bytes Lib.F64 Lua.Syntax Lua.Sem Lua.EvalSpec.
From DL Require Import Proof.SemFacts Proof.EvaluatorStore Proof.DefaultRulesSem Proof.LoweringFuel.
Import ListNotations.
Open Scope N_scope.

(** * fuel *)
Section Up.
Variable d : dialect.

Lemma eval_up n m rho va e s vs s' :
  eval d n rho va e s = Ok vs s' -> (n <= m)%nat -> eval d m rho va e s = Ok vs s'.
Proof. intros H L. eapply eval_mono; eauto. Qed.
Lemma eval1_up n m rho va e s v s' :
  eval1 d n rho va e s = Ok v s' -> (n <= m)%nat -> eval1 d m rho va e s = Ok v s'.
Proof. intros H L. eapply eval1_mono; eauto. Qed.
Lemma eval_list_up n m rho va es s vs s' :
  eval_list d n rho va es s = Ok vs s' -> (n <= m)%nat -> eval_list d m rho va es s = Ok vs s'.
Proof. intros H L. eapply eval_list_mono; eauto. Qed.
Lemma eval_args_up n m rho va a s vs s' :
  eval_args d n rho va a s = Ok vs s' -> (n <= m)%nat -> eval_args d m rho va a s = Ok vs s'.
Proof. intros H L. eapply eval_args_mono; eauto. Qed.
Lemma call_up n m f args s vs s' :
  call d n f args s = Ok vs s' -> (n <= m)%nat -> call d m f args s = Ok vs s'.
Proof. intros H L. eapply call_mono; eauto. Qed.
Lemma index_up n m o k s v s' :
  index d n o k s = Ok v s' -> (n <= m)%nat -> index d m o k s = Ok v s'.
Proof. intros H L. eapply index_mono; eauto. Qed.
Lemma setindex_up n m o k v s u s' :
  setindex d n o k v s = Ok u s' -> (n <= m)%nat -> setindex d m o k v s = Ok u s'.
Proof. intros H L. eapply setindex_mono; eauto. Qed.
Lemma exec_stmt_up n m rho va st s r s' :
  exec_stmt d n rho va st s = Ok r s' -> (n <= m)%nat -> exec_stmt d m rho va st s = Ok r s'.
Proof. intros H L. eapply exec_stmt_mono; eauto. Qed.
Lemma exec_stmts_up n m rho va ss last s r s' :
  exec_stmts d n rho va ss last s = Ok r s' -> (n <= m)%nat -> exec_stmts d m rho va ss last s = Ok r s'.
Proof. intros H L. eapply exec_stmts_mono; eauto. Qed.
Lemma exec_block_up n m rho va b s r s' :
  exec_block d n rho va b s = Ok r s' -> (n <= m)%nat -> exec_block d m rho va b s = Ok r s'.
Proof. intros H L. eapply exec_block_mono; eauto. Qed.

End Up.

(** * monad: building results *)

Lemma bind_ok_intro {A B} (m : M A) (f : A -> M B) s a s1 r :
  m s = Ok a s1 -> f a s1 = r -> bind m f s = r.
Proof. intros H1 H2. unfold bind. rewrite H1. exact H2. Qed.

(** * more unfolding equations *)
Section Unfold.
Variable d : dialect.

Lemma eval_target_0 rho va e s : eval_target d 0 rho va e s = Fuel. Proof. reflexivity. Qed.
Lemma eval_target_S_ident n rho va x :
  eval_target d (S n) rho va (EIdent x) =
  match lookup rho x with
  | Some a => ret (Some a, VNil, VNil)
  | None => ret (None, VTable A_globals, VStr x)
  end.
Proof. reflexivity. Qed.
Lemma eval_target_S_field n rho va p f :
  eval_target d (S n) rho va (EField p f) = (o <- eval1 d n rho va p ;; ret (None, o, VStr f)).
Proof. reflexivity. Qed.

Lemma assign_target_S_cell n rho a x y v : assign_target d (S n) rho (Some a, x, y) v = set_cell a v.
Proof. reflexivity. Qed.
Lemma assign_target_S_index n rho o k v : assign_target d (S n) rho (None, o, k) v = setindex d n o k v.
Proof. reflexivity. Qed.

Definition targets_go (n : nat) (rho : env) (va : list value) :=
  fix go (vs : list expr) : M (list (option N * value * value)) :=
    match vs with
    | [] => ret []
    | v :: rest => t <- eval_target d n rho va v ;; ts <- go rest ;; ret (t :: ts)
    end.

Definition assign_go (n : nat) (rho : env) :=
  fix go (ts : list (option N * value * value)) (vs : list value) : M unit :=
    match ts with
    | [] => ret tt
    | t :: rest => _ <- assign_target d n rho t (arg vs 0) ;; go rest (tl vs)
    end.

Lemma exec_stmt_S_assign n rho va vars vals :
  exec_stmt d (S n) rho va (SAssign vars vals) =
  (tgts <- targets_go n rho va vars ;;
   vs <- eval_list d n rho va vals ;;
   _ <- assign_go n rho tgts vs ;;
   ret (rho, SigNone)).
Proof. reflexivity. Qed.

Lemma exec_stmt_S_localfunction n rho va x f :
  exec_stmt d (S n) rho va (SLocalFunction x f) =
  (a <- new_cell VNil ;;
   c <- new_closure (mkClosure f ((x, a) :: rho) false) ;;
   _ <- set_cell a (VClosure c) ;;
   ret ((x, a) :: rho, SigNone)).
Proof. reflexivity. Qed.

Lemma call_0 f args s : call d 0 f args s = Fuel. Proof. reflexivity. Qed.
Lemma call_S_builtin n b args : call d (S n) (VBuiltin b) args = call_builtin d n b args.
Proof. reflexivity. Qed.
Lemma call_S_ext n x args : call d (S n) (VExt x) args = call_ext x args.
Proof. reflexivity. Qed.

Lemma call_builtin_S_sqrt n args :
  call_builtin d (S n) B_sqrt args =
  match tonum (arg args 0) with Some x => num_result (fsqrt x) | None => fail 44 end.
Proof. reflexivity. Qed.

Lemma call_builtin_S_select_one n args :
  call_builtin d (S n) B_select (VNum fone :: args) = ret args.
Proof. reflexivity. Qed.

Lemma index_0 o k s : index d 0 o k s = Fuel. Proof. reflexivity. Qed.
Lemma setindex_0 o k v s : setindex d 0 o k v s = Fuel. Proof. reflexivity. Qed.

Lemma setindex_S_table n a k v :
  setindex d (S n) (VTable a) k v =
  (t <- get_table a ;;
   let existing := raw_get (t_entries t) (match norm_key k with Some k' => k' | None => k end) in
   h <- (match existing with VNil => metamethod (VTable a) "__newindex" | _ => ret VNil end) ;;
   match h with
   | VNil =>
     match norm_key k with
     | None => fail 12
     | Some k' => set_table a (mkTable (raw_set (t_entries t) k' v) (t_meta t))
     end
   | VTable _ => setindex d n h k v
   | _ => _ <- call d n h [VTable a; k; v] ;; ret tt
   end).
Proof. reflexivity. Qed.

End Unfold.

(** * reading an identifier *)

Definition global_default (x : name) (v : value) : value :=
  match v with
  | VNil => if is_ext_name x then VExt x else VNil
  | _ => v
  end.

(** [x] denotes [v] in [s] and reading it runs no code: a local cell, or a global that is
    present in the globals table or absent from a globals table without metatable *)
Definition reads (rho : env) (x : name) (s : store) (v : value) : Prop :=
  match lookup rho x with
  | Some c => nth_N (cells s) (N.to_nat c) = Some v
  | None =>
    exists t, nth_N (tables s) (N.to_nat A_globals) = Some t /\
              (raw_get (t_entries t) (VStr x) <> VNil \/ t_meta t = None) /\
              v = global_default x (raw_get (t_entries t) (VStr x))
  end.

(** the syntactic side condition under which every successful read is of that kind *)
Definition pure_ident (rho : env) (x : name) (s : store) : Prop :=
  lookup rho x <> None \/ globals_plain s.

Section Reads.
Variable d : dialect.

Lemma get_cell_some a s v : nth_N (cells s) (N.to_nat a) = Some v -> get_cell a s = Ok v s.
Proof. intros H. unfold get_cell. now rewrite H. Qed.

Lemma index_raw_hit n a k s t :
  nth_N (tables s) (N.to_nat a) = Some t ->
  raw_get (t_entries t) (match norm_key k with Some k' => k' | None => k end) <> VNil ->
  index d (S n) (VTable a) k s =
  Ok (raw_get (t_entries t) (match norm_key k with Some k' => k' | None => k end)) s.
Proof.
  intros Ht Hv. rewrite index_S_table. unfold bind. rewrite (get_table_some _ _ _ Ht).
  destruct (raw_get _ _); try reflexivity. contradiction.
Qed.

Lemma index_plain_miss n a k s t :
  nth_N (tables s) (N.to_nat a) = Some t -> t_meta t = None ->
  raw_get (t_entries t) (match norm_key k with Some k' => k' | None => k end) = VNil ->
  index d (S n) (VTable a) k s = Ok VNil s.
Proof.
  intros Ht Hm Hv. rewrite index_S_table. unfold bind at 1. rewrite (get_table_some _ _ _ Ht).
  rewrite Hv. unfold bind. rewrite (metamethod_plain_tab s a "__index"); [reflexivity|].
  exists t. auto.
Qed.

Lemma reads_eval rho va x s v n :
  reads rho x s v -> (2 <= n)%nat -> eval d n rho va (EIdent x) s = Ok [v] s.
Proof.
  intros H L. destruct n as [|[|n]]; try lia. rewrite eval_S_ident. unfold reads in H.
  destruct (lookup rho x) as [c|].
  - unfold bind. rewrite (get_cell_some _ _ _ H). reflexivity.
  - destruct H as (t & Ht & Hk & ->).
    destruct (raw_get (t_entries t) (VStr x)) eqn:E;
      try (unfold bind; rewrite (index_raw_hit n A_globals (VStr x) s t Ht) by (cbn [norm_key]; congruence);
           cbn [norm_key]; rewrite E; reflexivity).
    destruct Hk as [Hk|Hk]; [congruence|].
    unfold bind. rewrite (index_plain_miss n A_globals (VStr x) s t Ht Hk E).
    unfold global_default. destruct (is_ext_name x); reflexivity.
Qed.

Lemma reads_eval1 rho va x s v n :
  reads rho x s v -> (3 <= n)%nat -> eval1 d n rho va (EIdent x) s = Ok v s.
Proof.
  intros H L. destruct n as [|n]; [lia|]. rewrite eval1_S. unfold bind.
  rewrite (reads_eval rho va x s v n H) by lia. reflexivity.
Qed.

Lemma eval_reads rho va x s n vs s' :
  pure_ident rho x s -> eval d n rho va (EIdent x) s = Ok vs s' ->
  s' = s /\ exists v, vs = [v] /\ reads rho x s v.
Proof.
  intros Hp H. destruct n as [|n]; [discriminate|]. rewrite eval_S_ident in H. unfold reads, pure_ident in *.
  destruct (lookup rho x) as [c|] eqn:El.
  - inv_ok H. subst. unfold get_cell in H0. destruct (nth_N (cells s) (N.to_nat c)) as [v0|] eqn:Ec; [|discriminate].
    inversion H0; subst. split; [reflexivity|]. exists a. split; reflexivity.
  - destruct Hp as [Hp|Hp]; [congruence|]. inv_ok H.
    destruct n as [|n]; [discriminate|]. rewrite index_S_table in H0. inv_ok H0.
    apply get_table_ok in H as [-> Ht].
    destruct Hp as (t & Ht' & Hm). rewrite Ht in Ht'. inversion Ht'; subst a0.
    cbn [norm_key] in H2.
    destruct (raw_get (t_entries t) (VStr x)) eqn:E.
    + unfold bind in H2. rewrite (metamethod_plain_tab s A_globals "__index") in H2 by (exists t; auto).
      inv_ok H2. subst. split.
      * destruct (is_ext_name x); inv_ok H1; subst; reflexivity.
      * exists (global_default x VNil). split.
        -- unfold global_default. destruct (is_ext_name x); inv_ok H1; subst; reflexivity.
        -- exists t. rewrite E. auto.
    + inv_ok H2. subst. inv_ok H1. subst. split; [reflexivity|]. eexists. split; [reflexivity|].
      exists t. rewrite E. split; [auto|]. split; [left; congruence|reflexivity].
    + inv_ok H2. subst. inv_ok H1. subst. split; [reflexivity|]. eexists. split; [reflexivity|].
      exists t. rewrite E. split; [auto|]. split; [left; congruence|reflexivity].
    + inv_ok H2. subst. inv_ok H1. subst. split; [reflexivity|]. eexists. split; [reflexivity|].
      exists t. rewrite E. split; [auto|]. split; [left; congruence|reflexivity].
    + inv_ok H2. subst. inv_ok H1. subst. split; [reflexivity|]. eexists. split; [reflexivity|].
      exists t. rewrite E. split; [auto|]. split; [left; congruence|reflexivity].
    + inv_ok H2. subst. inv_ok H1. subst. split; [reflexivity|]. eexists. split; [reflexivity|].
      exists t. rewrite E. split; [auto|]. split; [left; congruence|reflexivity].
    + inv_ok H2. subst. inv_ok H1. subst. split; [reflexivity|]. eexists. split; [reflexivity|].
      exists t. rewrite E. split; [auto|]. split; [left; congruence|reflexivity].
    + inv_ok H2. subst. inv_ok H1. subst. split; [reflexivity|]. eexists. split; [reflexivity|].
      exists t. rewrite E. split; [auto|]. split; [left; congruence|reflexivity].
Qed.

Lemma eval1_reads rho va x s n v s' :
  pure_ident rho x s -> eval1 d n rho va (EIdent x) s = Ok v s' -> s' = s /\ reads rho x s v.
Proof.
  intros Hp H. destruct n as [|n]; [discriminate|]. rewrite eval1_S in H. inv_ok H.
  apply (eval_reads _ _ _ _ _ _ _ Hp) in H0 as (-> & v' & -> & Hr). subst. cbn [first]. auto.
Qed.

End Reads.
