(** Basic facts about Model/Paths.v: equality tests, accessors on [q ++ [c]],
    [from_iter]/[extend]/[join] on well-shaped lists, and the behaviour of [normalize]
    on the shapes that occur in require resolution (names, leading "..", a leading "."). *)
From DL Require Import Lib.Bytes Model.Paths.
Require Import Lia PeanoNat.
Open Scope N_scope.

(** * equality tests *)

Lemma bytes_eqb_refl a : bytes_eqb a a = true.
Proof. apply bytes_eqb_eq. reflexivity. Qed.

Lemma comp_eqb_eq a b : comp_eqb a b = true <-> a = b.
Proof.
  destruct a, b; cbn [comp_eqb]; split; intros H; try reflexivity; try discriminate.
  - apply bytes_eqb_eq in H. congruence.
  - inversion H; subst. apply bytes_eqb_refl.
Qed.

Lemma comp_eqb_refl a : comp_eqb a a = true.
Proof. apply comp_eqb_eq. reflexivity. Qed.

Lemma path_eqb_eq a b : path_eqb a b = true <-> a = b.
Proof.
  revert b; induction a as [|x a IH]; intros [|y b]; cbn [path_eqb]; split; intros H;
    try reflexivity; try discriminate.
  - apply andb_true_iff in H as [H1 H2]. apply comp_eqb_eq in H1. apply IH in H2. congruence.
  - inversion H; subst. rewrite comp_eqb_refl. apply IH. reflexivity.
Qed.

Lemma path_eqb_refl a : path_eqb a a = true.
Proof. apply path_eqb_eq. reflexivity. Qed.

(** * shapes *)

Definition is_norm (c : comp) : bool := match c with Norm _ => true | _ => false end.
(** only names: a path below the working directory, already normalised *)
Definition simple (p : path) : bool := forallb is_norm p.
(** no "/" and no "." component *)
Definition plain_comp (c : comp) : bool := match c with Root | Cur => false | _ => true end.
Definition plain (p : path) : bool := forallb plain_comp p.

Lemma simple_plain p : simple p = true -> plain p = true.
Proof.
  unfold simple, plain. induction p as [|c p IH]; cbn [forallb]; intros H; [reflexivity|].
  apply andb_true_iff in H as [H1 H2]. rewrite IH by assumption. destruct c; try discriminate; reflexivity.
Qed.

Lemma simple_app a b : simple (a ++ b) = simple a && simple b.
Proof. unfold simple. apply forallb_app. Qed.

Lemma plain_app a b : plain (a ++ b) = plain a && plain b.
Proof. unfold plain. apply forallb_app. Qed.

Lemma plain_repeat_par k : plain (repeat Par k) = true.
Proof. induction k; cbn; auto. Qed.

Lemma simple_no_root p : simple p = true -> has_root p = false.
Proof. destruct p as [|[] p]; cbn; intros; try reflexivity; discriminate. Qed.

(** * accessors on [q ++ [c]] *)

Lemma last_comp_snoc q c : last_comp (q ++ [c]) = Some c.
Proof. unfold last_comp. rewrite rev_app_distr. reflexivity. Qed.

Lemma file_name_snoc q n : file_name (q ++ [Norm n]) = Some n.
Proof. unfold file_name. rewrite last_comp_snoc. reflexivity. Qed.

Lemma file_name_snoc_par q : file_name (q ++ [Par]) = None.
Proof. unfold file_name. rewrite last_comp_snoc. reflexivity. Qed.

Lemma parent_snoc q c : c <> Root -> parent (q ++ [c]) = Some q.
Proof.
  intros H. unfold parent. rewrite rev_app_distr. cbn [rev app].
  destruct c; try congruence; rewrite rev_involutive; reflexivity.
Qed.

Lemma pop_snoc q c : c <> Root -> pop (q ++ [c]) = q.
Proof. intros H. unfold pop. rewrite parent_snoc by assumption. reflexivity. Qed.

Lemma extension_snoc q n : extension (q ++ [Norm n]) = name_ext n.
Proof. unfold extension. rewrite file_name_snoc. reflexivity. Qed.

Lemma file_stem_snoc q n : file_stem (q ++ [Norm n]) = name_stem n.
Proof. unfold file_stem. rewrite file_name_snoc. reflexivity. Qed.

Lemma removelast_snoc {A} (q : list A) c : removelast (q ++ [c]) = q.
Proof. apply removelast_last. Qed.

Lemma set_extension_snoc q n e stem :
  name_stem n = Some stem ->
  set_extension (q ++ [Norm n]) e = q ++ [Norm (stem ++ match e with [] => [] | _ => dot :: e end)].
Proof.
  intros H. unfold set_extension. rewrite file_name_snoc, H, removelast_snoc. reflexivity.
Qed.

(** a prefix does not change what the accessors see of a non-empty path *)
Lemma file_name_app x y c : file_name (x ++ y ++ [c]) = file_name (y ++ [c]).
Proof. unfold file_name. rewrite app_assoc, !last_comp_snoc. reflexivity. Qed.

(** * [extend], [from_iter], [join] *)

Lemma extend_plain p l : plain l = true -> extend p l = p ++ l.
Proof.
  unfold extend. revert p. induction l as [|c l IH]; intros p H; cbn [fold_left].
  - rewrite app_nil_r. reflexivity.
  - cbn [plain forallb] in H. apply andb_true_iff in H as [Hc Hl].
    rewrite IH by assumption. destruct c; try discriminate; cbn [push_comp]; rewrite <- app_assoc; reflexivity.
Qed.

Lemma from_iter_plain l : plain l = true -> from_iter l = l.
Proof. intros H. unfold from_iter. rewrite extend_plain by assumption. reflexivity. Qed.

Lemma from_iter_cur_plain l : plain l = true -> from_iter (Cur :: l) = Cur :: l.
Proof. intros H. unfold from_iter, extend. cbn [fold_left push_comp]. apply (extend_plain [Cur] l H). Qed.

Lemma from_iter_norm_plain n l : plain l = true -> from_iter (Norm n :: l) = Norm n :: l.
Proof. intros H. unfold from_iter, extend. cbn [fold_left push_comp app]. apply (extend_plain [Norm n] l H). Qed.

Lemma join_plain a b : plain b = true -> join a b = a ++ b.
Proof.
  intros H. unfold join. destruct b as [|c b]; [destruct a; reflexivity|].
  cbn [plain forallb] in H. apply andb_true_iff in H as [Hc _].
  destruct c; try discriminate; cbn [has_root]; destruct a; reflexivity.
Qed.

Lemma join_cur_nonempty a b : a <> [] -> join a (Cur :: b) = a ++ b.
Proof. intros H. unfold join. cbn [has_root]. destruct a; [congruence|reflexivity]. Qed.

Lemma join_nil_l b : join [] b = b.
Proof. unfold join. destruct (has_root b); [reflexivity|]. destruct b; reflexivity. Qed.

(** * [normalize] *)

Definition nfold (k : bool) (l : list comp) (racc : list comp) : list comp :=
  fold_left (normalize_step k) l racc.

Lemma nfold_app k a b racc : nfold k (a ++ b) racc = nfold k b (nfold k a racc).
Proof. unfold nfold. apply fold_left_app. Qed.

Lemma nfold_simple k s racc : simple s = true -> nfold k s racc = rev s ++ racc.
Proof.
  unfold nfold. revert racc. induction s as [|c s IH]; intros racc H; cbn [fold_left rev]; [reflexivity|].
  cbn [simple forallb] in H. apply andb_true_iff in H as [Hc Hs].
  destruct c; try discriminate. cbn [normalize_step]. rewrite IH by assumption.
  rewrite <- app_assoc. reflexivity.
Qed.

(** each ".." removes one name *)
Lemma nfold_pars_pop k s r : simple s = true -> nfold k (repeat Par (List.length s)) (s ++ r) = r.
Proof.
  unfold nfold. induction s as [|c s IH]; intros H; cbn [List.length repeat fold_left app]; [reflexivity|].
  cbn [simple forallb] in H. apply andb_true_iff in H as [Hc Hs].
  destruct c; try discriminate. cbn [normalize_step]. apply IH. assumption.
Qed.

(** ".." on top of ".."s (or of nothing) accumulate *)
Lemma nfold_pars_acc k j i : nfold k (repeat Par j) (repeat Par i) = repeat Par (j + i).
Proof.
  unfold nfold. revert i. induction j as [|j IH]; intros i; cbn [repeat fold_left Nat.add]; [reflexivity|].
  replace (normalize_step k (repeat Par i) Par) with (repeat Par (S i)).
  - rewrite IH. rewrite Nat.add_succ_r. reflexivity.
  - destruct i; reflexivity.
Qed.

Lemma rev_repeat {A} (x : A) n : rev (repeat x n) = repeat x n.
Proof.
  induction n; cbn [repeat rev]; [reflexivity|]. rewrite IHn.
  clear IHn. induction n; cbn [repeat app]; [reflexivity|]. f_equal. exact IHn.
Qed.

Lemma forallb_rev' {A} (f : A -> bool) l : forallb f (rev l) = forallb f l.
Proof.
  induction l as [|x l IH]; cbn [rev forallb]; [reflexivity|].
  rewrite forallb_app, IH. cbn [forallb]. rewrite andb_true_r. apply andb_comm.
Qed.

(** the final steps of [normalize] on a non-empty plain result *)
Lemma normalize_finish k p racc :
  p <> [] -> nfold k p [] = racc -> racc <> [] -> plain racc = true -> normalize k p = rev racc.
Proof.
  intros Hp Hf Hr Hpl. unfold normalize. destruct p; [congruence|].
  fold (nfold k (c :: p) []). rewrite Hf.
  destruct (rev racc) eqn:E.
  - apply (f_equal (@rev comp)) in E. rewrite rev_involutive in E. cbn in E. congruence.
  - rewrite <- E. apply from_iter_plain. unfold plain. rewrite forallb_rev'. exact Hpl.
Qed.

