(** First facts about Model/Paths.v (placeholder, extended below). *)
From DL Require Import Lib.Bytes Model.Paths Model.Require.
Open Scope N_scope.

Lemma candidates_head p mfn : exists r, candidates p mfn = p :: r.
Proof. unfold candidates. eexists. reflexivity. Qed.
