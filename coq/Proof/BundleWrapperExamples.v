(** Non-vacuity of [Proof/BundleWrapperFacts.v]: concrete bundles run through [run_chunk] in
    both dialects (the module body is run once although its value is nil / false), a contrast
    with the un-boxed cache (which runs it twice), and concrete stores satisfying the
    hypotheses of [wrapper_hit] and [wrapper_once_nil] / [wrapper_once_false]. *)
From Coq Require Import ZArith NArith List Bool String Lia.
From DL Require Import Lib.Bytes Lua.Syntax Lua.Sem Model.BundleWrapper
  Proof.BundleWrapperBase Proof.BundleWrapperFacts.
Import ListNotations.
Open Scope N_scope.
Local Notation llen := List.length.

Definition M0 : name := of_string "M".
Definition nm0 : name := of_string "a".
Definition ext_p : expr := EIdent (of_string "ext_p").

(** module body: [ext_p("body") return <e>] *)
Definition body_of (e : expr) : block :=
  Block [SCall (ECall ext_p None (ATuple [EString (of_string "body")]))] (Some (LReturn [e])).

(** [M.a()] *)
Definition acc_call : expr := ECall (EField (EIdent M0) nm0) None (ATuple []).

(** local M = { cache = {} }
    do do local function __modImpl() ext_p("body") return <e> end
          function M.a() <accessor> end end end
    ext_p(M.a(), M.a()) *)
Definition prog_of (e : expr) : block :=
  Block [ modules_table M0;
          SDo (Block [module_def M0 nm0 (body_of e)] None);
          SCall (ECall ext_p None (ATuple [acc_call; acc_call])) ] None.

Definition ev_body : event := EvCall (of_string "ext_p") [RStr (of_string "body")].
Definition ev_out (r : rvalue) : event := EvCall (of_string "ext_p") [r; r].

(** these programs have the shape the bundler emits (the recogniser of Model/BundleWrapper.v) *)
Example prog_wrapper_ok :
  wrapper_ok M0 (prog_of ENil) = true /\ wrapper_ok M0 (prog_of EFalse) = true.
Proof. vm_compute. split; reflexivity. Qed.

(** the body's event occurs exactly once; both calls see the same value *)
Example run_nil_51 : run_chunk L51 40 [] (prog_of ENil) = OutOk [ev_body; ev_out RNil] [].
Proof. vm_compute. reflexivity. Qed.
Example run_nil_luau : run_chunk Luau 40 [] (prog_of ENil) = OutOk [ev_body; ev_out RNil] [].
Proof. vm_compute. reflexivity. Qed.
Example run_false_51 :
  run_chunk L51 40 [] (prog_of EFalse) = OutOk [ev_body; ev_out (RBool false)] [].
Proof. vm_compute. reflexivity. Qed.
Example run_false_luau :
  run_chunk Luau 40 [] (prog_of EFalse) = OutOk [ev_body; ev_out (RBool false)] [].
Proof. vm_compute. reflexivity. Qed.
Example run_string_51 :
  run_chunk L51 40 [] (prog_of (EString (of_string "x"))) =
  OutOk [ev_body; ev_out (RStr (of_string "x"))] [].
Proof. vm_compute. reflexivity. Qed.
Example run_string_luau :
  run_chunk Luau 40 [] (prog_of (EString (of_string "x"))) =
  OutOk [ev_body; ev_out (RStr (of_string "x"))] [].
Proof. vm_compute. reflexivity. Qed.

(** a module returning nothing at all: [first [] = nil] is what gets cached *)
Definition prog_noreturn : block :=
  Block [ modules_table M0;
          SDo (Block [module_def M0 nm0
                        (Block [SCall (ECall ext_p None (ATuple [EString (of_string "body")]))] None)]
                     None);
          SCall (ECall ext_p None (ATuple [acc_call; acc_call])) ] None.
Example run_noreturn :
  run_chunk L51 40 [] prog_noreturn = OutOk [ev_body; ev_out RNil] [] /\
  run_chunk Luau 40 [] prog_noreturn = OutOk [ev_body; ev_out RNil] [].
Proof. vm_compute. split; reflexivity. Qed.

(** contrast: caching the bare value instead of the box [{ c = ... }] runs a nil- or
    false-valued body at every call -- the property is not a triviality of the semantics *)
Definition naive_block (M nm : name) : block :=
  Block
    [ SLocal false [Param s_v None] [cache_slot M nm];
      SIf [ SBranch (EUnary UNot (EIdent s_v))
                    (Block [ SAssign [EIdent s_v] [impl_call];
                             SAssign [cache_slot M nm] [EIdent s_v] ] None) ] None ]
    (Some (LReturn [EIdent s_v])).
Definition naive_prog (e : expr) : block :=
  Block [ modules_table M0;
          SDo (Block [SDo (Block [ SLocalFunction s_impl (impl (body_of e));
                                   SFunction M0 [nm0] None
                                             (FBody [] false None None None 0 (naive_block M0 nm0)) ]
                                 None)] None);
          SCall (ECall ext_p None (ATuple [acc_call; acc_call])) ] None.
Example naive_runs_body_twice :
  run_chunk Luau 40 [] (naive_prog ENil) = OutOk [ev_body; ev_body; ev_out RNil] [] /\
  run_chunk Luau 40 [] (naive_prog EFalse) = OutOk [ev_body; ev_body; ev_out (RBool false)] [] /\
  run_chunk Luau 40 [] (naive_prog ETrue) = OutOk [ev_body; ev_out (RBool true)] [].
Proof. vm_compute. repeat split; reflexivity. Qed.

(** * A concrete store satisfying the hypotheses of [wrapper_hit] *)

(** cell 0 = M = table 7 = { cache = table 8 }, table 8 = { a = table 9 }, table 9 = {} (the box of
    a nil-valued module) *)
Definition hit_s0 (box : table) : store :=
  mkStore [VTable 7]
          (initial_tables ++ [ mkTable [(VStr s_cache, VTable 8)] None;
                               mkTable [(VStr nm0, VTable 9)] None;
                               box ])
          [] [] [] 0.
Definition hit_rho0 : env := [(M0, 0)].

Example hit_instance_nil d n0 :
  exec_block d (9 + n0) hit_rho0 [] (accessor_block M0 nm0) (hit_s0 (mkTable [] None)) =
  Ok (SigReturn [VNil]) (add_cell (hit_s0 (mkTable [] None)) (VTable 9)).
Proof.
  apply (wrapper_hit d n0 M0 nm0 hit_rho0 [] (hit_s0 (mkTable [] None)) 0 7
                     (mkTable [(VStr s_cache, VTable 8)] None) 8
                     (mkTable [(VStr nm0, VTable 9)] None) 9 (mkTable [] None));
    try reflexivity.
  discriminate.
Qed.

Example hit_instance_false d n0 :
  exec_block d (9 + n0) hit_rho0 [] (accessor_block M0 nm0)
             (hit_s0 (mkTable [(VStr s_c, VBool false)] None)) =
  Ok (SigReturn [VBool false]) (add_cell (hit_s0 (mkTable [(VStr s_c, VBool false)] None)) (VTable 9)).
Proof.
  apply (wrapper_hit d n0 M0 nm0 hit_rho0 [] (hit_s0 (mkTable [(VStr s_c, VBool false)] None)) 0 7
                     (mkTable [(VStr s_cache, VTable 8)] None) 8
                     (mkTable [(VStr nm0, VTable 9)] None) 9
                     (mkTable [(VStr s_c, VBool false)] None));
    try reflexivity.
  discriminate.
Qed.

(** the interpreter agrees (fuel 9 is enough, 8 is not: the constant of the theorem is tight) *)
Example hit_instance_computed :
  exec_block Luau 9 hit_rho0 [] (accessor_block M0 nm0) (hit_s0 (mkTable [] None)) =
  Ok (SigReturn [VNil]) (add_cell (hit_s0 (mkTable [] None)) (VTable 9)) /\
  exec_block Luau 8 hit_rho0 [] (accessor_block M0 nm0) (hit_s0 (mkTable [] None)) = Fuel.
Proof. vm_compute. split; reflexivity. Qed.

(** * A concrete store satisfying the hypotheses of [wrapper_once_nil] / [wrapper_once_false] *)

(** cell 0 = M = table 7 = { cache = table 8 }, table 8 = {}, cell 1 = __modImpl = closure 0 *)
Definition miss_s0 (e : expr) : store :=
  mkStore [VTable 7; VClosure 0]
          (initial_tables ++ [ mkTable [(VStr s_cache, VTable 8)] None; mkTable [] None ])
          [mkClosure (impl (body_of e)) [] false] [] [] 0.
Definition miss_rho0 : env := [(s_impl, 1); (M0, 0)].

Example once_instance_nil :
  exists s2,
    call Luau (2 + 10) (VClosure 0) [] (miss_pre (miss_s0 ENil)) = Ok [VNil] s2 /\
    trace s2 = [ev_body] /\
    let s4 := miss_post (miss_s0 ENil) s2 8 (mkTable [] None) nm0 VNil in
    exec_block Luau (14 + 10) miss_rho0 [] (accessor_block M0 nm0) (miss_s0 ENil) =
    Ok (SigReturn [VNil]) s4 /\
    nth_N (tables s4) 9 = Some (mkTable [] None) /\
    forall m va',
      exec_block Luau (9 + m) miss_rho0 va' (accessor_block M0 nm0) s4 =
      Ok (SigReturn [VNil]) (add_cell s4 (VTable 9)) /\
      trace (add_cell s4 (VTable 9)) = trace s2.
Proof.
  eexists. split; [vm_compute; reflexivity|]. split; [reflexivity|].
  eapply (wrapper_once_nil Luau 10 M0 nm0 miss_rho0 [] (miss_s0 ENil) 0 7
                           (mkTable [(VStr s_cache, VTable 8)] None) 8 (mkTable [] None)
                           1 (VClosure 0) [VNil] _
                           (mkTable [(VStr s_cache, VTable 8)] None) (mkTable [] None));
    try reflexivity; try discriminate.
  vm_compute. lia.
Qed.

Example once_instance_false :
  exists s2,
    call L51 (2 + 10) (VClosure 0) [] (miss_pre (miss_s0 EFalse)) = Ok [VBool false] s2 /\
    trace s2 = [ev_body] /\
    let s4 := miss_post (miss_s0 EFalse) s2 8 (mkTable [] None) nm0 (VBool false) in
    exec_block L51 (14 + 10) miss_rho0 [] (accessor_block M0 nm0) (miss_s0 EFalse) =
    Ok (SigReturn [VBool false]) s4 /\
    nth_N (tables s4) 9 = Some (mkTable [(VStr s_c, VBool false)] None) /\
    forall m va',
      exec_block L51 (9 + m) miss_rho0 va' (accessor_block M0 nm0) s4 =
      Ok (SigReturn [VBool false]) (add_cell s4 (VTable 9)) /\
      trace (add_cell s4 (VTable 9)) = trace s2.
Proof.
  eexists. split; [vm_compute; reflexivity|]. split; [reflexivity|].
  eapply (wrapper_once_false L51 10 M0 nm0 miss_rho0 [] (miss_s0 EFalse) 0 7
                             (mkTable [(VStr s_cache, VTable 8)] None) 8 (mkTable [] None)
                             1 (VClosure 0) [VBool false] _
                             (mkTable [(VStr s_cache, VTable 8)] None) (mkTable [] None));
    try reflexivity; try discriminate.
  vm_compute. lia.
Qed.

(** the interpreter agrees with [wrapper_miss] on this store *)
Example miss_instance_computed :
  match call Luau 12 (VClosure 0) [] (miss_pre (miss_s0 ENil)) with
  | Ok vs s2 =>
    exec_block Luau 24 miss_rho0 [] (accessor_block M0 nm0) (miss_s0 ENil) =
    Ok (SigReturn [first vs]) (miss_post (miss_s0 ENil) s2 8 (mkTable [] None) nm0 (first vs))
  | _ => False
  end.
Proof. vm_compute. reflexivity. Qed.
