(** C16, closure-representation independence - part B: the relational monad rules ([rel2],
    [oblivious]), the store primitives, and the list/environment facts used in part C. *)
From Coq Require Import ZArith NArith List Bool String Lia.
From DL Require Import Lib.Bytes Lib.F64 Lua.Syntax Lua.Sem Model.Refactor.
From DL Require Import Proof.SemFacts Proof.DefaultRulesSem Proof.RefactorSem Proof.RefactorSimDefs.
From DL Require Import Proof.RefactorSimA.
Import ListNotations.
Open Scope N_scope.

(** * Relational monad *)

Definition rel2 {A} (R : A -> A -> Prop) (m1 m2 : M A) : Prop :=
  forall s1 s2, store_rel s1 s2 -> res_rel R (m1 s1) (m2 s2).

Definition oblivious {A} (m : M A) : Prop := rel2 eq m m.

Lemma rel2_ret {A} (R : A -> A -> Prop) a1 a2 : R a1 a2 -> rel2 R (ret a1) (ret a2).
Proof. intros H s1 s2 Hs. cbn. auto. Qed.
Lemma rel2_fail {A} (R : A -> A -> Prop) t : rel2 R (fail t) (fail t).
Proof. intros s1 s2 Hs. cbn. auto. Qed.
Lemma rel2_unsup {A} (R : A -> A -> Prop) t : rel2 R (unsup t) (unsup t).
Proof. intros s1 s2 Hs. cbn. auto. Qed.
Lemma rel2_raise {A} (R : A -> A -> Prop) v : rel2 R (raise v) (raise v).
Proof. intros s1 s2 Hs. cbn. auto. Qed.
Lemma rel2_fuel {A} (R : A -> A -> Prop) : rel2 R (fun _ => Fuel) (fun _ => Fuel).
Proof. intros s1 s2 Hs. exact I. Qed.

Lemma res_rel_bind {A B} (R : A -> A -> Prop) (R' : B -> B -> Prop) m1 m2 f1 f2 s1 s2 :
  res_rel R (m1 s1) (m2 s2) ->
  (forall a1 a2 t1 t2, R a1 a2 -> store_rel t1 t2 -> res_rel R' (f1 a1 t1) (f2 a2 t2)) ->
  res_rel R' (bind m1 f1 s1) (bind m2 f2 s2).
Proof.
  intros H K. unfold bind. destruct (m1 s1), (m2 s2); cbn in H |- *; try contradiction; auto.
  destruct H. auto.
Qed.

Lemma rel2_bind {A B} (R : A -> A -> Prop) (R' : B -> B -> Prop) m1 m2 f1 f2 :
  rel2 R m1 m2 -> (forall a1 a2, R a1 a2 -> rel2 R' (f1 a1) (f2 a2)) ->
  rel2 R' (bind m1 f1) (bind m2 f2).
Proof.
  intros H K s1 s2 Hs. eapply res_rel_bind; [exact (H s1 s2 Hs)|]. intros. now apply K.
Qed.

Lemma rel2_bind_eq {A B} (R' : B -> B -> Prop) (m1 m2 : M A) f1 f2 :
  rel2 eq m1 m2 -> (forall a, rel2 R' (f1 a) (f2 a)) -> rel2 R' (bind m1 f1) (bind m2 f2).
Proof. intros H K. eapply rel2_bind; [exact H|]. intros a1 a2 <-. apply K. Qed.

Lemma res_rel_mono {A} (R R' : A -> A -> Prop) r1 r2 :
  (forall a b, R a b -> R' a b) -> res_rel R r1 r2 -> res_rel R' r1 r2.
Proof. intros H. destruct r1, r2; cbn; intuition. Qed.

Lemma rel2_mono {A} (R R' : A -> A -> Prop) m1 m2 :
  (forall a b, R a b -> R' a b) -> rel2 R m1 m2 -> rel2 R' m1 m2.
Proof. intros H K s1 s2 Hs. eapply res_rel_mono; [exact H|]. now apply K. Qed.

Lemma rel2_pcall m1 m2 : rel2 eq m1 m2 -> rel2 eq (pcall_wrap m1) (pcall_wrap m2).
Proof.
  intros H s1 s2 Hs. specialize (H s1 s2 Hs). unfold pcall_wrap.
  destruct (m1 s1), (m2 s2); cbn in H |- *; try contradiction; auto.
  - destruct H as [-> H]. auto.
  - destruct H as [-> H]. destruct e0; cbn; auto.
Qed.

(** * Store primitives *)

Lemma store_rel_refl s : store_rel s s.
Proof.
  unfold store_rel. repeat split; auto.
  induction (closures s) as [|c l IH]; constructor; auto.
  unfold clos_rel. repeat split; auto.
Qed.

Ltac prim :=
  let Hc := fresh in let Ht := fresh in let Htr := fresh in let Ho := fresh in
  let Hf := fresh in let Hcl := fresh in
  intros s1 s2 (Hc & Ht & Htr & Ho & Hf & Hcl);
  unfold get_cell, set_cell, new_cell, get_table, set_table, new_table, emit_event, pop_oracle, next_fresh;
  rewrite ?Hc, ?Ht, ?Htr, ?Ho, ?Hf;
  repeat match goal with |- context [match ?x with _ => _ end] => destruct x eqn:? end;
  cbn; unfold store_rel; cbn; repeat split; auto; try congruence.

Lemma obl_get_cell a : oblivious (get_cell a). Proof. prim. Qed.
Lemma obl_set_cell a v : oblivious (set_cell a v). Proof. prim. Qed.
Lemma obl_new_cell v : oblivious (new_cell v). Proof. prim. Qed.
Lemma obl_get_table a : oblivious (get_table a). Proof. prim. Qed.
Lemma obl_set_table a t : oblivious (set_table a t). Proof. prim. Qed.
Lemma obl_new_table t : oblivious (new_table t). Proof. prim. Qed.
Lemma obl_emit_event e : oblivious (emit_event e). Proof. prim. Qed.
Lemma obl_pop_oracle : oblivious pop_oracle. Proof. prim. Qed.
Lemma obl_next_fresh : oblivious next_fresh. Proof. prim. Qed.

Lemma Forall2_nth_N {A} (R : A -> A -> Prop) l1 l2 k :
  Forall2 R l1 l2 ->
  match nth_N l1 k, nth_N l2 k with
  | Some a, Some b => R a b
  | None, None => True
  | _, _ => False
  end.
Proof.
  intros H. revert k. induction H; intros [|k]; cbn; auto. apply IHForall2.
Qed.

Lemma rel2_get_closure a : rel2 clos_rel (get_closure a) (get_closure a).
Proof.
  intros s1 s2 Hs. unfold get_closure.
  pose proof (Forall2_nth_N clos_rel _ _ (N.to_nat a) (proj2 (proj2 (proj2 (proj2 (proj2 Hs)))))) as H.
  destruct (nth_N (closures s1) _), (nth_N (closures s2) _); cbn; try contradiction; auto.
Qed.

Lemma Forall2_len {A B} (R : A -> B -> Prop) l1 l2 : Forall2 R l1 l2 -> List.length l1 = List.length l2.
Proof. induction 1; cbn; auto. Qed.

Lemma rel2_new_closure c1 c2 : clos_rel c1 c2 -> rel2 eq (new_closure c1) (new_closure c2).
Proof.
  intros Hc s1 s2 (H1 & H2 & H3 & H4 & H5 & H6). unfold new_closure. cbn. split.
  - now rewrite (Forall2_len _ _ _ H6).
  - unfold store_rel. cbn. repeat split; auto. apply Forall2_app; auto.
Qed.

(** * The generic tactic: peel binds, destruct scrutinees, close leaves *)

Ltac obl_leaf :=
  lazymatch goal with
  | |- rel2 _ (ret _) (ret _) => apply rel2_ret; reflexivity
  | |- rel2 _ (fail _) (fail _) => apply rel2_fail
  | |- rel2 _ (unsup _) (unsup _) => apply rel2_unsup
  | |- rel2 _ (raise _) (raise _) => apply rel2_raise
  | |- rel2 _ (num_result _) (num_result _) => apply rel2_ret; reflexivity
  | |- rel2 _ (fun _ => Fuel) (fun _ => Fuel) => apply rel2_fuel
  | |- rel2 _ (get_cell _) (get_cell _) => apply obl_get_cell
  | |- rel2 _ (set_cell _ _) (set_cell _ _) => apply obl_set_cell
  | |- rel2 _ (new_cell _) (new_cell _) => apply obl_new_cell
  | |- rel2 _ (get_table _) (get_table _) => apply obl_get_table
  | |- rel2 _ (set_table _ _) (set_table _ _) => apply obl_set_table
  | |- rel2 _ (new_table _) (new_table _) => apply obl_new_table
  | |- rel2 _ (emit_event _) (emit_event _) => apply obl_emit_event
  | |- rel2 _ pop_oracle pop_oracle => apply obl_pop_oracle
  | |- rel2 _ next_fresh next_fresh => apply obl_next_fresh
  end.

Ltac obl_step tac :=
  lazymatch goal with
  | |- oblivious _ => unfold oblivious
  | |- rel2 _ (bind _ _) (bind _ _) => apply rel2_bind_eq; [|intros ?]
  | |- rel2 _ (pcall_wrap _) (pcall_wrap _) => apply rel2_pcall
  | |- rel2 _ (let x := _ in _) _ => cbv zeta
  | |- rel2 _ (match ?x with _ => _ end) (match ?x with _ => _ end) => destruct x
  | |- rel2 _ _ _ => first [obl_leaf | solve [tac]]
  end.

Ltac obl_with tac := repeat (obl_step tac).
Ltac obl := obl_with fail.

(** metatables *)
Lemma obl_metatable_of v : oblivious (metatable_of v).
Proof. unfold metatable_of. obl. Qed.
Lemma obl_metamethod v ev : oblivious (metamethod v ev).
Proof. unfold metamethod. obl_with ltac:(apply obl_metatable_of). Qed.

Lemma obl_materialise o : oblivious (materialise o).
Proof. unfold materialise. obl. Qed.
Lemma obl_materialise_all os : oblivious (materialise_all os).
Proof.
  induction os as [|o os IH]; cbn [materialise_all]; obl_with ltac:(first [apply obl_materialise | exact IH]).
Qed.

Lemma render_rel k s1 s2 v : tables s1 = tables s2 -> render k s1 v = render k s2 v.
Proof.
  intros H. revert v. induction k as [|k IH]; intros v; destruct v; cbn [render]; try reflexivity.
  rewrite H. destruct (nth_N (tables s2) (N.to_nat a)); [|reflexivity].
  f_equal. apply map_ext. intros kv. now rewrite !IH.
Qed.

Lemma obl_call_ext_body ev : oblivious (_ <- emit_event ev ;; os <- pop_oracle ;; materialise_all os).
Proof. obl_with ltac:(apply obl_materialise_all). Qed.

Lemma obl_call_ext x args : oblivious (call_ext x args).
Proof.
  intros s1 s2 Hs. unfold call_ext.
  rewrite (map_ext (render 3 s1) (render 3 s2)) by (intros; apply render_rel; apply Hs).
  now apply obl_call_ext_body.
Qed.

(** * Environments *)

Lemma bytes_eqb_refl x : bytes_eqb x x = true.
Proof. now apply bytes_eqb_eq. Qed.

Lemma lookup_app l r x :
  lookup (l ++ r) x = match lookup l x with Some a => Some a | None => lookup r x end.
Proof.
  induction l as [|[y a] l IH]; cbn [lookup app]; [reflexivity|].
  destruct (bytes_eqb x y); auto.
Qed.

Lemma lookup_in l x : In x (map fst l) -> lookup l x <> None.
Proof.
  induction l as [|[y a] l IH]; cbn [lookup map fst In]; [tauto|].
  intros [->|H]; [rewrite bytes_eqb_refl; discriminate|].
  destruct (bytes_eqb x y); [discriminate|auto].
Qed.

Lemma env_agree_cons P rho1 rho2 x a :
  env_agree P rho1 rho2 -> env_agree P ((x, a) :: rho1) ((x, a) :: rho2).
Proof. intros H y Hy. cbn [lookup]. rewrite (H y Hy). reflexivity. Qed.

Lemma env_agree_refl P rho : env_agree P rho rho.
Proof. intros y _. reflexivity. Qed.

Lemma env_agree_weaken (P Q : name -> bool) rho1 rho2 :
  (forall x, Q x = true -> P x = true) -> env_agree P rho1 rho2 -> env_agree Q rho1 rho2.
Proof. intros H K x Hx. apply K. auto. Qed.

(** the environment of a call: the parameters shadow the captured environment *)
Lemma env_agree_call c1 c2 rho :
  clos_rel c1 c2 -> map fst rho = param_names (effective_params c1) ->
  env_agree (fun x => ment_block [x] (closure_block c1)) (rev rho ++ c_env c1) (rev rho ++ c_env c2).
Proof.
  intros (_ & _ & _ & H4) Hn x Hx. rewrite !lookup_app.
  destruct (H4 x Hx) as [Hin|Heq].
  - destruct (lookup (rev rho) x) eqn:E; [reflexivity|]. exfalso.
    apply (lookup_in (rev rho) x); [|exact E].
    rewrite map_rev, <- in_rev, Hn. exact Hin.
  - rewrite Heq. reflexivity.
Qed.

Lemma rel2_local_go P vars : forall vs rho1 rho2,
  env_agree P rho1 rho2 -> rel2 (env_agree P) (local_go vars vs rho1) (local_go vars vs rho2).
Proof.
  induction vars as [|p vars IH]; intros vs rho1 rho2 H.
  - rewrite !local_go_nil. now apply rel2_ret.
  - rewrite !local_go_cons. apply rel2_bind_eq; [apply obl_new_cell|]. intros a.
    apply IH. now apply env_agree_cons.
Qed.

Lemma rel2_bind_params ps1 : forall ps2 args,
  param_names ps1 = param_names ps2 ->
  rel2 (fun r1 r2 => r1 = r2 /\ map fst r1 = param_names ps1) (bind_params ps1 args) (bind_params ps2 args).
Proof.
  induction ps1 as [|p1 ps1 IH]; intros [|p2 ps2] args H; try discriminate H.
  - rewrite !bind_params_nil. apply rel2_ret. auto.
  - cbn [param_names map] in H. injection H as Hp Hps.
    rewrite !bind_params_cons. apply rel2_bind_eq; [apply obl_new_cell|]. intros a.
    eapply rel2_bind; [apply (IH ps2 (tl args) Hps)|].
    intros r1 r2 [<- Hr]. apply rel2_ret. rewrite Hp. split; [reflexivity|].
    cbn [map fst param_names]. now rewrite Hr, Hp.
Qed.

(** * Mentions *)

Definition covers_args (P : name -> bool) (a : args) : Prop := forall x, ment_args [x] a = true -> P x = true.
Definition covers_tentry (P : name -> bool) (t : tentry) : Prop := forall x, ment_tentry [x] t = true -> P x = true.
Definition covers_ebranch (P : name -> bool) (b : ebranch) : Prop := forall x, ment_ebranch [x] b = true -> P x = true.
Definition covers_sbranch (P : name -> bool) (b : sbranch) : Prop := forall x, ment_sbranch [x] b = true -> P x = true.
Definition covers_iseg (P : name -> bool) (b : iseg) : Prop := forall x, ment_iseg [x] b = true -> P x = true.
Definition covers_fbody (P : name -> bool) (f : fbody) : Prop := forall x, ment_fbody [x] f = true -> P x = true.

Lemma covers_Forall {A} (f : name -> A -> bool) (P : name -> bool) l :
  (forall x, existsb (f x) l = true -> P x = true) ->
  Forall (fun e => forall x, f x e = true -> P x = true) l.
Proof.
  intros H. apply Forall_forall. intros e He x Hx. apply H. apply existsb_exists. eauto.
Qed.

Lemma Forall_covers {A} (f : name -> A -> bool) (P : name -> bool) l :
  Forall (fun e => forall x, f x e = true -> P x = true) l ->
  forall x, existsb (f x) l = true -> P x = true.
Proof.
  intros H x Hx. apply existsb_exists in Hx as (e & He & Hx). rewrite Forall_forall in H. eauto.
Qed.

(** one-step equations of [ment_*] ([cbn] does not refold the mutual fixpoint) *)
Section MentEq.
Variable xs : list name.
Lemma ment_field p f : ment_expr xs (EField p f) = ment_expr xs p. Proof. reflexivity. Qed.
Lemma ment_ident x : ment_expr xs (EIdent x) = is_target xs x. Proof. reflexivity. Qed.
Lemma ment_interp segs : ment_expr xs (EInterp segs) = existsb (ment_iseg xs) segs. Proof. reflexivity. Qed.
Lemma ment_index p k : ment_expr xs (EIndex p k) = ment_expr xs p || ment_expr xs k. Proof. reflexivity. Qed.
Lemma ment_call p m a : ment_expr xs (ECall p m a) = ment_expr xs p || ment_args xs a. Proof. reflexivity. Qed.
Lemma ment_function f : ment_expr xs (EFunction f) = ment_fbody xs f. Proof. reflexivity. Qed.
Lemma ment_if bs els : ment_expr xs (EIf bs els) = existsb (ment_ebranch xs) bs || ment_expr xs els. Proof. reflexivity. Qed.
Lemma ment_paren e : ment_expr xs (EParen e) = ment_expr xs e. Proof. reflexivity. Qed.
Lemma ment_table es : ment_expr xs (ETable es) = existsb (ment_tentry xs) es. Proof. reflexivity. Qed.
Lemma ment_unary o e : ment_expr xs (EUnary o e) = ment_expr xs e. Proof. reflexivity. Qed.
Lemma ment_binary o l r : ment_expr xs (EBinary o l r) = ment_expr xs l || ment_expr xs r. Proof. reflexivity. Qed.
Lemma ment_typecast e t : ment_expr xs (ETypeCast e t) = ment_expr xs e || ment_ty xs t. Proof. reflexivity. Qed.
Lemma ment_typeinst e t : ment_expr xs (ETypeInst e t) = ment_expr xs e || existsb (ment_ty xs) t. Proof. reflexivity. Qed.
Lemma ment_iseg_expr e : ment_iseg xs (ISExpr e) = ment_expr xs e. Proof. reflexivity. Qed.
Lemma ment_ebranch_eq c r : ment_ebranch xs (EBranch c r) = ment_expr xs c || ment_expr xs r. Proof. reflexivity. Qed.
Lemma ment_args_tuple es : ment_args xs (ATuple es) = existsb (ment_expr xs) es. Proof. reflexivity. Qed.
Lemma ment_args_table es : ment_args xs (ATable es) = existsb (ment_tentry xs) es. Proof. reflexivity. Qed.
Lemma ment_tfield f v : ment_tentry xs (TField f v) = ment_expr xs v. Proof. reflexivity. Qed.
Lemma ment_tindex k v : ment_tentry xs (TIndex k v) = ment_expr xs k || ment_expr xs v. Proof. reflexivity. Qed.
Lemma ment_tvalue v : ment_tentry xs (TValue v) = ment_expr xs v. Proof. reflexivity. Qed.
Lemma ment_fbody_eq ps v vt rt g at_ body :
  ment_fbody xs (FBody ps v vt rt g at_ body) =
  ment_block xs body || existsb (ment_param xs) ps || optb (ment_ty xs) vt || optb (ment_ty xs) rt.
Proof. reflexivity. Qed.
Lemma ment_assign vars vals : ment_stmt xs (SAssign vars vals) = existsb (ment_expr xs) vars || existsb (ment_expr xs) vals.
Proof. reflexivity. Qed.
Lemma ment_do b : ment_stmt xs (SDo b) = ment_block xs b. Proof. reflexivity. Qed.
Lemma ment_scall c : ment_stmt xs (SCall c) = ment_expr xs c. Proof. reflexivity. Qed.
Lemma ment_compound o var v : ment_stmt xs (SCompound o var v) = ment_expr xs var || ment_expr xs v. Proof. reflexivity. Qed.
Lemma ment_sfunction base fs m f : ment_stmt xs (SFunction base fs m f) = is_target xs base || ment_fbody xs f.
Proof. reflexivity. Qed.
Lemma ment_genfor vars es b :
  ment_stmt xs (SGenericFor vars es b) = existsb (ment_expr xs) es || ment_block xs b || existsb (ment_param xs) vars.
Proof. reflexivity. Qed.
Lemma ment_sif bs els : ment_stmt xs (SIf bs els) = existsb (ment_sbranch xs) bs || optb (ment_block xs) els.
Proof. reflexivity. Qed.
Lemma ment_local k vars vals : ment_stmt xs (SLocal k vars vals) = existsb (ment_expr xs) vals || existsb (ment_param xs) vars.
Proof. reflexivity. Qed.
Lemma ment_localfunction x f : ment_stmt xs (SLocalFunction x f) = ment_fbody xs f. Proof. reflexivity. Qed.
Lemma ment_numfor var a b step body :
  ment_stmt xs (SNumericFor var a b step body) =
  ment_expr xs a || ment_expr xs b || optb (ment_expr xs) step || ment_block xs body || ment_param xs var.
Proof. reflexivity. Qed.
Lemma ment_repeat b c : ment_stmt xs (SRepeat b c) = ment_expr xs c || ment_block xs b. Proof. reflexivity. Qed.
Lemma ment_while c b : ment_stmt xs (SWhile c b) = ment_expr xs c || ment_block xs b. Proof. reflexivity. Qed.
Lemma ment_sbranch_eq c b : ment_sbranch xs (SBranch c b) = ment_expr xs c || ment_block xs b. Proof. reflexivity. Qed.
Lemma ment_block_eq ss last : ment_block xs (Block ss last) = existsb (ment_stmt xs) ss || optb (ment_last xs) last.
Proof. reflexivity. Qed.
Lemma ment_return es : ment_last xs (LReturn es) = existsb (ment_expr xs) es. Proof. reflexivity. Qed.
End MentEq.

Global Hint Rewrite ment_field ment_ident ment_interp ment_index ment_call ment_function ment_if ment_paren
  ment_table ment_unary ment_binary ment_typecast ment_typeinst ment_iseg_expr ment_ebranch_eq
  ment_args_tuple ment_args_table ment_tfield ment_tindex ment_tvalue ment_fbody_eq ment_assign ment_do
  ment_scall ment_compound ment_sfunction ment_genfor ment_sif ment_local ment_localfunction ment_numfor
  ment_repeat ment_while ment_sbranch_eq ment_block_eq ment_return : ment.

Lemma is_target_self x : is_target [x] x = true.
Proof. unfold is_target. cbn [existsb]. now rewrite bytes_eqb_refl. Qed.

(** [cov]: a [covers_*]-style goal from a [covers_*]-style hypothesis about a larger term *)
Ltac cov_unfold :=
  unfold covers_expr, covers_block, covers_stmt, covers_args, covers_tentry, covers_ebranch,
    covers_sbranch, covers_iseg, covers_fbody in *.

Ltac orb_find Hx :=
  first [ exact Hx
        | apply is_target_self
        | apply orb_true_intro; first [ left; orb_find Hx | right; orb_find Hx ] ].

Ltac cov_hyp Hx :=
  lazymatch type of Hx with
  | (_ || _)%bool = true => apply orb_prop in Hx; destruct Hx as [Hx|Hx]; cov_hyp Hx
  | _ => orb_find Hx
  end.

Ltac cov_close Hx :=
  autorewrite with ment; cbn [existsb optb]; autorewrite with ment;
  autorewrite with ment in Hx; cbn [existsb optb] in Hx; autorewrite with ment in Hx;
  cov_hyp Hx.

Ltac cov :=
  cov_unfold;
  try (apply covers_Forall);
  match goal with
  | H : forall x, _ = true -> ?P x = true |- forall x, _ = true -> ?P x = true =>
    let x := fresh "x" in let Hx := fresh "Hx" in
    intros x Hx; apply H; cov_close Hx
  end.

Lemma clos_rel_same f rho1 rho2 b :
  (forall x, ment_fbody [x] f = true -> lookup rho1 x = lookup rho2 x) ->
  clos_rel (mkClosure f rho1 b) (mkClosure f rho2 b).
Proof.
  intros H. unfold clos_rel, effective_params, closure_variadic, closure_block. cbn [c_body c_env c_self].
  repeat split; auto. destruct f as [ps v vt rt g at_ body]. intros x Hx. right. apply H.
  rewrite ment_fbody_eq, Hx. reflexivity.
Qed.

Ltac finv :=
  repeat match goal with
         | H : Forall _ (_ :: _) |- _ => inversion H; clear H; subst
         end.
