(** C10: the top-level statements, a concrete instance showing the hypotheses are satisfiable
    by a transformation that really reads other files, and the refutations (recorded
    findings) showing each carve-out is needed. *)
From Coq Require Import Arith PeanoNat Lia.
From DL Require Import Lib.Bytes Model.WorkerFs Model.Worker Proof.WorkerBasics Proof.WorkerInv
     Proof.WorkerStep Proof.WorkerProcess Proof.WorkerMain.
Open Scope N_scope.

Section Top.
  Variable cfg : Type.
  Variable hash : cfg -> N.
  Variable xform : cfg -> path -> content -> fs -> option content * list path.
  Variable inp outp : path.

  Hypothesis io_disjoint1 : starts_with inp outp = false.
  Hypothesis io_disjoint2 : starts_with outp inp = false.
  Hypothesis hash_faithful : forall c1 c2, hash c1 = hash c2 ->
                                           forall q t f, xform c1 q t f = xform c2 q t f.
  Hypothesis xform_frame : forall c q t f f',
      fst (xform c q t f) <> None ->
      (forall d, In d (snd (xform c q t f)) -> fs_get f' d = fs_get f d) ->
      xform c q t f' = xform c q t f.
  Hypothesis deps_exist : forall c q t f d,
      fst (xform c q t f) <> None -> In d (snd (xform c q t f)) -> fs_get f d <> None.
  Hypothesis deps_outside : forall c q t f d,
      fst (xform c q t f) <> None -> In d (snd (xform c q t f)) -> starts_with outp d = false.

  Theorem incremental_eq_fresh f0 c_init h :
    paths_ok cfg inp outp f0 h = true ->
    reported cfg inp f0 (h ++ [Process]) = true ->
    dirs_ok cfg hash xform inp outp (mkWorld f0 c_init empty_tree) h = true ->
    always_healthy cfg xform inp f0 c_init (h ++ [Process]) = true ->
    exists w, run cfg hash xform inp outp (mkWorld f0 c_init empty_tree) (h ++ [Process]) = Running w /\
              forall p, fs_get (w_fs w) p =
                        fs_get (fresh cfg xform inp outp (final_cfg cfg c_init h) (user_fs cfg f0 h)) p.
  Proof.
    intros Hp Hr Hd Hh. destruct (paths_ok_facts cfg inp outp f0 h Hp) as [H1 [H2 [H3 H4]]].
    eapply incremental_eq_fresh_E; eassumption.
  Qed.

  Theorem no_panic f0 c_init h :
    paths_ok cfg inp outp f0 h = true ->
    reported cfg inp f0 h = true ->
    dirs_ok cfg hash xform inp outp (mkWorld f0 c_init empty_tree) h = true ->
    always_healthy cfg xform inp f0 c_init h = true ->
    exists w, run cfg hash xform inp outp (mkWorld f0 c_init empty_tree) h = Running w.
  Proof.
    intros Hp Hr Hd Hh. destruct (paths_ok_facts cfg inp outp f0 h Hp) as [H1 [H2 [H3 H4]]].
    eapply no_panic_E; eassumption.
  Qed.
End Top.

(** * A concrete instance *)

Definition t_inp : path := ["src"%string].
Definition t_out : path := ["out"%string].
Definition p_a : path := ["src"; "a.lua"]%string.
Definition p_main : path := ["src"; "app"; "main.lua"]%string.
Definition p_new : path := ["src"; "sub"; "new.lua"]%string.
Definition p_m : path := ["lib"; "m.lua"]%string.
Definition p_readme : path := ["out"; "README.md"]%string.
Definition p_out_a : path := ["out"; "a.lua"]%string.
Definition p_out_main : path := ["out"; "app"; "main.lua"]%string.

(** a text starting with byte 0 does not parse; [main.lua] inlines [lib/m.lua] and fails
    when it is missing (as the bundler does); the configuration is prepended to the output *)
Definition toy_broken (txt : content) : bool := match txt with 0 :: _ => true | _ => false end.

Definition toy_xform (c : N) (q : path) (txt : content) (f : fs) : option content * list path :=
  if toy_broken txt then (None, [])
  else if path_eqb q p_main then
    match fs_get f p_m with
    | Some mt => if toy_broken mt then (None, []) else (Some (c :: txt ++ mt), [p_m])
    | None => (None, [])
    end
  else (Some (c :: txt), []).

Definition toy_hash (c : N) : N := c.

Lemma toy_hash_faithful c1 c2 : toy_hash c1 = toy_hash c2 ->
                                forall q t f, toy_xform c1 q t f = toy_xform c2 q t f.
Proof. unfold toy_hash. intros -> q t f. reflexivity. Qed.

Lemma toy_frame c q t f f' :
  fst (toy_xform c q t f) <> None ->
  (forall d, In d (snd (toy_xform c q t f)) -> fs_get f' d = fs_get f d) ->
  toy_xform c q t f' = toy_xform c q t f.
Proof.
  unfold toy_xform. destruct (toy_broken t); [intros H; exfalso; apply H; reflexivity|].
  destruct (path_eqb q p_main); [|reflexivity].
  destruct (fs_get f p_m) as [mt|] eqn:Em; [|intros H; exfalso; apply H; reflexivity].
  destruct (toy_broken mt) eqn:Eb; [intros H; exfalso; apply H; reflexivity|].
  intros _ H. cbn [snd] in H. rewrite (H p_m (or_introl eq_refl)), Em, Eb. reflexivity.
Qed.

Lemma toy_deps_exist c q t f d :
  fst (toy_xform c q t f) <> None -> In d (snd (toy_xform c q t f)) -> fs_get f d <> None.
Proof.
  unfold toy_xform. destruct (toy_broken t); [intros H; exfalso; apply H; reflexivity|].
  destruct (path_eqb q p_main); [|intros _ []].
  destruct (fs_get f p_m) as [mt|] eqn:Em; [|intros H; exfalso; apply H; reflexivity].
  destruct (toy_broken mt); [intros H; exfalso; apply H; reflexivity|].
  intros _ [<-|[]]. congruence.
Qed.

Lemma toy_deps_outside c q t f d :
  fst (toy_xform c q t f) <> None -> In d (snd (toy_xform c q t f)) -> starts_with t_out d = false.
Proof.
  unfold toy_xform. destruct (toy_broken t); [intros H; exfalso; apply H; reflexivity|].
  destruct (path_eqb q p_main); [|intros _ []].
  destruct (fs_get f p_m) as [mt|]; [|intros H; exfalso; apply H; reflexivity].
  destruct (toy_broken mt); [intros H; exfalso; apply H; reflexivity|].
  intros _ [<-|[]]. reflexivity.
Qed.

Definition toy_f0 : fs :=
  [(p_a, [1]); (p_main, [2]); (p_m, [3]); (p_readme, [9])].
Definition toy_w0 : world N := mkWorld toy_f0 0 empty_tree.
(** what [darklua_core::process] does first *)
Definition toy_init : list (event N) := [Snapshot; Collect; Process].

Definition toy_run := run N toy_hash toy_xform t_inp t_out.
Definition toy_fresh := fresh N toy_xform t_inp t_out.
Definition toy_reported := reported N t_inp toy_f0.
Definition toy_paths_ok := paths_ok N t_inp t_out toy_f0.
Definition toy_dirs_ok := dirs_ok N toy_hash toy_xform t_inp t_out toy_w0.
Definition toy_healthy := always_healthy N toy_xform t_inp toy_f0 0.

(** the theorem for the instance (no remaining hypothesis about the transformation) *)
Theorem toy_incremental_eq_fresh h :
  toy_paths_ok h = true -> toy_reported (h ++ [Process]) = true -> toy_dirs_ok h = true ->
  toy_healthy (h ++ [Process]) = true ->
  exists w, toy_run toy_w0 (h ++ [Process]) = Running w /\
            forall p, fs_get (w_fs w) p = fs_get (toy_fresh (final_cfg N 0 h) (user_fs N toy_f0 h)) p.
Proof.
  apply (incremental_eq_fresh N toy_hash toy_xform t_inp t_out eq_refl eq_refl toy_hash_faithful
                              toy_frame toy_deps_exist toy_deps_outside).
Qed.

(** the hypotheses are satisfiable by a history that edits a source, edits a bundled file,
    removes a source, changes the configuration and adds a source in a new directory *)
Definition toy_history : list (event N) :=
  toy_init ++
  [FsWrite p_a [4]; SrcChanged p_a; Process;
   FsWrite p_m [5]; SrcChanged p_m;
   FsRemove p_a; RemoveSrc p_a; Process;
   SetCfg 7;
   FsWrite p_new [6]; Collect].

Example toy_history_in_scope :
  toy_paths_ok toy_history = true /\ toy_reported (toy_history ++ [Process]) = true /\
  toy_dirs_ok toy_history = true /\ toy_healthy (toy_history ++ [Process]) = true.
Proof. vm_compute. auto. Qed.

Example toy_history_result :
  exists w, toy_run toy_w0 (toy_history ++ [Process]) = Running w /\
            fs_get (w_fs w) p_out_main = Some [7; 2; 5] /\ fs_get (w_fs w) p_out_a = None /\
            fs_get (w_fs w) ["out"; "sub"; "new.lua"]%string = Some [7; 6] /\
            fs_get (w_fs w) p_readme = Some [9].
Proof. eexists. split; [vm_compute; reflexivity|]. vm_compute. auto. Qed.

(** * Refutations: what the faithful model does outside the carve-outs *)

Definition differs_from_fresh (h : list (event N)) : Prop :=
  exists w p, toy_run toy_w0 h = Running w /\
              fs_get (w_fs w) p <> fs_get (toy_fresh (final_cfg N 0 h) (user_fs N toy_f0 h)) p.

(** F1: a source that stops transforming keeps its old output (a fresh run writes nothing) *)
Definition h_stale : list (event N) :=
  toy_init ++ [FsWrite p_a [0; 1]; SrcChanged p_a].

Theorem stale_output_refuted :
  toy_paths_ok h_stale = true /\ toy_reported (h_stale ++ [Process]) = true /\
  toy_dirs_ok h_stale = true /\ toy_healthy (h_stale ++ [Process]) = false /\
  differs_from_fresh (h_stale ++ [Process]).
Proof.
  repeat split; try (vm_compute; reflexivity).
  eexists. exists p_out_a. split; [vm_compute; reflexivity|]. vm_compute. discriminate.
Qed.

(** F2: a dependency whose absence made the bundle fail is not registered, so the entry is
    not retried when the file comes back; every source is healthy at the last process *)
Definition h_unregistered : list (event N) :=
  toy_init ++ [FsRemove p_m; RemoveSrc p_m; Process; FsWrite p_m [8]; Collect].

Theorem failed_dependency_refuted :
  toy_paths_ok h_unregistered = true /\ toy_reported (h_unregistered ++ [Process]) = true /\
  toy_dirs_ok h_unregistered = true /\
  healthy N toy_xform t_inp (final_cfg N 0 h_unregistered) (user_fs N toy_f0 h_unregistered) = true /\
  toy_healthy (h_unregistered ++ [Process]) = false /\
  differs_from_fresh (h_unregistered ++ [Process]).
Proof.
  repeat split; try (vm_compute; reflexivity).
  eexists. exists p_out_main. split; [vm_compute; reflexivity|]. vm_compute. discriminate.
Qed.

(** F3: removing the directory of an item that has external dependencies leaves its node
    index registered; the next notification for that dependency panics *)
Definition h_panic : list (event N) :=
  toy_init ++ [FsRemoveDir ["src"; "app"]%string; RemoveSrc ["src"; "app"]%string; Process;
               FsWrite p_m [8]; SrcChanged p_m].

Theorem remove_directory_panic_refuted :
  toy_paths_ok h_panic = true /\ toy_reported h_panic = true /\ toy_healthy h_panic = true /\
  toy_dirs_ok h_panic = false /\ toy_run toy_w0 h_panic = Panicked.
Proof. repeat split; vm_compute; reflexivity. Qed.

(** F4: removing a directory does not restart the items that read a file inside it: the entry
    stays [DoneOk] with its old output although its dependency is gone *)
Definition h_dirdep : list (event N) :=
  toy_init ++ [FsRemoveDir ["lib"%string]; RemoveSrc ["lib"%string]].

Theorem remove_directory_dependents_refuted :
  toy_paths_ok h_dirdep = true /\ toy_reported (h_dirdep ++ [Process]) = true /\
  toy_dirs_ok h_dirdep = false /\
  differs_from_fresh (h_dirdep ++ [Process]) /\
  exists w, toy_run toy_w0 (h_dirdep ++ [Process]) = Running w /\
            map (fun it => (i_src it, i_st it)) (all_items (w_tree w)) = [(p_a, DoneOk); (p_main, DoneOk)].
Proof.
  repeat split; try (vm_compute; reflexivity).
  - eexists. exists p_out_main. split; [vm_compute; reflexivity|]. vm_compute. discriminate.
  - eexists. split; vm_compute; reflexivity.
Qed.

(** the contract is needed: an edit that is not reported is not picked up *)
Definition h_unreported : list (event N) := toy_init ++ [FsWrite p_a [4]].

Theorem unreported_refuted :
  toy_paths_ok h_unreported = true /\ toy_reported (h_unreported ++ [Process]) = false /\
  toy_dirs_ok h_unreported = true /\ toy_healthy (h_unreported ++ [Process]) = true /\
  differs_from_fresh (h_unreported ++ [Process]).
Proof.
  repeat split; try (vm_compute; reflexivity).
  eexists. exists p_out_a. split; [vm_compute; reflexivity|]. vm_compute. discriminate.
Qed.

(** removing a directory leaves alone the siblings whose name only starts like it *)
Definition p_sub_b : path := ["src"; "sub"; "b.lua"]%string.
Definition p_sub_file : path := ["src"; "sub.lua"]%string.
Definition p_sub_extra : path := ["src"; "sub_extra"; "x.lua"]%string.
Definition sib_f0 : fs := [(p_sub_b, [1]); (p_sub_file, [2]); (p_sub_extra, [3])].

Example remove_directory_keeps_siblings :
  exists w, run N toy_hash toy_xform t_inp t_out (mkWorld sib_f0 0 empty_tree)
                (toy_init ++ [FsRemoveDir ["src"; "sub"]%string; RemoveSrc ["src"; "sub"]%string; Process])
            = Running w /\
            map i_src (all_items (w_tree w)) = [p_sub_file; p_sub_extra] /\
            fs_get (w_fs w) ["out"; "sub.lua"]%string = Some [0; 2] /\
            fs_get (w_fs w) ["out"; "sub_extra"; "x.lua"]%string = Some [0; 3] /\
            fs_get (w_fs w) ["out"; "sub"; "b.lua"]%string = None.
Proof. eexists. split; [vm_compute; reflexivity|]. vm_compute. auto. Qed.
