(** Store-extension facts and the behaviour of the primitive operations of the reference
    interpreter on values that carry no metatable ("plain" values). *)
From Coq Require Import ZArith NArith List Bool String Lia.
From Coq Require Import Floats.SpecFloat.
From DL Require Import Lib.Bytes Lib.F64 Lua.Syntax Lua.Sem Model.Evaluator Lua.EvalSpec Proof.SemFacts.
Import ListNotations.
Open Scope N_scope.
Local Notation llen := List.length.

(** * Stores *)

Lemma list_extends_refl {A} (l : list A) : list_extends l l.
Proof. exists []. symmetry; apply app_nil_r. Qed.
Lemma list_extends_trans {A} (a b c : list A) : list_extends a b -> list_extends b c -> list_extends a c.
Proof. intros [x ->] [y ->]. exists (x ++ y). symmetry; apply app_assoc. Qed.
Lemma list_extends_app {A} (l x : list A) : list_extends l (l ++ x).
Proof. exists x; reflexivity. Qed.
Lemma list_extends_length {A} (a b : list A) : list_extends a b -> (llen a <= llen b)%nat.
Proof. intros [x ->]. rewrite app_length. lia. Qed.

Lemma store_extends_refl s : store_extends s s.
Proof. unfold store_extends. repeat split; apply list_extends_refl. Qed.
Lemma store_extends_trans a b c : store_extends a b -> store_extends b c -> store_extends a c.
Proof.
  unfold store_extends. intros (A1 & A2 & A3 & A4 & A5 & A6) (B1 & B2 & B3 & B4 & B5 & B6).
  repeat split; try congruence; eapply list_extends_trans; eauto.
Qed.

Lemma nth_N_app_l {A} (l x : list A) n v : nth_N l n = Some v -> nth_N (l ++ x) n = Some v.
Proof.
  revert n; induction l as [|y l IH]; intros [|n] H; cbn in *; try discriminate; auto.
Qed.
Lemma nth_N_lt {A} (l : list A) n v : nth_N l n = Some v -> (n < llen l)%nat.
Proof. revert n; induction l as [|y l IH]; intros [|n] H; cbn in *; try discriminate; try lia. apply IH in H. lia. Qed.
Lemma nth_N_length {A} (l : list A) v : nth_N (l ++ [v]) (llen l) = Some v.
Proof. induction l; cbn; auto. Qed.
Lemma nth_N_extends {A} (l l' : list A) n v : list_extends l l' -> nth_N l n = Some v -> nth_N l' n = Some v.
Proof. intros [x ->]. apply nth_N_app_l. Qed.

Lemma nth_N_set_same {A} (l : list A) n v x : nth_N l n = Some x -> nth_N (set_nth l n v) n = Some v.
Proof. revert n; induction l as [|y l IH]; intros [|n] H; cbn in *; try discriminate; auto. Qed.
Lemma nth_N_set_other {A} (l : list A) n m v : n <> m -> nth_N (set_nth l n v) m = nth_N l m.
Proof.
  revert n m; induction l as [|y l IH]; intros [|n] [|m] H; cbn; try reflexivity; try congruence.
  apply IH. congruence.
Qed.
Lemma set_nth_length {A} (l : list A) n v : llen (set_nth l n v) = llen l.
Proof. revert n; induction l as [|y l IH]; intros [|n]; cbn; auto. Qed.
Lemma set_nth_app_r {A} (l x : list A) n v : (llen l <= n)%nat ->
  set_nth (l ++ x) n v = l ++ set_nth x (n - llen l) v.
Proof.
  revert n; induction l as [|y l IH]; intros n H; cbn [List.length app] in *.
  - now rewrite Nat.sub_0_r.
  - destruct n as [|n]; [lia|]. cbn [set_nth]. rewrite IH by lia. reflexivity.
Qed.
Lemma set_nth_extends {A} (l l' : list A) n v : list_extends l l' -> (llen l <= n)%nat ->
  list_extends l (set_nth l' n v).
Proof. intros [x ->] H. rewrite set_nth_app_r by exact H. apply list_extends_app. Qed.

(** plain tables: allocated, without metatable *)
Definition plain_tab (s : store) (a : N) : Prop :=
  exists t, nth_N (tables s) (N.to_nat a) = Some t /\ t_meta t = None.
Definition plain (s : store) (v : value) : Prop :=
  match v with VTable a => plain_tab s a | _ => True end.

Lemma plain_tab_extends s s' a : store_extends s s' -> plain_tab s a -> plain_tab s' a.
Proof.
  intros (_ & _ & _ & _ & Ht & _) (t & H1 & H2). exists t. split; auto. eapply nth_N_extends; eauto.
Qed.
Lemma plain_extends s s' v : store_extends s s' -> plain s v -> plain s' v.
Proof. destruct v; cbn; auto. apply plain_tab_extends. Qed.
Lemma strmeta_plain_extends s s' : store_extends s s' -> strmeta_plain s -> strmeta_plain s'.
Proof.
  intros (_ & _ & _ & _ & Ht & _) (t & H1 & H2). exists t. split; auto. eapply nth_N_extends; eauto.
Qed.
Lemma globals_plain_extends s s' : store_extends s s' -> globals_plain s -> globals_plain s'.
Proof. apply plain_tab_extends. Qed.
Lemma env_plain_extends s s' : store_extends s s' -> env_plain s -> env_plain s'.
Proof. intros H [A B]. split; [eapply globals_plain_extends|eapply strmeta_plain_extends]; eauto. Qed.

Lemma get_cell_ok a s v s' : get_cell a s = Ok v s' -> s' = s.
Proof. unfold get_cell. destruct nth_N; intros H; inversion H; auto. Qed.
Lemma get_table_ok a s t s' : get_table a s = Ok t s' -> s' = s /\ nth_N (tables s) (N.to_nat a) = Some t.
Proof. unfold get_table. destruct nth_N; intros H; inversion H; subst; auto. Qed.
Lemma get_table_some a s t : nth_N (tables s) (N.to_nat a) = Some t -> get_table a s = Ok t s.
Proof. unfold get_table. intros ->. reflexivity. Qed.

Lemma new_closure_ok c s a s' : new_closure c s = Ok a s' ->
  store_extends s s' /\ N.to_nat a = llen (closures s) /\ closures s' = closures s ++ [c] /\ tables s' = tables s.
Proof.
  unfold new_closure. intros H; inversion H; subst; clear H. unfold store_extends; cbn.
  rewrite Nat2N.id. repeat split; try apply list_extends_refl. apply list_extends_app.
Qed.
Lemma new_table_ok t s a s' : new_table t s = Ok a s' ->
  store_extends s s' /\ N.to_nat a = llen (tables s) /\ tables s' = tables s ++ [t].
Proof.
  unfold new_table. intros H; inversion H; subst; clear H. unfold store_extends; cbn.
  rewrite Nat2N.id. repeat split; try apply list_extends_refl. apply list_extends_app.
Qed.

(** [put] on a table allocated after [s0] keeps the store an extension of [s0], keeps the
    table without metatable, and leaves every other table alone *)
Lemma put_ok s0 a k v s s' :
  put a k v s = Ok tt s' -> store_extends s0 s -> (llen (tables s0) <= N.to_nat a)%nat ->
  plain_tab s a ->
  store_extends s0 s' /\ plain_tab s' a /\ llen (tables s') = llen (tables s) /\
  (forall b, b <> a -> nth_N (tables s') (N.to_nat b) = nth_N (tables s) (N.to_nat b)) /\
  closures s' = closures s.
Proof.
  unfold put. intros H Hext Hlen (t0 & Ht0 & Hm0). inv_ok H.
  apply get_table_ok in H0 as [-> Ht]. rewrite Ht0 in Ht. inversion Ht; subst a0; clear Ht.
  destruct (norm_key k) as [k'|]; [|inv_ok H1].
  unfold set_table in H1. inversion H1; subst s'; clear H1. cbn [tables closures].
  destruct Hext as (E1 & E2 & E3 & E4 & E5 & E6).
  split; [|split; [|split; [|split]]].
  - unfold store_extends; cbn. repeat split; auto. apply set_nth_extends; auto.
  - eexists. split. { eapply nth_N_set_same; eauto. } exact Hm0.
  - apply set_nth_length.
  - intros b Hb. apply nth_N_set_other. intros E. apply Hb. now apply N2Nat.inj.
  - reflexivity.
Qed.

Lemma put_pos_ok s0 a pos v s s' :
  put_pos a pos v s = Ok tt s' -> store_extends s0 s -> (llen (tables s0) <= N.to_nat a)%nat ->
  plain_tab s a ->
  store_extends s0 s' /\ plain_tab s' a /\ llen (tables s') = llen (tables s) /\
  (forall b, b <> a -> nth_N (tables s') (N.to_nat b) = nth_N (tables s) (N.to_nat b)) /\
  closures s' = closures s.
Proof.
  unfold put_pos. intros H Hext Hlen Hp.
  destruct v; try (eapply put_ok; eassumption).
  inv_ok H. subst. split; [assumption|]. repeat split; auto.
Qed.

Lemma fill_go_ok s0 a : forall vs pos s u s',
  fill_go a vs pos s = Ok u s' -> store_extends s0 s -> (llen (tables s0) <= N.to_nat a)%nat ->
  plain_tab s a ->
  store_extends s0 s' /\ plain_tab s' a /\ llen (tables s') = llen (tables s) /\
  (forall b, b <> a -> nth_N (tables s') (N.to_nat b) = nth_N (tables s) (N.to_nat b)) /\
  closures s' = closures s.
Proof.
  induction vs as [|v vs IH]; intros pos s u s' H Hext Hlen Hp; cbn [fill_go] in H.
  - inv_ok H. subst. split; [assumption|]. repeat split; auto.
  - inv_ok H. destruct a0.
    destruct (put_pos_ok _ _ _ _ _ _ H0 Hext Hlen Hp) as (A1 & A2 & A3 & A4 & A5).
    destruct (IH _ _ _ _ H1 A1 Hlen A2) as (B1 & B2 & B3 & B4 & B5).
    split; [exact B1|]. split; [exact B2|]. split; [congruence|]. split; [|congruence].
    intros b Hb. rewrite B4, A4; auto.
Qed.

(** * Metamethods of plain values *)

Lemma metamethod_plain s v ev :
  strmeta_plain s -> plain s v -> raw_equal (vstr "__index") (vstr ev) = false ->
  metamethod v ev s = Ok VNil s.
Proof.
  intros (ts & Hts & Hes) Hp Hev. unfold metamethod, metatable_of.
  destruct v; try reflexivity.
  - (* string *)
    unfold bind, ret. rewrite (get_table_some _ _ _ Hts). rewrite Hes. cbn [raw_get]. rewrite Hev. reflexivity.
  - destruct Hp as (t & Ht & Hm). unfold bind, ret. rewrite (get_table_some _ _ _ Ht). rewrite Hm. reflexivity.
Qed.

Lemma metamethod_plain_tab s a ev : plain_tab s a -> metamethod (VTable a) ev s = Ok VNil s.
Proof.
  intros (t & Ht & Hm). unfold metamethod, metatable_of, bind, ret.
  rewrite (get_table_some _ _ _ Ht). rewrite Hm. reflexivity.
Qed.

Ltac mm_plain H :=
  rewrite metamethod_plain in H by (assumption || reflexivity).

Section Ops.
Variable d : dialect.

Lemma tostr_plain n v s r s' : strmeta_plain s -> plain s v ->
  tostr d n v s = Ok r s' ->
  s' = s /\ r = VStr match v with
                     | VNil => of_string "nil"
                     | VBool true => of_string "true"
                     | VBool false => of_string "false"
                     | VNum x => tostring_num d x
                     | VStr s => s
                     | VTable _ => of_string "table"
                     | _ => of_string "function"
                     end.
Proof.
  intros Hs Hp H. destruct n; [discriminate|]. rewrite tostr_S in H.
  unfold bind in H. rewrite metamethod_plain in H by (assumption || reflexivity).
  inv_ok H. auto.
Qed.

Lemma arith_plain n o a b s r s' : strmeta_plain s -> plain s a -> plain s b ->
  arith d n o a b s = Ok r s' ->
  s' = s /\ exists x y z, tonum a = Some x /\ tonum b = Some y /\ arith_num d o x y = Some z /\ r = VNum z.
Proof.
  intros Hs Ha Hb H. destruct n; [discriminate|]. rewrite arith_S in H.
  assert (forall ev, arith_name o = Some ev -> raw_equal (vstr "__index") (vstr ev) = false) as Hev.
  { intros ev. destruct o; cbn; intros E; inversion E; reflexivity. }
  assert (match arith_name o with
          | None => unsup 21
          | Some ev =>
            h <- metamethod a ev ;;
            h <- (match h with VNil => metamethod b ev | _ => ret h end) ;;
            match h with
            | VNil => fail 14
            | _ => vs <- call d n h [a; b] ;; ret (first vs)
            end
          end s = Ok r s' -> False) as Hno.
  { destruct (arith_name o) as [ev|] eqn:E; [|discriminate].
    unfold bind. rewrite metamethod_plain by auto. rewrite metamethod_plain by auto. discriminate. }
  destruct (tonum a) as [x|]; [|exfalso; auto].
  destruct (tonum b) as [y|]; [|exfalso; auto].
  destruct (arith_num d o x y) as [z|] eqn:E; [|discriminate].
  inv_ok H. subst. split; auto. exists x, y, z. auto.
Qed.

Lemma concat_plain n a b s r s' : strmeta_plain s -> plain s a -> plain s b ->
  concat d n a b s = Ok r s' ->
  s' = s /\ exists x y, cstr d a = Some x /\ cstr d b = Some y /\ r = VStr (x ++ y).
Proof.
  intros Hs Ha Hb H. destruct n; [discriminate|]. rewrite concat_S in H.
  assert ((h <- metamethod a "__concat" ;;
           h <- (match h with VNil => metamethod b "__concat" | _ => ret h end) ;;
           match h with
           | VNil => fail 15
           | _ => vs <- call d n h [a; b] ;; ret (first vs)
           end) s = Ok r s' -> False) as Hno.
  { unfold bind. rewrite metamethod_plain by (assumption || reflexivity).
    rewrite metamethod_plain by (assumption || reflexivity). discriminate. }
  destruct (cstr d a) as [x|]; [|exfalso; auto].
  destruct (cstr d b) as [y|]; [|exfalso; auto].
  inv_ok H. subst. split; auto. exists x, y. auto.
Qed.

Lemma equal_plain n a b s r s' : plain s a -> plain s b ->
  equal d n a b s = Ok r s' -> s' = s /\ r = raw_equal a b.
Proof.
  intros Ha Hb H. destruct n; [discriminate|]. rewrite equal_S in H.
  destruct (raw_equal a b) eqn:E.
  { inv_ok H. subst; auto. }
  destruct a; try (inv_ok H; subst; auto; fail).
  destruct b; try (inv_ok H; subst; auto; fail).
  unfold bind in H. cbn [plain] in Ha, Hb.
  rewrite (metamethod_plain_tab _ _ _ Ha) in H. rewrite (metamethod_plain_tab _ _ _ Hb) in H.
  destruct d; cbn in H; inv_ok H; subst; auto.
Qed.

Lemma less_plain n strict a b s r s' : strmeta_plain s -> plain s a -> plain s b ->
  less d n strict a b s = Ok r s' ->
  s' = s /\ ((exists x y, a = VNum x /\ b = VNum y /\ r = if strict then fltb x y else fleb x y) \/
             (exists x y, a = VStr x /\ b = VStr y /\ r = if strict then bytes_ltb x y else bytes_leb x y)).
Proof.
  intros Hs Ha Hb H. destruct n; [discriminate|]. rewrite less_S in H.
  destruct a, b;
    try (inv_ok H; subst; split; [reflexivity|]; eauto 8; fail);
    exfalso; cbv beta iota zeta in H; unfold bind in H;
    rewrite metamethod_plain in H by (assumption || (destruct strict; reflexivity));
    rewrite metamethod_plain in H by (assumption || (destruct strict; reflexivity));
    (destruct strict; [discriminate|]);
    (destruct n; [discriminate|]); rewrite less_S in H; cbv beta iota zeta in H; unfold bind in H;
    rewrite metamethod_plain in H by (assumption || reflexivity);
    rewrite metamethod_plain in H by (assumption || reflexivity);
    discriminate.
Qed.

Lemma length_plain n v s r s' : strmeta_plain s -> plain s v ->
  length d n v s = Ok r s' ->
  s' = s /\ ((exists x, v = VStr x /\ r = VNum (of_Z (Z.of_nat (List.length x)))) \/
             (exists a, v = VTable a)).
Proof.
  intros Hs Hp H. destruct n; [discriminate|]. rewrite length_S in H.
  destruct v;
    try (exfalso; unfold bind in H; rewrite metamethod_plain in H by (assumption || reflexivity);
         discriminate).
  - inv_ok H. subst. split; eauto.
  - assert ((if is_luau d then metamethod (VTable a) "__len" else ret VNil) s = Ok VNil s) as E.
    { destruct (is_luau d); [|reflexivity]. apply metamethod_plain_tab. exact Hp. }
    unfold bind in H. rewrite E in H. fold (@bind table value) in H.
    change ((t <- get_table a ;; ret (VNum (of_Z (border (t_entries t))))) s = Ok r s') in H.
    inv_ok H. apply get_table_ok in H0 as [-> _]. subst. split; eauto.
Qed.

Lemma index_globals_plain n k s v s' : globals_plain s ->
  index d n (VTable A_globals) k s = Ok v s' -> s' = s.
Proof.
  intros Hg H. destruct n; [discriminate|]. rewrite index_S_table in H.
  inv_ok H. apply get_table_ok in H0 as [-> Ht].
  destruct (raw_get _ _); try (inv_ok H1; subst; reflexivity).
  unfold bind in H1. rewrite (metamethod_plain_tab _ _ _ Hg) in H1. inv_ok H1. subst; reflexivity.
Qed.

End Ops.
