(** C01, statement-level rewrites driven by a statically known condition:
    remove_unused_if_branch (statement form) and remove_unused_while. *)
From Coq Require Import ZArith NArith List Bool String Lia.
From DL Require Import Lib.Bytes Lib.F64 Lua.Syntax Lua.Sem Model.Evaluator Model.DefaultRules
  Lua.EvalSpec Lua.EvalSpec2 Proof.SemFacts Proof.EvaluatorStore Proof.EvaluatorInv Proof.EvaluatorSound
  Proof.DefaultRulesSem Proof.DefaultRulesSoundExpr.
Import ListNotations.
Open Scope N_scope.

(** a condition with a statically known value (side effects allowed): C08's [evaluate_sound]
    in its refined form *)
Lemma known_run1 d e n rho va s v s' :
  deep_safe d e = true -> ctor_pure d e = true -> evaluate e <> LUnknown -> env_plain s ->
  eval1 d n rho va e s = Ok v s' -> lv_ok s s' (evaluate e) v.
Proof.
  intros Hd Hc Hk He H. unfold deep_safe in Hd. apply andb_true_iff in Hd as [Hd _].
  eapply (proj1 (proj2 (main_all d n)) true e rho va s v s'); [|exact He|exact H].
  cbn [Hyp]. unfold HypK. auto.
Qed.

Lemma truthy_known b v : is_truthy v = Some b -> v <> LUnknown.
Proof. destruct v; cbn; congruence. Qed.

Section Cond.
Variable d : dialect.

(** * remove_unused_if_branch, statement form *)

(** what [simplify_if_statement] answers on a first branch whose condition is free of side
    effects and statically truthy / falsy *)
Lemma if_retain_closed bs repl : if_retain bs false repl = ([], false, repl).
Proof. induction bs as [|[c b] bs IH]; [reflexivity|]. cbn [if_retain negb]. exact IH. Qed.

Lemma simplify_if_true c B rest els :
  has_side_effects false c = false -> is_truthy (evaluate c) = Some true ->
  simplify_if_statement (SBranch c B :: rest) els =
  if block_is_empty B then FRemove else FReplace (SDo B).
Proof.
  intros Hs Hb. unfold simplify_if_statement. cbn [if_retain negb]. unfold hse. rewrite Hb, Hs.
  rewrite if_retain_closed. reflexivity.
Qed.

Lemma simplify_if_false_step c B rest els :
  has_side_effects false c = false -> is_truthy (evaluate c) = Some false ->
  simplify_if_statement (SBranch c B :: rest) els = simplify_if_statement rest els \/ rest = [].
Proof.
  intros Hs Hb. destruct rest as [|b2 rest]; [now right|left].
  unfold simplify_if_statement. cbn [if_retain negb]. unfold hse. rewrite Hb, Hs. reflexivity.
Qed.

(** [if c then B ... end], [c] free of side effects and statically truthy, behaves as
    [do B end] started in a store that differs from [s] by the fresh allocations of [c] only
    (same fuel, same resulting environment, signal and store) *)
Theorem if_branch_true_sound : forall c B rest els n rho va s r s',
  has_side_effects false c = false -> deep_safe d c = true -> env_plain s ->
  is_truthy (evaluate c) = Some true ->
  exec_stmt d n rho va (SIf (SBranch c B :: rest) els) s = Ok r s' ->
  exists s1, store_extends s s1 /\ exec_stmt d n rho va (SDo B) s1 = Ok r s'.
Proof.
  intros c B rest els n rho va s r s' Hs Hd He Hb H.
  destruct n as [|n]; [discriminate|]. rewrite exec_stmt_S_if in H. rewrite exec_stmt_S_do.
  apply bind_ok in H as (sg & s2 & Hg & H). rewrite sif_go_cons in Hg.
  apply bind_ok in Hg as (cv & s1 & Hc & Hg).
  destruct (pure_run1 _ _ _ _ _ _ _ _ Hs Hd He Hc) as [Hext Hok].
  rewrite (lv_ok_truthy _ _ _ _ _ Hok Hb) in Hg.
  exists s1. split; [exact Hext|]. unfold bind at 1. rewrite Hg. exact H.
Qed.

(** statically falsy: the statement behaves as the rest of the chain ([elseif] branches and
    [else] block; nothing at all when there is none) *)
Theorem if_branch_false_sound : forall c B rest els n rho va s r s',
  has_side_effects false c = false -> deep_safe d c = true -> env_plain s ->
  is_truthy (evaluate c) = Some false ->
  exec_stmt d n rho va (SIf (SBranch c B :: rest) els) s = Ok r s' ->
  exists s1, store_extends s s1 /\
    match rest, els with
    | [], None => r = (rho, SigNone) /\ s' = s1
    | [], Some eb => exec_stmt d n rho va (SDo eb) s1 = Ok r s'
    | _, _ => exec_stmt d n rho va (SIf rest els) s1 = Ok r s'
    end.
Proof.
  intros c B rest els n rho va s r s' Hs Hd He Hb H.
  destruct n as [|n]; [discriminate|]. rewrite exec_stmt_S_if in H.
  apply bind_ok in H as (sg & s2 & Hg & H). rewrite sif_go_cons in Hg.
  apply bind_ok in Hg as (cv & s1 & Hc & Hg).
  destruct (pure_run1 _ _ _ _ _ _ _ _ Hs Hd He Hc) as [Hext Hok].
  rewrite (lv_ok_truthy _ _ _ _ _ Hok Hb) in Hg.
  exists s1. split; [exact Hext|].
  destruct rest as [|b2 rest].
  - rewrite sif_go_nil in Hg. destruct els as [eb|].
    + rewrite exec_stmt_S_do. unfold bind at 1. rewrite Hg. exact H.
    + inv_ok Hg. inv_ok H. subst. auto.
  - rewrite exec_stmt_S_if. unfold bind at 1. rewrite Hg. exact H.
Qed.

(** a KEPT condition (side effects allowed) whose truthiness is fixed: the code the rule deletes
    behind it is dead; identical runs for every outcome.  Semantic form first. *)
Definition always (rho : env) (va : list value) (s : store) (c : expr) (b : bool) : Prop :=
  forall n cv s1, eval1 d n rho va c s = Ok cv s1 -> truthy cv = b.

Theorem if_true_rest_dead_sem : forall c B rest els n rho va s,
  always rho va s c true ->
  exec_stmt d n rho va (SIf (SBranch c B :: rest) els) s =
  exec_stmt d n rho va (SIf [SBranch c B] None) s.
Proof.
  intros c B rest els n rho va s Ha.
  destruct n as [|n]; [reflexivity|]. rewrite !exec_stmt_S_if.
  apply bind_cong_l. rewrite !sif_go_cons. apply bind_eq. intros cv s1 H1.
  rewrite (Ha _ _ _ H1). reflexivity.
Qed.

Theorem if_false_block_dead_sem : forall c B rest els n rho va s,
  always rho va s c false ->
  exec_stmt d n rho va (SIf (SBranch c B :: rest) els) s =
  exec_stmt d n rho va (SIf (SBranch c empty_block :: rest) els) s.
Proof.
  intros c B rest els n rho va s Ha.
  destruct n as [|n]; [reflexivity|]. rewrite !exec_stmt_S_if.
  apply bind_cong_l. rewrite !sif_go_cons. apply bind_eq. intros cv s1 H1.
  rewrite (Ha _ _ _ H1). reflexivity.
Qed.

(** instance 1: the static value is known and the C08 preconditions hold *)
Lemma always_known c b rho va s :
  deep_safe d c = true -> ctor_pure d c = true -> env_plain s ->
  is_truthy (evaluate c) = Some b -> always rho va s c b.
Proof.
  intros Hd Hc He Hb n cv s1 H1.
  pose proof (known_run1 _ _ _ _ _ _ _ _ Hd Hc (truthy_known _ _ Hb) He H1) as Hok.
  exact (lv_ok_truthy _ _ _ _ _ Hok Hb).
Qed.

(** instance 2: a table constructor, whatever its entries do, is truthy, and its negation
    falsy (the conditions with side effects AND a static value that occur in practice:
    [if {f()} then], [if not {f()} then]; [ctor_pure] excludes them from instance 1) *)
Lemma always_table ens rho va s : always rho va s (ETable ens) true.
Proof.
  intros n cv s1 H. destruct n as [|n]; [discriminate|]. rewrite eval1_S in H.
  apply bind_ok in H as (vs & s2 & Hv & H). inv_ok H. subst.
  destruct n as [|n]; [discriminate|]. rewrite eval_S_table in Hv. inv_ok Hv. subst. reflexivity.
Qed.

Lemma always_not c b rho va s : always rho va s c b -> always rho va s (EUnary UNot c) (negb b).
Proof.
  intros Ha n cv s1 H. destruct n as [|n]; [discriminate|]. rewrite eval1_S in H.
  apply bind_ok in H as (vs & s2 & Hv & H). inv_ok H. subst.
  destruct n as [|n]; [discriminate|]. rewrite eval_S_unary in Hv.
  apply bind_ok in Hv as (v & s3 & Hc & Hv). inv_ok Hv. subst. cbn [first truthy].
  rewrite (Ha _ _ _ Hc). destruct b; reflexivity.
Qed.

Theorem if_true_rest_dead : forall c B rest els n rho va s,
  deep_safe d c = true -> ctor_pure d c = true -> env_plain s ->
  is_truthy (evaluate c) = Some true ->
  exec_stmt d n rho va (SIf (SBranch c B :: rest) els) s =
  exec_stmt d n rho va (SIf [SBranch c B] None) s.
Proof. intros. apply if_true_rest_dead_sem. now apply always_known. Qed.

Theorem if_false_block_dead : forall c B rest els n rho va s,
  deep_safe d c = true -> ctor_pure d c = true -> env_plain s ->
  is_truthy (evaluate c) = Some false ->
  exec_stmt d n rho va (SIf (SBranch c B :: rest) els) s =
  exec_stmt d n rho va (SIf (SBranch c empty_block :: rest) els) s.
Proof. intros. apply if_false_block_dead_sem. now apply always_known. Qed.

(** an empty [else] block can go *)
Lemma sif_go_empty_else n rho va : forall bs s r,
  sif_go d n rho va (Some empty_block) bs s = r -> r <> Fuel -> sif_go d n rho va None bs s = r.
Proof.
  induction bs as [|[c b] bs IH]; intros s r H Hf.
  - rewrite sif_go_nil in *. subst r.
    destruct n as [|n]; [exfalso; apply Hf; reflexivity|]. unfold empty_block in *. rewrite exec_block_S in *.
    destruct n as [|n]; [exfalso; apply Hf; reflexivity|]. rewrite exec_stmts_S_nil. reflexivity.
  - rewrite sif_go_cons in *. subst r. unfold bind in *.
    destruct (eval1 d n rho va c s) as [cv s1| | |]; try reflexivity.
    destruct (truthy cv); [reflexivity|]. apply IH; [reflexivity|exact Hf].
Qed.

Theorem if_empty_else_sound : forall bs n rho va s r,
  exec_stmt d n rho va (SIf bs (Some empty_block)) s = r -> r <> Fuel ->
  exec_stmt d n rho va (SIf bs None) s = r.
Proof.
  intros bs n rho va s r H Hf. subst r.
  destruct n as [|n]; [exfalso; apply Hf; reflexivity|]. rewrite exec_stmt_S_if in *.
  apply bind_cong_l. apply sif_go_empty_else; [reflexivity|].
  intros E. apply Hf. apply bind_fuel_l. exact E.
Qed.

(** * remove_unused_while *)

Lemma while_kept_false c b :
  while_kept (SWhile c b) = false <->
  has_side_effects false c = false /\ is_truthy (evaluate c) = Some false.
Proof.
  cbn [while_kept]. unfold hse. destruct (has_side_effects false c); cbn [orb].
  - split; [discriminate|]. intros [E _]. discriminate E.
  - destruct (is_truthy (evaluate c)) as [[|]|]; split; auto; try discriminate; intros [_ E]; discriminate E.
Qed.

(** [while c do ... end] with [c] free of side effects and statically falsy completes
    normally, leaves the environment alone and only adds fresh allocations to the store *)
Theorem while_false_sound : forall c b n rho va s r s',
  has_side_effects false c = false -> deep_safe d c = true -> env_plain s ->
  is_truthy (evaluate c) = Some false ->
  exec_stmt d n rho va (SWhile c b) s = Ok r s' ->
  r = (rho, SigNone) /\ store_extends s s'.
Proof.
  intros c b n rho va s r s' Hs Hd He Hb H.
  destruct n as [|n]; [discriminate|]. rewrite exec_stmt_S_while in H.
  apply bind_ok in H as (sg & s2 & Hw & H). inv_ok H. subst.
  destruct n as [|n]; [discriminate|]. rewrite exec_while_S in Hw.
  apply bind_ok in Hw as (cv & s1 & Hc & Hw).
  destruct (pure_run1 _ _ _ _ _ _ _ _ Hs Hd He Hc) as [Hext Hok].
  rewrite (lv_ok_truthy _ _ _ _ _ Hok Hb) in Hw. inv_ok Hw. subst. auto.
Qed.

End Cond.

(** * The hypotheses are satisfiable *)

Definition ident (x : string) : expr := EIdent (of_string x).
Definition call0 (f : string) : stmt := SCall (ECall (ident f) None (ATuple [])).
Definition num1 : expr := ENumber (NDec (to_bits fone) None).

(** [if 1 == 1 then ext_a() else ext_b() end] *)
Example if_branch_example :
  let c := EBinary BEq num1 num1 in
  let st := SIf [SBranch c (Block [call0 "ext_a"] None)] (Some (Block [call0 "ext_b"] None)) in
  let s := initial_store [] in
  has_side_effects false c = false /\ deep_safe L51 c = true /\ env_plain s /\
  is_truthy (evaluate c) = Some true /\
  rw_if_block (Block [st] None) = Block [SDo (Block [call0 "ext_a"] None)] None /\
  exists s', exec_stmt L51 20 [] [] st s = Ok ([], SigNone) s' /\
             trace s' = [EvCall (of_string "ext_a") []].
Proof.
  cbv zeta. repeat split; try (vm_compute; reflexivity); try apply env_plain_initial.
  eexists. split; vm_compute; reflexivity.
Qed.

(** [while not {} do ext_a() end]: the condition allocates a table (fresh garbage) *)
Example while_false_example :
  let c := EUnary UNot (ETable []) in
  let st := SWhile c (Block [call0 "ext_a"] None) in
  let s := initial_store [] in
  has_side_effects false c = false /\ deep_safe L51 c = true /\ env_plain s /\
  is_truthy (evaluate c) = Some false /\
  rw_while (Block [st] None) = Block [] None /\
  exists s', exec_stmt L51 20 [] [] st s = Ok ([], SigNone) s' /\ s' <> s.
Proof.
  cbv zeta. repeat split; try (vm_compute; reflexivity); try apply env_plain_initial.
  eexists. split; [vm_compute; reflexivity|]. intros E. apply (f_equal (fun x => List.length (tables x))) in E.
  vm_compute in E. discriminate E.
Qed.

(** [if 1 > 2 then ext_a() elseif x then ext_b() else ext_c() end] *)
Example if_branch_false_example :
  let c := EBinary BGt num1 (ENumber (NDec (to_bits (of_Z 2)) None)) in
  let st := SIf [SBranch c (Block [call0 "ext_a"] None); SBranch (ident "x") (Block [call0 "ext_b"] None)]
                (Some (Block [call0 "ext_c"] None)) in
  let s := initial_store [] in
  has_side_effects false c = false /\ deep_safe Luau c = true /\ env_plain s /\
  is_truthy (evaluate c) = Some false /\
  rw_if_block (Block [st] None) =
    Block [SIf [SBranch (ident "x") (Block [call0 "ext_b"] None)] (Some (Block [call0 "ext_c"] None))] None /\
  exists s', exec_stmt Luau 20 [] [] st s = Ok ([], SigNone) s' /\
             trace s' = [EvCall (of_string "ext_c") []].
Proof.
  cbv zeta. repeat split; try (vm_compute; reflexivity); try apply env_plain_initial.
  eexists. split; vm_compute; reflexivity.
Qed.

(** [if {ext_f()} then ext_a() elseif y then ext_b() else ext_c() end]: the condition has side
    effects and is statically truthy; the rule keeps it and drops what follows *)
Example if_kept_condition_example :
  let c := ETable [TValue (ECall (ident "ext_f") None (ATuple []))] in
  let st := SIf [SBranch c (Block [call0 "ext_a"] None); SBranch (ident "y") (Block [call0 "ext_b"] None)]
                (Some (Block [call0 "ext_c"] None)) in
  let s := initial_store [] in
  has_side_effects false c = true /\ is_truthy (evaluate c) = Some true /\ ctor_pure L51 c = false /\
  (forall rho va s0, always L51 rho va s0 c true) /\
  rw_if_block (Block [st] None) = Block [SIf [SBranch c (Block [call0 "ext_a"] None)] None] None /\
  exists s', exec_stmt L51 20 [] [] st s = Ok ([], SigNone) s' /\
             trace s' = [EvCall (of_string "ext_a") []; EvCall (of_string "ext_f") []].
Proof.
  cbv zeta. split; [vm_compute; reflexivity|]. split; [vm_compute; reflexivity|].
  split; [vm_compute; reflexivity|]. split; [intros; apply always_table|].
  split; [vm_compute; reflexivity|]. eexists. split; vm_compute; reflexivity.
Qed.
