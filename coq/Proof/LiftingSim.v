(** C01, LIFTING - the fundamental lemma: forward same-fuel simulation of the reference
    interpreter between a program and its rewriting, by induction on the fuel, one lemma per
    interpreter function (the organisation of Proof/RefactorSimC.v).

    Parameters: the base relations [Re], [Rt], [Rs], [Rb] of Proof/LiftingDefs.v and, as LOCAL
    hypotheses, node-level refinements in the SAME store
        [Re e e1 -> refines (eval d n rho va e) (eval d n rho va e1)]   (for every n, rho, va)
    ([refines m1 m2]: wherever [m1] does not run out of fuel, [m2] yields the very same
    result, Proof/LoweringFuel.v), likewise for assignment targets ([Rv], [eval_target]), table-constructor entry
    lists, statements, blocks (run as a block and run as the body of [repeat]).

    Result [sim_all_holds]: for every fuel [n] and every function [F] of the interpreter, if the
    syntax arguments are [crel_*]-related and the stores [lstore_rel]-related then
    [fwd eq (F n ... s1) (F n ... s2)]: a left run that does not end in [Fuel] is matched by
    the right run WITH THE SAME FUEL (same values / same Lua error / same [Unsup] tag, related
    final stores). *)
From Coq Require Import ZArith NArith List Bool String Lia.
From DL Require Import Lib.Bytes Lib.F64 Lua.Syntax Lua.Sem.
From DL Require Import Proof.LoweringFuel.
From DL Require Import Proof.SemFacts Proof.DefaultRulesSem Proof.RefactorSem Proof.RefactorSimA.
From DL Require Import Proof.LiftingDefs.
Import ListNotations.
Open Scope N_scope.

Section Sim.
Variable d : dialect.
Variable Re : expr -> expr -> Prop.
Variable Rv : expr -> expr -> Prop.
Variable Rt : list tentry -> list tentry -> Prop.
Variable Rs : stmt -> stmt -> Prop.
Variable Rb : block -> block -> Prop.

Local Notation cE := (crel_expr Re Rv Rt Rs Rb).
Local Notation gE := (cong_expr Re Rv Rt Rs Rb).
Local Notation cV := (crel_var Re Rv Rt Rs Rb).
Local Notation cA := (crel_args Re Rv Rt Rs Rb).
Local Notation cT := (crel_entries Re Rv Rt Rs Rb).
Local Notation gT := (cong_tentry Re Rv Rt Rs Rb).
Local Notation cS := (crel_stmt Re Rv Rt Rs Rb).
Local Notation gS := (cong_stmt Re Rv Rt Rs Rb).
Local Notation cB := (crel_block Re Rv Rt Rs Rb).
Local Notation gB := (cong_block Re Rv Rt Rs Rb).
Local Notation cL := (crel_last Re Rv Rt Rs Rb).
Local Notation cF := (frel Re Rv Rt Rs Rb).
Local Notation fsim := (fsimR cB eq).

Hypothesis HRe : forall e e1, Re e e1 -> forall n rho va,
  refines (eval d n rho va e) (eval d n rho va e1).
Hypothesis HRv : forall e e1, Rv e e1 -> forall n rho va,
  refines (eval_target d n rho va e) (eval_target d n rho va e1).
Hypothesis HRt : forall ens ens1, Rt ens ens1 -> forall n rho va a pos,
  refines (fill_table d n rho va a ens pos) (fill_table d n rho va a ens1 pos).
Hypothesis HRs : forall st st1, Rs st st1 -> forall n rho va,
  refines (exec_stmt d n rho va st) (exec_stmt d n rho va st1).
Hypothesis HRb : forall b b1, Rb b b1 -> forall n rho va,
  refines (exec_block d n rho va b) (exec_block d n rho va b1).
Hypothesis HRb_repeat : forall b b1, Rb b b1 -> forall n rho va c,
  refines (exec_repeat d n rho va b c) (exec_repeat d n rho va b1 c).

Record sim_all (n : nat) : Prop := {
  sa_call : forall f args, fsim (call d n f args) (call d n f args);
  sa_index : forall o k, fsim (index d n o k) (index d n o k);
  sa_setindex : forall o k v, fsim (setindex d n o k v) (setindex d n o k v);
  sa_tostr : forall v, fsim (tostr d n v) (tostr d n v);
  sa_arith : forall o a b, fsim (arith d n o a b) (arith d n o a b);
  sa_concat : forall a b, fsim (concat d n a b) (concat d n a b);
  sa_equal : forall a b, fsim (equal d n a b) (equal d n a b);
  sa_less : forall st a b, fsim (less d n st a b) (less d n st a b);
  sa_length : forall v, fsim (length d n v) (length d n v);
  sa_builtin : forall b args, fsim (call_builtin d n b args) (call_builtin d n b args);
  sa_eval : forall rho va e e', cE e e' -> fsim (eval d n rho va e) (eval d n rho va e');
  sa_eval1 : forall rho va e e', cE e e' -> fsim (eval1 d n rho va e) (eval1 d n rho va e');
  sa_eval_list : forall rho va es es', Forall2 cE es es' ->
                 fsim (eval_list d n rho va es) (eval_list d n rho va es');
  sa_eval_args : forall rho va a a', cA a a' -> fsim (eval_args d n rho va a) (eval_args d n rho va a');
  sa_fill : forall rho va a ens ens' pos, cT ens ens' ->
            fsim (fill_table d n rho va a ens pos) (fill_table d n rho va a ens' pos);
  sa_block : forall rho va b b', cB b b' -> fsim (exec_block d n rho va b) (exec_block d n rho va b');
  sa_stmts : forall rho va ss ss' last last', Forall2 cS ss ss' -> opt_rel cL last last' ->
             fsim (exec_stmts d n rho va ss last) (exec_stmts d n rho va ss' last');
  sa_assign_target : forall rho t v, fsim (assign_target d n rho t v) (assign_target d n rho t v);
  sa_eval_target : forall rho va e e', cV e e' -> fsim (eval_target d n rho va e) (eval_target d n rho va e');
  sa_stmt : forall rho va st st', cS st st' -> fsim (exec_stmt d n rho va st) (exec_stmt d n rho va st');
  sa_while : forall rho va c c' b b', cE c c' -> cB b b' ->
             fsim (exec_while d n rho va c b) (exec_while d n rho va c' b');
  sa_repeat : forall rho va b b' c c', cB b b' -> cE c c' ->
              fsim (exec_repeat d n rho va b c) (exec_repeat d n rho va b' c');
  sa_numfor : forall rho va x i stop step b b', cB b b' ->
              fsim (exec_numfor d n rho va x i stop step b) (exec_numfor d n rho va x i stop step b');
  sa_genfor : forall rho va vars vars' f s ctl b b', map param_name vars = map param_name vars' -> cB b b' ->
              fsim (exec_genfor d n rho va vars f s ctl b) (exec_genfor d n rho va vars' f s ctl b')
}.

Lemma sim_all_0 : sim_all 0.
Proof. constructor; intros; intros s1 s2 Hs; exact I. Qed.

(** the induction hypothesis, as a leaf tactic for the value operations *)
Ltac ihv IH := idtac;
  lazymatch goal with
  | |- fsimR _ _ (metamethod _ _) (metamethod _ _) => apply fs_metamethod
  | |- fsimR _ _ (metatable_of _) (metatable_of _) => apply fs_metatable_of
  | |- fsimR _ _ (call_ext _ _) (call_ext _ _) => apply fs_call_ext
  | |- fsimR _ _ (call _ _ _ _) (call _ _ _ _) => apply (sa_call _ IH)
  | |- fsimR _ _ (index _ _ _ _) (index _ _ _ _) => apply (sa_index _ IH)
  | |- fsimR _ _ (setindex _ _ _ _ _) (setindex _ _ _ _ _) => apply (sa_setindex _ IH)
  | |- fsimR _ _ (tostr _ _ _) (tostr _ _ _) => apply (sa_tostr _ IH)
  | |- fsimR _ _ (arith _ _ _ _ _) (arith _ _ _ _ _) => apply (sa_arith _ IH)
  | |- fsimR _ _ (concat _ _ _ _) (concat _ _ _ _) => apply (sa_concat _ IH)
  | |- fsimR _ _ (equal _ _ _ _) (equal _ _ _ _) => apply (sa_equal _ IH)
  | |- fsimR _ _ (less _ _ _ _ _) (less _ _ _ _ _) => apply (sa_less _ IH)
  | |- fsimR _ _ (length _ _ _) (length _ _ _) => apply (sa_length _ IH)
  | |- fsimR _ _ (call_builtin _ _ _ _) (call_builtin _ _ _ _) => apply (sa_builtin _ IH)
  | |- fsimR _ _ (assign_target _ _ _ _ _) (assign_target _ _ _ _ _) => apply (sa_assign_target _ IH)
  end.

Section Step.
Variable n : nat.
Hypothesis IH : sim_all n.

Lemma step_index o k : fsim (index d (S n) o k) (index d (S n) o k).
Proof.
  destruct o; try (rewrite index_S_other by exact I); try rewrite index_S_table; fs_with ltac:(ihv IH).
Qed.

Lemma step_setindex o k v : fsim (setindex d (S n) o k v) (setindex d (S n) o k v).
Proof.
  destruct o; try (rewrite setindex_S_other by exact I); try rewrite setindex_S_table; fs_with ltac:(ihv IH).
Qed.

Lemma step_tostr v : fsim (tostr d (S n) v) (tostr d (S n) v).
Proof. rewrite tostr_S. fs_with ltac:(ihv IH). Qed.

Lemma step_arith o a b : fsim (arith d (S n) o a b) (arith d (S n) o a b).
Proof. rewrite arith_S. fs_with ltac:(ihv IH). Qed.

Lemma step_concat a b : fsim (concat d (S n) a b) (concat d (S n) a b).
Proof. rewrite concat_S. fs_with ltac:(ihv IH). Qed.

Lemma step_equal a b : fsim (equal d (S n) a b) (equal d (S n) a b).
Proof. rewrite equal_S. fs_with ltac:(ihv IH). Qed.

Lemma step_less st a b : fsim (less d (S n) st a b) (less d (S n) st a b).
Proof. rewrite less_S. fs_with ltac:(ihv IH). Qed.

Lemma step_length v : fsim (length d (S n) v) (length d (S n) v).
Proof. rewrite length_S. fs_with ltac:(ihv IH). Qed.

Lemma fs_minmax_go b vs : forall acc, fsim (minmax_go b vs acc) (minmax_go b vs acc).
Proof.
  induction vs as [|v vs IHv]; intros acc; cbn [minmax_go]; fs_with ltac:(apply IHv).
Qed.

Lemma fs_char_go vs : forall acc, fsim (char_go vs acc) (char_go vs acc).
Proof.
  induction vs as [|v vs IHv]; intros acc; cbn [char_go]; fs_with ltac:(apply IHv).
Qed.

Lemma fs_tconcat_go t sep is : forall acc fi, fsim (tconcat_go d t sep is acc fi) (tconcat_go d t sep is acc fi).
Proof.
  induction is as [|i is IHi]; intros acc fi; cbn [tconcat_go]; fs_with ltac:(apply IHi).
Qed.

Lemma fs_format_go fuel : forall f vs acc, fsim (format_go d n fuel f vs acc) (format_go d n fuel f vs acc).
Proof.
  induction fuel as [|fuel IHf]; intros f vs acc; cbn [format_go];
    fs_with ltac:(first [apply IHf | ihv IH]).
Qed.

Lemma step_builtin b args : fsim (call_builtin d (S n) b args) (call_builtin d (S n) b args).
Proof.
  rewrite call_builtin_S.
  fs_with ltac:(first [ihv IH | apply fs_minmax_go | apply fs_char_go | apply fs_tconcat_go | apply fs_format_go]).
Qed.

Lemma fs_call_closure c1 c2 args : lclos_rel cB c1 c2 ->
  fsim (call_closure d n (effective_params c1) (closure_variadic c1) (closure_block c1) (c_env c1) args)
       (call_closure d n (effective_params c2) (closure_variadic c2) (closure_block c2) (c_env c2) args).
Proof.
  intros (H1 & H2 & H3 & H4). unfold call_closure. rewrite <- H2, <- H4.
  apply fsim_bind_eq; [apply fs_bind_params; exact H1|]. intros r. cbv zeta.
  replace (List.length (effective_params c2)) with (List.length (effective_params c1))
    by (rewrite <- (map_length param_name), H1, map_length; reflexivity).
  apply fsim_bind_eq.
  - apply (sa_block _ IH). exact H3.
  - intros sg. destruct sg; fs.
Qed.

Lemma step_call f args : fsim (call d (S n) f args) (call d (S n) f args).
Proof.
  destruct f; try (rewrite call_S_other by exact I; fs_with ltac:(ihv IH)).
  - intros s1 s2 Hs. rewrite !call_S_closure.
    eapply fwd_bind; [apply fs_get_closure; exact Hs|].
    intros c1 c2 t1 t2 Hc Ht. now apply fs_call_closure.
  - rewrite call_S_builtin. apply (sa_builtin _ IH).
  - rewrite call_S_ext. apply fs_call_ext.
Qed.

(** the induction hypothesis for the functions that read syntax *)
Ltac side :=
  first [ eassumption
        | apply cr_e_same; constructor
        | apply cr_v_same; constructor
        | apply cr_b_same; constructor; eassumption
        | apply cr_t_same; eassumption
        | constructor; eassumption ].
Ltac ihe :=
  idtac;
  lazymatch goal with
  | |- fsimR _ _ (eval _ _ _ _ _) (eval _ _ _ _ _) => apply (sa_eval _ IH); side
  | |- fsimR _ _ (eval1 _ _ _ _ _) (eval1 _ _ _ _ _) => apply (sa_eval1 _ IH); side
  | |- fsimR _ _ (eval_list _ _ _ _ _) (eval_list _ _ _ _ _) => apply (sa_eval_list _ IH); side
  | |- fsimR _ _ (eval_args _ _ _ _ _) (eval_args _ _ _ _ _) => apply (sa_eval_args _ IH); side
  | |- fsimR _ _ (fill_table _ _ _ _ _ _ _) (fill_table _ _ _ _ _ _ _) => apply (sa_fill _ IH); side
  | |- fsimR _ _ (exec_block _ _ _ _ _) (exec_block _ _ _ _ _) => apply (sa_block _ IH); side
  | |- fsimR _ _ (exec_stmts _ _ _ _ _ _) (exec_stmts _ _ _ _ _ _) => apply (sa_stmts _ IH); side
  | |- fsimR _ _ (eval_target _ _ _ _ _) (eval_target _ _ _ _ _) => apply (sa_eval_target _ IH); side
  | |- fsimR _ _ (exec_while _ _ _ _ _ _) (exec_while _ _ _ _ _ _) => apply (sa_while _ IH); side
  | |- fsimR _ _ (exec_repeat _ _ _ _ _ _) (exec_repeat _ _ _ _ _ _) => apply (sa_repeat _ IH); side
  | |- fsimR _ _ (exec_numfor _ _ _ _ _ _ _ _ _) (exec_numfor _ _ _ _ _ _ _ _ _) => apply (sa_numfor _ IH); side
  | |- fsimR _ _ (exec_genfor _ _ _ _ _ _ _ _ _) (exec_genfor _ _ _ _ _ _ _ _ _) => apply (sa_genfor _ IH); side
  | |- _ => ihv IH
  end.

Lemma fs_if_go rho va els els' bs bs' :
  Forall2 (crel_ebranch Re Rv Rt Rs Rb) bs bs' -> cE els els' ->
  fsim (if_go d n rho va els bs) (if_go d n rho va els' bs').
Proof.
  intros Hb Hc. induction Hb as [|b b' bs bs' Hb1 Hb IHb].
  - rewrite !if_go_nil. fs_with ihe.
  - destruct Hb1. rewrite !if_go_cons. fs_with ltac:(first [ihe | exact IHb]).
Qed.

Lemma fs_interp_go rho va segs segs' : Forall2 (crel_iseg Re Rv Rt Rs Rb) segs segs' -> forall acc,
  fsim (interp_go d n rho va segs acc) (interp_go d n rho va segs' acc).
Proof.
  induction 1 as [|sg sg' segs segs' H1 Hs IHs]; intros acc.
  - rewrite !interp_go_nil. fs.
  - destruct H1.
    + rewrite !interp_go_str. apply IHs.
    + rewrite !interp_go_expr. fs_with ltac:(first [ihe | apply IHs]).
Qed.

Lemma frel_clos self self' f f' rho : cF self self' f f' ->
  lclos_rel cB (mkClosure f rho self) (mkClosure f' rho self').
Proof.
  intros H. destruct H as [self self' ps ps' v vt vt' rt rt' g g' at_ at_' body body' Hn Hb].
  unfold lclos_rel, effective_params, closure_variadic, closure_block. cbn [c_body c_env c_self].
  repeat split; auto.
Qed.

Lemma step_eval_cong rho va e e' : gE e e' -> fsim (eval d (S n) rho va e) (eval d (S n) rho va e').
Proof.
  intros Hg. destruct Hg.
  - rewrite !eval_S_nil. fs.
  - rewrite !eval_S_true. fs.
  - rewrite !eval_S_false. fs.
  - rewrite !eval_S_number. fs.
  - rewrite !eval_S_string. fs.
  - rewrite !eval_S_interp. now apply fs_interp_go.
  - rewrite !eval_S_varargs. fs.
  - rewrite !eval_S_ident. fs_with ihe.
  - rewrite !eval_S_field. fs_with ihe.
  - rewrite !eval_S_index. fs_with ihe.
  - rewrite !eval_S_call. fs_with ihe.
  - rewrite !eval_S_function. apply fsim_bind_eq; [|intros; fs].
    apply fs_new_closure. now apply frel_clos.
  - rewrite !eval_S_if. now apply fs_if_go.
  - rewrite !eval_S_paren. fs_with ihe.
  - rewrite !eval_S_table. fs_with ihe.
  - rewrite !eval_S_unary. fs_with ihe.
  - destruct op;
      first [rewrite !eval_S_and | rewrite !eval_S_or | rewrite !eval_S_binop by reflexivity; unfold binop_sem];
      fs_with ihe.
  - rewrite !eval_S_typecast. fs_with ihe.
  - rewrite !eval_S_typeinst. fs_with ihe.
Qed.

Lemma step_eval rho va e e' : cE e e' -> fsim (eval d (S n) rho va e) (eval d (S n) rho va e').
Proof.
  intros Hc. destruct Hc as [e e' Hg | e e1 e' Hr Hg].
  - now apply step_eval_cong.
  - eapply fsim_refines_l; [apply HRe; exact Hr|]. now apply step_eval_cong.
Qed.

Lemma step_eval1 rho va e e' : cE e e' -> fsim (eval1 d (S n) rho va e) (eval1 d (S n) rho va e').
Proof. intros Hc. rewrite !eval1_S. fs_with ihe. Qed.

Lemma step_eval_list rho va es es' : Forall2 cE es es' ->
  fsim (eval_list d (S n) rho va es) (eval_list d (S n) rho va es').
Proof.
  intros Hc. destruct Hc as [|e e' es es' He Hc].
  - rewrite !eval_list_S_nil. fs.
  - destruct Hc as [|e2 e2' rest rest' He2 Hc].
    + rewrite !eval_list_S_one. ihe.
    + rewrite !eval_list_S_cons. fs_with ihe.
Qed.

Lemma step_eval_args rho va a a' : cA a a' -> fsim (eval_args d (S n) rho va a) (eval_args d (S n) rho va a').
Proof.
  intros Hc. destruct Hc.
  - rewrite !eval_args_S_tuple. ihe.
  - rewrite !eval_args_S_string. fs.
  - rewrite !eval_args_S_table. fs_with ihe.
Qed.

Lemma fs_put a k v : fsim (put a k v) (put a k v).
Proof. unfold put. fs. Qed.
Lemma fs_put_pos a pos v : fsim (put_pos a pos v) (put_pos a pos v).
Proof. unfold put_pos. fs_with ltac:(apply fs_put). Qed.
Lemma fs_fill_go a vs : forall pos, fsim (fill_go a vs pos) (fill_go a vs pos).
Proof.
  induction vs as [|v vs IHv]; intros pos; cbn [fill_go]; fs_with ltac:(first [apply fs_put_pos | apply IHv]).
Qed.

Lemma step_fill_cong rho va a ens ens' pos : Forall2 gT ens ens' ->
  fsim (fill_table d (S n) rho va a ens pos) (fill_table d (S n) rho va a ens' pos).
Proof.
  intros Hc. destruct Hc as [|en en' rest rest' He Hc].
  - rewrite !fill_S_nil. fs.
  - destruct He.
    + rewrite !fill_S_field. fs_with ltac:(first [apply fs_put | ihe]).
    + rewrite !fill_S_index. fs_with ltac:(first [apply fs_put | ihe]).
    + destruct Hc as [|x x' rest rest' Hx Hc].
      * rewrite !fill_S_last. fs_with ltac:(first [apply fs_fill_go | ihe]).
      * rewrite !fill_S_value.
        fs_with ltac:(first [apply fs_put_pos | apply (sa_fill _ IH); apply cr_t_same; constructor; assumption | ihe]).
Qed.

Lemma step_fill rho va a ens ens' pos : cT ens ens' ->
  fsim (fill_table d (S n) rho va a ens pos) (fill_table d (S n) rho va a ens' pos).
Proof.
  intros Hc. destruct Hc as [ens ens' Hg | ens ens1 ens' Hr Hg].
  - now apply step_fill_cong.
  - eapply fsim_refines_l; [apply HRt; exact Hr|]. now apply step_fill_cong.
Qed.

Lemma step_block_cong rho va b b' : gB b b' -> fsim (exec_block d (S n) rho va b) (exec_block d (S n) rho va b').
Proof. intros Hg. destruct Hg. rewrite !exec_block_S. ihe. Qed.

Lemma step_block rho va b b' : cB b b' -> fsim (exec_block d (S n) rho va b) (exec_block d (S n) rho va b').
Proof.
  intros Hc. destruct Hc as [b b' Hg | b b1 b' Hr Hg].
  - now apply step_block_cong.
  - eapply fsim_refines_l; [apply HRb; exact Hr|]. now apply step_block_cong.
Qed.

Lemma step_stmts rho va ss ss' last last' : Forall2 cS ss ss' -> opt_rel cL last last' ->
  fsim (exec_stmts d (S n) rho va ss last) (exec_stmts d (S n) rho va ss' last').
Proof.
  intros Hc Hl. destruct Hc as [|st st' rest rest' Hs Hc].
  - rewrite !exec_stmts_S_nil. destruct Hl as [|l l' Hl]; [fs|]. destruct Hl; fs_with ihe.
  - rewrite !exec_stmts_S_cons. apply fsim_bind_eq.
    + now apply (sa_stmt _ IH).
    + intros [r1 g1]. unfold stmts_cont. destruct g1; fs_with ihe.
Qed.

Lemma step_assign_target rho t v :
  fsim (assign_target d (S n) rho t v) (assign_target d (S n) rho t v).
Proof.
  destruct t as [[[a|] o] k].
  - rewrite !assign_target_S_cell. fs.
  - rewrite !assign_target_S_index. ihv IH.
Qed.

Lemma step_eval_target_cong rho va e e' : gE e e' ->
  fsim (eval_target d (S n) rho va e) (eval_target d (S n) rho va e').
Proof.
  intros Hg. destruct Hg; try (rewrite !eval_target_S_other by reflexivity; fs).
  - rewrite !eval_target_S_ident. fs.
  - rewrite !eval_target_S_field. fs_with ihe.
  - rewrite !eval_target_S_index. fs_with ihe.
Qed.

Lemma step_eval_target rho va e e' : cV e e' ->
  fsim (eval_target d (S n) rho va e) (eval_target d (S n) rho va e').
Proof.
  intros Hc. destruct Hc as [e e' Hg | e e1 e' Hr Hg].
  - now apply step_eval_target_cong.
  - eapply fsim_refines_l; [apply HRv; exact Hr|]. now apply step_eval_target_cong.
Qed.

Lemma fs_targets_go rho va vars vars' : Forall2 cV vars vars' ->
  fsim (targets_go d n rho va vars) (targets_go d n rho va vars').
Proof.
  induction 1 as [|v v' vars vars' Hv Hc IHv].
  - rewrite !targets_go_nil. fs.
  - rewrite !targets_go_cons. fs_with ltac:(first [ihe | exact IHv]).
Qed.

Lemma fs_assign_go rho ts : forall vs, fsim (assign_go d n rho ts vs) (assign_go d n rho ts vs).
Proof.
  induction ts as [|t ts IHt]; intros vs.
  - rewrite !assign_go_nil. fs.
  - rewrite !assign_go_cons. fs_with ltac:(first [ihe | apply IHt]).
Qed.

Lemma fs_sif_go rho va els els' bs bs' :
  Forall2 (crel_sbranch Re Rv Rt Rs Rb) bs bs' -> opt_rel cB els els' ->
  fsim (sif_go d n rho va els bs) (sif_go d n rho va els' bs').
Proof.
  intros Hb Hc. induction Hb as [|b b' bs bs' Hb1 Hb IHb].
  - rewrite !sif_go_nil. destruct Hc; fs_with ihe.
  - destruct Hb1. rewrite !sif_go_cons. fs_with ltac:(first [ihe | exact IHb]).
Qed.

Lemma fs_path_go ks : forall o, fsim (path_go d n o ks) (path_go d n o ks).
Proof.
  induction ks as [|k ks IHk]; intros o.
  - rewrite path_go_short by (cbn; lia). fs.
  - destruct ks as [|k2 ks].
    + rewrite path_go_short by (cbn; lia). fs.
    + rewrite path_go_cons. fs_with ltac:(first [ihe | apply IHk]).
Qed.

Lemma fs_sfunction_store rho va base path c :
  fsim (sfunction_store d n rho va base path c) (sfunction_store d n rho va base path c).
Proof.
  unfold sfunction_store. destruct path; fs_with ltac:(first [apply fs_path_go | ihe]).
Qed.

Lemma fs_repeat_go va last last' ss ss' : Forall2 cS ss ss' -> opt_rel cL last last' -> forall rho,
  fsim (repeat_go d n va last ss rho) (repeat_go d n va last' ss' rho).
Proof.
  intros Hc Hl. induction Hc as [|st st' ss ss' Hs Hc IHs]; intros rho.
  - rewrite !repeat_go_nil. destruct Hl as [|l l' Hl]; [fs|]. destruct Hl; fs_with ihe.
  - rewrite !repeat_go_cons. apply fsim_bind_eq.
    + now apply (sa_stmt _ IH).
    + intros [r1 g1]. destruct g1; try (apply fsim_ret; reflexivity). apply IHs.
Qed.

Lemma step_stmt_cong rho va st st' : gS st st' ->
  fsim (exec_stmt d (S n) rho va st) (exec_stmt d (S n) rho va st').
Proof.
  intros Hg. destruct Hg.
  - rewrite !exec_stmt_S_assign.
    fs_with ltac:(first [apply fs_targets_go; assumption | apply fs_assign_go | ihe]).
  - rewrite !exec_stmt_S_do. fs_with ihe.
  - rewrite !exec_stmt_S_call. fs_with ihe.
  - rewrite !exec_stmt_S_compound. fs_with ihe.
  - rewrite !exec_stmt_S_function.
    match goal with H : _ ++ opt_list _ = _ ++ opt_list _ |- _ => unfold opt_list in H; rewrite H end.
    apply fsim_bind_eq.
    + apply fs_new_closure. apply frel_clos.
      match goal with H : cF _ _ _ _ |- _ => unfold is_some in H; exact H end.
    + intros c. apply fs_sfunction_store.
  - rewrite !exec_stmt_S_genfor. fs_with ihe.
  - rewrite !exec_stmt_S_if. fs_with ltac:(first [apply fs_sif_go; assumption | ihe]).
  - rewrite !exec_stmt_S_local. apply fsim_bind_eq; [ihe|]. intros vs.
    apply fsim_bind_eq; [apply fs_local_go; assumption|]. intros r. fs.
  - rewrite !exec_stmt_S_localfunction. apply fsim_bind_eq; [fs_leaf|]. intros a.
    apply fsim_bind_eq.
    + apply fs_new_closure. now apply frel_clos.
    + intros c. fs.
  - rewrite !exec_stmt_S_numfor.
    match goal with H : param_name _ = param_name _ |- _ => rewrite H end.
    match goal with H : opt_rel _ _ _ |- _ => destruct H end; fs_with ihe.
  - rewrite !exec_stmt_S_repeat. fs_with ihe.
  - rewrite !exec_stmt_S_while. fs_with ihe.
  - rewrite !exec_stmt_S_typedecl. fs.
  - rewrite !exec_stmt_S_typefunction. fs.
Qed.

Lemma step_stmt rho va st st' : cS st st' -> fsim (exec_stmt d (S n) rho va st) (exec_stmt d (S n) rho va st').
Proof.
  intros Hc. destruct Hc as [st st' Hg | st st1 st' Hr Hg].
  - now apply step_stmt_cong.
  - eapply fsim_refines_l; [apply HRs; exact Hr|]. now apply step_stmt_cong.
Qed.

Lemma step_while rho va c c' b b' : cE c c' -> cB b b' ->
  fsim (exec_while d (S n) rho va c b) (exec_while d (S n) rho va c' b').
Proof. intros Hc Hb. rewrite !exec_while_S. fs_with ihe. Qed.

Lemma step_repeat_cong rho va b b' c c' : gB b b' -> cE c c' ->
  fsim (exec_repeat d (S n) rho va b c) (exec_repeat d (S n) rho va b' c').
Proof.
  intros Hb Hc. destruct Hb as [ss ss' last last' Hss Hl]. rewrite !exec_repeat_S. apply fsim_bind_eq.
  - now apply fs_repeat_go.
  - intros [r1 g1]. destruct g1; fs_with ihe.
Qed.

Lemma step_repeat rho va b b' c c' : cB b b' -> cE c c' ->
  fsim (exec_repeat d (S n) rho va b c) (exec_repeat d (S n) rho va b' c').
Proof.
  intros Hb Hc. destruct Hb as [b b' Hg | b b1 b' Hr Hg].
  - now apply step_repeat_cong.
  - eapply fsim_refines_l; [apply HRb_repeat; exact Hr|]. now apply step_repeat_cong.
Qed.

Lemma step_numfor rho va x i stop step b b' : cB b b' ->
  fsim (exec_numfor d (S n) rho va x i stop step b) (exec_numfor d (S n) rho va x i stop step b').
Proof. intros Hb. rewrite !exec_numfor_S. fs_with ihe. Qed.

Lemma step_genfor rho va vars vars' f s ctl b b' : map param_name vars = map param_name vars' -> cB b b' ->
  fsim (exec_genfor d (S n) rho va vars f s ctl b) (exec_genfor d (S n) rho va vars' f s ctl b').
Proof.
  intros Hv Hb. rewrite !exec_genfor_S. apply fsim_bind_eq; [ihe|]. intros vs.
  destruct (first vs); [fs|..];
    (apply fsim_bind_eq; [apply fs_local_go; assumption|]; intros r; fs_with ihe).
Qed.

Lemma sim_all_S : sim_all (S n).
Proof.
  constructor.
  - exact step_call.
  - exact step_index.
  - exact step_setindex.
  - exact step_tostr.
  - exact step_arith.
  - exact step_concat.
  - exact step_equal.
  - exact step_less.
  - exact step_length.
  - exact step_builtin.
  - exact step_eval.
  - exact step_eval1.
  - exact step_eval_list.
  - exact step_eval_args.
  - intros. now apply step_fill.
  - exact step_block.
  - exact step_stmts.
  - exact step_assign_target.
  - exact step_eval_target.
  - exact step_stmt.
  - exact step_while.
  - exact step_repeat.
  - exact step_numfor.
  - exact step_genfor.
Qed.

End Step.

Theorem sim_all_holds n : sim_all n.
Proof. induction n as [|n IHn]; [exact sim_all_0 | exact (sim_all_S n IHn)]. Qed.

End Sim.
