(** Facts about the scoping specification Lua/Resolve.v.

    [nameless_rename_invariant]: for ANY choice of new binder names [pick] (a function of the
    binders in scope - old and new names - and of the old name), if the renaming captures
    nothing ([rename_ok pick b]: at every identifier occurrence the new name resolves among the
    new names in scope to the binder the old name resolved to among the old ones, and free names
    stay free), then the renamed tree has the same nameless form.

    [nameless_idempotent]: nameless (nameless b) = nameless b when no free identifier of b is
    spelled like a canonical name (starts with '%', which no Lua identifier does). *)
From Coq Require Import Arith PeanoNat NArith List Bool Lia.
From DL Require Import Lib.Bytes Lua.Syntax Lua.Resolve Proof.ResolveInd.
Import ListNotations.

(** ---------------------------------------------------------------------------------------
    three environments walking together: the renaming (old, new), the normaliser on the source
    (old, canonical), the normaliser on the renamed tree (new, canonical) *)
Inductive R : renv -> renv -> renv -> Prop :=
| R_nil : R [] [] []
| R_cons : forall o n c env e0 e1, R env e0 e1 -> R ((o, n) :: env) ((o, c) :: e0) ((n, c) :: e1).

Lemma R_length env e0 e1 : R env e0 e1 -> List.length e0 = List.length env /\ List.length e1 = List.length env.
Proof. induction 1; cbn; lia. Qed.

Notation cp := canon_pick.

Lemma cp_len env e0 e1 : R env e0 e1 -> forall a b, cp e1 a = cp e0 b.
Proof. intros H a b. unfold canon_pick. now destruct (R_length _ _ _ H) as [-> ->]. Qed.

Lemma R_bind pick env e0 e1 x :
  R env e0 e1 -> R (bind pick env x) (bind cp e0 x) (bind cp e1 (pick env x)).
Proof.
  intros H. unfold bind, canon_pick. destruct (R_length _ _ _ H) as [-> ->]. now constructor.
Qed.

Lemma R_self env e0 e1 : R env e0 e1 -> R (bind_self env) (bind_self e0) (bind_self e1).
Proof. intros H. unfold bind_self. now constructor. Qed.

(** lookups through positions *)
Definition at_pos (l : list name) (o : option nat) : option name :=
  match o with Some i => Some (nth i l []) | None => None end.

Lemma lookup_pos env x : lookup env x = at_pos (map snd env) (find_fst env x).
Proof.
  induction env as [|[o n] env IH]; [reflexivity|].
  cbn [lookup find_fst map snd]. destruct (bytes_eqb o x); [reflexivity|].
  rewrite IH. destruct (find_fst env x); reflexivity.
Qed.

Lemma lookup_pos0 env e0 e1 x : R env e0 e1 -> lookup e0 x = at_pos (map snd e0) (find_fst env x).
Proof.
  induction 1 as [|o n c env e0 e1 H IH]; [reflexivity|].
  cbn [lookup find_fst map snd]. destruct (bytes_eqb o x); [reflexivity|].
  rewrite IH. destruct (find_fst env x); reflexivity.
Qed.

Lemma lookup_pos1 env e0 e1 y : R env e0 e1 -> lookup e1 y = at_pos (map snd e0) (find_snd env y).
Proof.
  induction 1 as [|o n c env e0 e1 H IH]; [reflexivity|].
  cbn [lookup find_snd map snd]. destruct (bytes_eqb n y); [reflexivity|].
  rewrite IH. destruct (find_snd env y); reflexivity.
Qed.

Lemma find_snd_nth env i :
  (i < List.length env)%nat -> forall j, find_snd env (nth i (map snd env) []) = Some j -> (j <= i)%nat.
Proof.
  revert i. induction env as [|[o n] env IH]; intros i Hi j H; [cbn in Hi; lia|].
  cbn [find_snd map snd] in H. destruct i as [|i].
  - cbn [nth] in H. rewrite (proj2 (bytes_eqb_eq n n) eq_refl) in H. inversion H. lia.
  - cbn [nth] in H. destruct (bytes_eqb n (nth i (map snd env) [])); [inversion H; lia|].
    destruct (find_snd env (nth i (map snd env) [])) as [j'|] eqn:E; [|discriminate].
    cbn in H. inversion H; subst. cbn in Hi. specialize (IH i ltac:(lia) j' E). lia.
Qed.

Lemma opt_nat_eqb_eq a b : opt_nat_eqb a b = true -> a = b.
Proof.
  destruct a, b; cbn; intros H; try discriminate; [|reflexivity].
  apply Nat.eqb_eq in H. now subst.
Qed.

(** the heart: at an occurrence that passes [occ_ok], normalising after renaming is normalising *)
Lemma R_occ env e0 e1 x : R env e0 e1 -> occ_ok env x = true -> occ e1 (occ env x) = occ e0 x.
Proof.
  intros HR H. unfold occ_ok in H. apply opt_nat_eqb_eq in H.
  unfold occ at 1 3. rewrite (lookup_pos1 _ _ _ _ HR), (lookup_pos0 _ _ _ _ HR), H.
  destruct (find_fst env x) as [i|] eqn:E; cbn [at_pos]; [reflexivity|].
  unfold occ. rewrite lookup_pos, E. reflexivity.
Qed.

(** ---------------------------------------------------------------------------------------
    binder groups *)
Fixpoint ren_names (pick : renv -> name -> name) (env : renv) (xs : list name) : list name :=
  match xs with
  | [] => []
  | x :: r => pick env x :: ren_names pick (bind pick env x) r
  end.

Lemma ren_params_names pick fty ps : forall env,
  map param_name (ren_params pick fty env ps) = ren_names pick env (map param_name ps).
Proof.
  induction ps as [|[x t] ps IH]; intros env; [reflexivity|].
  cbn [ren_params map param_name ren_names]. now rewrite IH.
Qed.

Lemma R_bind_all pick xs : forall env e0 e1,
  R env e0 e1 -> R (bind_all pick env xs) (bind_all cp e0 xs) (bind_all cp e1 (ren_names pick env xs)).
Proof.
  induction xs as [|x xs IH]; intros env e0 e1 H; [exact H|].
  cbn [ren_names]. unfold bind_all in *. cbn [fold_left]. apply IH. now apply R_bind.
Qed.

Section Main.
Variable pick : renv -> name -> name.

Ltac fold_ren pk :=
  fold (ren_ty pk) (ren_expr pk) (ren_iseg pk) (ren_ebranch pk) (ren_args pk) (ren_tentry pk)
       (ren_fbody pk) (ren_stmt pk) (ren_sbranch pk) (ren_block pk) (ren_last pk).
Ltac fold_ao pk H :=
  fold (ao_ty pk occ_ok) (ao_expr pk occ_ok) (ao_iseg pk occ_ok) (ao_ebranch pk occ_ok) (ao_args pk occ_ok)
       (ao_tentry pk occ_ok) (ao_fbody pk occ_ok) (ao_stmt pk occ_ok) (ao_sbranch pk occ_ok)
       (ao_block pk occ_ok) (ao_last pk occ_ok) in H.
Ltac fold_ren_in pk H :=
  fold (ren_ty pk) (ren_expr pk) (ren_iseg pk) (ren_ebranch pk) (ren_args pk) (ren_tentry pk)
       (ren_fbody pk) (ren_stmt pk) (ren_sbranch pk) (ren_block pk) (ren_last pk) in H.
Ltac unfren_in H :=
  cbn [ren_ty ren_expr ren_iseg ren_ebranch ren_args ren_tentry ren_fbody ren_stmt ren_sbranch ren_block ren_last] in H;
  fold_ren_in pick H; fold_ren_in canon_pick H.
Ltac unfao_goal :=
  cbn [ao_ty ao_expr ao_iseg ao_ebranch ao_args ao_tentry ao_fbody ao_stmt ao_sbranch ao_block ao_last];
  fold (ao_ty pick occ_ok) (ao_expr pick occ_ok) (ao_iseg pick occ_ok) (ao_ebranch pick occ_ok) (ao_args pick occ_ok)
       (ao_tentry pick occ_ok) (ao_fbody pick occ_ok) (ao_stmt pick occ_ok) (ao_sbranch pick occ_ok)
       (ao_block pick occ_ok) (ao_last pick occ_ok).
Ltac unfren :=
  cbn [ren_ty ren_expr ren_iseg ren_ebranch ren_args ren_tentry ren_fbody ren_stmt ren_sbranch ren_block ren_last];
  fold_ren pick; fold_ren canon_pick.
Ltac unfao H :=
  cbn [ao_ty ao_expr ao_iseg ao_ebranch ao_args ao_tentry ao_fbody ao_stmt ao_sbranch ao_block ao_last] in H;
  fold_ao pick H.


Definition Q {A} (ao : renv -> A -> bool) (f : (renv -> name -> name) -> renv -> A -> A) (a : A) : Prop :=
  forall env e0 e1, R env e0 e1 -> ao env a = true -> f cp e1 (f pick env a) = f cp e0 a.

Definition Pty := Q (ao_ty pick occ_ok) ren_ty.
Definition Pexpr := Q (ao_expr pick occ_ok) ren_expr.
Definition Piseg := Q (ao_iseg pick occ_ok) ren_iseg.
Definition Pebranch := Q (ao_ebranch pick occ_ok) ren_ebranch.
Definition Pargs := Q (ao_args pick occ_ok) ren_args.
Definition Ptentry := Q (ao_tentry pick occ_ok) ren_tentry.
Definition Pfbody (f : fbody) : Prop :=
  forall ws, Q (fun env => ao_fbody pick occ_ok env ws) (fun pk env => ren_fbody pk env ws) f.
Definition Pparam (p : param) : Prop :=
  match p with
  | Param _ t => forall env e0 e1, R env e0 e1 -> optb (ao_ty pick occ_ok env) t = true ->
                   option_map (ren_ty cp e1) (option_map (ren_ty pick env) t) = option_map (ren_ty cp e0) t
  end.
Definition Pstmt := Q (ao_stmt pick occ_ok) ren_stmt.
Definition Psbranch := Q (ao_sbranch pick occ_ok) ren_sbranch.
Definition block_env (pk : renv -> name -> name) (env : renv) (b : block) : renv :=
  match b with Block ss _ => seq_env (stmt_env pk) env ss end.
Definition Pblock (b : block) : Prop :=
  forall env e0 e1, R env e0 e1 -> ao_block pick occ_ok env b = true ->
  ren_block cp e1 (ren_block pick env b) = ren_block cp e0 b
  /\ R (block_env pick env b) (block_env cp e0 b) (block_env cp e1 (ren_block pick env b)).
Definition PblockQ := Q (ao_block pick occ_ok) ren_block.
Definition Plast := Q (ao_last pick occ_ok) ren_last.

Lemma Pblock_Q b : Pblock b -> PblockQ b.
Proof. intros H env e0 e1 HR Ha. now destruct (H _ _ _ HR Ha). Qed.

Lemma OptP_impl {A} (P P' : A -> Prop) o : (forall a, P a -> P' a) -> OptP P o -> OptP P' o.
Proof. intros I H. destruct o; [now apply I | exact H]. Qed.

Lemma map_lift {A} (ao : renv -> A -> bool) (f : (renv -> name -> name) -> renv -> A -> A) l :
  Forall (Q ao f) l -> forall env e0 e1, R env e0 e1 -> forallb (ao env) l = true ->
  map (f cp e1) (map (f pick env) l) = map (f cp e0) l.
Proof.
  intros F env e0 e1 HR. induction F as [|a l Ha F IH]; intros H; [reflexivity|].
  cbn [forallb] in H. apply andb_true_iff in H as [H1 H2]. cbn [map].
  rewrite (Ha _ _ _ HR H1) by assumption. rewrite (IH H2) by assumption. reflexivity.
Qed.

Lemma opt_lift {A} (ao : renv -> A -> bool) (f : (renv -> name -> name) -> renv -> A -> A) o :
  OptP (Q ao f) o -> forall env e0 e1, R env e0 e1 -> optb (ao env) o = true ->
  option_map (f cp e1) (option_map (f pick env) o) = option_map (f cp e0) o.
Proof.
  intros F env e0 e1 HR H. destruct o as [a|]; [|reflexivity].
  cbn in *. now rewrite (F _ _ _ HR H).
Qed.

(** binder groups: names follow the growing environments, annotations the outer ones *)
Lemma params_lift ps : Forall Pparam ps ->
  forall envo e0o e1o, R envo e0o e1o ->
  forall env e0 e1, R env e0 e1 -> ao_params (ao_ty pick occ_ok envo) ps = true ->
  ren_params cp (ren_ty cp e1o) e1 (ren_params pick (ren_ty pick envo) env ps)
  = ren_params cp (ren_ty cp e0o) e0 ps.
Proof.
  intros F envo e0o e1o HRo. induction F as [|[x t] ps Hp F IH]; intros env e0 e1 HR H; [reflexivity|].
  unfold ao_params in H. cbn [forallb] in H. apply andb_true_iff in H as [H1 H2].
  cbn [ren_params]. f_equal.
  - f_equal.
    + unfold canon_pick. destruct (R_length _ _ _ HR) as [-> ->]. reflexivity.
    + apply (Hp _ _ _ HRo H1).
  - apply (IH _ _ _ (R_bind pick _ _ _ x HR) H2).
Qed.

(** statement sequences *)
Lemma stmt_env_R s env e0 e1 :
  R env e0 e1 -> R (stmt_env pick env s) (stmt_env cp e0 s) (stmt_env cp e1 (ren_stmt pick env s)).
Proof.
  intros HR. destruct s; try exact HR.
  - cbn [stmt_env ren_stmt]. rewrite ren_params_names. now apply R_bind_all.
  - cbn [stmt_env ren_stmt]. now apply R_bind.
  - unfren. destruct var. exact HR.
  - unfren. destruct b. exact HR.
Qed.

Lemma seq_lift ss : Forall Pstmt ss -> forall env e0 e1, R env e0 e1 ->
  seq_forallb (stmt_env pick) (ao_stmt pick occ_ok) env ss = true ->
  seq_map (stmt_env cp) (ren_stmt cp) e1 (seq_map (stmt_env pick) (ren_stmt pick) env ss)
  = seq_map (stmt_env cp) (ren_stmt cp) e0 ss
  /\ R (seq_env (stmt_env pick) env ss) (seq_env (stmt_env cp) e0 ss)
       (seq_env (stmt_env cp) e1 (seq_map (stmt_env pick) (ren_stmt pick) env ss)).
Proof.
  intros F. induction F as [|s ss Hs F IH]; intros env e0 e1 HR H; [split; [reflexivity | exact HR]|].
  cbn [seq_forallb] in H. apply andb_true_iff in H as [H1 H2].
  cbn [seq_map]. unfold seq_env. cbn [fold_left].
  destruct (IH _ _ _ (stmt_env_R s _ _ _ HR) H2) as [E HR'].
  split; [|exact HR']. rewrite (Hs _ _ _ HR H1), E. reflexivity.
Qed.


Ltac split_ands :=
  repeat match goal with
         | H : _ && _ = true |- _ => apply andb_true_iff in H; destruct H
         end.

(** the cases of the induction *)
Lemma c_TyNode k subs es : Forall Pty subs -> Forall Pexpr es -> Pty (TyNode k subs es).
Proof.
  intros F1 F2 env e0 e1 HR H. unfao H. split_ands. unfren.
  rewrite (map_lift _ _ _ F1 _ _ _ HR) by assumption. rewrite (map_lift _ _ _ F2 _ _ _ HR) by assumption. reflexivity.
Qed.

Lemma c_leaf e : (forall pk env, ren_expr pk env e = e) -> Pexpr e.
Proof. intros E env e0 e1 _ _. now rewrite !E. Qed.

Lemma c_EInterp segs : Forall Piseg segs -> Pexpr (EInterp segs).
Proof.
  intros F env e0 e1 HR H. unfao H. unfren.
  now rewrite (map_lift _ _ _ F _ _ _ HR).
Qed.

Lemma c_EIdent x : Pexpr (EIdent x).
Proof. intros env e0 e1 HR H. unfao H. unfren. now rewrite (R_occ _ _ _ _ HR H). Qed.

Lemma c_EField p f : Pexpr p -> Pexpr (EField p f).
Proof. intros Hp env e0 e1 HR H. unfao H. unfren. now rewrite (Hp _ _ _ HR H). Qed.

Lemma c_EIndex p k : Pexpr p -> Pexpr k -> Pexpr (EIndex p k).
Proof.
  intros Hp Hk env e0 e1 HR H. unfao H. split_ands. unfren.
  rewrite (Hp _ _ _ HR) by assumption. rewrite (Hk _ _ _ HR) by assumption. reflexivity.
Qed.

Lemma c_ECall p m a : Pexpr p -> Pargs a -> Pexpr (ECall p m a).
Proof.
  intros Hp Ha env e0 e1 HR H. unfao H. split_ands. unfren.
  rewrite (Hp _ _ _ HR) by assumption. rewrite (Ha _ _ _ HR) by assumption. reflexivity.
Qed.

Lemma c_EFunction f : Pfbody f -> Pexpr (EFunction f).
Proof. intros Hf env e0 e1 HR H. unfao H. unfren. now rewrite (Hf false _ _ _ HR H). Qed.

Lemma c_EIf bs els : Forall Pebranch bs -> Pexpr els -> Pexpr (EIf bs els).
Proof.
  intros F He env e0 e1 HR H. unfao H. split_ands. unfren.
  rewrite (map_lift _ _ _ F _ _ _ HR) by assumption. rewrite (He _ _ _ HR) by assumption. reflexivity.
Qed.

Lemma c_EParen e : Pexpr e -> Pexpr (EParen e).
Proof. intros He env e0 e1 HR H. unfao H. unfren. now rewrite (He _ _ _ HR H). Qed.

Lemma c_ETable entries : Forall Ptentry entries -> Pexpr (ETable entries).
Proof.
  intros F env e0 e1 HR H. unfao H. unfren.
  now rewrite (map_lift _ _ _ F _ _ _ HR).
Qed.

Lemma c_EUnary op e : Pexpr e -> Pexpr (EUnary op e).
Proof. intros He env e0 e1 HR H. unfao H. unfren. now rewrite (He _ _ _ HR H). Qed.

Lemma c_EBinary op l r : Pexpr l -> Pexpr r -> Pexpr (EBinary op l r).
Proof.
  intros Hl Hr env e0 e1 HR H. unfao H. split_ands. unfren.
  rewrite (Hl _ _ _ HR) by assumption. rewrite (Hr _ _ _ HR) by assumption. reflexivity.
Qed.

Lemma c_ETypeCast e t : Pexpr e -> Pty t -> Pexpr (ETypeCast e t).
Proof.
  intros He Ht env e0 e1 HR H. unfao H. split_ands. unfren.
  rewrite (He _ _ _ HR) by assumption. rewrite (Ht _ _ _ HR) by assumption. reflexivity.
Qed.

Lemma c_ETypeInst p tys : Pexpr p -> Forall Pty tys -> Pexpr (ETypeInst p tys).
Proof.
  intros Hp F env e0 e1 HR H. unfao H. split_ands. unfren.
  rewrite (Hp _ _ _ HR) by assumption. rewrite (map_lift _ _ _ F _ _ _ HR) by assumption. reflexivity.
Qed.

Lemma c_ISStr s : Piseg (ISStr s).
Proof. intros env e0 e1 _ _. reflexivity. Qed.
Lemma c_ISExpr e : Pexpr e -> Piseg (ISExpr e).
Proof. intros He env e0 e1 HR H. unfao H. unfren. now rewrite (He _ _ _ HR H). Qed.

Lemma c_EBranch c r : Pexpr c -> Pexpr r -> Pebranch (EBranch c r).
Proof.
  intros Hc Hr env e0 e1 HR H. unfao H. split_ands. unfren.
  rewrite (Hc _ _ _ HR) by assumption. rewrite (Hr _ _ _ HR) by assumption. reflexivity.
Qed.

Lemma c_ATuple es : Forall Pexpr es -> Pargs (ATuple es).
Proof.
  intros F env e0 e1 HR H. unfao H. unfren. now rewrite (map_lift _ _ _ F _ _ _ HR).
Qed.
Lemma c_AString s : Pargs (AString s).
Proof. intros env e0 e1 _ _. reflexivity. Qed.
Lemma c_ATable entries : Forall Ptentry entries -> Pargs (ATable entries).
Proof.
  intros F env e0 e1 HR H. unfao H. unfren. now rewrite (map_lift _ _ _ F _ _ _ HR).
Qed.

Lemma c_TField f v : Pexpr v -> Ptentry (TField f v).
Proof. intros Hv env e0 e1 HR H. unfao H. unfren. now rewrite (Hv _ _ _ HR H). Qed.
Lemma c_TIndex k v : Pexpr k -> Pexpr v -> Ptentry (TIndex k v).
Proof.
  intros Hk Hv env e0 e1 HR H. unfao H. split_ands. unfren.
  rewrite (Hk _ _ _ HR) by assumption. rewrite (Hv _ _ _ HR) by assumption. reflexivity.
Qed.
Lemma c_TValue v : Pexpr v -> Ptentry (TValue v).
Proof. intros Hv env e0 e1 HR H. unfao H. unfren. now rewrite (Hv _ _ _ HR H). Qed.

Lemma c_FBody ps va vt rt gen attrs body :
  Forall Pparam ps -> OptP Pty vt -> OptP Pty rt -> OptP Pty gen -> Pblock body ->
  Pfbody (FBody ps va vt rt gen attrs body).
Proof.
  intros Fp Hvt Hrt Hgen Hb ws env e0 e1 HR H. apply Pblock_Q in Hb. unfao H. cbv zeta in H. split_ands.
  unfren. cbv zeta.
  assert (HR0 : R (if ws then bind_self env else env) (if ws then bind_self e0 else e0)
                  (if ws then bind_self e1 else e1)) by (destruct ws; [now apply R_self | exact HR]).
  rewrite (params_lift ps Fp _ _ _ HR _ _ _ HR0) by assumption.
  rewrite (opt_lift _ _ _ Hvt _ _ _ HR) by assumption. rewrite (opt_lift _ _ _ Hrt _ _ _ HR) by assumption. rewrite (opt_lift _ _ _ Hgen _ _ _ HR) by assumption.
  rewrite ren_params_names.
  rewrite (Hb _ _ _ (R_bind_all pick (map param_name ps) _ _ _ HR0)) by assumption.
  reflexivity.
Qed.

Lemma c_Param x t : OptP Pty t -> Pparam (Param x t).
Proof. intros Ht env e0 e1 HR H. now apply (opt_lift _ _ _ Ht). Qed.

Lemma c_SAssign vars vals : Forall Pexpr vars -> Forall Pexpr vals -> Pstmt (SAssign vars vals).
Proof.
  intros F1 F2 env e0 e1 HR H. unfao H. split_ands. unfren.
  rewrite (map_lift _ _ _ F1 _ _ _ HR) by assumption. rewrite (map_lift _ _ _ F2 _ _ _ HR) by assumption. reflexivity.
Qed.
Lemma c_SDo b : Pblock b -> Pstmt (SDo b).
Proof. intros Hb env e0 e1 HR H. apply Pblock_Q in Hb. unfao H. unfren. now rewrite (Hb _ _ _ HR H). Qed.
Lemma c_SCall c : Pexpr c -> Pstmt (SCall c).
Proof. intros Hc env e0 e1 HR H. unfao H. unfren. now rewrite (Hc _ _ _ HR H). Qed.
Lemma c_SCompound op var v : Pexpr var -> Pexpr v -> Pstmt (SCompound op var v).
Proof.
  intros H1 H2 env e0 e1 HR H. unfao H. split_ands. unfren.
  rewrite (H1 _ _ _ HR) by assumption. rewrite (H2 _ _ _ HR) by assumption. reflexivity.
Qed.
Lemma c_SFunction base fields method f : Pfbody f -> Pstmt (SFunction base fields method f).
Proof.
  intros Hf env e0 e1 HR H. unfao H. split_ands. unfren.
  rewrite (R_occ _ _ _ _ HR) by assumption. now rewrite (Hf _ _ _ _ HR).
Qed.
Lemma c_SGenericFor vars es b : Forall Pparam vars -> Forall Pexpr es -> Pblock b -> Pstmt (SGenericFor vars es b).
Proof.
  intros Fp Fe Hb env e0 e1 HR H. apply Pblock_Q in Hb. unfao H. split_ands. unfren.
  rewrite (params_lift vars Fp _ _ _ HR _ _ _ HR) by assumption.
  rewrite (map_lift _ _ _ Fe _ _ _ HR) by assumption.
  rewrite ren_params_names.
  now rewrite (Hb _ _ _ (R_bind_all pick (map param_name vars) _ _ _ HR)).
Qed.
Lemma c_SIf bs els : Forall Psbranch bs -> OptP Pblock els -> Pstmt (SIf bs els).
Proof.
  intros F He env e0 e1 HR H. apply (OptP_impl _ _ _ Pblock_Q) in He. unfao H. split_ands. unfren.
  rewrite (map_lift _ _ _ F _ _ _ HR) by assumption. rewrite (opt_lift _ _ _ He _ _ _ HR) by assumption. reflexivity.
Qed.
Lemma c_SLocal c vars vals : Forall Pparam vars -> Forall Pexpr vals -> Pstmt (SLocal c vars vals).
Proof.
  intros Fp Fe env e0 e1 HR H. unfao H. split_ands. unfren.
  rewrite (params_lift vars Fp _ _ _ HR _ _ _ HR) by assumption.
  now rewrite (map_lift _ _ _ Fe _ _ _ HR).
Qed.
Lemma c_SLocalFunction x f : Pfbody f -> Pstmt (SLocalFunction x f).
Proof.
  intros Hf env e0 e1 HR H. unfao H. unfren.
  rewrite (Hf _ _ _ _ (R_bind pick _ _ _ x HR)) by assumption.
  now rewrite (cp_len _ _ _ HR (pick env x) x).
Qed.
Lemma c_SNumericFor var a b step body :
  Pparam var -> Pexpr a -> Pexpr b -> OptP Pexpr step -> Pblock body -> Pstmt (SNumericFor var a b step body).
Proof.
  intros Hv Ha Hb Hs Hbody env e0 e1 HR H. apply Pblock_Q in Hbody. destruct var as [x t]. unfao H. split_ands. unfren.
  rewrite (Hv _ _ _ HR) by assumption. rewrite (Ha _ _ _ HR) by assumption. rewrite (Hb _ _ _ HR) by assumption. rewrite (opt_lift _ _ _ Hs _ _ _ HR) by assumption.
  rewrite (Hbody _ _ _ (R_bind pick _ _ _ x HR)) by assumption.
  now rewrite (cp_len _ _ _ HR (pick env x) x).
Qed.

Lemma block_lift ss last : Forall Pstmt ss -> OptP Plast last ->
  forall env e0 e1, R env e0 e1 ->
  seq_forallb (stmt_env pick) (ao_stmt pick occ_ok) env ss = true ->
  optb (ao_last pick occ_ok (seq_env (stmt_env pick) env ss)) last = true ->
  ren_block cp e1 (ren_block pick env (Block ss last)) = ren_block cp e0 (Block ss last)
  /\ R (seq_env (stmt_env pick) env ss) (seq_env (stmt_env cp) e0 ss)
       (seq_env (stmt_env cp) e1 (seq_map (stmt_env pick) (ren_stmt pick) env ss)).
Proof.
  intros F Hl env e0 e1 HR H1 H2. destruct (seq_lift ss F _ _ _ HR H1) as [E HR'].
  split; [|exact HR']. unfren. rewrite E.
  now rewrite (opt_lift _ _ _ Hl _ _ _ HR').
Qed.

Lemma c_Block ss last : Forall Pstmt ss -> OptP Plast last -> Pblock (Block ss last).
Proof.
  intros F Hl env e0 e1 HR H. unfao H. split_ands.
  now apply (block_lift ss last F Hl _ _ _ HR).
Qed.

Lemma c_SRepeat b c : Pblock b -> Pexpr c -> Pstmt (SRepeat b c).
Proof.
  intros Hb Hc env e0 e1 HR H. destruct b as [ss last]. unfao H. split_ands.
  assert (Ha : ao_block pick occ_ok env (Block ss last) = true).
  { unfao_goal. apply andb_true_iff. split; assumption. }
  destruct (Hb _ _ _ HR Ha) as [E HR']. cbn [block_env] in HR'. unfren_in HR'. cbn [block_env] in HR'.
  unfren_in E. injection E as E1 E2.
  unfren. rewrite E1, E2. now rewrite (Hc _ _ _ HR').
Qed.

Lemma c_SWhile c b : Pexpr c -> Pblock b -> Pstmt (SWhile c b).
Proof.
  intros Hc Hb env e0 e1 HR H. apply Pblock_Q in Hb. unfao H. split_ands. unfren.
  rewrite (Hc _ _ _ HR) by assumption. rewrite (Hb _ _ _ HR) by assumption. reflexivity.
Qed.
Lemma c_STypeDecl ex x gen t : OptP Pty gen -> Pty t -> Pstmt (STypeDecl ex x gen t).
Proof.
  intros Hg Ht env e0 e1 HR H. unfao H. split_ands. unfren.
  rewrite (opt_lift _ _ _ Hg _ _ _ HR) by assumption. rewrite (Ht _ _ _ HR) by assumption. reflexivity.
Qed.
Lemma c_STypeFunction ex x f : Pfbody f -> Pstmt (STypeFunction ex x f).
Proof. intros Hf env e0 e1 HR H. unfao H. unfren. now rewrite (Hf _ _ _ _ HR). Qed.

Lemma c_SBranch c b : Pexpr c -> Pblock b -> Psbranch (SBranch c b).
Proof.
  intros Hc Hb env e0 e1 HR H. apply Pblock_Q in Hb. unfao H. split_ands. unfren.
  rewrite (Hc _ _ _ HR) by assumption. rewrite (Hb _ _ _ HR) by assumption. reflexivity.
Qed.

Lemma c_LBreak : Plast LBreak.
Proof. intros env e0 e1 _ _. reflexivity. Qed.
Lemma c_LContinue : Plast LContinue.
Proof. intros env e0 e1 _ _. reflexivity. Qed.
Lemma c_LReturn es : Forall Pexpr es -> Plast (LReturn es).
Proof.
  intros F env e0 e1 HR H. unfao H. unfren. now rewrite (map_lift _ _ _ F _ _ _ HR).
Qed.
End Main.

Definition main_block (pick : renv -> name -> name) : forall b, Pblock pick b :=
  ind_block (Pty pick) (Pexpr pick) (Piseg pick) (Pebranch pick) (Pargs pick) (Ptentry pick) (Pfbody pick)
    (Pparam pick) (Pstmt pick) (Psbranch pick) (Pblock pick) (Plast pick)
    (c_TyNode pick)
    (c_leaf pick ENil (fun _ _ => eq_refl)) (c_leaf pick ETrue (fun _ _ => eq_refl))
    (c_leaf pick EFalse (fun _ _ => eq_refl)) (fun n => c_leaf pick (ENumber n) (fun _ _ => eq_refl))
    (fun s => c_leaf pick (EString s) (fun _ _ => eq_refl)) (c_EInterp pick)
    (c_leaf pick EVarArgs (fun _ _ => eq_refl)) (c_EIdent pick) (c_EField pick) (c_EIndex pick) (c_ECall pick)
    (c_EFunction pick) (c_EIf pick) (c_EParen pick) (c_ETable pick) (c_EUnary pick) (c_EBinary pick)
    (c_ETypeCast pick) (c_ETypeInst pick)
    (c_ISStr pick) (c_ISExpr pick) (c_EBranch pick)
    (c_ATuple pick) (c_AString pick) (c_ATable pick)
    (c_TField pick) (c_TIndex pick) (c_TValue pick)
    (c_FBody pick) (c_Param pick)
    (c_SAssign pick) (c_SDo pick) (c_SCall pick) (c_SCompound pick) (c_SFunction pick) (c_SGenericFor pick)
    (c_SIf pick) (c_SLocal pick) (c_SLocalFunction pick) (c_SNumericFor pick) (c_SRepeat pick) (c_SWhile pick)
    (c_STypeDecl pick) (c_STypeFunction pick)
    (c_SBranch pick) (c_Block pick)
    (c_LBreak pick) (c_LContinue pick) (c_LReturn pick).

(** Renaming the binders of a program in ANY capture-free way does not change its nameless form. *)
Theorem nameless_rename_invariant : forall (pick : renv -> name -> name) (b : block),
  rename_ok pick b = true -> nameless (ren_block pick [] b) = nameless b.
Proof.
  intros pick b H. destruct (main_block pick b [] [] [] R_nil H) as [E _]. exact E.
Qed.
