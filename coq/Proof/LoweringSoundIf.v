(** C06, remove_if_expression: the and/or form.  [if c then r else e] becomes [c and r or e]
    when darklua's evaluator knows [r] to be truthy; sound because the evaluator is
    ([evaluate_sound], C08). *)
From Coq Require Import ZArith NArith List Bool String Lia.
From DL Require Import Lib.Bytes Lib.F64 Lua.Syntax Lua.Sem Model.Evaluator Lua.EvalSpec Lua.EvalSpec2
  Proof.SemFacts Proof.EvaluatorStore Proof.EvaluatorSound Proof.LoweringFuel Proof.LoweringFuelUp Proof.LoweringSoundBasic
  Model.Visit Model.Lowering.
Import ListNotations.
Open Scope N_scope.
Local Notation llen := List.length.

(** evaluating [c] leaves the globals table without metatable and the string metatable
    pristine (what [evaluate_sound] asks of the store in which the branch result is then
    evaluated) *)
Definition preserves_plain (d : dialect) (rho : env) (va : list value) (c : expr) : Prop :=
  forall n s v s1, env_plain s -> eval1 d n rho va c s = Ok v s1 -> env_plain s1.

(** satisfiable: any condition the evaluator finds free of side effects *)
Lemma pure_preserves_plain d rho va c :
  has_side_effects false c = false -> deep_safe d c = true -> preserves_plain d rho va c.
Proof.
  intros Hp Hd n s v s1 He H. destruct n; [discriminate H|]. rewrite eval1_S in H.
  apply bind_ok in H as (vs & s2 & Hv & H). apply ret_ok in H as [-> ->].
  eapply env_plain_extends; [|exact He]. eapply pure_sound; eauto.
Qed.

Lemma truthy_of_matches s l v : is_truthy l = Some true -> lv_matches s l v -> truthy v = true.
Proof.
  destruct l; cbn [is_truthy]; intros E; try discriminate E; destruct v; cbn [lv_matches truthy];
    try contradiction; try reflexivity; destruct b; try contradiction; reflexivity.
Qed.

Lemma eval1_truthy d n rho va r s v s' :
  is_truthy (evaluate r) = Some true -> deep_safe d r = true -> ctor_pure d r = true -> env_plain s ->
  eval1 d n rho va r s = Ok v s' -> truthy v = true.
Proof.
  intros Ht Hd Hc He H. destruct n; [discriminate H|]. rewrite eval1_S in H.
  apply bind_ok in H as (vs & s2 & Hv & H). apply ret_ok in H as [-> ->].
  eapply truthy_of_matches; [exact Ht|]. eapply evaluate_sound; eauto.
Qed.

(** one branch, value position: [c and r or e] computes what [if c then r else e] computes,
    given enough fuel *)
Lemma andor_step d rho va c r e n s v s' m :
  is_truthy (evaluate r) = Some true -> deep_safe d r = true -> ctor_pure d r = true ->
  env_plain s -> preserves_plain d rho va c ->
  (cv <- eval1 d n rho va c ;; if truthy cv then eval1 d n rho va r else eval1 d m rho va e) s = Ok v s' ->
  forall k, (n <= k)%nat -> (m <= k)%nat ->
  eval1 d (S (S (S (S k)))) rho va (EBinary BOr (EBinary BAnd c r) e) s = Ok v s'.
Proof.
  intros Ht Hd Hc He Hp H k Hn Hm. apply bind_ok in H as (cv & s0 & Hcv & H).
  rewrite eval1_or_S. unfold bind at 1. rewrite eval1_and_S. unfold bind at 1.
  rewrite (eval1_up _ _ _ _ _ _ _ _ k Hcv) by lia.
  pose proof (Hp _ _ _ _ He Hcv) as He1.
  destruct (truthy cv) eqn:Ta.
  - pose proof (eval1_truthy _ _ _ _ _ _ _ _ Ht Hd Hc He1 H) as Tv.
    rewrite (eval1_up _ _ _ _ _ _ _ _ k H) by lia. rewrite Tv. reflexivity.
  - cbn [ret]. rewrite Ta.
    apply (eval1_up _ _ _ _ _ _ _ _ (S (S k)) H); lia.
Qed.

Theorem ifexpr_andor_sound : forall d n rho va c r els s vs s',
  is_truthy (evaluate r) = Some true -> deep_safe d r = true -> ctor_pure d r = true ->
  env_plain s -> preserves_plain d rho va c ->
  eval d n rho va (EIf [EBranch c r] els) s = Ok vs s' ->
  exists n', eval d n' rho va (EBinary BOr (EBinary BAnd c r) els) s = Ok vs s'.
Proof.
  intros d n rho va c r els s vs s' Ht Hd Hc He Hp H.
  destruct n as [|n]; [discriminate H|]. rewrite eval_S_if, if_go_cons in H.
  assert (exists v, vs = [v] /\
          (cv <- eval1 d n rho va c ;; if truthy cv then eval1 d n rho va r else eval1 d n rho va els) s = Ok v s')
    as (v & -> & H').
  { apply bind_ok in H as (cv & s0 & Hcv & H). unfold bind. rewrite Hcv. destruct (truthy cv).
    - apply bind_ok in H as (x & s1 & Hx & H). apply ret_ok in H as [-> ->]. exists x. split; [reflexivity|exact Hx].
    - rewrite if_go_nil in H. apply bind_ok in H as (x & s1 & Hx & H). apply ret_ok in H as [-> ->].
      exists x. split; [reflexivity|exact Hx]. }
  exists (S (S (S n))). apply eval_or_of_eval1.
  eapply (andor_step d rho va c r els n s v s' n); eauto.
Qed.

(** * Several branches: the fold of the rule, every result known truthy *)
Definition andor_chain (bs : list ebranch) (els : expr) : expr :=
  fold_right (fun b acc => match b with EBranch c r => EBinary BOr (EBinary BAnd c r) acc end) els bs.

Definition branch_ok (d : dialect) (rho : env) (va : list value) (b : ebranch) : Prop :=
  match b with
  | EBranch c r =>
    is_truthy (evaluate r) = Some true /\ deep_safe d r = true /\ ctor_pure d r = true /\
    preserves_plain d rho va c
  end.

(** that is what the rule produces then *)
Lemma rw_if_andor d rho va bs els : bs <> [] -> Forall (branch_ok d rho va) bs ->
  rw_if_expression (EIf bs els) = andor_chain bs els.
Proof.
  intros Hne F. unfold rw_if_expression. destruct bs as [|b bs]; [contradiction|]. clear Hne.
  revert F. generalize (b :: bs). clear b bs. intros l F. induction F as [|[c r] l (Ht & _) F IH]; [reflexivity|].
  cbn [fold_right andor_chain]. fold (andor_chain l els). rewrite IH. unfold convert_if_branch. rewrite Ht. reflexivity.
Qed.

Lemma andor_chain_fold d rho va els : forall bs, Forall (branch_ok d rho va) bs ->
  forall n s v s', env_plain s ->
  (vs <- if_go d n rho va els bs ;; ret (first vs)) s = Ok v s' ->
  exists n', forall k, (n' <= k)%nat -> eval1 d k rho va (andor_chain bs els) s = Ok v s'.
Proof.
  induction 1 as [|[c r] bs (Ht & Hd & Hc & Hp) F IH]; intros n s v s' He H.
  - rewrite if_go_nil in H. apply bind_ok in H as (vs & s1 & Hv & H). apply ret_ok in H as [-> ->].
    apply bind_ok in Hv as (x & s2 & Hx & Hv). apply ret_ok in Hv as [-> ->]. cbn [first andor_chain fold_right].
    exists n. intros k Hk. eapply eval1_mono; eauto.
  - rewrite if_go_cons in H. cbn [andor_chain fold_right]. fold (andor_chain bs els).
    apply bind_ok in H as (vs & s1 & Hv & H). apply ret_ok in H as [-> ->].
    apply bind_ok in Hv as (cv & s0 & Hcv & Hv). pose proof (Hp _ _ _ _ He Hcv) as He1.
    destruct (truthy cv) eqn:Ta.
    + apply bind_ok in Hv as (x & s2 & Hx & Hv). apply ret_ok in Hv as [-> ->]. cbn [first].
      exists (S (S (S (S n)))). intros k Hk.
      assert (exists k0, k = S (S (S (S k0))) /\ (n <= k0)%nat) as (k0 & -> & Hk0)
        by (exists (k - 4)%nat; split; lia).
      eapply (andor_step d rho va c r (andor_chain bs els) n s x s2 0); eauto; [|lia].
      unfold bind. rewrite Hcv, Ta. exact Hx.
    + assert ((vs0 <- if_go d n rho va els bs ;; ret (first vs0)) s0 = Ok (first vs) s1) as H'.
      { unfold bind. rewrite Hv. reflexivity. }
      destruct (IH _ _ _ _ He1 H') as (n' & Hn').
      exists (S (S (S (S (n + n'))))). intros k Hk.
      assert (exists k0, k = S (S (S (S k0))) /\ (n + n' <= k0)%nat) as (k0 & -> & Hk0)
        by (exists (k - 4)%nat; split; lia).
      eapply (andor_step d rho va c r (andor_chain bs els) n s (first vs) s1 n'); eauto; try lia.
      unfold bind. rewrite Hcv, Ta. apply Hn'. lia.
Qed.

Theorem ifexpr_andor_fold_sound : forall d n rho va bs els s vs s',
  bs <> [] -> Forall (branch_ok d rho va) bs -> env_plain s ->
  eval d n rho va (EIf bs els) s = Ok vs s' ->
  exists n', eval d n' rho va (rw_if_expression (EIf bs els)) s = Ok vs s'.
Proof.
  intros d n rho va bs els s vs s' Hne F He H. rewrite (rw_if_andor d rho va) by assumption.
  destruct n as [|n]; [discriminate H|]. rewrite eval_S_if in H.
  assert (llen vs = 1%nat) as L by (eapply if_go_single; exact H).
  destruct vs as [|v [|? ?]]; try discriminate L.
  destruct (andor_chain_fold d rho va els bs F n s v s' He) as (n' & Hn').
  { unfold bind. rewrite H. reflexivity. }
  destruct bs as [|[c r] bs]; [contradiction|]. cbn [andor_chain fold_right] in *.
  exists n'. apply eval_or_of_eval1. apply Hn'. lia.
Qed.

(** the hypotheses are satisfiable: two branches with string / table results, the first
    condition calls an external function *)
Example ifexpr_andor_example :
  let c1 := ECall (EIdent (of_string "ext_p")) None (ATuple []) in
  let bs := [EBranch c1 (EString [97]); EBranch (EIdent (of_string "q")) (ETable [])] in
  Forall (fun b => match b with EBranch c r =>
            is_truthy (evaluate r) = Some true /\ deep_safe Luau r = true /\ ctor_pure Luau r = true end) bs /\
  env_plain (initial_store [[OBool false]]) /\
  rw_if_expression (EIf bs ENil) =
    EBinary BOr (EBinary BAnd c1 (EString [97]))
      (EBinary BOr (EBinary BAnd (EIdent (of_string "q")) (ETable [])) ENil) /\
  exists s', eval Luau 20 [] [] (EIf bs ENil) (initial_store [[OBool false]]) = Ok [VNil] s' /\
             eval Luau 20 [] [] (rw_if_expression (EIf bs ENil)) (initial_store [[OBool false]]) = Ok [VNil] s'.
Proof.
  cbv zeta. split; [repeat constructor|]. split.
  - split; eexists; split; reflexivity.
  - split; [reflexivity|]. vm_compute. eexists. split; reflexivity.
Qed.
