(** Facts about the reference lexer ([Model/Lexer.v]) used by the no-fusion proof. *)
From DL Require Import Lib.Bytes Model.Lexer.
Open Scope N_scope.

(** the lexer is a fold: running over a concatenation is running over the parts in turn *)
Lemma run_app : forall x y k,
  run k (x ++ y) =
  let '(o1, k1) := run k x in
  let '(o2, k2) := run k1 y in
  (o1 ++ o2, k2).
Proof.
  induction x as [|c x IH]; intros y k; cbn [run app].
  - destruct (run k y) as [o2 k2]. reflexivity.
  - destruct (step k c) as [o k'].
    rewrite IH.
    destruct (run k' x) as [o1 k1].
    destruct (run k1 y) as [o2 k2].
    rewrite app_assoc. reflexivity.
Qed.

Lemma run_app_eq : forall x y z k,
  run k x = run k y -> run k (x ++ z) = run k (y ++ z).
Proof. intros x y z k H. rewrite !run_app, H. reflexivity. Qed.

Lemma run_one : forall k c, run k [c] = step k c.
Proof.
  intros k c. cbn [run]. destruct (step k c) as [o k']. rewrite app_nil_r. reflexivity.
Qed.

Definition ws (c : N) : Prop := c = 32 \/ c = 10.

Lemma is_ws_ws c : ws c -> is_ws c = true.
Proof. intros [->| ->]; reflexivity. Qed.

(** white space at a token boundary does nothing *)
Lemma step_start_ws stk c : ws c -> step (stk, LStart) c = ([], (stk, LStart)).
Proof. intros H. cbn [step]. unfold start. rewrite (is_ws_ws c H). reflexivity. Qed.

(** white space ends the pending token of a clean state *)
Lemma step_clean_ws stk st c :
  clean st = true -> ws c -> step (stk, st) c = (flush st, (stk, LStart)).
Proof.
  intros Hc Hw.
  destruct st as [|racc|ph racc|p|n|q esc racc|n cl racc|esc racc|racc|n racc|racc|n cl racc|];
    try discriminate Hc.
  - rewrite step_start_ws by assumption. reflexivity.
  - destruct Hw as [->| ->]; reflexivity.
  - destruct Hw as [->| ->]; destruct ph; reflexivity.
  - destruct Hw as [->| ->]; destruct p; try discriminate Hc; reflexivity.
Qed.

(** a byte that cannot extend the pending token: the token is emitted and the byte starts
    what follows *)
Lemma step_no_extend stk st c :
  clean st = true -> st <> LStart -> extends st c = false ->
  step (stk, st) c = (flush st ++ fst (step (stk, LStart) c), snd (step (stk, LStart) c)).
Proof.
  intros Hc Hs He.
  destruct st as [|racc|ph racc|p|n|q esc racc|n cl racc|esc racc|racc|n racc|racc|n cl racc|];
    try discriminate Hc; try congruence.
  - cbn [step step_st]. cbn [extends step_st] in He.
    destruct (is_ident_char c); [discriminate He|].
    unfold restart. cbn [step]. destruct (start stk c) as [o k]. reflexivity.
  - cbn [step step_st]. cbn [extends step_st] in He.
    destruct (num_next ph c); [discriminate He|].
    unfold restart. cbn [step]. destruct (start stk c) as [o k]. reflexivity.
  - cbn [step step_st]. cbn [extends step_st] in He.
    destruct (sym_next p c); [discriminate He|].
    unfold restart. cbn [step]. destruct (start stk c) as [o k]. reflexivity.
Qed.

(** feeding a space to a state that is not clean leaves it not clean *)
Lemma unclean_space stk st :
  clean st = false -> clean (snd (snd (step (stk, st) 32))) = false.
Proof.
  intros Hc.
  destruct st as [|racc|ph racc|p|n|q esc racc|n cl racc|esc racc|racc|n racc|racc|n cl racc|];
    try discriminate Hc.
  - destruct p; try discriminate Hc. reflexivity.
  - reflexivity.
  - cbn [step step_st]. destruct esc; [reflexivity|].
    destruct q; reflexivity.
  - cbn [step step_st close_next]. reflexivity.
  - destruct esc; reflexivity.
  - reflexivity.
  - reflexivity.
  - reflexivity.
  - cbn [step step_st close_next]. reflexivity.
  - reflexivity.
Qed.
