(** Basic facts about the reference lexer ([Model/Lexer.v]). *)
From DL Require Import Lib.Bytes Model.Lexer.
Open Scope N_scope.

(** the lexer is a fold: running over a concatenation is running over the parts in turn *)
Lemma run_app : forall x y st,
  run st (x ++ y) =
  let '(o1, s1) := run st x in
  let '(o2, s2) := run s1 y in
  (o1 ++ o2, s2).
Proof.
  induction x as [|c x IH]; intros y st; cbn [run app].
  - destruct (run st y) as [o2 s2]. reflexivity.
  - destruct (step st c) as [o st'].
    rewrite IH.
    destruct (run st' x) as [o1 s1].
    destruct (run s1 y) as [o2 s2].
    rewrite app_assoc. reflexivity.
Qed.
