(** C20 — sanity facts about the glob model (Model/FiltersGlob.v). *)
From Coq Require Import List Bool String Ascii NArith.
From DL Require Import Model.FiltersGlob.
Import ListNotations.
Open Scope string_scope.
Open Scope list_scope.

Lemma tree_unfold rest ps :
  match_comps (CTree :: rest) ps =
  (match_comps rest ps || match ps with [] => false | _ :: ps' => match_comps (CTree :: rest) ps' end)%bool.
Proof. destruct ps; reflexivity. Qed.

(** a `**/` prefix lets the rest of the pattern match at any depth, whatever the number of components the
    rest has: in particular `**/sub/a.lua` matches every path ending in `sub/a.lua` *)
Lemma tree_prefix g : forall pre ps, match_comps g ps = true -> match_comps (CTree :: g) (pre ++ ps) = true.
Proof.
  induction pre as [|p pre IH]; intros ps H; rewrite tree_unfold.
  - cbn [app]. rewrite H. reflexivity.
  - cbn [app]. rewrite (IH ps H). apply orb_true_r.
Qed.

(** and nothing else: a path matches `**/g` only if some suffix of it matches g *)
Lemma tree_prefix_inv g : forall ps, match_comps (CTree :: g) ps = true ->
  exists pre suf, ps = pre ++ suf /\ match_comps g suf = true.
Proof.
  induction ps as [|p ps IH]; rewrite tree_unfold; intros H.
  - rewrite orb_false_r in H. exists [], []. split; [reflexivity|exact H].
  - apply orb_true_iff in H. destruct H as [H|H].
    + exists [], (p :: ps). split; [reflexivity|exact H].
    + destruct (IH H) as [pre [suf [-> Hs]]]. exists (p :: pre), suf. split; [reflexivity|exact Hs].
Qed.

(** literal components match exactly themselves *)
Lemma match_atoms_lits : forall cs cs', match_atoms (map AChar cs) cs' = true <-> cs = cs'.
Proof.
  induction cs as [|c cs IH]; intros cs'; cbn [map match_atoms].
  - destruct cs'; cbn; split; intros H; congruence.
  - destruct cs' as [|c' cs']; [split; intros H; discriminate|]. cbn [atom_char].
    rewrite andb_true_iff, IH, Ascii.eqb_eq. split; [intros [-> ->]; reflexivity|intros [= -> ->]; auto].
Qed.

Definition g_sub_a : glob := [CTree; CComp (lit "sub"); CComp (lit "a.lua")].    (* **/sub/a.lua *)

Example ex_multi_component_after_tree :
  glob_match g_sub_a "sub/a.lua" = true /\ glob_match g_sub_a "src/sub/a.lua" = true /\
  glob_match g_sub_a "src/x/sub/a.lua" = true /\ glob_match g_sub_a "a.lua" = false /\
  glob_match g_sub_a "src/sub/b.lua" = false /\ glob_match g_sub_a "src/sub/a.lua/x" = false.
Proof. vm_compute. repeat split. Qed.

Example ex_features :
  glob_match [CComp (lit "src"); CTree; CComp (lit "deep"); CComp (lit "c.lua")] "src/deep/c.lua" = true /\
  glob_match [CComp (lit "src"); CTree; CComp (lit "deep"); CComp (lit "c.lua")] "src/x/y/deep/c.lua" = true /\
  glob_match [CTree; CComp (lit "sub"); CComp (FAtom AStar :: lit ".lua")] "src/sub/b.lua" = true /\
  glob_match [CTree; CComp (lit "sub"); CComp (FAtom AStar :: lit ".lua")] "src/sub/deep/c.lua" = false /\
  glob_match [CComp (lit "src"); CComp [FAtom (AClass true [one "a"%char]); FAtom AStar]] "src/b.lua" = true /\
  glob_match [CComp (lit "src"); CComp [FAtom (AClass true [one "a"%char]); FAtom AStar]] "src/ab.lua" = false /\
  glob_match [CComp (lit "src"); CComp (FAlt [lits "a"; lits "b"] :: lit ".lua")] "src/b.lua" = true /\
  glob_match [CComp (lit "src"); CTree] "src" = true /\ glob_match [CTree] "" = true.
Proof. vm_compute. repeat split. Qed.
