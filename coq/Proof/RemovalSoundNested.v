(** C17: two places where the rules as they are (and hence their models) do NOT behave like the
    reference program (the input run with [assert] bound to [function(...) return ... end],
    [debug.profilebegin] / [profileend] bound to [function() end]).  Witnesses by computation on
    the MODEL of the rule (Model/Removal.v), which the correspondence stream of vlib/c17.py ties
    to the Rust code on every run; both were replayed on darklua itself. *)
From Coq Require Import ZArith NArith List Bool String.
From DL Require Import Lib.Bytes Lib.F64 Lua.Syntax Lua.Sem Lua.RunCheck Lua.Fingerprint.
From DL Require Import Model.Removal.
Import ListNotations.
Open Scope N_scope.

Definition identity_fn : expr :=
  EFunction (FBody [] true None None None 0 (Block [] (Some (LReturn [EVarArgs])))).
Definition noop_fn : expr := EFunction (FBody [] false None None None 0 (Block [] None)).

(** the modified environment of the reference run *)
Definition with_identity_assert (b : block) : block :=
  match b with Block ss last => Block (SAssign [EIdent nm_assert] [identity_fn] :: ss) last end.
Definition with_noop_profiling (b : block) : block :=
  match b with
  | Block ss last =>
    Block (SAssign [EField (EIdent nm_debug) nm_profilebegin] [noop_fn]
           :: SAssign [EField (EIdent nm_debug) nm_profileend] [noop_fn] :: ss) last
  end.

Definition call_assert (es : list expr) : expr := ECall (EIdent nm_assert) None (ATuple es).

(** * a removed call that directly becomes the node survives *)

(** [assert(assert(false))]: the visitor hands a node to [process_statement] once; the statement
    the hook leaves, [assert(false)], is not processed again *)
Definition nested_assert : block := Block [SCall (call_assert [call_assert [EFalse]])] None.

Theorem assert_nested_refuted :
  rule_remove_assertions true nested_assert = Block [SCall (call_assert [EFalse])] None /\
  run_chunk L51 40 [] (with_identity_assert nested_assert) = OutOk [] [] /\
  run_chunk L51 40 [] (rule_remove_assertions true nested_assert) = OutErr [].
Proof. split; [vm_compute; reflexivity|]. split; vm_compute; reflexivity. Qed.

(** same in value position: [local x = assert(assert(false)) return x] *)
Definition nested_assert_value : block :=
  Block [SLocal false [Param (of_string "x") None] [call_assert [call_assert [EFalse]]]]
        (Some (LReturn [EIdent (of_string "x")])).

Theorem assert_nested_value_refuted :
  run_chunk L51 40 [] (with_identity_assert nested_assert_value) = OutOk [] [RBool false] /\
  run_chunk L51 40 [] (rule_remove_assertions true nested_assert_value) = OutErr [].
Proof. split; vm_compute; reflexivity. Qed.

(** * multi-value tail position *)

Definition call_profileend : expr := ECall (EField (EIdent nm_debug) nm_profileend) None (ATuple []).
Definition count_values (e : expr) : block :=
  Block [] (Some (LReturn [ECall (EIdent nm_select) None (ATuple [EString [35]; e])])).

(** [return select('#', debug.profileend())]: no value vs one [nil] *)
Theorem profile_tail_refuted :
  run_chunk L51 40 [] (with_noop_profiling (count_values call_profileend)) = OutOk [] [RNum (to_bits (of_Z 0))] /\
  run_chunk L51 40 [] (rule_remove_debug_profiling true (count_values call_profileend)) = OutOk [] [RNum (to_bits (of_Z 1))].
Proof. split; vm_compute; reflexivity. Qed.

(** [return select('#', assert())] *)
Theorem assert_tail_refuted :
  run_chunk L51 40 [] (with_identity_assert (count_values (call_assert []))) = OutOk [] [RNum (to_bits (of_Z 0))] /\
  run_chunk L51 40 [] (rule_remove_assertions true (count_values (call_assert []))) = OutOk [] [RNum (to_bits (of_Z 1))].
Proof. split; vm_compute; reflexivity. Qed.

(** the witnesses fall in the classes the check uses for attribution (Model/RemovalKnown.v) *)
From DL Require Import Model.RemovalKnown.
Example nested_witnesses_classified :
  k_nested nested_assert = true /\ k_nested nested_assert_value = true /\
  k_tail (count_values call_profileend) = true /\ k_tail (count_values (call_assert [])) = true /\
  known_class (Block [SCall (call_assert [EIdent (of_string "x")])] None) = 0.
Proof. repeat split; vm_compute; reflexivity. Qed.
