(** The other eight lowering rules keep a tree in the domain of remove_continue: if no
    [continue] is stray (Model/RemoveContinue.v: [stray_*] = 0), none is after the rule.

    1. children maps ([Model/Visit.v]) with zero-preserving visitors preserve [stray = 0];
    2. [visit_zero]: for hooks that preserve [stray = 0] at the node they rewrite, the whole
       traversal does, at EVERY fuel (no sufficiency needed: with no fuel left a node is
       returned unchanged);
    3. each of the eight processors' hooks preserves it. *)
From Coq Require Import ZArith NArith List Bool Lia ZifyBool ZifyN ZifyNat.
From DL Require Import Lib.Bytes Lua.Syntax Lua.Census Model.Evaluator Model.Visit Model.Lowering Model.RemoveContinue
  Proof.LoweringCensusBase Proof.LoweringCensusKids Proof.LoweringCensusVisit Proof.LoweringCensusAll
  Proof.RemoveContinue.
Import ListNotations.
Local Open Scope nat_scope.

(** * Zero sums *)

Lemma sumN_map_map_zero {A} (F : A -> N) (g : A -> A) l :
  (forall x, In x l -> F x = 0%N -> F (g x) = 0%N) -> sumN (map F l) = 0%N -> sumN (map F (map g l)) = 0%N.
Proof.
  intros H Z. apply sumN_map_zero. intros y Hy. apply in_map_iff in Hy as (x & <- & Hx).
  apply H; [exact Hx|]. exact (sumN_map_zero_inv F l Z x Hx).
Qed.

Lemma optN_map_zero {A} (F : A -> N) (g : A -> A) o :
  (forall x, F x = 0%N -> F (g x) = 0%N) -> optN F o = 0%N -> optN F (option_map g o) = 0%N.
Proof. destruct o; cbn [optN option_map]; auto. Qed.

Ltac zhyp :=
  repeat match goal with
  | H : (_ + _ = 0)%N |- _ => apply N.eq_add_0 in H; destruct H
  end.
Ltac zgoal := repeat match goal with |- (_ + _ = 0)%N => apply N.eq_add_0; split end.

(** * One level *)
Section Children.
Variable V : vis.
Hypothesis He : forall e, stray_expr e = 0%N -> stray_expr (ve V e) = 0%N.
Hypothesis Hp : forall e, stray_expr e = 0%N -> stray_expr (vp V e) = 0%N.
Hypothesis Hv : forall e, stray_expr e = 0%N -> stray_expr (vv V e) = 0%N.
Hypothesis Hc : forall e, stray_expr e = 0%N -> stray_expr (vc V e) = 0%N.
Hypothesis Hr : forall e, stray_expr e = 0%N -> stray_expr (vr V e) = 0%N.
Hypothesis Hb : forall inl b, stray_block inl b = 0%N -> stray_block inl (vb V b) = 0%N.
Hypothesis Ht : forall t, stray_ty t = 0%N -> stray_ty (vt V t) = 0%N.

Ltac leaf :=
  match goal with
  | |- stray_expr (ve V _) = 0%N => apply He; assumption
  | |- stray_expr (vp V _) = 0%N => apply Hp; assumption
  | |- stray_expr (vv V _) = 0%N => apply Hv; assumption
  | |- stray_expr (vc V _) = 0%N => apply Hc; assumption
  | |- stray_expr (vr V _) = 0%N => apply Hr; assumption
  | |- stray_block _ (vb V _) = 0%N => apply Hb; assumption
  | |- stray_ty (vt V _) = 0%N => apply Ht; assumption
  | |- sumN (map _ (map _ _)) = 0%N => apply sumN_map_map_zero; [intros ? _; solve [auto]|assumption]
  | |- optN _ (option_map _ _) = 0%N => apply optN_map_zero; [solve [auto]|assumption]
  | |- _ => assumption
  | |- _ => reflexivity
  end.

Lemma z_param p : stray_param p = 0%N -> stray_param (param_children (vt V) p) = 0%N.
Proof. destruct p as [x t]. cbn [param_children]. rewrite !stray_param_eq. intros Z. leaf. Qed.

Lemma z_fbody inl f : stray_fbody inl f = 0%N -> stray_fbody inl (fbody_children (vb V) (vt V) f) = 0%N.
Proof.
  destruct f as [ps va vt0 rt gen attrs body]. cbn [fbody_children]. rewrite !stray_fbody_eq. intros Z.
  zhyp. zgoal; try leaf. apply sumN_map_map_zero; [intros ? _; apply z_param|assumption].
Qed.

Lemma z_tentry t : stray_tentry t = 0%N -> stray_tentry (tentry_children (ve V) t) = 0%N.
Proof. destruct t; cbn [tentry_children stray_tentry]; intros Z; zhyp; zgoal; leaf. Qed.

Lemma z_tentries en : sumN (map stray_tentry en) = 0%N -> sumN (map stray_tentry (map (tentry_children (ve V)) en)) = 0%N.
Proof. apply sumN_map_map_zero. intros ? _. apply z_tentry. Qed.

Lemma z_args a : stray_args a = 0%N -> stray_args (args_children (ve V) a) = 0%N.
Proof.
  destruct a; cbn [args_children]; rewrite ?stray_args_tuple_eq, ?stray_args_table_eq; intros Z;
    [leaf|leaf|apply z_tentries; assumption].
Qed.

Lemma z_iseg s : stray_iseg s = 0%N -> stray_iseg (iseg_children (ve V) s) = 0%N.
Proof. destruct s; cbn [iseg_children stray_iseg]; intros Z; leaf. Qed.

Lemma z_ebranch b : stray_ebranch b = 0%N -> stray_ebranch (ebranch_children (ve V) b) = 0%N.
Proof. destruct b; cbn [ebranch_children stray_ebranch]; intros Z; zhyp; zgoal; leaf. Qed.

Lemma z_expr_children e : stray_expr e = 0%N ->
  stray_expr (expr_children (ve V) (vp V) (vb V) (vt V) e) = 0%N.
Proof.
  destruct e; cbn [expr_children];
    rewrite ?stray_expr_interp_eq, ?stray_expr_if_eq, ?stray_expr_table_eq, ?stray_expr_inst_eq;
    cbn [stray_expr]; intros Z; zhyp; zgoal; try leaf.
  - apply sumN_map_map_zero; [intros ? _; apply z_iseg|assumption].
  - apply z_args; assumption.
  - apply z_fbody; assumption.
  - apply sumN_map_map_zero; [intros ? _; apply z_ebranch|assumption].
  - apply z_tentries; assumption.
Qed.

Lemma z_ty_children t : stray_ty t = 0%N -> stray_ty (ty_children (ve V) (vt V) t) = 0%N.
Proof. destruct t as [k subs es]. cbn [ty_children]. rewrite !stray_ty_eq. intros Z. zhyp. zgoal; leaf. Qed.

Lemma z_sbranch inl b : stray_sbranch inl b = 0%N -> stray_sbranch inl (sbranch_children (ve V) (vb V) b) = 0%N.
Proof. destruct b; cbn [sbranch_children stray_sbranch]; intros Z; zhyp; zgoal; leaf. Qed.

Lemma z_last_children inl l : stray_last inl l = 0%N -> stray_last inl (last_children (ve V) l) = 0%N.
Proof. destruct l; cbn [last_children]; rewrite ?stray_last_return_eq; intros Z; leaf. Qed.

Lemma z_stmt_children inl s : stray_stmt inl s = 0%N ->
  stray_stmt inl (stmt_children (ve V) (vb V) (vt V) (vv V) (vc V) (vr V) s) = 0%N.
Proof.
  destruct s; cbn [stmt_children];
    rewrite ?stray_stmt_assign_eq, ?stray_stmt_genfor_eq, ?stray_stmt_if_eq, ?stray_stmt_local_eq,
      ?stray_stmt_numfor_eq, ?stray_stmt_typedecl_eq;
    cbn [stray_stmt]; intros Z; zhyp; zgoal; try leaf.
  - apply z_fbody; assumption.
  - apply sumN_map_map_zero; [intros ? _; apply z_param|assumption].
  - apply sumN_map_map_zero; [intros ? _; apply z_sbranch|assumption].
  - apply sumN_map_map_zero; [intros ? _; apply z_param|assumption].
  - apply z_fbody; assumption.
  - apply z_param; assumption.
  - apply z_fbody; assumption.
Qed.
End Children.

(** * The traversal *)
Definition hooks_z (H : hooks) : Prop :=
  (forall e, stray_expr e = 0%N -> stray_expr (h_expr H e) = 0%N) /\
  (forall e, stray_expr e = 0%N -> stray_expr (h_prefix H e) = 0%N) /\
  (forall inl k s, stray_stmt inl s = 0%N -> stray_stmt inl (fst (h_stmt H k s)) = 0%N) /\
  (forall inl b, stray_block inl b = 0%N -> stray_block inl (h_block H b) = 0%N).

Definition zero_at (H : hooks) (n : nat) : Prop :=
  (forall k e, stray_expr e = 0%N -> stray_expr (visit_expr H n k e) = 0%N) /\
  (forall k e, stray_expr e = 0%N -> stray_expr (visit_prefix H n k e) = 0%N) /\
  (forall k e, stray_expr e = 0%N -> stray_expr (visit_var H n k e) = 0%N) /\
  (forall k e, stray_expr e = 0%N -> stray_expr (visit_call H n k e) = 0%N) /\
  (forall k t, stray_ty t = 0%N -> stray_ty (visit_ty H n k t) = 0%N) /\
  (forall inl k s, stray_stmt inl s = 0%N -> stray_stmt inl (fst (visit_stmt H n k s)) = 0%N) /\
  (forall inl k b, stray_block inl b = 0%N -> stray_block inl (visit_block H n k b) = 0%N).

Theorem visit_zero H : hooks_z H -> forall n, zero_at H n.
Proof.
  intros (Ze & Zp & Zs & Zb). induction n as [|n IH].
  - unfold zero_at. repeat match goal with |- _ /\ _ => split end; intros; assumption.
  - destruct IH as (Ie & Ip & Iv & Ic & It & Is & Ib).
    assert (X : forall k kc e', stray_expr e' = 0%N ->
              stray_expr (expr_children (ve (Vof H n k kc)) (vp (Vof H n k kc)) (vb (Vof H n k kc))
                                        (vt (Vof H n k kc)) e') = 0%N).
    { intros k kc e'. apply z_expr_children; cbn [Vof ve vp vv vc vr vb vt]; auto. }
    unfold zero_at. repeat match goal with |- _ /\ _ => split end.
    + intros k e Z. rewrite visit_expr_S. apply X, Ze, Z.
    + intros k e Z. rewrite visit_prefix_S. destruct (is_prefix_form e); apply X; auto.
    + intros k e Z. rewrite visit_var_S. destruct (is_var_form e); apply X; auto.
    + intros k e Z. rewrite visit_call_S. destruct (is_call_form e); apply X; auto.
    + intros k t Z. rewrite visit_ty_S. apply z_ty_children; cbn [Vof ve vp vv vc vr vb vt]; auto.
    + intros inl k s Z. rewrite visit_stmt_S. cbv zeta. cbn [fst].
      apply z_stmt_children; cbn [Vof ve vp vv vc vr vb vt]; auto.
    + intros inl k b Z. rewrite visit_block_S. pose proof (Zb inl b Z) as Z'.
      destruct (h_block H b) as [ss last]. rewrite stray_block_eq in Z' |- *. zhyp. zgoal.
      * apply sumN_map_zero. apply Forall_forall.
        apply (thread_Forall (fun s => stray_stmt inl s = 0%N)).
        intros k' s Hs. apply Is. exact (sumN_map_zero_inv _ _ H0 s Hs).
      * apply optN_map_zero; [|assumption]. intros l Zl.
        apply (z_last_children (Vof H n (snd (thread (visit_stmt H n) k ss)) 0)); cbn [Vof ve vp vv vc vr vb vt]; auto.
Qed.

Corollary run_rule_zero H : hooks_z H -> forall b, continue_in_loops b = true -> continue_in_loops (run_rule H b) = true.
Proof.
  intros HZ b Hb. unfold continue_in_loops, stray_continues in *. apply N.eqb_eq in Hb. apply N.eqb_eq.
  unfold run_rule. destruct (visit_zero H HZ (w_block b)) as (_ & _ & _ & _ & _ & _ & Ib). apply Ib, Hb.
Qed.

(** * The hooks of the eight rules *)

Ltac ssimp :=
  repeat (progress (seq; cbn [map optN stray_expr stray_iseg stray_ebranch stray_args stray_tentry stray_stmt
                              stray_sbranch stray_last stray_param];
                    change nsum with sumN; change @nopt with @optN;
                    rewrite ?sumN_cons, ?sumN_nil)).
Ltac ssimp_in H :=
  repeat (progress (rewrite ?stray_ty_eq, ?stray_expr_interp_eq, ?stray_expr_if_eq, ?stray_expr_table_eq, ?stray_expr_inst_eq,
    ?stray_args_tuple_eq, ?stray_args_table_eq, ?stray_fbody_eq, ?stray_param_eq, ?stray_stmt_assign_eq,
    ?stray_stmt_genfor_eq, ?stray_stmt_if_eq, ?stray_stmt_local_eq, ?stray_stmt_numfor_eq, ?stray_stmt_typedecl_eq,
    ?stray_block_eq, ?stray_last_return_eq in H;
    cbn [map optN stray_expr stray_iseg stray_ebranch stray_args stray_tentry stray_stmt
                              stray_sbranch stray_last stray_param] in H;
                    change nsum with sumN in H; change @nopt with @optN in H;
                    rewrite ?sumN_cons, ?sumN_nil in H)).

Lemma hooks_z_id_parts :
  (forall e, stray_expr e = 0%N -> stray_expr ((fun e => e) e) = 0%N) /\
  (forall inl (k : nat) s, stray_stmt inl s = 0%N -> stray_stmt inl (fst ((fun k s => (s, k)) k s)) = 0%N) /\
  (forall inl b, stray_block inl b = 0%N -> stray_block inl ((fun b => b) b) = 0%N).
Proof. repeat split; intros; assumption. Qed.

(** remove_if_expression *)
Lemma z_wrap_in_table e : stray_expr e = 0%N -> stray_expr (wrap_in_table e) = 0%N.
Proof. intros Z. unfold wrap_in_table. destruct (can_return_multiple_values e); ssimp; lia. Qed.

Lemma z_convert_if_branch c r acc : stray_expr c = 0%N -> stray_expr r = 0%N -> stray_expr acc = 0%N ->
  stray_expr (convert_if_branch c r acc) = 0%N.
Proof.
  intros Zc Zr Za. unfold convert_if_branch.
  pose proof (z_wrap_in_table r Zr). pose proof (z_wrap_in_table acc Za).
  destruct (is_truthy (evaluate r)) as [[|]|]; unfold num_one; ssimp; lia.
Qed.

Lemma z_rw_if_expression e : stray_expr e = 0%N -> stray_expr (rw_if_expression e) = 0%N.
Proof.
  intros Z. destruct e; try exact Z. ssimp_in Z. zhyp.
  destruct branches as [|b bs]; [ssimp; assumption|].
  cbn [rw_if_expression]. revert H. generalize (b :: bs). intros l. induction l as [|[c r] l IH]; intros Hl.
  - exact H0.
  - cbn [fold_right]. ssimp_in Hl. zhyp. apply z_convert_if_branch; auto.
Qed.

Lemma hooks_z_if_expression : hooks_z hooks_if_expression.
Proof. repeat split; cbn [hooks_if_expression h_expr h_prefix h_stmt h_block fst]; auto. apply z_rw_if_expression. Qed.

(** remove_compound_assignment *)
Lemma z_simplify_prefix p : stray_expr p = 0%N -> stray_expr (simplify_prefix p) = 0%N.
Proof. intros Z. destruct p; try exact Z. destruct p; exact Z. Qed.

Lemma z_remove_parens e : stray_expr e = 0%N -> stray_expr (remove_parens e) = 0%N.
Proof. intros Z. destruct e; exact Z. Qed.

Lemma z_rw_compound_assign_k inl k s : stray_stmt inl s = 0%N -> stray_stmt inl (fst (rw_compound_assign_k k s)) = 0%N.
Proof.
  intros Z. destruct s; try exact Z. ssimp_in Z. zhyp. unfold rw_compound_assign_k.
  destruct var; cbn [fst]; unfold plain_assign, do_assign, local_temps; ssimp_in H; try (ssimp; lia).
  - (* field *)
    pose proof (z_simplify_prefix _ H). pose proof (z_remove_parens _ H).
    destruct (prefix_needs_temp var); cbn [fst]; unfold plain_assign; ssimp; lia.
  - (* index *) zhyp.
    pose proof (z_simplify_prefix _ H). pose proof (z_remove_parens _ H). pose proof (z_remove_parens _ H1).
    destruct (prefix_needs_temp var1), (key_needs_temp var2); cbn [fst]; unfold plain_assign; ssimp; lia.
Qed.

Lemma hooks_z_compound_assign : hooks_z hooks_compound_assign.
Proof. repeat split; cbn [hooks_compound_assign h_expr h_prefix h_stmt h_block]; auto. apply z_rw_compound_assign_k. Qed.

(** remove_floor_division *)
Lemma z_rw_floor_division e : stray_expr e = 0%N -> stray_expr (rw_floor_division e) = 0%N.
Proof. intros Z. destruct e; try exact Z. destruct op; try exact Z. ssimp_in Z. cbn [rw_floor_division]. ssimp. lia. Qed.

Lemma z_rw_floor_division_stmt inl s : stray_stmt inl s = 0%N -> stray_stmt inl (rw_floor_division_stmt s) = 0%N.
Proof.
  intros Z. destruct s; try exact Z. destruct op; try exact Z. unfold rw_floor_division_stmt.
  destruct (visit_zero _ hooks_z_compound_assign (w_stmt (SCompound BIDiv var v))) as (_ & _ & _ & _ & _ & Is & _).
  apply Is, Z.
Qed.

Lemma hooks_z_floor_division : hooks_z hooks_floor_division.
Proof.
  repeat split; cbn [hooks_floor_division h_expr h_prefix h_stmt h_block fst]; auto.
  - apply z_rw_floor_division.
  - intros inl _ s. apply z_rw_floor_division_stmt.
Qed.

(** remove_interpolated_string *)
Lemma z_interp_values st segs : sumN (map stray_iseg segs) = 0%N ->
  sumN (map stray_expr (interp_values st segs)) = 0%N.
Proof.
  induction segs as [|[s|e] segs IH]; intros Z; ssimp_in Z; cbn [interp_values flat_map app] in *.
  - reflexivity.
  - apply IH, Z.
  - zhyp. fold (interp_values st segs). cbn [map]. rewrite sumN_cons. rewrite (IH H0).
    destruct st; unfold call_tostring; ssimp; lia.
Qed.

Lemma z_rw_interpolated_string st e : stray_expr e = 0%N -> stray_expr (rw_interpolated_string st e) = 0%N.
Proof.
  intros Z. destruct e; try exact Z. ssimp_in Z. unfold rw_interpolated_string.
  pose proof (z_interp_values st segs Z) as Zv.
  destruct segs as [|[s|v] [|sg segs]]; unfold call_tostring; ssimp; ssimp_in Z; try lia.
Qed.

Lemma hooks_z_interpolated_string st : hooks_z (hooks_interpolated_string st).
Proof. repeat split; cbn [hooks_interpolated_string h_expr h_prefix h_stmt h_block fst]; auto. apply z_rw_interpolated_string. Qed.

(** convert_luau_number, make_assignment_local *)
Lemma hooks_z_luau_number : hooks_z hooks_luau_number.
Proof.
  repeat split; cbn [hooks_luau_number h_expr h_prefix h_stmt h_block fst]; auto.
  intros e Z. destruct e; exact Z.
Qed.

Lemma hooks_z_const : hooks_z hooks_const.
Proof.
  repeat split; cbn [hooks_const h_expr h_prefix h_stmt h_block fst]; auto.
  intros inl k s Z. destruct s; exact Z.
Qed.

(** remove_types *)
Lemma z_clear_params ps : sumN (map stray_param (map clear_param ps)) = 0%N.
Proof. apply sumN_map_zero. intros y Hy. apply in_map_iff in Hy as ([x t] & <- & _). reflexivity. Qed.

Lemma z_clear_fbody inl f : stray_fbody inl f = 0%N -> stray_fbody inl (clear_fbody f) = 0%N.
Proof.
  destruct f as [ps va vt0 rt gen attrs body]. cbn [clear_fbody]. rewrite !stray_fbody_eq. intros Z. zhyp.
  rewrite z_clear_params. cbn [optN]. lia.
Qed.

Lemma z_strip_types e : stray_expr e = 0%N -> stray_expr (strip_types e) = 0%N.
Proof.
  induction e; intros Z; try exact Z; cbn [strip_types].
  - ssimp_in Z. zhyp. destruct (can_return_multiple_values e); [ssimp; assumption|auto].
  - ssimp_in Z. zhyp. destruct (can_return_multiple_values e); [ssimp; assumption|auto].
Qed.

Lemma z_rw_types e : stray_expr e = 0%N -> stray_expr (rw_types e) = 0%N.
Proof.
  intros Z. apply z_strip_types in Z. unfold rw_types. destruct (strip_types e); try exact Z.
  cbn [stray_expr] in *. apply z_clear_fbody, Z.
Qed.

Lemma z_rw_types_prefix p : stray_expr p = 0%N -> stray_expr (rw_types_prefix p) = 0%N.
Proof.
  induction p; intros Z; try exact Z. cbn [rw_types_prefix]. ssimp_in Z. zhyp. auto.
Qed.

Lemma z_rw_types_stmt inl s : stray_stmt inl s = 0%N -> stray_stmt inl (rw_types_stmt s) = 0%N.
Proof.
  intros Z. destruct s; try exact Z; cbn [rw_types_stmt]; ssimp_in Z; zhyp; ssimp; rewrite ?z_clear_params.
  - apply z_clear_fbody, Z.
  - lia.
  - lia.
  - apply z_clear_fbody, Z.
  - destruct var; cbn [clear_param]. ssimp. lia.
Qed.

Lemma z_rw_types_block inl b : stray_block inl b = 0%N -> stray_block inl (rw_types_block b) = 0%N.
Proof.
  destruct b as [ss last]. cbn [rw_types_block]. rewrite !stray_block_eq. intros Z. zhyp. zgoal; [|assumption].
  apply sumN_map_zero. intros s Hs. apply filter_In in Hs as [Hs _]. exact (sumN_map_zero_inv _ _ H s Hs).
Qed.

Lemma hooks_z_types : hooks_z hooks_types.
Proof.
  repeat split; cbn [hooks_types h_expr h_prefix h_stmt h_block fst].
  - apply z_rw_types.
  - apply z_rw_types_prefix.
  - intros inl _ s. apply z_rw_types_stmt.
  - apply z_rw_types_block.
Qed.

(** remove_attribute *)
Lemma z_clear_attrs inl f : stray_fbody inl (clear_attrs f) = stray_fbody inl f.
Proof. destruct f. reflexivity. Qed.

Lemma hooks_z_attribute : hooks_z hooks_attribute.
Proof.
  repeat split; cbn [hooks_attribute h_expr h_prefix h_stmt h_block fst]; auto.
  - intros e Z. destruct e; try exact Z. cbn [rw_attribute stray_expr] in *. rewrite z_clear_attrs. exact Z.
  - intros inl _ s Z. destruct s; try exact Z; cbn [rw_attribute_stmt stray_stmt] in *; rewrite z_clear_attrs; exact Z.
Qed.

(** * The eight rules keep a tree in the domain of remove_continue *)
Theorem lowering_rules_keep_domain : forall p, In p lowering_rules ->
  forall b, continue_in_loops b = true -> continue_in_loops (snd p b) = true.
Proof.
  intros p Hp. cbn in Hp.
  repeat destruct Hp as [<-|Hp]; try contradiction; cbn [snd]; apply run_rule_zero.
  - exact hooks_z_compound_assign.
  - exact hooks_z_if_expression.
  - exact (hooks_z_interpolated_string false).
  - exact (hooks_z_interpolated_string true).
  - exact hooks_z_floor_division.
  - exact hooks_z_luau_number.
  - exact hooks_z_const.
  - exact hooks_z_types.
  - exact hooks_z_attribute.
Qed.
