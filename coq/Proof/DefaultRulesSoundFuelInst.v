(** The theorems of [Proof/DefaultRulesSoundFuel.v] with their fuel-monotonicity hypotheses
    discharged by [Proof/LoweringFuel.v] (monotonicity of all functions of Lua/Sem.v). *)
From Coq Require Import ZArith NArith List Bool String Lia.
From DL Require Import Lib.Bytes Lib.F64 Lua.Syntax Lua.Sem Model.Evaluator Model.DefaultRules
  Proof.SemFacts Proof.DefaultRulesSem Proof.DefaultRulesSoundExpr Proof.LoweringFuel Proof.DefaultRulesSoundFuel.
Import ListNotations.
Open Scope N_scope.

Lemma stmts_fuel_mono_all d : stmts_fuel_mono d.
Proof. intros n m rho va ss last s r s' Hle H. eapply exec_stmts_mono; eauto. Qed.
Lemma eval1_fuel_mono_all d : eval1_fuel_mono d.
Proof. intros n m rho va e s v s' Hle H. eapply eval1_mono; eauto. Qed.
Lemma eval_list_fuel_mono_all d : eval_list_fuel_mono d.
Proof. intros n m rho va es s vs s' Hle H. eapply eval_list_mono; eauto. Qed.

Theorem empty_do_filter_sound_all : forall d ss n rho va last s r s',
  exec_stmts d n rho va ss last s = Ok r s' ->
  exec_stmts d n rho va (filter (fun st => negb (empty_do st)) ss) last s = Ok r s'.
Proof. intros d. exact (empty_do_filter_sound d (stmts_fuel_mono_all d)). Qed.

Theorem empty_do_block_sound_all : forall d b n rho va s r s',
  exec_block d n rho va b s = Ok r s' -> exec_block d n rho va (rw_empty_do b) s = Ok r s'.
Proof. intros d. exact (empty_do_block_sound d (stmts_fuel_mono_all d)). Qed.

Theorem nil_decl_trailing_sound_all : forall d xs es k n rho va s r s',
  (1 <= k)%nat -> List.length xs = (List.length es + k)%nat ->
  forallb (fun e => negb (is_nil e)) es = true -> names_distinct (map param_name xs) = true ->
  exec_stmt d n rho va (SLocal false xs (es ++ repeat ENil k)) s = Ok r s' ->
  exists n', exec_stmt d n' rho va (rw_nil_declaration (SLocal false xs (es ++ repeat ENil k))) s = Ok r s'.
Proof. intros d. exact (nil_decl_trailing_sound d (eval1_fuel_mono_all d) (eval_list_fuel_mono_all d)). Qed.

(** [local a, b = ext_f(), nil]: the kept value may yield several values and is parenthesised *)
Example nil_decl_trailing_example :
  let xs := [Param (of_string "a") None; Param (of_string "b") None] in
  let es := [ECall (EIdent (of_string "ext_f")) None (ATuple [])] in
  let st := SLocal false xs (es ++ repeat ENil 1) in
  let s := initial_store [[ONum 1; ONum 2]] in
  rw_nil_declaration st = SLocal false xs [EParen (ECall (EIdent (of_string "ext_f")) None (ATuple []))] /\
  exists s', exec_stmt L51 20 [] [] st s = Ok ([(of_string "b", 1); (of_string "a", 0)], SigNone) s' /\
             exec_stmt L51 20 [] [] (rw_nil_declaration st) s = Ok ([(of_string "b", 1); (of_string "a", 0)], SigNone) s'.
Proof. cbv zeta. split; [reflexivity|]. eexists. split; vm_compute; reflexivity. Qed.

(** remove_function_call_parens, table form: [f({...})] and [f {...}] *)
Lemma call_parens_table_args_ok d n rho va ens s args s' :
  eval_args d n rho va (ATuple [ETable ens]) s = Ok args s' ->
  eval_args d n rho va (ATable ens) s = Ok args s'.
Proof.
  intros H. do 3 (destruct n as [|n]; [discriminate|]).
  rewrite call_parens_table_args in H. eapply eval_args_mono; [|exact H]. lia.
Qed.

Theorem call_parens_table_sound : forall d n rho va p m ens s vs s',
  eval d n rho va (ECall p m (ATuple [ETable ens])) s = Ok vs s' ->
  rw_call_parens (ECall p m (ATuple [ETable ens])) = ECall p m (ATable ens) /\
  eval d n rho va (ECall p m (ATable ens)) s = Ok vs s'.
Proof.
  intros d n rho va p m ens s vs s' H. split; [reflexivity|].
  destruct n as [|n]; [discriminate|]. rewrite eval_S_call in *.
  apply bind_ok in H as (o & s1 & Ho & H). unfold bind at 1. rewrite Ho.
  destruct m as [mname|].
  - apply bind_ok in H as (f & s2 & Hf & H). unfold bind at 1. rewrite Hf.
    apply bind_ok in H as (args & s3 & Ha & H). unfold bind at 1.
    rewrite (call_parens_table_args_ok _ _ _ _ _ _ _ _ Ha). exact H.
  - apply bind_ok in H as (args & s3 & Ha & H). unfold bind at 1.
    rewrite (call_parens_table_args_ok _ _ _ _ _ _ _ _ Ha). exact H.
Qed.
