(** C19 — the configuration object: strictness and round trip (on top of Proof/ConfigFacts.v). *)
From Coq Require Import List Bool String Ascii ZArith NArith Lia Permutation.
From DL Require Import Model.Config Proof.ConfigBasics Proof.ConfigFacts.
Import ListNotations.
Open Scope string_scope.

Definition top_keys : list string := ["rules"; "process"; "generator"; "bundle"; "apply_to_files"; "skip_files"].

(** the default rules are rules of the table that need no property *)
Definition defaults_ok (specs : list rule_spec) (default_rules : list string) : bool :=
  forallb (fun n => match find_spec specs n with
                    | Some s => required_ok s [] && required_any_ok s [] && collisions_ok s []
                    | None => false
                    end) default_rules.

Section ConfigTop.

Variable valid_glob : string -> bool.
Variable valid_regex : string -> bool.
Variable valid_ident : string -> bool.
Variable norm_globals : list string -> list string.
Variable norm_reqmode : json -> option json.
Variable env_json_ok : string -> bool.
Variable norm_bundle : json -> option json.
Variable specs : list rule_spec.
Variable default_rules : list string.

Hypothesis H_req_idem : forall j j', norm_reqmode j = Some j' -> norm_reqmode j' = Some j'.
Hypothesis H_req_obj : forall j j', norm_reqmode j = Some j' -> exists l, j' = JObj l.
Hypothesis H_glob_idem : forall l, norm_globals (norm_globals l) = norm_globals l.
Hypothesis H_glob_ok : forall l, forallb (globals_item_ok valid_ident) l = true ->
                                 forallb (globals_item_ok valid_ident) (norm_globals l) = true.
Hypothesis H_bundle_idem : forall j j', norm_bundle j = Some j' -> norm_bundle j' = Some j' /\ j' <> JNull.
Hypothesis H_specs : specs_ok specs = true.
Hypothesis H_defaults : defaults_ok specs default_rules = true.

Notation one_or_many := (one_or_many valid_glob).
Notation deserialize_rule :=
  (deserialize_rule valid_glob valid_regex valid_ident norm_globals norm_reqmode env_json_ok specs).
Notation serialize_rule := (serialize_rule specs).
Notation deserialize_config :=
  (deserialize_config valid_glob valid_regex valid_ident norm_globals norm_reqmode env_json_ok norm_bundle specs default_rules).
Notation serialize_config := (serialize_config specs).
Notation rule_inv := (rule_inv valid_glob valid_regex valid_ident norm_globals norm_reqmode env_json_ok specs).
Notation ser_complete := (ser_complete specs).

(** * strictness of the top level *)

Lemma fields_ok_keys : forall kvs seen, fields_ok kvs seen = true ->
  (forall k, In k (map fst kvs) -> In k top_keys) /\ NoDup (map fst kvs).
Proof.
  induction kvs as [|[k j] kvs IH]; cbn [fields_ok map fst]; intros seen H.
  - split; [intros k []|constructor].
  - destruct (field_of k) as [f|] eqn:Ef; [|discriminate].
    apply andb_true_iff in H. destruct H as [Hseen H].
    destruct (IH _ H) as [Keys ND].
    assert (Hk : In k top_keys).
    { unfold field_of in Ef. destruct (mem k ["rules"; "process"]) eqn:E1.
      - apply mem_true_iff in E1. unfold top_keys. cbn [In] in *. tauto.
      - destruct (mem k ["generator"; "bundle"; "apply_to_files"; "skip_files"]) eqn:E2; [|discriminate].
        apply mem_true_iff in E2. unfold top_keys. cbn [In] in *. tauto. }
    split.
    + intros k' [<-|Hin]; [exact Hk|apply Keys; exact Hin].
    + constructor; [|exact ND]. intros Hin.
      (* a later occurrence of the same key would find its field already seen *)
      assert (Gen : forall kvs seen f, fields_ok kvs seen = true -> In f seen ->
                forall k, In k (map fst kvs) -> field_of k <> Some f).
      { clear. induction kvs as [|[k j] kvs IH]; cbn [fields_ok map fst]; intros seen f H Hf k' Hin; [destruct Hin|].
        destruct (field_of k) as [f'|] eqn:Ef; [|discriminate].
        apply andb_true_iff in H. destruct H as [Hseen H]. destruct Hin as [<-|Hin].
        - rewrite Ef. intros [= ->]. apply negb_true_iff in Hseen.
          assert (mem f seen = true) by (apply mem_true_iff; exact Hf). congruence.
        - eapply IH; [exact H|right; exact Hf|exact Hin]. }
      eapply (Gen kvs (f :: seen) f H); [left; reflexivity|exact Hin|exact Ef].
Qed.

Theorem config_strict kvs c :
  deserialize_config (JObj kvs) = Some c ->
  (forall k, In k (map fst kvs) -> In k top_keys) /\ NoDup (map fst kvs).
Proof.
  cbn [Config.deserialize_config]. destruct (fields_ok kvs []) eqn:E; [|discriminate]. intros _.
  eapply fields_ok_keys. exact E.
Qed.

(** * round trip *)

Definition gen_ok (g : generator) : Prop :=
  match g with GRetainLines => True | GDense n | GReadable n => (Z.of_N n <= usize_max)%Z end.

Definition config_inv (c : config) : Prop :=
  Forall rule_inv (c_rules c) /\ gen_ok (c_generator c) /\
  match c_bundle c with Some b => norm_bundle b = Some b /\ b <> JNull | None => True end /\
  forallb valid_glob (c_apply c) = true /\ forallb valid_glob (c_skip c) = true.

Lemma as_usize_bound j n : as_usize j = Some n -> (Z.of_N n <= usize_max)%Z.
Proof.
  destruct j as [| |[z|]| | |]; cbn [as_usize]; try discriminate.
  destruct ((0 <=? z)%Z && (z <=? usize_max)%Z) eqn:E; [|discriminate]. intros [= <-].
  apply andb_true_iff in E. destruct E as [E1 E2]. apply Z.leb_le in E1. apply Z.leb_le in E2.
  rewrite Z2N.id; assumption.
Qed.

Lemma default_span_ok : (Z.of_N default_span <= usize_max)%Z.
Proof. vm_compute. discriminate. Qed.

Lemma deserialize_generator_ok j g : deserialize_generator j = Some g -> gen_ok g.
Proof.
  destruct j as [| | |s| |kvs]; cbn [deserialize_generator]; try discriminate.
  - unfold generator_of_name. destruct (mem s ["retain_lines"; "retain-lines"]); [intros [= <-]; exact I|].
    destruct (String.eqb s "dense"); [intros [= <-]; apply default_span_ok|].
    destruct (String.eqb s "readable"); [intros [= <-]; apply default_span_ok|discriminate].
  - unfold generator_of_object. destruct (count_key "name" kvs) as [|[|?]]; try discriminate.
    destruct (lookup "name" kvs) as [[| | |tag| |]|]; try discriminate.
    destruct (mem tag ["retain_lines"; "retain-lines"]); [intros [= <-]; exact I|].
    destruct (mem tag ["dense"; "readable"]); [|discriminate].
    destruct (forallb _ _ && _); [|discriminate].
    destruct (filter _ kvs) as [|[k j] rest].
    + destruct (String.eqb tag "dense"); intros [= <-]; apply default_span_ok.
    + destruct (as_usize j) as [n|] eqn:En; [|discriminate]. apply as_usize_bound in En.
      destruct (String.eqb tag "dense"); intros [= <-]; exact En.
Qed.

Lemma generator_read_back g : gen_ok g -> deserialize_generator (serialize_generator g) = Some g.
Proof.
  destruct g as [|n|n]; cbn [gen_ok]; intros H; [reflexivity| |].
  - cbn. assert (E : ((0 <=? Z.of_N n)%Z && (Z.of_N n <=? usize_max)%Z) = true).
    { apply andb_true_iff. split; apply Z.leb_le; [apply N2Z.is_nonneg|exact H]. }
    rewrite E, N2Z.id. reflexivity.
  - cbn. assert (E : ((0 <=? Z.of_N n)%Z && (Z.of_N n <=? usize_max)%Z) = true).
    { apply andb_true_iff. split; apply Z.leb_le; [apply N2Z.is_nonneg|exact H]. }
    rewrite E, N2Z.id. reflexivity.
Qed.

Lemma map_opt_inv : forall l rs, map_opt deserialize_rule l = Some rs -> Forall rule_inv rs.
Proof.
  induction l as [|j l IH]; cbn [map_opt]; intros rs H.
  - inversion H; subst. constructor.
  - destruct (deserialize_rule j) as [r|] eqn:Hr; [|discriminate].
    destruct (map_opt deserialize_rule l) as [rs'|] eqn:Hl; [|discriminate]. inversion H; subst.
    constructor; [|apply IH; reflexivity].
    eapply deserialize_rule_inv; eassumption.
Qed.

Lemma default_rules_inv : Forall rule_inv (default_rule_cfgs default_rules).
Proof.
  unfold default_rule_cfgs. unfold defaults_ok in H_defaults. rewrite forallb_forall in H_defaults.
  apply Forall_forall. intros r Hin. apply in_map_iff in Hin. destruct Hin as [n [<- Hn]].
  specialize (H_defaults n Hn). destruct (find_spec specs n) as [s|] eqn:Hs; [|discriminate].
  apply andb_true_iff in H_defaults. destruct H_defaults as [H12 H3]. apply andb_true_iff in H12. destruct H12 as [H1 H2].
  exists s. cbn [r_name r_props r_apply r_skip]. split; [exact Hs|]. split; [|split; reflexivity].
  repeat split; try assumption; constructor.
Qed.

Lemma opt_filter_valid (o : option json) l :
  match o with None => Some [] | Some x => one_or_many x end = Some l -> forallb valid_glob l = true.
Proof.
  destruct o as [x|]; [apply one_or_many_valid|]. intros [= <-]. reflexivity.
Qed.

Lemma deserialize_config_inv j c : deserialize_config j = Some c -> config_inv c.
Proof.
  destruct j as [| | | | |kvs]; cbn [Config.deserialize_config]; try discriminate.
  destruct (fields_ok kvs []); [|discriminate].
  destruct (match field "rules" kvs with
            | None => Some (default_rule_cfgs default_rules)
            | Some (JArr l) => map_opt deserialize_rule l
            | Some _ => None end) as [rs|] eqn:Er; [|discriminate].
  destruct (match field "generator" kvs with None => Some GRetainLines | Some g => deserialize_generator g end)
    as [g|] eqn:Eg; [|discriminate].
  destruct (match field "bundle" kvs with
            | None | Some JNull => Some None
            | Some b => match norm_bundle b with Some b' => Some (Some b') | None => None end end) as [b|] eqn:Eb; [|discriminate].
  destruct (match field "apply_to_files" kvs with None => Some [] | Some x => one_or_many x end) as [a|] eqn:Ea; [|discriminate].
  destruct (match field "skip_files" kvs with None => Some [] | Some x => one_or_many x end) as [s|] eqn:Es; [|discriminate].
  intros [= <-]. unfold config_inv. cbn [c_rules c_generator c_bundle c_apply c_skip].
  split; [|split; [|split; [|split]]].
  - destruct (field "rules" kvs) as [[| | | |l|]|]; try discriminate.
    + eapply map_opt_inv; exact Er.
    + inversion Er; subst. apply default_rules_inv.
  - destruct (field "generator" kvs) as [gj|]; [eapply deserialize_generator_ok; exact Eg|]. inversion Eg; subst. exact I.
  - destruct b as [b|]; [|exact I].
    destruct (field "bundle" kvs) as [bj|]; [|discriminate].
    assert (Hb : norm_bundle bj = Some b).
    { destruct bj; try discriminate; destruct (norm_bundle _) eqn:En; inversion Eb; subst; reflexivity. }
    apply H_bundle_idem in Hb. exact Hb.
  - eapply opt_filter_valid; exact Ea.
  - eapply opt_filter_valid; exact Es.
Qed.

Definition sorted_rule (r : rule_cfg) : rule_cfg :=
  RuleCfg (r_name r) (sort_by_key (r_props r)) (r_apply r) (r_skip r).

Lemma rules_read_back : forall rs, Forall rule_inv rs -> Forall ser_complete rs ->
  map_opt deserialize_rule (map serialize_rule rs) = Some (map sorted_rule rs).
Proof.
  induction rs as [|r rs IH]; intros HI HC; cbn [map map_opt]; [reflexivity|].
  inversion HI; subst. inversion HC; subst.
  assert (E : deserialize_rule (serialize_rule r) = Some (sorted_rule r)).
  { unfold sorted_rule. eapply rule_read_back; eassumption. }
  rewrite E, IH; [reflexivity|assumption|assumption].
Qed.

Lemma top_filter_read_back l : forallb valid_glob l = true ->
  match l with [] => Some [] | _ => one_or_many (JArr (map JStr l)) end = Some l.
Proof.
  intros H. destruct l; [reflexivity|]. apply one_or_many_list. exact H.
Qed.

Lemma config_read_back c :
  config_inv c -> Forall ser_complete (c_rules c) ->
  deserialize_config (serialize_config c) =
  Some (Cfg (map sorted_rule (c_rules c)) (c_generator c) (c_bundle c) (c_apply c) (c_skip c)).
Proof.
  intros [HR [HG [HB [HA HS]]]] HC.
  pose proof (rules_read_back _ HR HC) as ER.
  pose proof (generator_read_back _ HG) as EG.
  pose proof (top_filter_read_back _ HA) as EA.
  pose proof (top_filter_read_back _ HS) as ES.
  destruct c as [rs g b a s]. cbn [c_rules c_generator c_bundle c_apply c_skip] in *.
  unfold Config.serialize_config. cbn [c_rules c_generator c_bundle c_apply c_skip].
  destruct b as [b|]; destruct a as [|a0 a]; destruct s as [|s0 s];
    cbn [list_entry app Config.deserialize_config fields_ok field field_of mem existsb find fst snd negb andb orb
         String.eqb Ascii.eqb Bool.eqb];
    rewrite ?ER, ?EG, ?EA, ?ES; try reflexivity.
  all: destruct HB as [HB1 HB2]; rewrite HB1; destruct b; try reflexivity; exfalso; apply HB2; reflexivity.
Qed.

Definition config_equiv (c c' : config) : Prop :=
  Forall2 (rule_equiv) (c_rules c) (c_rules c') /\ c_generator c = c_generator c' /\
  c_bundle c = c_bundle c' /\ c_apply c = c_apply c' /\ c_skip c = c_skip c'.

Lemma sorted_rules_equiv rs : Forall2 rule_equiv rs (map sorted_rule rs).
Proof.
  induction rs as [|r rs IH]; cbn [map]; constructor; [|exact IH].
  repeat split; cbn [sorted_rule r_name r_props r_apply r_skip]; try reflexivity.
  apply Permutation_sym. apply sort_by_key_perm.
Qed.

Theorem config_roundtrip j c :
  deserialize_config j = Some c -> Forall ser_complete (c_rules c) ->
  exists c', deserialize_config (serialize_config c) = Some c' /\ config_equiv c c'.
Proof.
  intros Hd Hc. eexists. split; [apply config_read_back; [eapply deserialize_config_inv; exact Hd|exact Hc]|].
  repeat split; cbn [c_rules c_generator c_bundle c_apply c_skip]; try reflexivity. apply sorted_rules_equiv.
Qed.

Lemma sorted_rules_inj : forall rs1 rs2, map sorted_rule rs1 = map sorted_rule rs2 -> Forall2 rule_equiv rs1 rs2.
Proof.
  induction rs1 as [|r1 rs1 IH]; intros [|r2 rs2] H; cbn [map] in H; try discriminate; constructor.
  - inversion H as [[En Ep Ea Es Erest]]. repeat split; try assumption.
    rewrite <- (sort_by_key_perm (r_props r1)), <- (sort_by_key_perm (r_props r2)), Ep. reflexivity.
  - apply IH. inversion H. reflexivity.
Qed.

Theorem config_injective j1 j2 c1 c2 :
  deserialize_config j1 = Some c1 -> deserialize_config j2 = Some c2 ->
  Forall ser_complete (c_rules c1) -> Forall ser_complete (c_rules c2) ->
  serialize_config c1 = serialize_config c2 -> config_equiv c1 c2.
Proof.
  intros H1 H2 C1 C2 E.
  pose proof (config_read_back c1 (deserialize_config_inv _ _ H1) C1) as B1.
  pose proof (config_read_back c2 (deserialize_config_inv _ _ H2) C2) as B2.
  rewrite E, B2 in B1. inversion B1 as [[Er Eg Eb Ea Es]].
  repeat split; try congruence. apply sorted_rules_inj. symmetry. exact Er.
Qed.

End ConfigTop.
