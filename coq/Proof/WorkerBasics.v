(** Basic facts about paths, the memory file system and the slot / ext containers of the
    worker model. *)
From Coq Require Import Arith PeanoNat Lia.
From DL Require Import Lib.Bytes Model.WorkerFs Model.Worker.
Open Scope N_scope.

(** * Paths *)

Lemma path_eqb_eq a b : path_eqb a b = true <-> a = b.
Proof.
  revert b; induction a as [|x a IH]; intros [|y b]; cbn [path_eqb]; split; intros H;
    try reflexivity; try discriminate.
  - apply andb_true_iff in H as [H1 H2]. apply String.eqb_eq in H1. apply IH in H2. congruence.
  - inversion H; subst. rewrite String.eqb_refl. apply IH. reflexivity.
Qed.

Lemma path_eqb_refl a : path_eqb a a = true.
Proof. apply path_eqb_eq. reflexivity. Qed.

Lemma path_eqb_neq a b : path_eqb a b = false <-> a <> b.
Proof.
  split; intros H.
  - intros E. apply path_eqb_eq in E. congruence.
  - destruct (path_eqb a b) eqn:E; [|reflexivity]. apply path_eqb_eq in E. contradiction.
Qed.

Lemma path_eqb_sym a b : path_eqb a b = path_eqb b a.
Proof.
  destruct (path_eqb a b) eqn:E.
  - apply path_eqb_eq in E. subst. symmetry. apply path_eqb_refl.
  - symmetry. apply path_eqb_neq. apply path_eqb_neq in E. congruence.
Qed.

Lemma path_eq_dec (a b : path) : {a = b} + {a <> b}.
Proof. destruct (path_eqb a b) eqn:E; [left; apply path_eqb_eq, E | right; apply path_eqb_neq, E]. Qed.

Lemma starts_with_refl p : starts_with p p = true.
Proof. induction p as [|x p IH]; cbn; [reflexivity|]. rewrite String.eqb_refl. exact IH. Qed.

Lemma starts_with_app pre p : starts_with pre p = true <-> exists s, p = (pre ++ s)%list.
Proof.
  revert p; induction pre as [|a pre IH]; intros p; cbn [starts_with].
  - split; [intros _; exists p; reflexivity | reflexivity].
  - destruct p as [|b p].
    + split; [discriminate | intros [s Hs]; discriminate].
    + split.
      * intros H. apply andb_true_iff in H as [H1 H2]. apply String.eqb_eq in H1. subst b.
        apply IH in H2 as [s ->]. exists s. reflexivity.
      * intros [s Hs]. inversion Hs; subst. rewrite String.eqb_refl. apply IH. exists s. reflexivity.
Qed.

Lemma starts_with_trans a b c :
  starts_with a b = true -> starts_with b c = true -> starts_with a c = true.
Proof.
  intros H1 H2. apply starts_with_app in H1 as [s1 ->]. apply starts_with_app in H2 as [s2 ->].
  apply starts_with_app. exists (s1 ++ s2)%list. rewrite app_assoc. reflexivity.
Qed.

(** two prefixes of the same path are comparable *)
Lemma prefixes_comparable a b p :
  starts_with a p = true -> starts_with b p = true ->
  starts_with a b = true \/ starts_with b a = true.
Proof.
  revert b p; induction a as [|x a IH]; intros b p Ha Hb.
  - left. reflexivity.
  - destruct b as [|y b]; [right; reflexivity|].
    destruct p as [|z p]; [discriminate|].
    cbn [starts_with] in *. apply andb_true_iff in Ha as [Ha1 Ha2]. apply andb_true_iff in Hb as [Hb1 Hb2].
    apply String.eqb_eq in Ha1, Hb1. subst. rewrite String.eqb_refl. cbn.
    eapply IH; eassumption.
Qed.

Lemma starts_with_antisym a b :
  starts_with a b = true -> starts_with b a = true -> a = b.
Proof.
  intros H1 H2. apply starts_with_app in H1 as [s1 H1]. apply starts_with_app in H2 as [s2 H2].
  subst b. rewrite <- app_assoc in H2. rewrite <- (app_nil_r a) in H2 at 1.
  apply app_inv_head in H2. symmetry in H2. apply app_eq_nil in H2 as [-> _]. rewrite app_nil_r. reflexivity.
Qed.

Lemma mem_path_In p l : mem_path p l = true <-> In p l.
Proof.
  induction l as [|q l IH]; cbn [mem_path In]; [split; [discriminate|tauto]|].
  rewrite orb_true_iff, IH, path_eqb_eq. split; intros [H|H]; auto.
Qed.

Lemma rebase_app from to s : rebase from to (from ++ s) = (to ++ s)%list.
Proof.
  unfold rebase. f_equal. induction from as [|x from IH]; cbn; [reflexivity|exact IH].
Qed.

Lemma rebase_starts from to p : starts_with to (rebase from to p) = true.
Proof. apply starts_with_app. eexists. reflexivity. Qed.

Lemma rebase_inj from to p q :
  starts_with from p = true -> starts_with from q = true ->
  rebase from to p = rebase from to q -> p = q.
Proof.
  intros Hp Hq H. apply starts_with_app in Hp as [s ->]. apply starts_with_app in Hq as [s' ->].
  rewrite !rebase_app in H. apply app_inv_head in H. subst. reflexivity.
Qed.

Lemma rebase_prefix from to p q :
  starts_with from p = true -> starts_with from q = true ->
  starts_with (rebase from to p) (rebase from to q) = true -> starts_with p q = true.
Proof.
  intros Hp Hq H. apply starts_with_app in Hp as [s ->]. apply starts_with_app in Hq as [s' ->].
  rewrite !rebase_app in H. apply starts_with_app in H as [u Hu].
  rewrite <- app_assoc in Hu. apply app_inv_head in Hu. subst s'.
  apply starts_with_app. exists u. rewrite app_assoc. reflexivity.
Qed.

(** * The memory file system *)

Lemma fs_get_del f p q : fs_get (fs_del f p) q = if path_eqb p q then None else fs_get f q.
Proof.
  induction f as [|[r c] f IH]; cbn [fs_del filter fs_get fst].
  - destruct (path_eqb p q); reflexivity.
  - destruct (path_eqb r p) eqn:Erp; cbn [negb].
    + apply path_eqb_eq in Erp. subst r. fold (fs_del f p). rewrite IH.
      destruct (path_eqb p q); reflexivity.
    + cbn [fs_get]. fold (fs_del f p). rewrite IH.
      destruct (path_eqb r q) eqn:Erq; [|reflexivity].
      apply path_eqb_eq in Erq. subst r. rewrite path_eqb_sym, Erp. reflexivity.
Qed.

Lemma fs_get_write f p c q :
  fs_get (fs_write f p c) q = if path_eqb p q then Some c else fs_get f q.
Proof.
  unfold fs_write. cbn [fs_get]. destruct (path_eqb p q) eqn:E; [reflexivity|].
  rewrite fs_get_del, E. reflexivity.
Qed.

Lemma fs_get_del_under f d q :
  fs_get (fs_del_under f d) q = if starts_with d q then None else fs_get f q.
Proof.
  induction f as [|[r c] f IH]; cbn [fs_del_under filter fs_get fst].
  - destruct (starts_with d q); reflexivity.
  - destruct (starts_with d r) eqn:Edr; cbn [negb].
    + fold (fs_del_under f d). rewrite IH.
      destruct (path_eqb r q) eqn:Erq; [|reflexivity].
      apply path_eqb_eq in Erq. subst r. rewrite Edr. reflexivity.
    + cbn [fs_get]. fold (fs_del_under f d). rewrite IH.
      destruct (path_eqb r q) eqn:Erq; [|reflexivity].
      apply path_eqb_eq in Erq. subst r. rewrite Edr. reflexivity.
Qed.

Lemma fs_get_In f p : fs_get f p <> None <-> In p (map fst f).
Proof.
  induction f as [|[r c] f IH]; cbn [fs_get map fst In]; [tauto|].
  destruct (path_eqb r p) eqn:E.
  - apply path_eqb_eq in E. subst. split; [auto | discriminate].
  - apply path_eqb_neq in E. rewrite IH. split; [auto | intros [H|H]; [contradiction|exact H]].
Qed.

Lemma fs_is_dir_spec f p :
  fs_is_dir f p = true <-> exists q, fs_get f q <> None /\ q <> p /\ starts_with p q = true.
Proof.
  unfold fs_is_dir. rewrite existsb_exists. split.
  - intros [[q c] [Hin H]]. cbn [fst] in H. apply andb_true_iff in H as [H1 H2].
    exists q. repeat split; [| |exact H2].
    + apply fs_get_In. apply in_map_iff. exists (q, c). auto.
    + apply negb_true_iff, path_eqb_neq in H1. exact H1.
  - intros [q [H1 [H2 H3]]]. apply fs_get_In, in_map_iff in H1 as [[q' c] [E Hin]]. cbn in E. subst q'.
    exists (q, c). split; [exact Hin|]. cbn [fst]. apply andb_true_iff. split; [|exact H3].
    apply negb_true_iff, path_eqb_neq. exact H2.
Qed.

(** [remove] of a path with nothing strictly below it only deletes that path *)
Lemma fs_get_remove_leaf f p q :
  (forall r, fs_get f r <> None -> starts_with p r = true -> r = p) ->
  fs_get (fs_remove f p) q = if path_eqb p q then None else fs_get f q.
Proof.
  intros Hleaf. unfold fs_remove, fs_is_file.
  destruct (fs_get f p) eqn:Ep.
  - apply fs_get_del.
  - destruct (fs_is_dir f p) eqn:Ed.
    + apply fs_is_dir_spec in Ed as [r [H1 [H2 H3]]]. exfalso. apply H2. apply Hleaf; assumption.
    + destruct (path_eqb p q) eqn:E; [|reflexivity]. apply path_eqb_eq in E. subst. exact Ep.
Qed.

Lemma fs_collect_spec f loc q :
  In q (fs_collect f loc) <-> fs_get f q <> None /\ starts_with loc q = true /\ is_lua_path q = true.
Proof.
  unfold fs_collect, fs_walk. rewrite !filter_In, fs_get_In. tauto.
Qed.

(** * Slots *)

Lemma get_set_slot_same s i v : (i < List.length s)%nat -> get_slot (set_slot s i v) i = v.
Proof.
  unfold get_slot. revert i; induction s as [|x s IH]; intros i Hi; cbn in *; [lia|].
  destruct i; cbn; [reflexivity|]. apply IH. lia.
Qed.

Lemma get_set_slot_other s i j v : i <> j -> get_slot (set_slot s i v) j = get_slot s j.
Proof.
  unfold get_slot. revert i j; induction s as [|x s IH]; intros i j Hij; cbn; [reflexivity|].
  destruct i, j; cbn; try reflexivity; try congruence. apply IH. congruence.
Qed.

Lemma set_slot_length s i v : List.length (set_slot s i v) = List.length s.
Proof. revert i; induction s as [|x s IH]; intros i; cbn; [reflexivity|]. destruct i; cbn; auto. Qed.

Lemma get_slot_some_lt s i it : get_slot s i = Some it -> (i < List.length s)%nat.
Proof.
  unfold get_slot. intros H. destruct (Nat.lt_ge_cases i (List.length s)) as [L|L]; [exact L|].
  rewrite nth_overflow in H by exact L. discriminate.
Qed.

Lemma get_slot_app_new s v : get_slot (s ++ [v]) (List.length s) = v.
Proof. unfold get_slot. rewrite app_nth2 by lia. rewrite Nat.sub_diag. reflexivity. Qed.

Lemma get_slot_app_old s v i : (i < List.length s)%nat -> get_slot (s ++ [v]) i = get_slot s i.
Proof. unfold get_slot. intros H. apply app_nth1. exact H. Qed.

Lemma get_slot_app_beyond s v i : (List.length s < i)%nat -> get_slot (s ++ [v]) i = None.
Proof. unfold get_slot. intros H. apply nth_overflow. rewrite app_length. cbn. lia. Qed.

Lemma find_src_spec s p k i :
  find_src s p k = Some i ->
  exists it, (k <= i)%nat /\ nth (i - k) s None = Some it /\ i_src it = p.
Proof.
  revert k; induction s as [|[it|] s IH]; intros k H; cbn [find_src] in H; [discriminate| |].
  - destruct (path_eqb (i_src it) p) eqn:E.
    + inversion H; subst. exists it. rewrite Nat.sub_diag. cbn. apply path_eqb_eq in E. auto.
    + apply IH in H as [it' [H1 [H2 H3]]]. exists it'. split; [lia|]. split; [|exact H3].
      replace (i - k)%nat with (S (i - S k)) by lia. exact H2.
  - apply IH in H as [it' [H1 [H2 H3]]]. exists it'. split; [lia|]. split; [|exact H3].
    replace (i - k)%nat with (S (i - S k)) by lia. exact H2.
Qed.

Lemma find_src_none s p k :
  find_src s p k = None -> forall j it, nth j s None = Some it -> i_src it <> p.
Proof.
  revert k; induction s as [|[it|] s IH]; intros k H j it' Hj; cbn [find_src] in H.
  - destruct j; discriminate.
  - destruct (path_eqb (i_src it) p) eqn:E; [discriminate|].
    destruct j; cbn in Hj.
    + inversion Hj; subst. apply path_eqb_neq. exact E.
    + eapply IH; eassumption.
  - destruct j; cbn in Hj; [discriminate|]. eapply IH; eassumption.
Qed.

Lemma find_src_some_or_none s p k :
  (exists j it, nth j s None = Some it /\ i_src it = p) -> find_src s p k <> None.
Proof.
  intros [j [it [H1 H2]]] Hn. eapply find_src_none in Hn; [|exact H1]. contradiction.
Qed.

Lemma nodes_under_spec s p k i :
  In i (nodes_under s p k) <->
  exists it, (k <= i)%nat /\ nth (i - k) s None = Some it /\ starts_with p (i_src it) = true.
Proof.
  revert k; induction s as [|[it|] s IH]; intros k; cbn [nodes_under].
  - split; [intros []|]. intros [it [_ [H _]]]. destruct (i - k)%nat; discriminate.
  - destruct (starts_with p (i_src it)) eqn:E; cbn [In]; rewrite IH; split.
    + intros [->|[it' [H1 [H2 H3]]]].
      * exists it. rewrite Nat.sub_diag. cbn. auto.
      * exists it'. split; [lia|]. split; [|exact H3]. replace (i - k)%nat with (S (i - S k)) by lia. exact H2.
    + intros [it' [H1 [H2 H3]]]. destruct (Nat.eq_dec k i) as [->|Hne]; [left; reflexivity|].
      right. exists it'. split; [lia|]. split; [|exact H3].
      replace (i - k)%nat with (S (i - S k)) in H2 by lia. exact H2.
    + intros [it' [H1 [H2 H3]]]. exists it'. split; [lia|]. split; [|exact H3].
      replace (i - k)%nat with (S (i - S k)) by lia. exact H2.
    + intros [it' [H1 [H2 H3]]]. destruct (Nat.eq_dec k i) as [->|Hne].
      * rewrite Nat.sub_diag in H2. cbn in H2. inversion H2; subst. congruence.
      * exists it'. split; [lia|]. split; [|exact H3].
        replace (i - k)%nat with (S (i - S k)) in H2 by lia. exact H2.
  - rewrite IH. split.
    + intros [it' [H1 [H2 H3]]]. exists it'. split; [lia|]. split; [|exact H3].
      replace (i - k)%nat with (S (i - S k)) by lia. exact H2.
    + intros [it' [H1 [H2 H3]]]. destruct (Nat.eq_dec k i) as [->|Hne].
      * rewrite Nat.sub_diag in H2. discriminate.
      * exists it'. split; [lia|]. split; [|exact H3].
        replace (i - k)%nat with (S (i - S k)) in H2 by lia. exact H2.
Qed.

Lemma all_items_spec_slots s it :
  In it (flat_map (fun o : option item => match o with Some it => [it] | None => [] end) s) <->
  exists i, nth i s None = Some it.
Proof.
  induction s as [|[x|] s IH]; cbn [flat_map app In].
  - split; [intros []|intros [i H]; destruct i; discriminate].
  - rewrite IH. split.
    + intros [->|[i H]]; [exists 0%nat; reflexivity | exists (S i); exact H].
    + intros [[|i] H]; cbn in H; [inversion H; auto | right; exists i; exact H].
  - rewrite IH. split.
    + intros [i H]. exists (S i). exact H.
    + intros [[|i] H]; cbn in H; [discriminate | exists i; exact H].
Qed.

Lemma all_items_spec t it : In it (all_items t) <-> exists i, get_slot (slots t) i = Some it.
Proof. unfold all_items, get_slot. apply all_items_spec_slots. Qed.

Lemma node_of_some t p i :
  node_of t p = Some i -> exists it, get_slot (slots t) i = Some it /\ i_src it = p.
Proof.
  unfold node_of, get_slot. intros H. apply find_src_spec in H as [it [_ [H1 H2]]].
  rewrite Nat.sub_0_r in H1. eauto.
Qed.

Lemma node_of_none t p :
  node_of t p = None -> forall i it, get_slot (slots t) i = Some it -> i_src it <> p.
Proof. unfold node_of, get_slot. intros H i it Hi. eapply find_src_none; eassumption. Qed.

Lemma node_of_exists t p i it :
  get_slot (slots t) i = Some it -> i_src it = p -> node_of t p <> None.
Proof. unfold node_of, get_slot. intros H1 H2. apply find_src_some_or_none. eauto. Qed.

Lemma nodes_under_in t p i :
  In i (nodes_under (slots t) p 0) <->
  exists it, get_slot (slots t) i = Some it /\ starts_with p (i_src it) = true.
Proof.
  rewrite nodes_under_spec. unfold get_slot. rewrite Nat.sub_0_r. split.
  - intros [it [_ [H1 H2]]]. eauto.
  - intros [it [H1 H2]]. exists it. split; [lia|auto].
Qed.

(** * The external-dependency container *)

Lemma remove_nat_In i j l : In j (remove_nat i l) <-> In j l /\ j <> i.
Proof.
  unfold remove_nat. rewrite filter_In, negb_true_iff, Nat.eqb_neq. intuition congruence.
Qed.

Lemma mem_nat_In i l : mem_nat i l = true <-> In i l.
Proof.
  unfold mem_nat. rewrite existsb_exists. split.
  - intros [x [H1 H2]]. apply Nat.eqb_eq in H2. subst. exact H1.
  - intros H. exists i. split; [exact H|apply Nat.eqb_refl].
Qed.

Lemma ext_get_unlink e p i q j :
  In j (ext_get (ext_unlink e p i) q) <-> In j (ext_get e q) /\ ~ (p = q /\ j = i).
Proof.
  induction e as [|[r l] e IH]; cbn [ext_unlink ext_get].
  - cbn. tauto.
  - destruct (path_eqb r p) eqn:Erp.
    + apply path_eqb_eq in Erp. subst r. cbn [ext_get].
      destruct (path_eqb p q) eqn:Epq.
      * apply path_eqb_eq in Epq. subst q. rewrite remove_nat_In. intuition.
      * apply path_eqb_neq in Epq. intuition.
    + cbn [ext_get]. destruct (path_eqb r q) eqn:Erq.
      * apply path_eqb_eq in Erq. subst r. apply path_eqb_neq in Erp. intuition congruence.
      * exact IH.
Qed.

Lemma ext_get_link e p i q j :
  In j (ext_get (ext_link e p i) q) <-> In j (ext_get e q) \/ (p = q /\ j = i).
Proof.
  induction e as [|[r l] e IH]; cbn [ext_link ext_get].
  - destruct (path_eqb p q) eqn:Epq.
    + apply path_eqb_eq in Epq. subst. cbn. intuition.
    + apply path_eqb_neq in Epq. cbn. intuition.
  - destruct (path_eqb r p) eqn:Erp.
    + apply path_eqb_eq in Erp. subst r. cbn [ext_get].
      destruct (path_eqb p q) eqn:Epq.
      * apply path_eqb_eq in Epq. subst q.
        destruct (mem_nat i l) eqn:Em.
        -- apply mem_nat_In in Em. split; [auto | intros [H|[_ ->]]; [exact H | exact Em]].
        -- cbn [In]. split; [intros [->|H]; auto | intros [H|[_ ->]]; auto].
      * apply path_eqb_neq in Epq. intuition.
    + cbn [ext_get]. destruct (path_eqb r q) eqn:Erq.
      * apply path_eqb_eq in Erq. subst r. apply path_eqb_neq in Erp. intuition congruence.
      * exact IH.
Qed.

Lemma ext_get_unlink_all e ds i q j :
  In j (ext_get (fold_left (fun e d => ext_unlink e d i) ds e) q) <->
  In j (ext_get e q) /\ ~ (In q ds /\ j = i).
Proof.
  revert e; induction ds as [|d ds IH]; intros e; cbn [fold_left].
  - cbn. tauto.
  - rewrite IH, ext_get_unlink. cbn [In]. intuition.
Qed.

Lemma ext_get_link_all e ds i q j :
  In j (ext_get (fold_left (fun e d => ext_link e d i) ds e) q) <->
  In j (ext_get e q) \/ (In q ds /\ j = i).
Proof.
  revert e; induction ds as [|d ds IH]; intros e; cbn [fold_left].
  - cbn. tauto.
  - rewrite IH, ext_get_link. cbn [In]. intuition.
Qed.
