(** C06, remove_if_expression: the boxed form [(c and {r} or {e})[1]], used when the result
    may be falsy.  PARTIAL: proved for results [r], [e] that are literals or local variables
    ("atomic": their evaluation neither allocates nor depends on the table store).  Then the
    values are the same and the final store is the original one plus exactly one unreachable
    table (the box), appended at the end.

    What is missing for arbitrary [r], [e]: the box is allocated BEFORE the result is
    evaluated, so every table the result expression allocates gets an address shifted by one
    in the rewritten program.  Values and stores then agree only up to a renaming of table
    addresses, and relating the two runs needs the frame / renaming property of the whole
    interpreter (an induction over all of Lua/Sem.v) - the "lifting" part of C06 that is not
    proved; the whole-program stream of vlib/c06.py validates those cases per run. *)
From Coq Require Import ZArith NArith List Bool String Lia.
From DL Require Import Lib.Bytes Lib.F64 Lua.Syntax Lua.Sem Model.Evaluator Lua.EvalSpec Lua.EvalSpec2
  Proof.SemFacts Proof.EvaluatorStore Proof.EvaluatorSound Proof.LoweringFuel Proof.LoweringFuelUp Proof.LoweringSoundBasic
  Model.Visit Model.Lowering.
Import ListNotations.
Open Scope N_scope.
Local Notation llen := List.length.

Definition atomic (rho : env) (e : expr) : bool :=
  match e with
  | ENil | ETrue | EFalse | ENumber _ | EString _ => true
  | EIdent x => match lookup rho x with Some _ => true | None => false end
  | _ => false
  end.

Definition atomic_value (rho : env) (cs : list value) (e : expr) : option value :=
  match e with
  | ENil => Some VNil
  | ETrue => Some (VBool true)
  | EFalse => Some (VBool false)
  | ENumber x => Some (VNum (number_value x))
  | EString b => Some (VStr b)
  | EIdent x => match lookup rho x with Some a => nth_N cs (N.to_nat a) | None => None end
  | _ => None
  end.

Lemma atomic_eval d n rho va e s : atomic rho e = true ->
  eval d (S n) rho va e s = match atomic_value rho (cells s) e with Some v => Ok [v] s | None => Unsup 1 end.
Proof.
  destruct e; intros A; try discriminate A; try reflexivity.
  rewrite eval_S_ident. cbn [atomic atomic_value] in *. destruct (lookup rho x); [|discriminate A].
  unfold bind, get_cell. destruct (nth_N (cells s) (N.to_nat n0)); reflexivity.
Qed.

Lemma atomic_single rho e : atomic rho e = true -> can_return_multiple_values e = false.
Proof. destruct e; intros A; try discriminate A; reflexivity. Qed.

Lemma atomic_eval1_inv d n rho va e s v s' : atomic rho e = true ->
  eval1 d n rho va e s = Ok v s' -> s' = s /\ atomic_value rho (cells s) e = Some v.
Proof.
  intros A H. destruct n; [discriminate H|]. rewrite eval1_S in H. unfold bind in H.
  destruct n; [discriminate H|]. rewrite (atomic_eval _ _ _ _ _ _ A) in H.
  destruct (atomic_value rho (cells s) e); [|discriminate H]. cbn [ret first] in H. inversion H. auto.
Qed.

(** the store with one more table at the end *)
Definition with_table (s : store) (t : table) : store :=
  mkStore (cells s) (tables s ++ [t]) (closures s) (trace s) (oracle s) (fresh s).

Definition key_one : value := VNum (of_Z 1).
Definition box_of (v : value) : table :=
  mkTable (match v with VNil => [] | _ => [(key_one, v)] end) None.

Lemma nth_N_last {A} (l : list A) (x : A) : nth_N (l ++ [x]) (N.to_nat (N.of_nat (llen l))) = Some x.
Proof. rewrite Nat2N.id. apply nth_N_length. Qed.

Lemma set_nth_last {A} (l : list A) (x y : A) : set_nth (l ++ [x]) (N.to_nat (N.of_nat (llen l))) y = l ++ [y].
Proof.
  rewrite Nat2N.id. induction l as [|z l IH]; [reflexivity|]. cbn [app List.length set_nth]. rewrite IH. reflexivity.
Qed.

Lemma norm_key_one : norm_key key_one = Some key_one.
Proof. reflexivity. Qed.

Lemma num_one_value : number_value (NDec 4607182418800017408 None) = of_Z 1.
Proof. vm_compute. reflexivity. Qed.

Lemma put_pos_box s v :
  put_pos (N.of_nat (llen (tables s))) 1 v (with_table s (mkTable [] None)) = Ok tt (with_table s (box_of v)).
Proof.
  destruct v; try reflexivity; unfold put_pos, put; fold key_one;
    (erewrite bind_eq; [|unfold get_table; cbn [with_table tables]; rewrite nth_N_last; reflexivity]);
    rewrite norm_key_one; unfold set_table, with_table;
    cbn [tables cells closures trace oracle fresh t_entries t_meta raw_set box_of];
    rewrite set_nth_last; reflexivity.
Qed.

(** [{ e }] for an atomic [e]: allocates the box *)
Lemma eval1_box d k rho va e s v : atomic rho e = true -> atomic_value rho (cells s) e = Some v ->
  eval1 d (5 + k) rho va (ETable [TValue e]) s =
  Ok (VTable (N.of_nat (llen (tables s)))) (with_table s (box_of v)).
Proof.
  intros A V. change (5 + k)%nat with (S (S (S (S (S k))))).
  assert (fill_table d (S (S (S k))) rho va (N.of_nat (llen (tables s))) [TValue e] 1 (with_table s (mkTable [] None))
          = Ok tt (with_table s (box_of v))) as Hfill.
  { rewrite fill_S_last.
    erewrite bind_eq; [|rewrite (atomic_eval _ _ _ _ _ _ A); cbn [with_table cells]; rewrite V; reflexivity].
    cbn [fill_go]. erewrite bind_eq; [|apply put_pos_box]. reflexivity. }
  assert (eval d (S (S (S (S k)))) rho va (ETable [TValue e]) s
          = Ok [VTable (N.of_nat (llen (tables s)))] (with_table s (box_of v))) as Hev.
  { rewrite eval_S_table.
    erewrite bind_eq; [|unfold new_table; reflexivity]. fold (with_table s (mkTable [] None)).
    erewrite bind_eq; [|exact Hfill]. reflexivity. }
  rewrite eval1_S. erewrite bind_eq; [|exact Hev]. reflexivity.
Qed.

Lemma index_box d k s v :
  index d (S (S k)) (VTable (N.of_nat (llen (tables s)))) key_one (with_table s (box_of v)) =
  Ok v (with_table s (box_of v)).
Proof.
  rewrite index_S_table.
  erewrite bind_eq; [|unfold get_table; cbn [with_table tables]; rewrite nth_N_last; reflexivity].
  rewrite norm_key_one.
  destruct v; cbn [box_of t_entries raw_get]; try reflexivity.
  (* nil: not stored; the box has no metatable *)
  assert (metamethod (VTable (N.of_nat (llen (tables s)))) "__index" (with_table s (mkTable [] None))
          = Ok VNil (with_table s (mkTable [] None))) as Hmm.
  { unfold metamethod, metatable_of.
    erewrite bind_eq; [|erewrite bind_eq; [|unfold get_table; cbn [with_table tables]; rewrite nth_N_last; reflexivity];
                        reflexivity].
    reflexivity. }
  erewrite bind_eq; [|exact Hmm]. reflexivity.
Qed.

Lemma eval1_paren_SS d n rho va e s : eval1 d (S (S n)) rho va (EParen e) s = eval1 d n rho va e s.
Proof.
  rewrite eval1_S, eval_S_paren. unfold bind. destruct (eval1 d n rho va e s); reflexivity.
Qed.

Lemma eval1_num_one d k rho va s : eval1 d (2 + k) rho va num_one s = Ok key_one s.
Proof. change (2 + k)%nat with (S (S k)). unfold num_one, key_one. rewrite eval1_S, eval_S_number, <- num_one_value. reflexivity. Qed.

Definition boxed (c r e : expr) : expr :=
  EIndex (EParen (EBinary BOr (EBinary BAnd c (wrap_in_table r)) (wrap_in_table e))) num_one.

Lemma convert_boxed c r e : is_truthy (evaluate r) <> Some true -> convert_if_branch c r e = boxed c r e.
Proof. unfold convert_if_branch, boxed. destruct (is_truthy (evaluate r)) as [[|]|]; try reflexivity. intros H. contradiction H. reflexivity. Qed.

Lemma truthy_table a : truthy (VTable a) = true. Proof. reflexivity. Qed.

Theorem ifexpr_boxed_partial : forall d n rho va c r els s vs s',
  atomic rho r = true -> atomic rho els = true ->
  eval d n rho va (EIf [EBranch c r] els) s = Ok vs s' ->
  exists n' t, eval d n' rho va (boxed c r els) s = Ok vs (with_table s' t) /\ t_meta t = None.
Proof.
  intros d n rho va c r els s vs s' Ar Ae H.
  destruct n as [|n]; [discriminate H|]. rewrite eval_S_if, if_go_cons in H.
  unfold wrap_in_table in *. unfold boxed, wrap_in_table. rewrite (atomic_single _ _ Ar), (atomic_single _ _ Ae).
  apply bind_ok in H as (cv & s0 & Hc & H).
  (* fuel: c at n + 5, the boxes at n + 5 resp. n + 7 *)
  exists (S (S (S (S (S (S (S (n + 5)))))))).
  rewrite eval_S_index. unfold bind at 1. rewrite eval1_paren_SS, eval1_or_S. unfold bind at 1.
  rewrite eval1_and_S. unfold bind at 1.
  rewrite (eval1_up _ _ _ _ _ _ _ _ (n + 5) Hc) by lia.
  destruct (truthy cv) eqn:Tc.
  - apply bind_ok in H as (v & s1 & Hr & H). apply ret_ok in H as [-> ->].
    destruct (atomic_eval1_inv _ _ _ _ _ _ _ _ Ar Hr) as [-> Vr].
    exists (box_of v). split; [|reflexivity].
    replace (n + 5)%nat with (5 + n)%nat by lia.
    rewrite (eval1_box d n rho va r s0 v Ar Vr). cbv beta iota. rewrite truthy_table. cbn [ret].
    unfold bind at 1. rewrite (eval1_num_one d (4 + (5 + n)) rho va). unfold bind at 1.
    change (S (S (S (S (S (S (5 + n)))))))%nat with (S (S (4 + (5 + n))))%nat.
    rewrite index_box. reflexivity.
  - rewrite if_go_nil in H. apply bind_ok in H as (v & s1 & Hr & H). apply ret_ok in H as [-> ->].
    destruct (atomic_eval1_inv _ _ _ _ _ _ _ _ Ae Hr) as [-> Ve].
    exists (box_of v). split; [|reflexivity].
    cbn [ret]. cbv beta iota. rewrite Tc.
    change (S (S (n + 5)))%nat with (2 + (n + 5))%nat. replace (2 + (n + 5))%nat with (5 + (n + 2))%nat by lia.
    rewrite (eval1_box d (n + 2) rho va els s0 v Ae Ve).
    unfold bind at 1. replace (S (S (S (S (5 + (n + 2))))))%nat with (2 + (7 + n + 2))%nat by lia.
    rewrite (eval1_num_one d _ rho va). unfold bind at 1.
    replace (2 + (7 + n + 2))%nat with (S (S (n + 9)))%nat by lia.
    rewrite index_box. reflexivity.
Qed.

(** the rule's output on such an if-expression is that boxed form *)
Corollary ifexpr_boxed_rule_partial : forall d n rho va c r els s vs s',
  is_truthy (evaluate r) <> Some true -> atomic rho r = true -> atomic rho els = true ->
  eval d n rho va (EIf [EBranch c r] els) s = Ok vs s' ->
  exists n' t, eval d n' rho va (rw_if_expression (EIf [EBranch c r] els)) s = Ok vs (with_table s' t) /\
               t_meta t = None.
Proof.
  intros d n rho va c r els s vs s' Hn Ar Ae H. cbn [rw_if_expression fold_right].
  rewrite (convert_boxed _ _ _ Hn). eapply ifexpr_boxed_partial; eauto.
Qed.

Example ifexpr_boxed_example :
  let e := EIf [EBranch (EIdent (of_string "q")) ENil] EFalse in
  is_truthy (evaluate ENil) <> Some true /\ atomic [] ENil = true /\ atomic [] EFalse = true /\
  exists s', eval Luau 9 [] [] e (initial_store []) = Ok [VBool false] s' /\
             eval Luau 16 [] [] (rw_if_expression e) (initial_store []) =
             Ok [VBool false] (with_table s' (mkTable [(key_one, VBool false)] None)).
Proof. split; [discriminate|]. split; [reflexivity|]. split; [reflexivity|]. vm_compute. eexists. split; reflexivity. Qed.
