(** Round-trip theorems for the number writer model ([Model/NumberWrite.v]) against the number
    reader model ([Model/NumberLit.v]): what the writer prints for hexadecimal and binary nodes is
    read back as the same node. *)
From Coq Require Import ZArith NArith List Bool Lia.
From Coq Require Import ZifyBool ZifyN.
From DL Require Import Lib.Bytes Lib.F64 Lua.Syntax Model.NumberLit Model.NumberWrite.
Import ListNotations.
Open Scope N_scope.

Ltac Zify.zify_post_hook ::= Z.div_mod_to_equations.

Arguments N.add : simpl never.
Arguments N.sub : simpl never.
Arguments N.mul : simpl never.
Arguments N.eqb : simpl never.
Arguments N.ltb : simpl never.
Arguments N.leb : simpl never.
Arguments N.div : simpl never.
Arguments N.modulo : simpl never.
Arguments N.pow : simpl never.

(** * digits *)

Lemma digit_char_range d : d < 16 ->
  (48 <= digit_char d /\ digit_char d <= 57) \/ (97 <= digit_char d /\ digit_char d <= 102).
Proof.
  intros H. unfold digit_char. destruct (N.ltb_spec d 10); lia.
Qed.

Lemma digit_val_char radix d : radix <= 16 -> d < radix -> digit_val radix (digit_char d) = Some d.
Proof.
  intros Hr Hd. unfold digit_val, digit_char, lower.
  destruct (N.ltb_spec d 10) as [H|H].
  - assert (E1 : (48 <=? 48 + d) = true) by (apply N.leb_le; lia).
    assert (E2 : (48 + d <=? 57) = true) by (apply N.leb_le; lia).
    rewrite E1, E2. cbn [andb]. replace (48 + d - 48) with d by lia.
    apply N.ltb_lt in Hd. rewrite Hd. reflexivity.
  - assert (E2 : (87 + d <=? 57) = false) by (apply N.leb_gt; lia).
    assert (E3 : (87 + d <=? 90) = false) by (apply N.leb_gt; lia).
    assert (E4 : (97 <=? 87 + d) = true) by (apply N.leb_le; lia).
    assert (E5 : (87 + d <=? 122) = true) by (apply N.leb_le; lia).
    rewrite E2, E3. rewrite !andb_false_r. rewrite E4, E5. cbn [andb].
    replace (87 + d - 87) with d by lia.
    apply N.ltb_lt in Hd. rewrite Hd. reflexivity.
Qed.

Lemma digits_rev_S radix f v :
  digits_rev radix (S f) v =
  if v <? radix then [digit_char v]
  else digit_char (v mod radix) :: digits_rev radix f (v / radix).
Proof. reflexivity. Qed.

Lemma parse_digits_app radix bound l1 l2 : forall acc,
  parse_digits radix bound (l1 ++ l2) acc =
  match parse_digits radix bound l1 acc with
  | Some a => parse_digits radix bound l2 a
  | None => None
  end.
Proof.
  induction l1 as [|c l1 IH]; intros acc; [reflexivity|].
  cbn [app parse_digits]. destruct (digit_val radix c); [|reflexivity].
  destruct (bound <? acc * radix + n); [reflexivity|]. apply IH.
Qed.

Lemma parse_digits_single radix bound d acc : radix <= 16 -> d < radix -> acc * radix + d <= bound ->
  parse_digits radix bound [digit_char d] acc = Some (acc * radix + d).
Proof.
  intros Hr Hd Hb. cbn [parse_digits]. rewrite digit_val_char by assumption.
  destruct (N.ltb_spec bound (acc * radix + d)); [lia|reflexivity].
Qed.

Lemma digits_rev_parse radix bound : 2 <= radix -> radix <= 16 ->
  forall f v, v < 2 ^ N.of_nat f -> v <= bound ->
  parse_digits radix bound (rev (digits_rev radix (S f) v)) 0 = Some v.
Proof.
  intros H2 H16. induction f as [|f IH]; intros v Hv Hb; rewrite digits_rev_S.
  - change (N.of_nat 0) with 0 in Hv. rewrite N.pow_0_r in Hv.
    destruct (N.ltb_spec v radix); [|lia].
    cbn [rev app]. rewrite parse_digits_single by lia. f_equal; lia.
  - destruct (N.ltb_spec v radix) as [Hlt|Hge].
    + cbn [rev app]. rewrite parse_digits_single by lia. f_equal; lia.
    + rewrite Nat2N.inj_succ, N.pow_succ_r' in Hv.
      assert (Hr0 : radix <> 0) by lia.
      pose proof (N.div_mod' v radix) as Hdm.
      pose proof (N.mod_lt v radix Hr0) as Hml.
      assert (Hq : v / radix < 2 ^ N.of_nat f).
      { apply N.div_lt_upper_bound; [assumption|].
        pose proof (N.mul_le_mono_r 2 radix (2 ^ N.of_nat f) H2). lia. }
      assert (Hqv : v / radix <= v).
      { apply N.div_le_upper_bound; [assumption|].
        pose proof (N.mul_le_mono_r 1 radix v ltac:(lia)). lia. }
      cbn [rev]. rewrite parse_digits_app. rewrite IH by lia.
      assert (E : v / radix * radix + v mod radix = v) by (rewrite N.mul_comm; symmetry; exact Hdm).
      rewrite parse_digits_single; [f_equal; exact E|assumption|assumption|rewrite E; assumption].
Qed.

Lemma pos_size_nat_gt p : N.pos p < 2 ^ N.of_nat (Pos.size_nat p).
Proof.
  induction p as [p IH|p IH|]; cbn [Pos.size_nat];
    try (rewrite Nat2N.inj_succ, N.pow_succ_r'; lia).
Qed.

Lemma size_nat_gt v : v < 2 ^ N.of_nat (N.size_nat v).
Proof.
  destruct v as [|p]; [reflexivity|]. apply pos_size_nat_gt.
Qed.

Theorem fmt_radix_parse : forall radix bound v, 2 <= radix -> radix <= 16 -> v <= bound ->
  parse_digits radix bound (fmt_radix radix v) 0 = Some v.
Proof.
  intros radix bound v H2 H16 Hb. unfold fmt_radix.
  apply digits_rev_parse; try assumption. apply size_nat_gt.
Qed.

Theorem fmt_radix_nonempty : forall radix v, fmt_radix radix v <> [].
Proof.
  intros radix v. unfold fmt_radix. rewrite digits_rev_S.
  destruct (v <? radix); cbn [rev]; intros H; symmetry in H; exact (app_cons_not_nil _ _ _ H).
Qed.

Lemma digits_rev_digits radix : 2 <= radix -> radix <= 16 -> forall f v c,
  In c (digits_rev radix f v) ->
  (48 <= c /\ c <= 57) \/ (97 <= c /\ c <= 102).
Proof.
  intros H2 H16. induction f as [|f IH]; intros v c Hin; [destruct Hin|].
  rewrite digits_rev_S in Hin. destruct (N.ltb_spec v radix) as [Hlt|Hge].
  - destruct Hin as [<-|[]]. apply digit_char_range. lia.
  - destruct Hin as [<-|Hin].
    + apply digit_char_range. pose proof (N.mod_lt v radix ltac:(lia)). lia.
    + exact (IH _ _ Hin).
Qed.

Theorem fmt_radix_digits : forall radix v c, 2 <= radix -> radix <= 16 -> In c (fmt_radix radix v) ->
  (48 <= c /\ c <= 57) \/ (97 <= c /\ c <= 102).
Proof.
  intros radix v c H2 H16 Hin. unfold fmt_radix in Hin. apply in_rev in Hin.
  exact (digits_rev_digits radix H2 H16 _ _ _ Hin).
Qed.

(** * the unsigned-integer parsers on the writer's digits *)

Lemma parse_unsigned_cons radix bound c r : c <> 43 ->
  parse_unsigned radix bound (c :: r) = parse_digits radix bound (c :: r) 0.
Proof.
  intros H. unfold parse_unsigned. destruct c as [|p]; [reflexivity|].
  do 6 (try (destruct p as [p|p|]; try reflexivity)).
  congruence.
Qed.

Lemma parse_unsigned_fmt radix bound v : 2 <= radix -> radix <= 16 -> v <= bound ->
  parse_unsigned radix bound (fmt_radix radix v) = Some v.
Proof.
  intros H2 H16 Hb.
  pose proof (fmt_radix_nonempty radix v) as Hne.
  pose proof (fmt_radix_digits radix v) as Hd.
  pose proof (fmt_radix_parse radix bound v H2 H16 Hb) as Hp.
  destruct (fmt_radix radix v) as [|c r]; [congruence|].
  rewrite parse_unsigned_cons; [assumption|].
  specialize (Hd c H2 H16 (or_introl eq_refl)). lia.
Qed.

Lemma pow2_64 : 2 ^ 64 = 18446744073709551616. Proof. reflexivity. Qed.
Lemma pow2_32 : 2 ^ 32 = 4294967296. Proof. reflexivity. Qed.

Lemma parse_u64_radix_fmt radix v : 2 <= radix -> radix <= 16 -> v < 2 ^ 64 ->
  parse_u64_radix radix (fmt_radix radix v) = Some v.
Proof.
  intros H2 H16 Hv. rewrite pow2_64 in Hv. unfold parse_u64_radix.
  apply parse_unsigned_fmt; lia.
Qed.

Lemma parse_u32_fmt e : e < 2 ^ 32 -> parse_u32 (fmt_radix 10 e) = Some e.
Proof.
  intros He. rewrite pow2_32 in He. unfold parse_u32. apply parse_unsigned_fmt; lia.
Qed.

(** * list helpers *)

Lemma filter_underscore_id s : ~ In 95 s -> filter_underscore s = s.
Proof.
  unfold filter_underscore. induction s as [|c s IH]; intros H; [reflexivity|].
  cbn [filter]. destruct (N.eqb_spec c 95) as [->|Hne].
  - exfalso. apply H. left. reflexivity.
  - cbn [negb]. f_equal. apply IH. intros Hin. apply H. right. assumption.
Qed.

Lemma index_of_cons_ne c x s i : x <> c -> index_of c (x :: s) i = index_of c s (S i).
Proof.
  intros H. cbn [index_of]. destruct (N.eqb_spec x c); [contradiction|reflexivity].
Qed.

Lemma index_of_cons_eq c s i : index_of c (c :: s) i = Some i.
Proof. cbn [index_of]. rewrite N.eqb_refl. reflexivity. Qed.

Lemma index_of_app_notin c d t : ~ In c d -> forall i,
  index_of c (d ++ t) i = index_of c t (List.length d + i)%nat.
Proof.
  induction d as [|x d IH]; intros H i; [reflexivity|].
  cbn [app List.length]. rewrite index_of_cons_ne.
  - rewrite IH. + f_equal. lia. + intros Hin. apply H. right. assumption.
  - intros ->. apply H. left. reflexivity.
Qed.

Lemma index_of_notin c s : ~ In c s -> forall i, index_of c s i = None.
Proof.
  induction s as [|x s IH]; intros H i; [reflexivity|].
  rewrite index_of_cons_ne.
  - apply IH. intros Hin. apply H. right. assumption.
  - intros ->. apply H. left. reflexivity.
Qed.

Lemma index_of_value c x d t : 48 <> c -> x <> c -> ~ In c d ->
  index_of c (48 :: x :: d ++ t) 0 = index_of c t (S (S (List.length d))).
Proof.
  intros H1 H2 H3. rewrite !index_of_cons_ne by assumption.
  rewrite index_of_app_notin by assumption. f_equal. lia.
Qed.

Lemma skipn_value (a b p : N) (d e : bytes) :
  skipn (S (S (S (List.length d)))) (a :: b :: d ++ p :: e) = e.
Proof.
  change (skipn (S (List.length d)) (d ++ p :: e) = e).
  induction d as [|x d IH]; [reflexivity|]. exact IH.
Qed.

Lemma firstn_length_app (d t : bytes) : firstn (List.length d) (d ++ t) = d.
Proof.
  induction d as [|x d IH]; [reflexivity|]. cbn [List.length app firstn]. f_equal. exact IH.
Qed.

(** * [from_str] on a text starting with 0x / 0X / 0b / 0B *)

Definition hex_branch (value : bytes) (position : nat) (notation : N) : option number :=
  let idx := match index_of 112 value 0 with
             | Some i => Some (false, i)
             | None => match index_of 80 value 0 with
                       | Some i => Some (true, i)
                       | None => None
                       end
             end in
  match idx with
  | Some (eupper, i) =>
    match parse_u32 (skipn (S i) value),
          parse_u64_radix 16 (firstn (i - S position) (skipn (S position) value)) with
    | Some ex, Some v => Some (NHex v (is_upper notation) (Some (ex, eupper)))
    | _, _ => None
    end
  | None =>
    match parse_u64_radix 16 (filter_underscore (skipn (S position) value)) with
    | Some v => Some (NHex v (is_upper notation) None)
    | None => None
    end
  end.

Lemma from_str_hex (u : bool) rest :
  from_str (48 :: (if u then 88 else 120) :: rest) =
  hex_branch (48 :: (if u then 88 else 120) :: rest) 1 (if u then 88 else 120).
Proof. destruct u; reflexivity. Qed.

Lemma from_str_bin (u : bool) rest :
  from_str (48 :: (if u then 66 else 98) :: rest) =
  match parse_u64_radix 2 (filter_underscore rest) with
  | Some v => Some (NBin v u)
  | None => None
  end.
Proof. destruct u; reflexivity. Qed.

Lemma fmt_radix_notin radix v c : 2 <= radix -> radix <= 16 ->
  ~ ((48 <= c /\ c <= 57) \/ (97 <= c /\ c <= 102)) -> ~ In c (fmt_radix radix v).
Proof.
  intros H2 H16 Hc Hin. apply Hc. exact (fmt_radix_digits radix v c H2 H16 Hin).
Qed.

Theorem write_bin_roundtrip : forall v u, v < 2 ^ 64 ->
  from_str (write_bin v u) = Some (NBin v u).
Proof.
  intros v u Hv. unfold write_bin. rewrite from_str_bin.
  rewrite filter_underscore_id by (apply fmt_radix_notin; lia).
  rewrite parse_u64_radix_fmt by (assumption || lia). reflexivity.
Qed.

Theorem write_hex_roundtrip : forall v u e, v < 2 ^ 64 ->
  (forall ex up, e = Some (ex, up) -> ex < 2 ^ 32) ->
  from_str (write_hex v u e) = Some (NHex v u e).
Proof.
  intros v u e Hv He. unfold write_hex. rewrite from_str_hex. unfold hex_branch.
  assert (Hu : is_upper (if u then 88 else 120) = u) by (destruct u; reflexivity).
  assert (Hx112 : (if u then 88 else 120) <> 112) by (destruct u; discriminate).
  assert (Hx80 : (if u then 88 else 120) <> 80) by (destruct u; discriminate).
  assert (H112 : ~ In 112 (fmt_radix 16 v)) by (apply fmt_radix_notin; lia).
  assert (H80 : ~ In 80 (fmt_radix 16 v)) by (apply fmt_radix_notin; lia).
  assert (H95 : ~ In 95 (fmt_radix 16 v)) by (apply fmt_radix_notin; lia).
  rewrite Hu.
  rewrite (index_of_value 112) by (assumption || discriminate).
  rewrite (index_of_value 80) by (assumption || discriminate).
  destruct e as [[ex up]|].
  - specialize (He ex up eq_refl).
    assert (E112 : ~ In 112 (fmt_radix 10 ex)) by (apply fmt_radix_notin; lia).
    assert (Hi : match index_of 112 ((if up then 80 else 112) :: fmt_radix 10 ex)
                         (S (S (List.length (fmt_radix 16 v)))) with
                 | Some i => Some (false, i)
                 | None => match index_of 80 ((if up then 80 else 112) :: fmt_radix 10 ex)
                                   (S (S (List.length (fmt_radix 16 v)))) with
                           | Some i => Some (true, i)
                           | None => None
                           end
                 end = Some (up, S (S (List.length (fmt_radix 16 v))))).
    { destruct up.
      - rewrite index_of_cons_ne by discriminate. rewrite index_of_notin by assumption.
        rewrite index_of_cons_eq. reflexivity.
      - rewrite index_of_cons_eq. reflexivity. }
    rewrite Hi. rewrite skipn_value. rewrite parse_u32_fmt by assumption.
    cbn [skipn].
    replace (S (S (List.length (fmt_radix 16 v))) - 2)%nat with (List.length (fmt_radix 16 v)) by lia.
    rewrite firstn_length_app. rewrite parse_u64_radix_fmt by (assumption || lia). reflexivity.
  - cbn [index_of skipn]. rewrite app_nil_r. rewrite filter_underscore_id by assumption.
    rewrite parse_u64_radix_fmt by (assumption || lia). reflexivity.
Qed.

(** * decimal integer nodes *)

From Coq Require Import Floats.SpecFloat.
From DL Require Import Proof.EvaluatorF64.
Open Scope N_scope.

Lemma digit_char_dec d : d < 10 -> 48 <= digit_char d /\ digit_char d <= 57.
Proof. intros H. unfold digit_char. destruct (N.ltb_spec d 10); lia. Qed.

Lemma digits_rev_dec_digits : forall f v c, In c (digits_rev 10 f v) -> 48 <= c /\ c <= 57.
Proof.
  induction f as [|f IH]; intros v c Hin; [destruct Hin|].
  rewrite digits_rev_S in Hin. destruct (N.ltb_spec v 10) as [Hlt|Hge].
  - destruct Hin as [<-|[]]. apply digit_char_dec. lia.
  - destruct Hin as [<-|Hin].
    + apply digit_char_dec. lia.
    + exact (IH _ _ Hin).
Qed.

Lemma fmt_radix_dec_digits v c : In c (fmt_radix 10 v) -> 48 <= c /\ c <= 57.
Proof.
  intros Hin. unfold fmt_radix in Hin. apply in_rev in Hin. exact (digits_rev_dec_digits _ _ _ Hin).
Qed.

Lemma take_digits_app l l2 : forall acc n a k, take_digits l acc n = (a, k, []) ->
  take_digits (l ++ l2) acc n = take_digits l2 a k.
Proof.
  induction l as [|c l IH]; intros acc n a k H.
  - cbn [take_digits] in H. injection H as <- <-. reflexivity.
  - cbn [app take_digits] in *. destruct (is_digit c).
    + apply IH. exact H.
    + discriminate.
Qed.

Lemma take_digits_single d a k : d < 10 ->
  take_digits [digit_char d] a k = ((a * 10 + Z.of_N d)%Z, (k + 1)%Z, []).
Proof.
  intros H. cbn [take_digits]. unfold is_digit, digit_char. destruct (N.ltb_spec d 10); [|lia].
  replace ((48 <=? 48 + d) && (48 + d <=? 57)) with true
    by (symmetry; apply andb_true_iff; split; apply N.leb_le; lia).
  replace (48 + d - 48) with d by lia. reflexivity.
Qed.

Lemma digits_rev_take : forall f v, v < 2 ^ N.of_nat f ->
  exists k, (0 < k)%Z /\ take_digits (rev (digits_rev 10 (S f) v)) 0 0 = (Z.of_N v, k, []).
Proof.
  induction f as [|f IH]; intros v Hv; rewrite digits_rev_S.
  - change (N.of_nat 0) with 0 in Hv. rewrite N.pow_0_r in Hv.
    destruct (N.ltb_spec v 10); [|lia].
    cbn [rev app]. rewrite take_digits_single by lia. exists (0 + 1)%Z. split; [lia|].
    do 2 f_equal; lia.
  - destruct (N.ltb_spec v 10) as [Hlt|Hge].
    + cbn [rev app]. rewrite take_digits_single by lia. exists (0 + 1)%Z. split; [lia|].
      do 2 f_equal; lia.
    + rewrite Nat2N.inj_succ, N.pow_succ_r' in Hv.
      destruct (IH (v / 10)) as [k [Hk Ht]]; [lia|].
      cbn [rev]. rewrite (take_digits_app _ _ _ _ _ _ Ht).
      rewrite take_digits_single by lia. exists (k + 1)%Z. split; [lia|].
      do 2 f_equal; lia.
Qed.

Definition decimal_branch (value : bytes) : option number :=
    if prefix_b [46; 95] value then None
    else
      let idx := match index_of 101 value 0 with
                 | Some i => Some (false, i)
                 | None => match index_of 69 value 0 with
                           | Some i => Some (true, i)
                           | None => None
                           end
                 end in
      match idx with
      | Some (upper, i) =>
        if find_sub [95; 45] value || find_sub [95; 43] value then None
        else
          match parse_i64 (filter_underscore (skipn (S i) value)),
                parse_f64 (filter_underscore (firstn i value)),
                parse_f64 (filter_underscore value) with
          | Some ex, Some _, Some x => Some (NDec (to_bits x) (Some (ex, upper)))
          | _, _, _ => None
          end
      | None =>
        match parse_f64 (filter_underscore value) with
        | Some x => Some (NDec (to_bits x) None)
        | None => None
        end
      end.

Lemma nth_non_underscore_in : forall s k p pos c,
  nth_non_underscore s k p = Some (pos, c) -> In c s.
Proof.
  induction s as [|a s IH]; intros k p pos c H; cbn [nth_non_underscore] in H; [discriminate|].
  destruct (a =? 95).
  - right. eapply IH. exact H.
  - destruct k.
    + injection H as _ <-. left. reflexivity.
    + right. eapply IH. exact H.
Qed.

Lemma from_str_decimal value : (forall c, In c value -> c = 45 \/ (48 <= c /\ c <= 57)) ->
  from_str value = decimal_branch value.
Proof.
  intros H. unfold from_str, decimal_branch. cbv beta zeta.
  match goal with |- match ?b with true => _ | false => _ end = _ => destruct b end;
    [|reflexivity].
  destruct (nth_non_underscore value 1 0) as [[pos nota]|] eqn:E; [|reflexivity].
  apply nth_non_underscore_in in E. apply H in E.
  replace (nota =? 120) with false by (symmetry; apply N.eqb_neq; lia).
  replace (nota =? 88) with false by (symmetry; apply N.eqb_neq; lia).
  replace (nota =? 98) with false by (symmetry; apply N.eqb_neq; lia).
  replace (nota =? 66) with false by (symmetry; apply N.eqb_neq; lia).
  reflexivity.
Qed.

Definition parse_f64_rest (neg : bool) (u : bytes) : option f64 :=
  if bytes_eqb (lower_bytes u) (of_string "inf") || bytes_eqb (lower_bytes u) (of_string "infinity")
  then Some (S754_infinity neg)
  else if bytes_eqb (lower_bytes u) (of_string "nan") then Some S754_nan
  else
    let '(ip, ni, r1) := take_digits u 0 0 in
    let '(mant, nf, r2) :=
      match r1 with
      | 46 :: r => let '(m, nf, r') := take_digits r ip 0 in (m, nf, r')
      | _ => (ip, 0%Z, r1)
      end in
    if (ni + nf =? 0)%Z then None
    else
      let finish (ex : Z) : option f64 := Some (of_decimal_c neg mant (ex - nf)) in
      match r2 with
      | [] => finish 0%Z
      | c :: r3 =>
        if (c =? 101) || (c =? 69) then
          let '(eneg, r4) := match r3 with
                             | 45 :: r => (true, r)
                             | 43 :: r => (false, r)
                             | _ => (false, r3)
                             end in
          let '(ex, ne, r5) := take_digits r4 0 0 in
          if (ne =? 0)%Z then None
          else match r5 with
               | [] => finish (if eneg then - ex else ex)%Z
               | _ => None
               end
        else None
      end.

Lemma parse_f64_rest_digits (neg : bool) (u : bytes) (a k : Z) :
  bytes_eqb (lower_bytes u) (of_string "inf") || bytes_eqb (lower_bytes u) (of_string "infinity") = false ->
  bytes_eqb (lower_bytes u) (of_string "nan") = false ->
  take_digits u 0 0 = (a, k, []) -> (0 < k)%Z ->
  parse_f64_rest neg u = Some (of_decimal_c neg a 0).
Proof.
  intros H1 H2 Ht Hk. unfold parse_f64_rest. rewrite H1, H2, Ht. cbv beta iota zeta.
  destruct (Z.eqb_spec (k + 0) 0); [lia|]. reflexivity.
Qed.

Lemma parse_f64_digit_head (c : N) (r : bytes) (neg : bool) (a k : Z) : 48 <= c /\ c <= 57 ->
  take_digits (c :: r) 0 0 = (a, k, []) -> (0 < k)%Z ->
  parse_f64 ((if neg then [45] else []) ++ c :: r) = Some (of_decimal_c neg a 0).
Proof.
  intros Hc Ht Hk.
  assert (Hc' : c = 48 \/ c = 49 \/ c = 50 \/ c = 51 \/ c = 52 \/ c = 53 \/ c = 54 \/ c = 55 \/
                c = 56 \/ c = 57) by lia.
  transitivity (parse_f64_rest neg (c :: r)).
  { destruct neg; [reflexivity|]. cbn [app].
    repeat (destruct Hc' as [->|Hc']; [reflexivity|]). subst c. reflexivity. }
  apply (parse_f64_rest_digits neg (c :: r) a k); try assumption.
  - repeat (destruct Hc' as [->|Hc']; [reflexivity|]). subst c. reflexivity.
  - repeat (destruct Hc' as [->|Hc']; [reflexivity|]). subst c. reflexivity.
Qed.

Lemma parse_f64_dec_int neg m :
  parse_f64 (write_dec_int neg m) = Some (of_decimal_c neg (Z.of_N m) 0).
Proof.
  unfold write_dec_int.
  destruct (digits_rev_take (N.size_nat m) m (size_nat_gt m)) as [k [Hk Ht]].
  fold (fmt_radix 10 m) in Ht.
  pose proof (fmt_radix_dec_digits m) as HD. pose proof (fmt_radix_nonempty 10 m) as Hne.
  destruct (fmt_radix 10 m) as [|c r]; [congruence|].
  apply (parse_f64_digit_head c r neg _ k); try assumption.
  apply HD. left. reflexivity.
Qed.

Lemma ndigits_fuel_pos : forall f n, (1 <= ndigits_fuel f n)%Z.
Proof.
  induction f as [|f IH]; intros n; cbn [ndigits_fuel]; [lia|].
  destruct (n <? 10)%Z; [lia|]. specialize (IH (n / 10)%Z). lia.
Qed.

Lemma of_decimal_c_int neg m :
  of_decimal_c neg (Z.of_N m) 0 = if neg then fneg (of_N m) else of_N m.
Proof.
  unfold of_decimal_c.
  assert (E : clampZ (-400 - ndigits (Z.of_N m)) 400 0 = 0%Z).
  { unfold clampZ, ndigits. pose proof (ndigits_fuel_pos (S (Z.to_nat (Z.log2 (Z.of_N m)))) (Z.of_N m)). lia. }
  rewrite E. destruct m as [|p].
  - destruct neg; reflexivity.
  - cbn [Z.of_N].
    change (of_decimal neg (Z.pos p) 0)
      with (fnorm (if neg then - (Z.pos p * 10 ^ 0) else Z.pos p * 10 ^ 0)%Z 0 neg).
    rewrite Z.pow_0_r, Z.mul_1_r. destruct neg.
    + rewrite fneg_of_N. reflexivity.
    + reflexivity.
Qed.

Lemma prefix_b_46_notin p value : ~ In 46 value -> prefix_b (46 :: p) value = false.
Proof.
  destruct value as [|c r]; intros H; [reflexivity|]. cbn [prefix_b].
  destruct (N.eqb_spec 46 c) as [<-|Hne]; [|reflexivity]. exfalso. apply H. left. reflexivity.
Qed.

Theorem write_dec_int_reads_value : forall neg m, m < 2 ^ 53 ->
  exists bits, from_str (write_dec_int neg m) = Some (NDec bits None) /\
               of_bits bits = (if neg then fneg (of_N m) else of_N m).
Proof.
  intros neg m _. exists (to_bits (of_decimal_c neg (Z.of_N m) 0)). split.
  - assert (Hval : forall c, In c (write_dec_int neg m) -> c = 45 \/ (48 <= c /\ c <= 57)).
    { unfold write_dec_int. intros c Hin. apply in_app_or in Hin. destruct Hin as [Hin|Hin].
      - destruct neg; [destruct Hin as [<-|[]]; left; reflexivity|destruct Hin].
      - right. apply fmt_radix_dec_digits with (v := m). exact Hin. }
    assert (Hnot : forall c, ~ (c = 45 \/ (48 <= c /\ c <= 57)) -> ~ In c (write_dec_int neg m)).
    { intros c Hc Hin. apply Hc. apply Hval. exact Hin. }
    rewrite from_str_decimal by exact Hval. unfold decimal_branch.
    rewrite prefix_b_46_notin by (apply Hnot; lia).
    rewrite (index_of_notin 101) by (apply Hnot; lia).
    rewrite (index_of_notin 69) by (apply Hnot; lia).
    cbv beta iota zeta.
    rewrite filter_underscore_id by (apply Hnot; lia).
    rewrite parse_f64_dec_int. reflexivity.
  - rewrite of_to_bits by apply valid_of_decimal_c. apply of_decimal_c_int.
Qed.

Print Assumptions fmt_radix_parse.
Print Assumptions fmt_radix_nonempty.
Print Assumptions fmt_radix_digits.
Print Assumptions write_hex_roundtrip.
Print Assumptions write_bin_roundtrip.
Print Assumptions write_dec_int_reads_value.
