(** Facts about [Model/TokenGen.v]: the generator's line bookkeeping is sound, tokens are
    never written before their recorded line and exactly on it when there is room (C04);
    a lossless token sequence is written back as the source unless two glued pieces trip
    the space check (C03). *)
From DL Require Import Lib.Bytes Model.CommentText Model.TokenGen Proof.CommentTextFacts.
Require Import Lia ZArith ZifyBool ZifyN ZifyNat.
Open Scope N_scope.
Local Notation length := List.length.
Arguments N.eqb : simpl never.
Arguments N.leb : simpl never.
Arguments N.ltb : simpl never.

(** * Lists *)

Lemma count_lf_app a b : count_lf (a ++ b) = (count_lf a + count_lf b)%nat.
Proof. unfold count_lf, count_b. rewrite filter_app, app_length. reflexivity. Qed.

Lemma count_lf_repeat n : count_lf (repeat 10 n) = n.
Proof.
  unfold count_lf, count_b. induction n as [|n IH]; [reflexivity|].
  cbn [repeat filter]. rewrite N.eqb_refl. cbn [length]. rewrite IH. reflexivity.
Qed.

Lemma count_lf_nil : count_lf [] = 0%nat.
Proof. reflexivity. Qed.

Lemma firstn_slice : forall a b (s : bytes), (a <= b)%nat -> (b <= length s)%nat ->
  firstn a s ++ slice s a b = firstn b s.
Proof.
  unfold slice. induction a as [|a IH]; intros b s Hab Hb.
  - cbn [firstn skipn app]. rewrite Nat.sub_0_r. reflexivity.
  - destruct s as [|x s]; [cbn [length] in Hb; lia|].
    destruct b as [|b]; [lia|]. cbn [firstn skipn app length] in *.
    replace (S b - S a)%nat with (b - a)%nat by lia. f_equal. apply IH; lia.
Qed.

Lemma firstn_all_eq (s : bytes) : firstn (length s) s = s.
Proof. apply firstn_all. Qed.

Lemma firstn_S_nth : forall k (s : bytes) x, nth_error s k = Some x ->
  firstn (S k) s = firstn k s ++ [x].
Proof.
  induction k as [|k IH]; intros [|y s] x H; cbn [nth_error] in H; try discriminate.
  - injection H as ->. reflexivity.
  - cbn [firstn app]. f_equal. apply (IH s x H).
Qed.

Lemma last_byte_snoc (l : bytes) x : last_byte (l ++ [x]) = Some x.
Proof.
  induction l as [|c l IH]; [reflexivity|]. cbn [app last_byte].
  destruct (l ++ [x]) eqn:E; [destruct l; discriminate|]. exact IH.
Qed.

Lemma last_byte_firstn : forall a (s : bytes), (0 < a)%nat -> (a <= length s)%nat ->
  last_byte (firstn a s) = nth_error s (a - 1).
Proof.
  intros a s Ha Hl. destruct a as [|k]; [lia|]. replace (S k - 1)%nat with k by lia.
  destruct (nth_error s k) as [x|] eqn:E.
  - rewrite (firstn_S_nth k s x E). apply last_byte_snoc.
  - apply nth_error_None in E. lia.
Qed.

Lemma slice_cons : forall a b (s : bytes), (a < b)%nat -> (b <= length s)%nat ->
  exists x t, slice s a b = x :: t /\ nth_error s a = Some x.
Proof.
  unfold slice. induction a as [|a IH]; intros b s Hab Hb.
  - destruct s as [|x s]; [cbn [length] in Hb; lia|]. destruct b as [|b]; [lia|].
    exists x, (firstn b s). split; reflexivity.
  - destruct s as [|x s]; [cbn [length] in Hb; lia|]. destruct b as [|b]; [lia|].
    cbn [skipn nth_error length] in *. replace (S b - S a)%nat with (b - a)%nat by lia.
    apply IH; lia.
Qed.

Lemma slice_empty a (s : bytes) : slice s a a = [].
Proof. unfold slice. rewrite Nat.sub_diag. reflexivity. Qed.

(** * The line counter is the line of the output *)

Definition line_inv (st : gstate) : Prop := g_line st = out_line st.

Lemma line_inv_init : line_inv g_init.
Proof. reflexivity. Qed.

Lemma line_inv_push_str st s : line_inv st -> line_inv (push_str st s).
Proof. unfold line_inv, out_line, push_str. cbn [g_line g_out]. rewrite count_lf_app. lia. Qed.

Lemma line_inv_push_space st : line_inv st -> line_inv (push_space st).
Proof.
  unfold line_inv, out_line, push_space. cbn [g_line g_out]. rewrite count_lf_app.
  change (count_lf [32]) with 0%nat. lia.
Qed.

Lemma line_inv_uncomment st : line_inv st -> line_inv (uncomment st).
Proof.
  unfold line_inv, out_line, uncomment. cbn [g_line g_out]. rewrite count_lf_app.
  change (count_lf [10]) with 1%nat. lia.
Qed.

Lemma line_inv_pad st l : line_inv st -> line_inv (pad_to st l).
Proof.
  unfold line_inv, out_line, pad_to. cbn [g_line g_out]. rewrite count_lf_app, count_lf_repeat. lia.
Qed.

Lemma line_inv_set st b : line_inv st -> line_inv (set_commenting st b).
Proof. unfold line_inv, out_line, set_commenting. cbn [g_line g_out]. tauto. Qed.

Lemma line_inv_bump st : line_inv st -> line_inv (if g_commenting st then uncomment st else st).
Proof. intros H. destruct (g_commenting st); [apply line_inv_uncomment|]; exact H. Qed.

Lemma line_inv_step st p : line_inv st -> line_inv (step st p).
Proof.
  intros H. destruct p as [k c|c l sc|s sc|s]; cbn [step].
  - unfold write_trivia. destruct k.
    + destruct (is_single_line_comment c).
      * apply line_inv_set, line_inv_push_str, H.
      * apply line_inv_push_str, line_inv_bump, H.
    + match goal with |- line_inv (if ?b then _ else _) => destruct b end;
        [apply line_inv_set|]; apply line_inv_push_str, H.
  - unfold write_token. destruct c as [|x t]; [exact H|].
    apply line_inv_push_str.
    assert (H1 := line_inv_bump st H).
    set (st1 := if g_commenting st then uncomment st else st) in *.
    assert (H2 : line_inv (match l with Some l0 => pad_to st1 l0 | None => st1 end)).
    { destruct l; [apply line_inv_pad|]; exact H1. }
    match goal with |- line_inv (if ?b then _ else _) => destruct b end;
      [apply line_inv_push_space|]; exact H2.
  - unfold write_symbol. apply line_inv_push_str.
    destruct (g_commenting st); [apply line_inv_uncomment, H|].
    destruct sc; [|exact H]. destruct s as [|x t]; [exact H|].
    destruct (needs_space st x); [apply line_inv_push_space|]; exact H.
  - apply line_inv_push_str, H.
Qed.

(** line and flag after one step, as the static accounting predicts *)

Lemma bump_line st : g_line (if g_commenting st then uncomment st else st) = bump (g_commenting st) (g_line st).
Proof. destruct (g_commenting st); reflexivity. Qed.

Lemma bump_flag st : g_commenting (if g_commenting st then uncomment st else st) = false.
Proof. destruct (g_commenting st) eqn:E; [reflexivity|exact E]. Qed.

Lemma token_state st x t l sc :
  let st1 := if g_commenting st then uncomment st else st in
  let st2 := match l with Some l0 => pad_to st1 l0 | None => st1 end in
  g_line (write_token st (x :: t) l sc) = (g_line st2 + count_lf (x :: t))%nat /\
  g_commenting (write_token st (x :: t) l sc) = false.
Proof.
  intros st1 st2. unfold write_token. fold st1. fold st2.
  assert (Hf : g_commenting st2 = false).
  { unfold st2. destruct l; cbn [pad_to g_commenting]; apply bump_flag. }
  destruct (sc && needs_space st2 x); cbn [push_str push_space g_line g_commenting]; split; auto.
Qed.

(** * C04: tokens never land before their line, and exactly on it when the lines fit *)

Theorem lines_never_early : forall ps st, line_inv st ->
  Forall (fun lw => (fst lw <= snd lw)%nat) (placements st ps).
Proof.
  induction ps as [|p r IH]; intros st H; cbn [placements]; [constructor|].
  apply Forall_app. split; [|apply IH, line_inv_step, H].
  destruct p as [k c|c l sc|s sc|s]; cbn [placement]; try constructor.
  destruct c as [|x t]; [constructor|]. destruct l as [l|]; [|constructor].
  constructor; [|constructor]. cbn [fst snd].
  assert (H1 := line_inv_pad _ l (line_inv_bump st H)). unfold line_inv in H1. rewrite <- H1.
  cbn [pad_to g_line]. lia.
Qed.

Theorem lines_kept_from : forall ps st, line_inv st ->
  lines_fit (g_line st) (g_commenting st) ps = true ->
  Forall (fun lw => snd lw = fst lw) (placements st ps).
Proof.
  induction ps as [|p r IH]; intros st H Hfit; cbn [placements]; [constructor|].
  apply Forall_app.
  destruct p as [k c|c l sc|s sc|s]; cbn [placement lines_fit] in *.
  - split; [constructor|]. apply IH; [apply line_inv_step, H|].
    cbn [step]. unfold write_trivia. destruct k.
    + destruct (is_single_line_comment c); cbn [set_commenting push_str g_line g_commenting].
      * exact Hfit.
      * rewrite bump_line, bump_flag. exact Hfit.
    + cbn [push_str g_commenting g_line].
      destruct (g_commenting st) eqn:Ec; cbn [andb] in *; [destruct (has_lf c)|];
        cbn [andb negb set_commenting push_str g_line g_commenting] in *; rewrite ?Ec; exact Hfit.
  - destruct c as [|x t].
    + split; [constructor|]. apply IH; [apply line_inv_step, H|exact Hfit].
    + destruct (token_state st x t l sc) as [E1 E2]. cbn zeta in E1.
      destruct l as [l|].
      * apply andb_true_iff in Hfit as [Hle Hfit]. apply Nat.leb_le in Hle.
        assert (Hpad : g_line (pad_to (if g_commenting st then uncomment st else st) l) = l).
        { cbn [pad_to g_line]. rewrite bump_line. lia. }
        split.
        -- constructor; [|constructor]. cbn [fst snd].
           assert (H1 := line_inv_pad _ l (line_inv_bump st H)). unfold line_inv in H1.
           rewrite <- H1. exact Hpad.
        -- apply IH; [apply line_inv_step, H|]. cbn [step]. rewrite E1, E2, Hpad. exact Hfit.
      * split; [constructor|]. apply IH; [apply line_inv_step, H|].
        cbn [step]. rewrite E1, E2, bump_line. exact Hfit.
  - split; [constructor|]. apply IH; [apply line_inv_step, H|].
    cbn [step]. unfold write_symbol.
    destruct (g_commenting st) eqn:Ec; cbn [bump] in Hfit.
    + cbn [push_str uncomment g_line g_commenting]. exact Hfit.
    + assert (Hs : forall st', g_line st' = g_line st -> g_commenting st' = false ->
                   lines_fit (g_line (push_str st' s)) (g_commenting (push_str st' s)) r = true).
      { intros st' A B. cbn [push_str g_line g_commenting]. rewrite A, B. exact Hfit. }
      destruct sc; [|apply Hs; [reflexivity|exact Ec]].
      destruct s as [|x t]; [apply Hs; [reflexivity|exact Ec]|].
      destruct (needs_space st x); apply Hs; try reflexivity; exact Ec.
  - split; [constructor|]. apply IH; [apply line_inv_step, H|]. exact Hfit.
Qed.

Theorem lines_kept : forall ps, lines_fit 1 false ps = true ->
  Forall (fun lw => snd lw = fst lw) (placements g_init ps).
Proof. intros ps H. apply lines_kept_from; [apply line_inv_init|exact H]. Qed.

(** shifting every recorded line by [k] keeps the fit when [k] more lines were written first *)
Theorem lines_fit_shift : forall k ps cur cm, lines_fit cur cm ps = true ->
  lines_fit (cur + k) cm (map (shift_piece k) ps) = true.
Proof.
  intros k. induction ps as [|p r IH]; intros cur cm H; [reflexivity|].
  destruct p as [kd c|c l sc|s sc|s]; cbn [map shift_piece lines_fit] in *.
  - destruct kd.
    + destruct (is_single_line_comment c).
      * replace (cur + k + count_lf c)%nat with (cur + count_lf c + k)%nat by lia. apply IH, H.
      * replace (bump cm (cur + k) + count_lf c)%nat with (bump cm cur + count_lf c + k)%nat
          by (destruct cm; cbn [bump]; lia). apply IH, H.
    + replace (cur + k + count_lf c)%nat with (cur + count_lf c + k)%nat by lia. apply IH, H.
  - destruct c as [|x t].
    + destruct l; cbn [lines_fit]; apply IH, H.
    + destruct l as [l|]; cbn [lines_fit].
      * apply andb_true_iff in H as [Hle H]. apply Nat.leb_le in Hle. apply andb_true_iff. split.
        -- apply Nat.leb_le. destruct cm; cbn [bump] in *; lia.
        -- replace (l + k + count_lf (x :: t))%nat with (l + count_lf (x :: t) + k)%nat by lia. apply IH, H.
      * replace (bump cm (cur + k) + count_lf (x :: t))%nat with (bump cm cur + count_lf (x :: t) + k)%nat
          by (destruct cm; cbn [bump]; lia). apply IH, H.
  - replace (bump cm (cur + k) + count_lf s)%nat with (bump cm cur + count_lf s + k)%nat
      by (destruct cm; cbn [bump]; lia). apply IH, H.
  - replace (cur + k + count_lf s)%nat with (cur + count_lf s + k)%nat by lia. apply IH, H.
Qed.

(** append_text_comment at the start: the comment, a line break, every token shifted by the
    number of lines inserted: everything still fits *)
Theorem shift_uniform : forall c ps, lines_fit 1 false ps = true ->
  lines_fit 1 false (RTrivia KComment c :: RTrivia KWhitespace [10]
                     :: map (shift_piece (S (count_lf c))) ps) = true.
Proof.
  intros c ps H. cbn [lines_fit].
  change (has_lf [10]) with true. change (count_lf [10]) with 1%nat.
  destruct (is_single_line_comment c); cbn [bump andb negb].
  - replace (1 + count_lf c + 1)%nat with (1 + S (count_lf c))%nat by lia. apply lines_fit_shift, H.
  - replace (1 + count_lf c + 1)%nat with (1 + S (count_lf c))%nat by lia. apply lines_fit_shift, H.
Qed.

(** [Token::shift_token_line] on a token shifts exactly the resolved token piece *)
Lemma read_shift src k p : read src (shift_position k p) = read src p.
Proof. destruct p; reflexivity. Qed.

Lemma line_of_shift k p : line_of (shift_position k p) = option_map (fun l => (l + k)%nat) (line_of p).
Proof. destruct p; reflexivity. Qed.

Theorem resolve_shift : forall src k t sc ps,
  resolve_event src (EToken t sc) = Some ps ->
  exists l c r, ps = l ++ RToken c (line_of (tk_pos t)) sc :: r /\
    Forall (fun p => match p with RTrivia _ _ => True | _ => False end) (l ++ r) /\
    resolve_event src (EToken (shift_token k t) sc) =
      Some (l ++ RToken c (option_map (fun n => (n + k)%nat) (line_of (tk_pos t))) sc :: r).
Proof.
  intros src k t sc ps H. cbn [resolve_event] in *.
  destruct (resolve_trivias src (tk_leading t)) as [l|] eqn:El; [|discriminate].
  destruct (read src (tk_pos t)) as [c|] eqn:Ec; [|discriminate].
  destruct (resolve_trivias src (tk_trailing t)) as [r|] eqn:Er; [|discriminate].
  injection H as <-. exists l, c, r. split; [reflexivity|]. split.
  - assert (Ht : forall tl out, resolve_trivias src tl = Some out ->
              Forall (fun p => match p with RTrivia _ _ => True | _ => False end) out).
    { induction tl as [|x tl IH]; intros out E; cbn [resolve_trivias] in E.
      - injection E as <-. constructor.
      - unfold resolve_trivia in E. destruct (read src (tr_pos x)); cbn [option_map] in E; [|discriminate].
        destruct (resolve_trivias src tl); [|discriminate]. injection E as <-.
        constructor; [exact I|apply IH; reflexivity]. }
    apply Forall_app. split; [apply (Ht _ _ El)|apply (Ht _ _ Er)].
  - cbn [shift_token tk_leading tk_pos tk_trailing]. rewrite El, Er, read_shift, Ec, line_of_shift. reflexivity.
Qed.

(** * C03: a lossless token sequence is written back as the source *)

Lemma pad_to_noop st l : (l <= g_line st)%nat -> pad_to st l = st.
Proof.
  intros H. unfold pad_to. replace (l - g_line st)%nat with 0%nat by lia.
  cbn [repeat]. rewrite app_nil_r. rewrite Nat.max_l by lia. destruct st; reflexivity.
Qed.

Lemma run_tiles : forall src lps st from,
  tiles (length src) from lps = true ->
  g_out st = firstn from src -> line_inv st ->
  lines_true src lps = true -> no_adjacent_break src lps = true ->
  cm_ok (g_commenting st) (map (lp_resolve src) lps) = true ->
  g_out (run st (map (lp_resolve src) lps)) = src.
Proof.
  intros src. induction lps as [|p r IH]; intros st from Ht Ho Hl Hlt Hnb Hcm.
  - cbn [tiles] in Ht. apply Nat.eqb_eq in Ht. subst from. cbn [map run fold_left].
    rewrite Ho. apply firstn_all.
  - cbn [tiles] in Ht. apply andb_true_iff in Ht as [Ht Hr]. apply andb_true_iff in Ht as [Ht Hb].
    apply andb_true_iff in Ht as [Ha Hab]. apply Nat.eqb_eq in Ha. apply Nat.leb_le in Hab. apply Nat.leb_le in Hb.
    cbn [lines_true forallb] in Hlt. apply andb_true_iff in Hlt as [Hlt1 Hlt].
    cbn [no_adjacent_break forallb] in Hnb. apply andb_true_iff in Hnb as [Hnb1 Hnb].
    cbn [map]. unfold run. cbn [fold_left]. fold (run (step st (lp_resolve src p)) (map (lp_resolve src) r)).
    assert (Hcat : g_out st ++ slice src (lp_start p) (lp_stop p) = firstn (lp_stop p) src).
    { rewrite Ho, <- Ha. apply firstn_slice; assumption. }
    cbn [map cm_ok] in Hcm. unfold lp_resolve in Hcm at 1. unfold lp_resolve at 1.
    destruct (lp_kind p) as [k|sc] eqn:Ek.
    + (* trivia *)
      cbn [step]. unfold write_trivia. destruct k.
      * destruct (is_single_line_comment (slice src (lp_start p) (lp_stop p))).
        -- apply (IH _ (lp_stop p)); [exact Hr| |apply line_inv_set, line_inv_push_str, Hl|exact Hlt|exact Hnb|exact Hcm].
           cbn [set_commenting push_str g_out]. exact Hcat.
        -- apply andb_true_iff in Hcm as [Hc Hcm]. apply negb_true_iff in Hc. rewrite Hc.
           apply (IH _ (lp_stop p)); [exact Hr| |apply line_inv_push_str, Hl|exact Hlt|exact Hnb|].
           ++ cbn [push_str g_out]. exact Hcat.
           ++ cbn [push_str g_commenting]. rewrite Hc. exact Hcm.
      * set (c := slice src (lp_start p) (lp_stop p)) in *.
        apply (IH _ (lp_stop p)); [exact Hr| | |exact Hlt|exact Hnb|].
        -- destruct (g_commenting (push_str st c) && has_lf c); cbn [set_commenting push_str g_out]; exact Hcat.
        -- destruct (g_commenting (push_str st c) && has_lf c); [apply line_inv_set|]; apply line_inv_push_str, Hl.
        -- cbn [push_str g_commenting].
           destruct (g_commenting st) eqn:Ec; cbn [andb] in *; [destruct (has_lf c)|];
             cbn [andb negb set_commenting push_str g_commenting] in *; rewrite ?Ec; exact Hcm.
    + (* token *)
      cbn [step].
      destruct (Nat.eq_dec (lp_start p) (lp_stop p)) as [Heq|Hne].
      * rewrite Heq in *. rewrite slice_empty in *. cbn [write_token].
        apply (IH _ (lp_stop p)); [exact Hr| |exact Hl|exact Hlt|exact Hnb|exact Hcm].
        rewrite Ho, <- Ha. reflexivity.
      * destruct (slice_cons (lp_start p) (lp_stop p) src) as [x [t [Es Ex]]]; [lia|exact Hb|].
        rewrite Es in *. apply andb_true_iff in Hcm as [Hc Hcm]. apply negb_true_iff in Hc.
        unfold write_token. rewrite Hc.
        apply Nat.eqb_eq in Hlt1. unfold true_line in Hlt1.
        assert (Hline : (lp_line p <= g_line st)%nat).
        { unfold line_inv, out_line in Hl. rewrite Hl, Ho, <- Ha, Hlt1. lia. }
        rewrite (pad_to_noop st _ Hline).
        assert (Hsp : sc && needs_space st x = false).
        { destruct sc; [|reflexivity]. cbn [andb].
          unfold adjacent_break in Hnb1. rewrite Ek in Hnb1. apply negb_true_iff in Hnb1.
          unfold needs_space. rewrite Ho, <- Ha.
          destruct (lp_start p) as [|a'] eqn:Ea.
          - reflexivity.
          - rewrite last_byte_firstn by lia.
            assert (E1 : Nat.ltb (S a') (lp_stop p) = true) by (apply Nat.ltb_lt; lia).
            assert (E2 : Nat.ltb 0 (S a') = true) by (apply Nat.ltb_lt; lia).
            rewrite E1, E2 in Hnb1. cbn [andb] in Hnb1. rewrite Ex in Hnb1.
            destruct (nth_error src (S a' - 1)); [exact Hnb1|reflexivity]. }
        rewrite Hsp.
        apply (IH _ (lp_stop p)); [exact Hr| |apply line_inv_push_str, Hl|exact Hlt|exact Hnb|].
        -- cbn [push_str g_out]. exact Hcat.
        -- cbn [push_str g_commenting]. rewrite Hc. exact Hcm.
Qed.

(** resolving a laid-out sequence whose ranges are inside the source *)
Definition in_range (len : nat) (p : lpiece) : Prop := (lp_start p <= lp_stop p)%nat /\ (lp_stop p <= len)%nat.

Lemma tiles_in_range : forall len lps from, tiles len from lps = true -> Forall (in_range len) lps.
Proof.
  intros len. induction lps as [|p r IH]; intros from H; [constructor|].
  cbn [tiles] in H. apply andb_true_iff in H as [H Hr]. apply andb_true_iff in H as [H Hb].
  apply andb_true_iff in H as [_ Hab]. apply Nat.leb_le in Hab. apply Nat.leb_le in Hb.
  constructor; [split; assumption|apply (IH _ Hr)].
Qed.

Lemma read_in_range src a b l : (a <= b)%nat -> (b <= length src)%nat -> read src (Ref a b l) = Some (slice src a b).
Proof.
  intros H1 H2. cbn [read]. apply Nat.leb_le in H1. apply Nat.leb_le in H2. rewrite H1, H2. reflexivity.
Qed.

Lemma resolve_layout_trivias src : forall l lps, layout_trivias l = Some lps ->
  Forall (in_range (length src)) lps -> resolve_trivias src l = Some (map (lp_resolve src) lps).
Proof.
  induction l as [|t l IH]; intros lps H Hr; cbn [layout_trivias] in H.
  - injection H as <-. reflexivity.
  - unfold layout_trivia in H. destruct (tr_pos t) as [a b ln| |] eqn:Ep; try discriminate.
    destruct (layout_trivias l) as [ps|] eqn:El; [|discriminate]. injection H as <-.
    inversion Hr as [|? ? [H1 H2] Hr']; subst. cbn [lp_start lp_stop] in *.
    cbn [resolve_trivias]. unfold resolve_trivia. rewrite Ep, (read_in_range _ _ _ _ H1 H2).
    cbn [option_map]. rewrite (IH ps eq_refl Hr'). reflexivity.
Qed.

Lemma resolve_layout src : forall evs lps, layout evs = Some lps ->
  Forall (in_range (length src)) lps -> resolve_all src evs = Some (map (lp_resolve src) lps).
Proof.
  induction evs as [|e evs IH]; intros lps H Hr; cbn [layout] in H.
  - injection H as <-. reflexivity.
  - destruct (layout_event e) as [pe|] eqn:Ee; [|discriminate].
    destruct (layout evs) as [ps|] eqn:El; [|discriminate]. injection H as <-.
    apply Forall_app in Hr as [Hr1 Hr2].
    cbn [resolve_all]. rewrite (IH ps eq_refl Hr2). rewrite map_app.
    destruct e as [t sc| |]; cbn [layout_event] in Ee; try discriminate.
    destruct (layout_trivias (tk_leading t)) as [l|] eqn:E1; [|discriminate].
    destruct (tk_pos t) as [a b ln| |] eqn:Ep; try discriminate.
    destruct (layout_trivias (tk_trailing t)) as [r|] eqn:E2; [|discriminate].
    injection Ee as <-. apply Forall_app in Hr1 as [Hl Hr1]. inversion Hr1 as [|? ? [H1 H2] Hr1']; subst.
    cbn [lp_start lp_stop] in *.
    cbn [resolve_event]. rewrite (resolve_layout_trivias src _ _ E1 Hl), (resolve_layout_trivias src _ _ E2 Hr1').
    rewrite Ep, (read_in_range _ _ _ _ H1 H2). cbn [line_of]. rewrite map_app. reflexivity.
Qed.

Theorem identity : forall src evs lps,
  layout evs = Some lps ->
  tiles (length src) 0 lps = true ->
  lines_true src lps = true ->
  cm_ok false (map (lp_resolve src) lps) = true ->
  no_adjacent_break src lps = true ->
  generate src evs = Some src.
Proof.
  intros src evs lps Hlay Ht Hl Hcm Hnb. unfold generate.
  rewrite (resolve_layout src evs lps Hlay (tiles_in_range _ _ _ Ht)). cbn [option_map]. f_equal.
  apply (run_tiles src lps g_init 0); try assumption; reflexivity.
Qed.

(** ** the adjacent-break hypothesis is necessary: "return a[b[c]]" as recorded from darklua *)
Definition witness_src : bytes := of_string "return a[b[c]]".
Definition witness_evs : list event :=
  [EToken (mk_token (Ref 0 6 1) [] [mk_trivia KWhitespace (Ref 6 7 1)]) true;
   EToken (mk_token (Ref 7 8 1) [] []) true;
   EToken (mk_token (Ref 8 9 1) [] []) true;
   EToken (mk_token (Ref 9 10 1) [] []) true;
   EToken (mk_token (Ref 10 11 1) [] []) true;
   EToken (mk_token (Ref 11 12 1) [] []) true;
   EToken (mk_token (Ref 12 13 1) [] []) true;
   EToken (mk_token (Ref 13 14 1) [] []) true]%nat.

Theorem identity_refuted : exists src evs lps,
  layout evs = Some lps /\
  tiles (length src) 0 lps = true /\
  lines_true src lps = true /\
  cm_ok false (map (lp_resolve src) lps) = true /\
  no_adjacent_break src lps = false /\
  generate src evs <> Some src.
Proof.
  exists witness_src, witness_evs. eexists. split; [vm_compute; reflexivity|].
  repeat split; try (vm_compute; reflexivity). vm_compute. discriminate.
Qed.

Example identity_refuted_output :
  generate witness_src witness_evs = Some (of_string "return a[b[c] ]").
Proof. vm_compute. reflexivity. Qed.

Theorem lines_kept_needs_room : exists ps, lines_fit 1 false ps = false /\
  placements g_init ps = [(1, 2)]%nat.
Proof.
  exists [RTrivia KComment (of_string "--c"); RToken (of_string "x") (Some 1%nat) true].
  vm_compute. split; reflexivity.
Qed.

(** * C18: the line break after a line comment is the generator's job *)

(** after a comment that the generator classifies as a line comment, the next non-empty token
    starts on a new line, whatever its recorded line and spacing flag *)
Theorem line_comment_then_token : forall st c x t l sc, is_single_line_comment c = true ->
  exists rest, g_out (write_token (write_trivia st KComment c) (x :: t) l sc) = g_out st ++ c ++ 10 :: rest.
Proof.
  intros st c x t l sc H. unfold write_trivia. rewrite H. unfold write_token.
  cbn [set_commenting push_str g_commenting].
  set (s1 := mk_gstate ((g_out st ++ c) ++ [10]) false (S (g_line st + count_lf c))).
  assert (E : uncomment (set_commenting (push_str st c) true) = s1) by reflexivity.
  rewrite E. clear E.
  destruct l as [l|]; [destruct (sc && needs_space (pad_to s1 l) x)|destruct (sc && needs_space s1 x)];
    cbn [push_str push_space pad_to g_out]; unfold s1; cbn [g_out g_line];
    eexists; rewrite <- !app_assoc; cbn [app]; reflexivity.
Qed.

Theorem line_comment_then_symbol : forall st c x t sc, is_single_line_comment c = true ->
  exists rest, g_out (write_symbol (write_trivia st KComment c) (x :: t) sc) = g_out st ++ c ++ 10 :: rest.
Proof.
  intros st c x t sc H. unfold write_trivia. rewrite H. unfold write_symbol.
  cbn [set_commenting push_str g_commenting uncomment g_out g_line].
  eexists. rewrite <- !app_assoc. cbn [app]. reflexivity.
Qed.

(** the same for every comment that the REFERENCE lexer reads as a short comment: the generator's
    classification agrees with it (since /repo commit fc507f0; before, "--[a[" glued the next token) *)
Theorem reference_line_comment_then_token : forall st t x r l sc, long_open t = None ->
  exists rest, g_out (write_token (write_trivia st KComment (45 :: 45 :: t)) (x :: r) l sc)
               = g_out st ++ (45 :: 45 :: t) ++ 10 :: rest.
Proof.
  intros st t x r l sc H. apply line_comment_then_token.
  unfold is_single_line_comment. rewrite CommentTextFacts.classifier_agrees, H. reflexivity.
Qed.

Example formerly_misclassified_comment :
  let c := of_string "--[a[" in
  g_out (run g_init [RToken [49] (Some 1%nat) true; RTrivia KComment c; RToken [59] (Some 1%nat) true])
    = [49] ++ c ++ [10; 59].
Proof. vm_compute. reflexivity. Qed.

(** a raw push ([push_str("...")], the variadic type pack) is not preceded by the break either *)
Theorem raw_push_swallowed :
  let c := of_string "--c" in
  is_single_line_comment c = true /\
  g_out (run g_init [RToken [40] (Some 1%nat) true; RTrivia KComment c; RRaw [46; 46; 46]])
    = [40] ++ c ++ [46; 46; 46].
Proof. vm_compute. split; reflexivity. Qed.

(** and trivia is written without any spacing check: a "-" token followed by a comment *)
Theorem minus_glued_to_comment :
  let c := of_string "-- c" in
  g_out (run g_init [RToken [97] (Some 1%nat) true; RToken [45] (Some 1%nat) true; RTrivia KComment c])
    = of_string "a--- c" /\
  lex_comment (of_string "--- c") = Some 5%nat.
Proof. vm_compute. split; reflexivity. Qed.
