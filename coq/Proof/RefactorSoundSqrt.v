(** C16, convert_square_root_call: [math.sqrt(e)] -> [e ^ 0.5].

    On numbers [pow(x, 0.5)] and [sqrt(x)] agree except for [-0] ([sqrt]: [-0], [pow]: [+0]) and
    [-inf] ([sqrt]: nan, [pow]: [+inf]) - Lib/F64.v [fpow] models exactly these special cases of C's
    [pow].  [sqrt_sound] is proved under that carve-out, [sqrt_refuted] is the witness for [-0]
    (recorded finding: known_findings.txt convert_square_root_call:negative-zero-or-negative-infinity). *)
From Coq Require Import ZArith NArith List Bool String Lia.
From Coq Require Import Floats.SpecFloat.
From DL Require Import Lib.Bytes Lib.F64 Lua.Syntax Lua.Sem Lua.EvalSpec.
From DL Require Import Model.Removal Model.Refactor Model.DefaultRules.
From DL Require Import Proof.SemFacts Proof.EvaluatorF64 Proof.EvaluatorStore Proof.DefaultRulesSem Proof.RefactorSem.
Import ListNotations.
Open Scope N_scope.

Definition half_f : f64 := S754_finite false 4503599627370496 (-53).

Lemma half_is : half = ENumber (NDec (to_bits half_f) None).
Proof. vm_compute. reflexivity. Qed.

Lemma half_value : number_value (NDec (to_bits half_f) None) = half_f.
Proof. vm_compute. reflexivity. Qed.

Definition neg_zero : f64 := S754_zero true.
Definition neg_inf : f64 := S754_infinity true.

(** * numbers *)

Theorem fpow_half_sqrt x :
  valid x -> x <> neg_zero -> x <> neg_inf -> fpow x half_f = Some (fsqrt x).
Proof.
  intros Hv Hz Hi. unfold fpow.
  change (is_zero half_f) with false. cbv iota.
  destruct (same_f64 x fone) eqn:E1.
  - apply (to_bits_inj x fone Hv valid_fone) in E1. subst x. vm_compute. reflexivity.
  - destruct x as [sg|sg| |sg mx ex]; cbn [is_nan orb]; change (is_nan half_f) with false; cbv iota.
    + change (same_f64 half_f (S754_finite false 4503599627370496 (-53))) with true. cbv iota.
      destruct sg; [exfalso; apply Hz; reflexivity|reflexivity].
    + change (same_f64 half_f (S754_finite false 4503599627370496 (-53))) with true. cbv iota.
      destruct sg; [exfalso; apply Hi; reflexivity|reflexivity].
    + reflexivity.
    + change (same_f64 half_f (S754_finite false 4503599627370496 (-53))) with true. cbv iota.
      destruct sg; reflexivity.
Qed.

Theorem fpow_half_neg_zero : fpow neg_zero half_f = Some fzero /\ fsqrt neg_zero = neg_zero.
Proof. split; reflexivity. Qed.

Theorem fpow_half_neg_inf : fpow neg_inf half_f = Some (S754_infinity false) /\ fsqrt neg_inf = S754_nan.
Proof. split; reflexivity. Qed.

(** * the call *)

(** the global [math] is the library table and its [sqrt] the builtin (the rule only checks
    that no LOCAL named [math] is in scope) *)
Definition math_pristine (s : store) : Prop :=
  exists tg am tm,
    nth_N (tables s) (N.to_nat A_globals) = Some tg /\
    raw_get (t_entries tg) (VStr nm_math) = VTable am /\
    nth_N (tables s) (N.to_nat am) = Some tm /\
    raw_get (t_entries tm) (VStr nm_sqrt) = VBuiltin B_sqrt.

Definition sqrt_call (e : expr) : expr := ECall (EField (EIdent nm_math) nm_sqrt) None (ATuple [e]).

Lemma rw_sqrt_call sc e : in_scope nm_math sc = false -> rw_sqrt sc (sqrt_call e) = EBinary BPow e half.
Proof. intros H. unfold rw_sqrt, sqrt_call, is_math_sqrt_call. cbn [args_len List.length Nat.eqb andb]. rewrite H. reflexivity. Qed.

Section Sqrt.
Variable d : dialect.

Lemma math_sqrt_lookup k rho va s :
  lookup rho nm_math = None -> math_pristine s -> (5 <= k)%nat ->
  eval1 d k rho va (EField (EIdent nm_math) nm_sqrt) s = Ok (VBuiltin B_sqrt) s.
Proof.
  intros Hl (tg & am & tm & Hg & Hm & Ht & Hs) L.
  assert (Hr : reads rho nm_math s (VTable am)).
  { unfold reads. rewrite Hl. exists tg. split; [exact Hg|]. rewrite Hm. split; [left; discriminate|reflexivity]. }
  assert (Hi : forall j, index d (S j) (VTable am) (VStr nm_sqrt) s = Ok (VBuiltin B_sqrt) s).
  { intros j. rewrite (index_raw_hit d _ am (VStr nm_sqrt) s tm Ht); cbn [norm_key]; rewrite Hs; [reflexivity|discriminate]. }
  destruct k as [|[|[|k]]]; try lia.
  rewrite eval1_S. eapply bind_ok_intro.
  { rewrite eval_S_field. eapply bind_ok_intro; [apply (reads_eval1 d _ _ _ _ _ _ Hr); lia|].
    eapply bind_ok_intro; [apply Hi|reflexivity]. }
  reflexivity.
Qed.

(** [math.sqrt(e)] -> [e ^ 0.5]: same values, same store, whenever the original runs without
    error and its argument is not [-0] / [-inf] *)
Theorem sqrt_sound n rho va e s r s' :
  lookup rho nm_math = None -> math_pristine s ->
  eval d n rho va (sqrt_call e) s = Ok r s' ->
  (forall k vs s1 x, eval d k rho va e s = Ok vs s1 -> tonum (first vs) = Some x ->
                     valid x /\ x <> neg_zero /\ x <> neg_inf) ->
  forall k, (n + 4 <= k)%nat -> eval d k rho va (EBinary BPow e half) s = Ok r s'.
Proof.
  intros Hl Hm H Hx k L.
  destruct n as [|n]; [discriminate|]. unfold sqrt_call in H. rewrite eval_S_call in H. inv_ok H.
  pose proof (eval1_up d _ (n + 5) _ _ _ _ _ _ H0 ltac:(lia)) as H0'.
  rewrite (math_sqrt_lookup (n + 5) rho va s Hl Hm ltac:(lia)) in H0'. inversion H0'; subst a s0. clear H0 H0'.
  rename a0 into args, H into Hargs, H2 into Hcall.
  destruct n as [|n]; [discriminate|].
  rewrite eval_args_S_tuple in Hargs. destruct n as [|n]; [discriminate|]. rewrite eval_list_S_one in Hargs.
  rewrite call_S_builtin, call_builtin_S_sqrt in Hcall.
  replace (arg args 0) with (first args) in Hcall by (destruct args; reflexivity).
  destruct (tonum (first args)) as [x|] eqn:Ex; [|discriminate Hcall].
  unfold num_result in Hcall. inv_ok Hcall. subst r s'.
  destruct (Hx _ _ _ _ Hargs Ex) as (Hv & Hz & Hi).
  destruct k as [|[|[|k]]]; try lia.
  rewrite eval_S_binop by reflexivity.
  eapply bind_ok_intro.
  { rewrite eval1_S. eapply bind_ok_intro; [eapply eval_up; [exact Hargs|lia]|reflexivity]. }
  eapply bind_ok_intro.
  { rewrite half_is, eval1_S, eval_S_number. reflexivity. }
  cbn [first]. unfold binop_sem. eapply bind_ok_intro.
  { rewrite arith_S, Ex, half_value. cbn [tonum arith_num]. rewrite (fpow_half_sqrt x Hv Hz Hi). reflexivity. }
  reflexivity.
Qed.

End Sqrt.

(** satisfiable hypotheses: [math.sqrt(4)] in the initial store *)
Definition four : expr := ENumber (NDec (to_bits (of_Z 4)) None).

Example sqrt_example :
  math_pristine (initial_store []) /\
  eval L51 9 [] [] (sqrt_call four) (initial_store []) = Ok [VNum (of_Z 2)] (initial_store []) /\
  eval L51 13 [] [] (EBinary BPow four half) (initial_store []) = Ok [VNum (of_Z 2)] (initial_store []).
Proof.
  split.
  - exists (nth 0 initial_tables (mkTable [] None)), A_math, (nth 1 initial_tables (mkTable [] None)).
    repeat split; reflexivity.
  - split; vm_compute; reflexivity.
Qed.

(** the carve-out is necessary: [math.sqrt(-0)] is [-0], [(-0) ^ 0.5] is [+0] *)
Definition minus_zero_lit : expr := ENumber (NDec (to_bits neg_zero) None).

Theorem sqrt_refuted : exists dl e rho va s r1 r2 s1 s2,
  lookup rho nm_math = None /\ math_pristine s /\
  rw_sqrt [] (sqrt_call e) = EBinary BPow e half /\
  eval dl 9 rho va (sqrt_call e) s = Ok r1 s1 /\
  eval dl 13 rho va (EBinary BPow e half) s = Ok r2 s2 /\
  r1 = [VNum neg_zero] /\ r2 = [VNum fzero] /\ r1 <> r2.
Proof.
  exists L51, minus_zero_lit, [], [], (initial_store []), [VNum neg_zero], [VNum fzero],
         (initial_store []), (initial_store []).
  split; [reflexivity|]. split.
  { exists (nth 0 initial_tables (mkTable [] None)), A_math, (nth 1 initial_tables (mkTable [] None)).
    repeat split; reflexivity. }
  split; [reflexivity|]. split; [vm_compute; reflexivity|]. split; [vm_compute; reflexivity|].
  split; [reflexivity|]. split; [reflexivity|]. discriminate.
Qed.
