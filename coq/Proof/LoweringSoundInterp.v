(** C06, remove_interpolated_string: the one-segment form [`{v}`] => [tostring(v)] (either
    strategy).  The [string.format] forms (several segments) have no local theorem: they go
    through the format-string interpreter of the library, validated per run only. *)
From Coq Require Import ZArith NArith List Bool String Lia.
From DL Require Import Lib.Bytes Lib.F64 Lua.Syntax Lua.Sem Proof.SemFacts Proof.EvaluatorStore Proof.LoweringFuel
  Proof.LoweringFuelUp Proof.LoweringSoundBasic Proof.LoweringSoundArith Model.Visit Model.Lowering.
Import ListNotations.
Open Scope N_scope.

(** the global [tostring] is the builtin *)
Definition tostring_bound (s : store) : Prop :=
  exists g, nth_N (tables s) (N.to_nat A_globals) = Some g /\
            raw_get (t_entries g) (VStr (lnm "tostring")) = VBuiltin B_tostring.

Lemma initial_store_tostring orc : tostring_bound (initial_store orc).
Proof. exists (nth 0 initial_tables (mkTable [] None)). split; reflexivity. Qed.

Lemma call_builtin_tostring d k args :
  call_builtin d (S k) B_tostring args = (v <- tostr d k (arg args 0) ;; ret [v]).
Proof. reflexivity. Qed.

Lemma arg0_first vs : arg vs 0 = first vs.
Proof. destruct vs; reflexivity. Qed.

Lemma eval1_tostring d k rho va s : lookup rho (lnm "tostring") = None -> tostring_bound s ->
  eval1 d (3 + k) rho va (EIdent (lnm "tostring")) s = Ok (VBuiltin B_tostring) s.
Proof.
  intros Hl (g & Hg & Ht). change (3 + k)%nat with (S (S (S k))).
  assert (eval d (S (S k)) rho va (EIdent (lnm "tostring")) s = Ok [VBuiltin B_tostring] s) as He.
  { rewrite eval_S_ident, Hl.
    erewrite bind_eq; [|apply (index_found d k A_globals (VStr (lnm "tostring")) g (VBuiltin B_tostring) s Hg eq_refl Ht);
                        discriminate].
    reflexivity. }
  rewrite eval1_S. erewrite bind_eq; [|exact He]. reflexivity.
Qed.

Theorem interp_single_sound : forall st d n rho va v s vs s',
  lookup rho (lnm "tostring") = None -> tostring_bound s ->
  eval d n rho va (EInterp [ISExpr v]) s = Ok vs s' ->
  exists n', eval d n' rho va (rw_interpolated_string st (EInterp [ISExpr v])) s = Ok vs s'.
Proof.
  intros st d n rho va v s vs s' Hl Hb H.
  destruct n as [|n]; [discriminate H|]. rewrite eval_S_interp, interp_go_expr in H.
  apply bind_ok in H as (x & s1 & Hx & H). apply bind_ok in H as (sv & s2 & Hsv & H).
  destruct sv; try discriminate H. rewrite interp_go_nil in H. apply ret_ok in H as [-> ->].
  destruct n as [|n]; [discriminate Hx|]. rewrite eval1_S in Hx.
  apply bind_ok in Hx as (xs & s3 & Hxs & Hx). apply ret_ok in Hx as [-> ->].
  cbn [rw_interpolated_string]. unfold call_tostring.
  exists (S (3 + S n)). rewrite eval_S_call_plain.
  erewrite bind_eq; [|apply (eval1_tostring d (S n) rho va s Hl Hb)].
  change (3 + S n)%nat with (S (S (S (S n)))).
  erewrite bind_eq; [|rewrite eval_args_S_tuple, eval_list_S_one; apply (eval_up _ _ _ _ _ _ _ _ (S (S n)) Hxs); lia].
  rewrite call_S_builtin, call_builtin_tostring, arg0_first.
  erewrite bind_eq; [|eapply tostr_mono; [|exact Hsv]; lia]. reflexivity.
Qed.

Example interp_single_example :
  let e := EInterp [ISExpr (ENumber (NDec 4607182418800017408 None))] in
  lookup [] (lnm "tostring") = None /\ tostring_bound (initial_store []) /\
  rw_interpolated_string false e = ECall (EIdent (lnm "tostring")) None (ATuple [ENumber (NDec 4607182418800017408 None)]) /\
  exists s', eval Luau 5 [] [] e (initial_store []) = Ok [VStr [49]] s' /\
             eval Luau 9 [] [] (rw_interpolated_string false e) (initial_store []) = Ok [VStr [49]] s'.
Proof.
  split; [reflexivity|]. split; [apply initial_store_tostring|]. split; [reflexivity|].
  vm_compute. eexists. split; reflexivity.
Qed.
