(** C16, group_local_assignment: [local vars1 = vals1  local vars2 = vals2] is merged into
    [local vars1, vars2 = merge_values ...] when [should_merge vars1 vals1 vals2].

    In the reference interpreter the two programs differ in WHEN the cells of [vars1] are
    allocated (before / after the evaluation of [vals2]) and in the environment [vals2] is
    evaluated in (with / without the bindings of [vars1]).  EXACT equality of the final
    environment and store therefore holds when evaluating [vals2] neither depends on nor changes
    the cell list: [group_local_sound_partial] proves it for the class [frame_simple] of second
    initialisers (literals, [...], locals of the enclosing scope, under parentheses / type casts
    / [not]).  [group_local_exact_refuted_call] shows that exact equality fails for a second
    initialiser that allocates a cell (the returned values agree, the stores do not):
    observational equivalence of whole programs is validated per run, not proved here.
    [group_local_unguarded_refuted] and [group_local_mention_refuted] show that both guards of
    [should_merge] are necessary. *)
From Coq Require Import ZArith NArith List Bool String Lia.
From DL Require Import Lib.Bytes Lib.F64 Lua.Syntax Lua.Sem Lua.EvalSpec.
From DL Require Import Model.Removal Model.Refactor.
From DL Require Import Proof.SemFacts Proof.EvaluatorStore Proof.DefaultRulesSem Proof.RefactorSem.
Import ListNotations.
Open Scope N_scope.
Local Notation llen := List.length.

(** the class of second initialisers covered by the theorem *)
Fixpoint frame_simple (rho : env) (e : expr) : bool :=
  match e with
  | ENil | ETrue | EFalse | ENumber _ | EString _ | EVarArgs => true
  | EIdent y => match lookup rho y with Some _ => true | None => false end
  | EParen e' => frame_simple rho e'
  | ETypeCast e' _ => frame_simple rho e'
  | EUnary UNot e' => frame_simple rho e'
  | _ => false
  end.

(** * lists of values *)

Lemma arg_nil i : arg [] i = VNil.
Proof. unfold arg. destruct i; reflexivity. Qed.

Lemma arg_tl vs i : arg (tl vs) i = arg vs (S i).
Proof. unfold arg. destruct vs; [destruct i; reflexivity|reflexivity]. Qed.

Lemma arg_first vs : arg vs 0 = first vs.
Proof. destruct vs; reflexivity. Qed.

Lemma arg_repeat_nil q i : arg (repeat VNil q) i = VNil.
Proof. unfold arg. revert i. induction q as [|q IH]; intros [|i]; cbn [repeat nth]; auto. Qed.

Lemma arg_app_l (a b : list value) i : (i < llen a)%nat -> arg (a ++ b) i = arg a i.
Proof. intros L. unfold arg. apply app_nth1. exact L. Qed.

Lemma arg_app_r (a b : list value) i : arg (a ++ b) (llen a + i) = arg b i.
Proof. unfold arg. apply app_nth2_plus. Qed.

Lemma arg_skipn (l : list value) n i : arg (skipn n l) i = arg l (n + i).
Proof.
  unfold arg. revert l. induction n as [|n IH]; intros l; [reflexivity|].
  destruct l as [|x l]; [destruct i; reflexivity|]. cbn [skipn Nat.add nth]. apply IH.
Qed.

(** * allocation of the locals *)

Definition add_cells (s : store) (extra : list value) : store :=
  mkStore (cells s ++ extra) (tables s) (closures s) (trace s) (oracle s) (fresh s).

Lemma add_cells_nil s : add_cells s [] = s.
Proof. destruct s. unfold add_cells. cbn. rewrite app_nil_r. reflexivity. Qed.

Lemma add_cells_add s a b : add_cells (add_cells s a) b = add_cells s (a ++ b).
Proof. unfold add_cells. cbn. rewrite app_assoc. reflexivity. Qed.

Lemma new_cell_add v s : new_cell v s = Ok (N.of_nat (llen (cells s))) (add_cells s [v]).
Proof. reflexivity. Qed.

Lemma local_go_nil vs acc : local_go [] vs acc = ret acc. Proof. reflexivity. Qed.
Lemma local_go_cons p ps vs acc :
  local_go (p :: ps) vs acc = (a <- new_cell (arg vs 0) ;; local_go ps (tl vs) ((param_name p, a) :: acc)).
Proof. reflexivity. Qed.

(** the new bindings hide only the declared names, the store only gets new cells *)
Lemma local_go_spec vars : forall vs acc s rho' s',
  local_go vars vs acc s = Ok rho' s' ->
  (exists extra, s' = add_cells s extra) /\
  (forall y, is_target (map param_name vars) y = false -> lookup rho' y = lookup acc y).
Proof.
  induction vars as [|p ps IH]; intros vs acc s rho' s' H.
  - rewrite local_go_nil in H. apply ret_ok in H as [-> ->]. split; [exists []; symmetry; apply add_cells_nil|auto].
  - rewrite local_go_cons in H. apply bind_ok in H as (a & s1 & Ha & Hb).
    rewrite new_cell_add in Ha. inversion Ha; subst a s1. clear Ha.
    apply IH in Hb as [(extra & ->) Hl]. split.
    + eexists. apply add_cells_add.
    + intros y Hy. unfold is_target in *. cbn [map existsb] in Hy. apply orb_false_elim in Hy as [Hy1 Hy2].
      rewrite (Hl y Hy2). cbn [lookup]. rewrite Hy1. reflexivity.
Qed.

(** only the first [|vars|] values matter *)
Lemma local_go_ext vars : forall vs vs' acc s,
  (forall i, (i < llen vars)%nat -> arg vs i = arg vs' i) ->
  local_go vars vs acc s = local_go vars vs' acc s.
Proof.
  induction vars as [|p ps IH]; intros vs vs' acc s H; [reflexivity|].
  rewrite !local_go_cons. rewrite (H 0%nat) by (cbn [List.length]; lia).
  apply bind_eq. intros a s1 _. apply IH. intros i L. rewrite !arg_tl. apply H. cbn [List.length]. lia.
Qed.

Lemma local_go_app vars1 vars2 : forall vs acc s rho1 s1 rho2 s2,
  local_go vars1 vs acc s = Ok rho1 s1 ->
  local_go vars2 (skipn (llen vars1) vs) rho1 s1 = Ok rho2 s2 ->
  local_go (vars1 ++ vars2) vs acc s = Ok rho2 s2.
Proof.
  induction vars1 as [|p ps IH]; intros vs acc s rho1 s1 rho2 s2 H1 H2.
  - rewrite local_go_nil in H1. apply ret_ok in H1 as [-> ->]. exact H2.
  - cbn [app]. rewrite local_go_cons in *. apply bind_ok in H1 as (a & sa & Ha & Hb).
    eapply bind_ok_intro; [exact Ha|]. eapply IH; [exact Hb|].
    replace (skipn (llen ps) (tl vs)) with (skipn (llen (p :: ps)) vs); [exact H2|].
    cbn [List.length]. destruct vs; [destruct (llen ps); reflexivity|reflexivity].
Qed.

Section Group.
Variable d : dialect.
Variable va : list value.

(** * (a), (b): [frame_simple] expressions do not see the new cells nor the new bindings *)

Section Frame.
Variable xs : list name.            (* the names declared by the first statement *)
Variable rho1 rho : env.            (* with / without their bindings *)
Variable s1 : store.
Variable extra : list value.
Hypothesis Hrho : forall y, is_target xs y = false -> lookup rho1 y = lookup rho y.
Hypothesis Hin : forall y c, lookup rho y = Some c -> (N.to_nat c < llen (cells s1))%nat.

Lemma get_cell_frame c v s3 : (N.to_nat c < llen (cells s1))%nat ->
  get_cell c (add_cells s1 extra) = Ok v s3 -> s3 = add_cells s1 extra /\ get_cell c s1 = Ok v s1.
Proof.
  intros L H. pose proof (get_cell_ok _ _ _ _ H) as ->. split; [reflexivity|].
  unfold get_cell in *. cbn [cells add_cells] in H.
  destruct (nth_N (cells s1) (N.to_nat c)) as [w|] eqn:E.
  - rewrite (nth_N_app_l _ extra _ _ E) in H. inversion H; subst. reflexivity.
  - exfalso. clear H. revert E L. generalize (N.to_nat c). generalize (cells s1).
    induction l as [|x l IH]; intros [|k] E L; cbn [List.length nth_N] in *; try lia; try discriminate.
    apply (IH k E). lia.
Qed.

Lemma frame_eval e : frame_simple rho e = true -> ment_expr xs e = false ->
  forall k vs s3, eval d k rho1 va e (add_cells s1 extra) = Ok vs s3 ->
  s3 = add_cells s1 extra /\ eval d k rho va e s1 = Ok vs s1.
Proof.
  induction e as [ | | | nb | str | segs | | x | p IHp f | p IHp ky IHk | p IHp m a | f | bs els IHels
                 | e' IH | ens | op e' IH | op l IHl r IHr | e' IH t | p IHp tys ];
    cbn [frame_simple]; intros Hq Hm k vs s3 H; try discriminate Hq;
    (destruct k as [|k]; [discriminate|]).
  - rewrite eval_S_nil in *. apply ret_ok in H as [-> ->]. auto.
  - rewrite eval_S_true in *. apply ret_ok in H as [-> ->]. auto.
  - rewrite eval_S_false in *. apply ret_ok in H as [-> ->]. auto.
  - rewrite eval_S_number in *. apply ret_ok in H as [-> ->]. auto.
  - rewrite eval_S_string in *. apply ret_ok in H as [-> ->]. auto.
  - rewrite eval_S_varargs in *. apply ret_ok in H as [-> ->]. auto.
  - rewrite eval_S_ident in *. cbn [ment_expr] in Hm. rewrite (Hrho x Hm) in H.
    destruct (lookup rho x) as [c|] eqn:El; [|discriminate].
    apply bind_ok in H as (v & sv & Hc & Hret). apply ret_ok in Hret as [-> ->].
    apply (get_cell_frame c v sv (Hin x c El)) in Hc as [-> Hc]. split; [reflexivity|].
    eapply bind_ok_intro; [exact Hc|reflexivity].
  - rewrite eval_S_paren in *. cbn [ment_expr] in Hm.
    apply bind_ok in H as (v & sv & H1 & Hret). apply ret_ok in Hret as [-> ->].
    destruct k as [|k]; [discriminate|]. rewrite eval1_S in *.
    apply bind_ok in H1 as (vs1 & s2 & H1 & Hret). apply ret_ok in Hret as [-> ->].
    destruct (IH Hq Hm _ _ _ H1) as [-> H1']. split; [reflexivity|].
    eapply bind_ok_intro; [eapply bind_ok_intro; [exact H1'|reflexivity]|reflexivity].
  - destruct op; try discriminate. rewrite eval_S_unary in *. cbn [ment_expr] in Hm.
    apply bind_ok in H as (v & sv & H1 & Hret). apply ret_ok in Hret as [-> ->].
    destruct k as [|k]; [discriminate|]. rewrite eval1_S in *.
    apply bind_ok in H1 as (vs1 & s2 & H1 & Hret). apply ret_ok in Hret as [-> ->].
    destruct (IH Hq Hm _ _ _ H1) as [-> H1']. split; [reflexivity|].
    eapply bind_ok_intro; [eapply bind_ok_intro; [exact H1'|reflexivity]|reflexivity].
  - rewrite eval_S_typecast in *. cbn [ment_expr] in Hm. apply orb_false_elim in Hm as [Hm _].
    apply bind_ok in H as (v & sv & H1 & Hret). apply ret_ok in Hret as [-> ->].
    destruct k as [|k]; [discriminate|]. rewrite eval1_S in *.
    apply bind_ok in H1 as (vs1 & s2 & H1 & Hret). apply ret_ok in Hret as [-> ->].
    destruct (IH Hq Hm _ _ _ H1) as [-> H1']. split; [reflexivity|].
    eapply bind_ok_intro; [eapply bind_ok_intro; [exact H1'|reflexivity]|reflexivity].
Qed.

Lemma frame_eval_list es : forallb (frame_simple rho) es = true -> existsb (ment_expr xs) es = false ->
  forall k vs s3, eval_list d k rho1 va es (add_cells s1 extra) = Ok vs s3 ->
  s3 = add_cells s1 extra /\ eval_list d k rho va es s1 = Ok vs s1.
Proof.
  induction es as [|e es IH]; intros Hq Hm k vs s3 H; (destruct k as [|k]; [discriminate|]).
  - rewrite eval_list_S_nil in *. apply ret_ok in H as [-> ->]. auto.
  - cbn [forallb existsb] in Hq, Hm. apply andb_prop in Hq as [Hq1 Hq2]. apply orb_false_elim in Hm as [Hm1 Hm2].
    destruct es as [|e2 rest].
    + rewrite eval_list_S_one in *. eapply frame_eval; eauto.
    + rewrite eval_list_S_cons in *. apply bind_ok in H as (v & sv & H1 & H2).
      apply bind_ok in H2 as (vs2 & s2 & H2 & Hret). apply ret_ok in Hret as [-> ->].
      destruct k as [|k]; [discriminate|]. rewrite eval1_S in *.
      apply bind_ok in H1 as (vs1 & sa & H1 & Hret). apply ret_ok in Hret as [-> ->].
      destruct (frame_eval e Hq1 Hm1 _ _ _ H1) as [-> H1'].
      destruct (IH Hq2 Hm2 _ _ _ H2) as [-> H2']. split; [reflexivity|].
      eapply bind_ok_intro; [eapply bind_ok_intro; [exact H1'|reflexivity]|].
      eapply bind_ok_intro; [exact H2'|reflexivity].
Qed.

End Frame.


(** * (c): an initial segment of an expression list yields one value per expression *)

Section Lists.
Variable rho : env.

Inductive evals1 (k : nat) : list expr -> store -> list value -> store -> Prop :=
| e1_nil s : evals1 k [] s [] s
| e1_cons e es s v s1 vs s2 :
    eval1 d k rho va e s = Ok v s1 -> evals1 k es s1 vs s2 -> evals1 k (e :: es) s (v :: vs) s2.

Lemma evals1_up k m es s vs s' : evals1 k es s vs s' -> (k <= m)%nat -> evals1 m es s vs s'.
Proof.
  induction 1 as [s|e es s v s1 vs s2 He Hes IH]; intros L; [constructor|].
  econstructor; [eapply eval1_up; [exact He|exact L]|auto].
Qed.

Lemma evals1_length k es s vs s' : evals1 k es s vs s' -> llen vs = llen es.
Proof. induction 1; cbn [List.length]; auto. Qed.

(** in front of a non-empty list every expression is truncated to its first value *)
Lemma eval_list_app_trunc k es1 es2 s vs1 s1 vs2 s2 :
  es2 <> [] -> evals1 k es1 s vs1 s1 -> eval_list d k rho va es2 s1 = Ok vs2 s2 ->
  eval_list d (k + llen es1) rho va (es1 ++ es2) s = Ok (vs1 ++ vs2) s2.
Proof.
  intros Hne H1 H2. induction H1 as [s|e es s v s1 vs s3 He Hes IH].
  - cbn [app List.length]. eapply eval_list_up; [exact H2|lia].
  - specialize (IH H2). cbn [app List.length]. replace (k + S (llen es))%nat with (S (k + llen es)) by lia.
    destruct (es ++ es2) as [|e2 rest] eqn:E.
    + exfalso. apply app_eq_nil in E as [_ E]. contradiction.
    + rewrite eval_list_S_cons. eapply bind_ok_intro; [eapply eval1_up; [exact He|lia]|].
      eapply bind_ok_intro; [exact IH|reflexivity].
Qed.

(** a whole non-empty list: the same evaluations, the last one truncated too *)
Lemma eval_list_firsts es : forall k s vs s1,
  es <> [] -> eval_list d k rho va es s = Ok vs s1 ->
  exists vs', evals1 k es s vs' s1 /\ forall i, (i < llen es)%nat -> arg vs' i = arg vs i.
Proof.
  induction es as [|e es IH]; intros k s vs s1 Hne H; [contradiction|].
  destruct k as [|k]; [discriminate|]. destruct es as [|e2 rest].
  - rewrite eval_list_S_one in H. exists [first vs]. split.
    + econstructor; [|constructor]. rewrite eval1_S. eapply bind_ok_intro; [exact H|reflexivity].
    + intros i L. cbn [List.length] in L. replace i with 0%nat by lia. rewrite (arg_first vs). reflexivity.
  - rewrite eval_list_S_cons in H. apply bind_ok in H as (v & sv & H1 & H2).
    apply bind_ok in H2 as (vs2 & s2 & H2 & Hret). apply ret_ok in Hret as [-> ->].
    destruct (IH _ _ _ _ ltac:(discriminate) H2) as (vs' & He & Ha).
    exists (v :: vs'). split.
    + econstructor; [eapply eval1_up; [exact H1|lia]|eapply evals1_up; [exact He|lia]].
    + intros [|i] L; [reflexivity|]. unfold arg in *. cbn [nth]. apply Ha. cbn [List.length] in *. lia.
Qed.

Lemma evals1_repeat_nil q k s : (2 <= k)%nat -> evals1 k (repeat ENil q) s (repeat VNil q) s.
Proof.
  intros L. induction q as [|q IH]; cbn [repeat]; [constructor|].
  econstructor; [|exact IH]. destruct k as [|[|k]]; try lia. rewrite eval1_S, eval_S_nil. reflexivity.
Qed.

Lemma eval_list_repeat_nil q k s : (q + 2 <= k)%nat ->
  eval_list d k rho va (repeat ENil q) s = Ok (repeat VNil q) s.
Proof.
  revert k. induction q as [|q IH]; intros k L; (destruct k as [|k]; [lia|]).
  - reflexivity.
  - cbn [repeat]. destruct q as [|q].
    + cbn [repeat]. rewrite eval_list_S_one. destruct k as [|k]; [lia|]. reflexivity.
    + cbn [repeat]. rewrite eval_list_S_cons. eapply bind_ok_intro.
      { destruct k as [|[|k]]; try lia. rewrite eval1_S, eval_S_nil. reflexivity. }
      eapply bind_ok_intro; [apply (IH k); lia|reflexivity].
Qed.

(** * (d): the value list of the merged statement *)

(** [vs1] / [vs2]: the values of the two original lists, [vals2] evaluated in the store reached
    after [vals1] and leaving it unchanged.  The merged list yields, in that same store, a list
    that agrees with [vs1] on the positions of [vars1] and with [vs2] on those of [vars2]. *)
Lemma merged_values vars1 vals1 vars2 vals2 n s vs1 s1 vs2 :
  should_merge vars1 vals1 vals2 = true ->
  eval_list d n rho va vals1 s = Ok vs1 s1 ->
  eval_list d n rho va vals2 s1 = Ok vs2 s1 ->
  exists vsM,
    (forall j, (n + llen vars1 + llen vars2 + llen vals1 + 3 <= j)%nat ->
               eval_list d j rho va (merge_values vars1 vals1 vars2 vals2) s = Ok vsM s1) /\
    (forall i, (i < llen vars1)%nat -> arg vsM i = arg vs1 i) /\
    (forall i, (i < llen vars2)%nat -> arg vsM (llen vars1 + i) = arg vs2 i).
Proof.
  intros Hsm H1 H2. unfold merge_values.
  destruct vals1 as [|a1 r1].
  - (* no first value: [vs1 = []] *)
    destruct n as [|n]; [discriminate|]. rewrite eval_list_S_nil in H1. apply ret_ok in H1 as [-> ->].
    destruct vals2 as [|a2 r2].
    + (* A: no value at all *)
      rewrite eval_list_S_nil in H2. apply ret_ok in H2 as [-> _].
      exists []. split; [|split]; intros; rewrite ?arg_nil; try reflexivity.
      cbn [app]. destruct j as [|j]; [lia|]. reflexivity.
    + (* B: [nil] for every variable of the first statement *)
      exists (repeat VNil (llen vars1) ++ vs2). split; [|split].
      * intros j L.
        replace (match repeat ENil (llen vars1) with [] | _ => a2 :: r2 end) with (a2 :: r2)
          by (destruct (repeat ENil (llen vars1)); reflexivity).
        eapply eval_list_up.
        { eapply (eval_list_app_trunc (S n + 2)); [discriminate|apply evals1_repeat_nil; lia|].
          eapply eval_list_up; [exact H2|lia]. }
        rewrite repeat_length. lia.
      * intros i L. rewrite arg_app_l by (rewrite repeat_length; exact L). rewrite arg_repeat_nil, arg_nil. reflexivity.
      * intros i L. rewrite <- (repeat_length VNil (llen vars1)) at 2. apply arg_app_r.
  - (* some first value: as many values as variables *)
    assert (Hlen : llen (a1 :: r1) = llen vars1).
    { unfold should_merge in Hsm. cbn [List.length] in *.
      destruct (Nat.ltb_spec (S (llen r1)) (llen vars1)); cbn [andb Nat.eqb negb] in Hsm; [discriminate|].
      destruct (Nat.ltb_spec (llen vars1) (S (llen r1))); [discriminate|]. lia. }
    destruct (eval_list_firsts (a1 :: r1) _ _ _ _ ltac:(discriminate) H1) as (vs1' & He1 & Ha1).
    pose proof (evals1_length _ _ _ _ _ He1) as Hl1.
    destruct vals2 as [|a2 r2].
    + (* C: [nil] for every variable of the second statement *)
      destruct n as [|n]; [discriminate|]. rewrite eval_list_S_nil in H2. apply ret_ok in H2 as [-> _].
      destruct vars2 as [|p2 ps2].
      * exists vs1. split; [|split].
        -- intros j L. cbn [List.length repeat]. rewrite app_nil_r. eapply eval_list_up; [exact H1|lia].
        -- reflexivity.
        -- intros i L. cbn [List.length] in L. lia.
      * exists (vs1' ++ repeat VNil (llen (p2 :: ps2))). split; [|split].
        -- intros j L. eapply eval_list_up.
           { eapply (eval_list_app_trunc (S n + llen (p2 :: ps2) + 2)).
             - cbn [List.length repeat]. discriminate.
             - eapply evals1_up; [exact He1|lia].
             - apply eval_list_repeat_nil. lia. }
           lia.
        -- intros i L. rewrite arg_app_l by lia. apply Ha1. lia.
        -- intros i L. rewrite <- Hlen, <- Hl1, arg_app_r, arg_repeat_nil, arg_nil. reflexivity.
    + (* D: both lists, the first one truncated element-wise *)
      exists (vs1' ++ vs2). split; [|split].
      * intros j L. eapply eval_list_up.
        { eapply (eval_list_app_trunc n); [discriminate|exact He1|exact H2]. }
        lia.
      * intros i L. rewrite arg_app_l by lia. apply Ha1. lia.
      * intros i L. rewrite <- Hlen, <- Hl1. apply arg_app_r.
Qed.

End Lists.

(** * the theorem *)

(** Hypotheses beyond [should_merge]:
    - [Hfs]: every second initialiser is [frame_simple] (see the header);
    - [Henv]: the environment points into the store (an invariant of every run from the empty
      environment);
    - [Hgrow]: evaluating the first initialisers does not shrink the cell list (no construct of
      the interpreter ever removes a cell - [set_cell] overwrites, [new_cell] appends - but that
      invariant of the whole mutual fixpoint is not available as a lemma, so it is a hypothesis
      on the one evaluation that matters).
    Both programs then continue with [rest] in the SAME environment and the SAME store. *)
Theorem group_local_sound_partial_sec n rho k1 vars1 vals1 k2 vars2 vals2 rest last s r s' :
  should_merge vars1 vals1 vals2 = true ->
  forallb (frame_simple rho) vals2 = true ->
  (forall y c, lookup rho y = Some c -> (N.to_nat c < llen (cells s))%nat) ->
  (forall k vs s1, eval_list d k rho va vals1 s = Ok vs s1 -> (llen (cells s) <= llen (cells s1))%nat) ->
  exec_stmts d n rho va (SLocal k1 vars1 vals1 :: SLocal k2 vars2 vals2 :: rest) last s = Ok r s' ->
  exists m, forall j, (m <= j)%nat ->
    exec_stmts d j rho va (SLocal k1 (vars1 ++ vars2) (merge_values vars1 vals1 vars2 vals2) :: rest) last s = Ok r s'.
Proof.
  intros Hsm Hfs Henv Hgrow H.
  (* the original run *)
  destruct n as [|n]; [discriminate|]. rewrite exec_stmts_S_cons in H.
  apply bind_ok in H as ([rho1 sg1] & s2 & Hst1 & Hk1).
  destruct n as [|n]; [discriminate|]. rewrite exec_stmt_S_local in Hst1.
  apply bind_ok in Hst1 as (vs1 & s1 & Hv1 & Hst1). apply bind_ok in Hst1 as (rho1' & s2' & Hl1 & Hret).
  apply ret_ok in Hret as [E ->]. inversion E; subst rho1' sg1. clear E.
  cbn [stmts_cont] in Hk1. rewrite exec_stmts_S_cons in Hk1.
  apply bind_ok in Hk1 as ([rho2 sg2] & s4 & Hst2 & Hk2).
  destruct n as [|n]; [discriminate|]. rewrite exec_stmt_S_local in Hst2.
  apply bind_ok in Hst2 as (vs2 & s3 & Hv2 & Hst2). apply bind_ok in Hst2 as (rho2' & s4' & Hl2 & Hret).
  apply ret_ok in Hret as [E ->]. inversion E; subst rho2' sg2. clear E.
  cbn [stmts_cont] in Hk2.
  (* the second initialisers in the store and environment before the first allocation *)
  destruct (local_go_spec _ _ _ _ _ _ Hl1) as [(extra & ->) Hlk].
  assert (Hmen : existsb (ment_expr (map param_name vars1)) vals2 = false).
  { unfold should_merge in Hsm.
    destruct ((llen vals1 <? llen vars1)%nat && negb (llen vals1 =? 0)%nat); [discriminate|].
    destruct (llen vars1 <? llen vals1)%nat; [discriminate|]. apply negb_true_iff in Hsm. exact Hsm. }
  assert (Hin1 : forall y c, lookup rho y = Some c -> (N.to_nat c < llen (cells s1))%nat).
  { intros y c Hy. specialize (Henv y c Hy). specialize (Hgrow _ _ _ Hv1). lia. }
  destruct (frame_eval_list (map param_name vars1) rho1 rho s1 extra Hlk Hin1 vals2 Hfs Hmen _ _ _ Hv2)
    as [-> Hv2'].
  (* the merged value list *)
  assert (Hv2u : eval_list d (S n) rho va vals2 s1 = Ok vs2 s1) by (eapply eval_list_up; [exact Hv2'|lia]).
  destruct (merged_values rho vars1 vals1 vars2 vals2 (S n) s vs1 s1 vs2 Hsm Hv1 Hv2u) as (vsM & HvM & Ha1 & Ha2).
  exists (S n + llen vars1 + llen vars2 + llen vals1 + 5)%nat. intros j L.
  destruct j as [|[|j]]; try lia.
  rewrite exec_stmts_S_cons. eapply bind_ok_intro.
  { rewrite exec_stmt_S_local. eapply bind_ok_intro; [apply HvM; lia|].
    eapply bind_ok_intro; [|reflexivity].
    eapply local_go_app.
    - rewrite (local_go_ext vars1 vsM vs1) by exact Ha1. exact Hl1.
    - rewrite (local_go_ext vars2 _ vs2) by (intros i Li; rewrite arg_skipn; apply Ha2; exact Li). exact Hl2. }
  cbn [stmts_cont]. eapply exec_stmts_up; [exact Hk2|lia].
Qed.

End Group.

(** the same statement with the arguments in the order [d n rho va ...] *)
Theorem group_local_sound_partial d n rho va k1 vars1 vals1 k2 vars2 vals2 rest last s r s' :
  should_merge vars1 vals1 vals2 = true ->
  forallb (frame_simple rho) vals2 = true ->
  (forall y c, lookup rho y = Some c -> (N.to_nat c < List.length (cells s))%nat) ->
  (forall k vs s1, eval_list d k rho va vals1 s = Ok vs s1 ->
                   (List.length (cells s) <= List.length (cells s1))%nat) ->
  exec_stmts d n rho va (SLocal k1 vars1 vals1 :: SLocal k2 vars2 vals2 :: rest) last s = Ok r s' ->
  exists m, forall j, (m <= j)%nat ->
    exec_stmts d j rho va (SLocal k1 (vars1 ++ vars2) (merge_values vars1 vals1 vars2 vals2) :: rest) last s = Ok r s'.
Proof. exact (group_local_sound_partial_sec d va n rho k1 vars1 vals1 k2 vars2 vals2 rest last s r s'). Qed.

(** * satisfiable hypotheses *)

Definition gl_nm (x : string) : name := of_string x.
Definition gl_num (z : Z) : expr := ENumber (NDec (to_bits (of_Z z)) None).
Definition gl_pa : param := Param (gl_nm "a") None.
Definition gl_pb : param := Param (gl_nm "b") None.
Definition gl_ext_call_a : expr := ECall (EIdent (gl_nm "ext_a")) None (ATuple []).
Definition gl_ret_ab : option laststmt := Some (LReturn [EIdent (gl_nm "a"); EIdent (gl_nm "b")]).
Definition gl_ret_b : option laststmt := Some (LReturn [EIdent (gl_nm "b")]).
Definition gl_st_example : store := initial_store [[ONum (to_bits (of_Z 7))]].

(** [local a = ext_a()  local b = 2  return a, b] with [ext_a] returning 7: the hypotheses of
    the theorem hold, and both programs end with the same signal in the same store *)
Example group_local_example :
  should_merge [gl_pa] [gl_ext_call_a] [gl_num 2] = true /\
  forallb (frame_simple []) [gl_num 2] = true /\
  (forall y c, lookup [] y = Some c -> (N.to_nat c < llen (cells gl_st_example))%nat) /\
  (forall k vs s1, eval_list L51 k [] [] [gl_ext_call_a] gl_st_example = Ok vs s1 ->
                   (llen (cells gl_st_example) <= llen (cells s1))%nat) /\
  exists s',
    exec_stmts L51 12 [] [] [SLocal false [gl_pa] [gl_ext_call_a]; SLocal false [gl_pb] [gl_num 2]] gl_ret_ab gl_st_example
    = Ok (SigReturn [VNum (of_Z 7); VNum (of_Z 2)]) s' /\
    exec_stmts L51 12 [] [] [SLocal false ([gl_pa] ++ [gl_pb]) (merge_values [gl_pa] [gl_ext_call_a] [gl_pb] [gl_num 2])] gl_ret_ab gl_st_example
    = Ok (SigReturn [VNum (of_Z 7); VNum (of_Z 2)]) s' /\
    trace s' = [EvCall (gl_nm "ext_a") []].
Proof.
  split; [reflexivity|]. split; [reflexivity|]. split; [intros y c Hy; discriminate Hy|].
  split; [intros k vs s1 _; cbn [gl_st_example initial_store cells List.length]; lia|].
  eexists. split; [vm_compute; reflexivity|]. split; vm_compute; reflexivity.
Qed.

(** * exact equality is not available for arbitrary second initialisers *)

Definition gl_id_call (e : expr) : expr :=
  ECall (EParen (EFunction (FBody [Param (gl_nm "p") None] false None None None 0
                                  (Block [] (Some (LReturn [EIdent (gl_nm "p")])))))) None (ATuple [e]).

(** [local a = 1  local b = (function(p) return p end)(2)  return a, b]: the guard accepts, both
    programs return [1, 2], but the call allocates the cell of [p] - after the cell of [a] in the
    original, before it in the merged program - and the closure captures [a] in the original
    only: the final stores differ *)
Theorem group_local_exact_refuted_call :
  exists dl rho va vars1 vals1 vars2 vals2 last s vs s1 s2,
    should_merge vars1 vals1 vals2 = true /\
    (forall y c, lookup rho y = Some c -> (N.to_nat c < llen (cells s))%nat) /\
    exec_stmts dl 14 rho va [SLocal false vars1 vals1; SLocal false vars2 vals2] last s = Ok (SigReturn vs) s1 /\
    exec_stmts dl 14 rho va [SLocal false (vars1 ++ vars2) (merge_values vars1 vals1 vars2 vals2)] last s
    = Ok (SigReturn vs) s2 /\
    vs = [VNum (of_Z 1); VNum (of_Z 2)] /\
    cells s1 = [VNum (of_Z 1); VNum (of_Z 2); VNum (of_Z 2)] /\
    cells s2 = [VNum (of_Z 2); VNum (of_Z 1); VNum (of_Z 2)] /\
    s1 <> s2.
Proof.
  exists L51, [], [], [gl_pa], [gl_num 1], [gl_pb], [gl_id_call (gl_num 2)], gl_ret_ab, (initial_store []).
  do 3 eexists.
  split; [reflexivity|]. split; [intros y c Hy; discriminate Hy|].
  split; [vm_compute; reflexivity|]. split; [vm_compute; reflexivity|].
  split; [reflexivity|]. split; [reflexivity|]. split; [reflexivity|].
  intros E. apply (f_equal cells) in E. vm_compute in E. discriminate E.
Qed.

(** * both guards of [should_merge] are necessary *)

(** [local a = 1, 2  local b = 3  return b]: more values than variables; merged naively,
    [local a, b = 1, 2, 3  return b] returns 2 instead of 3 *)
Theorem group_local_unguarded_refuted :
  exists dl vars1 vals1 vars2 vals2 last,
    should_merge vars1 vals1 vals2 = false /\
    rw_group_local [SLocal false vars1 vals1; SLocal false vars2 vals2]
    = [SLocal false vars1 vals1; SLocal false vars2 vals2] /\
    run_chunk dl 12 [] (Block [SLocal false vars1 vals1; SLocal false vars2 vals2] last)
    = OutOk [] [RNum (to_bits (of_Z 3))] /\
    run_chunk dl 12 [] (Block [SLocal false (vars1 ++ vars2) (merge_values vars1 vals1 vars2 vals2)] last)
    = OutOk [] [RNum (to_bits (of_Z 2))].
Proof.
  exists L51, [gl_pa], [gl_num 1; gl_num 2], [gl_pb], [gl_num 3], gl_ret_b.
  split; [reflexivity|]. split; [reflexivity|]. split; vm_compute; reflexivity.
Qed.

(** [local a = 1  local b = a  return b]: the second initialiser mentions [a]; merged naively,
    [local a, b = 1, a  return b] reads the global [a] and returns nil instead of 1 *)
Theorem group_local_mention_refuted :
  exists dl vars1 vals1 vars2 vals2 last,
    should_merge vars1 vals1 vals2 = false /\
    rw_group_local [SLocal false vars1 vals1; SLocal false vars2 vals2]
    = [SLocal false vars1 vals1; SLocal false vars2 vals2] /\
    run_chunk dl 12 [] (Block [SLocal false vars1 vals1; SLocal false vars2 vals2] last)
    = OutOk [] [RNum (to_bits (of_Z 1))] /\
    run_chunk dl 12 [] (Block [SLocal false (vars1 ++ vars2) (merge_values vars1 vals1 vars2 vals2)] last)
    = OutOk [] [RNil].
Proof.
  exists L51, [gl_pa], [gl_num 1], [gl_pb], [EIdent (gl_nm "a")], gl_ret_b.
  split; [reflexivity|]. split; [reflexivity|]. split; vm_compute; reflexivity.
Qed.

(** the rule on a statement list: the accepted pair IS rewritten to the merged statement *)
Lemma rw_group_local_pair k1 vars1 vals1 k2 vars2 vals2 :
  should_merge vars1 vals1 vals2 = true ->
  rw_group_local [SLocal k1 vars1 vals1; SLocal k2 vars2 vals2]
  = [SLocal k1 (vars1 ++ vars2) (merge_values vars1 vals1 vars2 vals2)].
Proof. intros H. cbn [rw_group_local group_go]. rewrite H. reflexivity. Qed.

Print Assumptions group_local_sound_partial.
