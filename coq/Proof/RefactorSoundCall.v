(** C16, remove_method_call: [x:m(args)] and [x.m(x, args)] evaluate alike when reading [x]
    runs no code and the method lookup does not rebind [x]. *)
From Coq Require Import ZArith NArith List Bool String Lia.
From DL Require Import Lib.Bytes Lib.F64 Lua.Syntax Lua.Sem Lua.EvalSpec.
From DL Require Import Model.Removal Model.Refactor.
From DL Require Import Proof.SemFacts Proof.EvaluatorStore Proof.DefaultRulesSem Proof.RefactorSem.
Import ListNotations.
Open Scope N_scope.

Section Call.
Variable d : dialect.

(** the arguments of a call, as the expression list [Arguments::to_expressions] gives *)
Lemma eval_args_exprs n rho va a s vs s' :
  eval_args d n rho va a s = Ok vs s' ->
  forall k, (n + 1 <= k)%nat -> eval_list d k rho va (args_exprs a) s = Ok vs s'.
Proof.
  intros H k L. destruct n as [|n]; [discriminate|]. destruct a as [es|str|ens]; cbn [args_exprs].
  - rewrite eval_args_S_tuple in H. eapply eval_list_up; [exact H|lia].
  - rewrite eval_args_S_string in H. destruct k as [|[|k]]; try lia.
    rewrite eval_list_S_one, eval_S_string. exact H.
  - rewrite eval_args_S_table in H. destruct k as [|k]; [lia|]. rewrite eval_list_S_one.
    eapply eval_up; [|instantiate (1 := S n); lia]. rewrite eval_S_table. exact H.
Qed.

Lemma rw_method_call_ident x m a :
  rw_method_call (ECall (EIdent x) (Some m) a) =
  ECall (EField (EIdent x) m) None (ATuple (EIdent x :: args_exprs a)).
Proof. reflexivity. Qed.

(** the general shape: receiver [p], duplicated as [np] ([method_receiver p = Some np]).  The
    receiver evaluates without effect to [o]; [np] evaluates to [o] without effect before and
    after the lookup of the method. *)
Definition stable_receiver (rho : env) (va : list value) (p np : expr) (m : name) (s : store) : Prop :=
  forall k o s0, eval1 d k rho va p s = Ok o s0 ->
    s0 = s /\
    (forall j, (4 <= j)%nat -> eval1 d j rho va np s = Ok o s) /\
    (forall k2 f s1, index d k2 o (VStr m) s = Ok f s1 ->
       forall j, (4 <= j)%nat -> eval1 d j rho va np s1 = Ok o s1 /\ eval d j rho va np s1 = Ok [o] s1).

Lemma method_call_gen n rho va p np m a s r s' :
  stable_receiver rho va p np m s ->
  eval d n rho va (ECall p (Some m) a) s = Ok r s' ->
  forall k, (n + 7 <= k)%nat ->
  eval d k rho va (ECall (EField np m) None (ATuple (np :: args_exprs a))) s = Ok r s'.
Proof.
  intros Hst H k L.
  destruct n as [|n]; [discriminate|]. rewrite eval_S_call in H.
  apply bind_ok in H as (o & s0 & Ho & H). apply bind_ok in H as (f & s1 & Hidx & H).
  apply bind_ok in H as (args & s2 & Hargs & Hcall).
  destruct (Hst _ _ _ Ho) as (-> & Hnp & Hafter).
  pose proof (Hafter _ _ _ Hidx) as Hnp1.
  destruct k as [|[|[|k]]]; try lia.
  rewrite eval_S_call.
  eapply bind_ok_intro.
  { rewrite eval1_S. eapply bind_ok_intro; [|reflexivity].
    rewrite eval_S_field. eapply bind_ok_intro; [apply Hnp; lia|].
    eapply bind_ok_intro; [eapply index_up; [exact Hidx|lia]|reflexivity]. }
  cbn [first]. eapply bind_ok_intro.
  { rewrite eval_args_S_tuple.
    pose proof (eval_args_exprs _ _ _ _ _ _ _ Hargs) as Hl.
    destruct (args_exprs a) as [|e rest].
    - specialize (Hl (S k) ltac:(lia)). rewrite eval_list_S_nil in Hl. apply ret_ok in Hl as [-> ->].
      rewrite eval_list_S_one. apply Hnp1. lia.
    - rewrite eval_list_S_cons. eapply bind_ok_intro; [apply Hnp1; lia|].
      eapply bind_ok_intro; [apply Hl; lia|reflexivity]. }
  eapply call_up; [exact Hcall|lia].
Qed.

(** [x:m(args)] -> [x.m(x, args)].  Hypotheses: reading [x] runs no code (a local, or a global of
    a globals table without metatable), and the lookup of [m] (which may run an [__index]
    metamethod) leaves the binding of [x] as it is. *)
Theorem method_call_sound n rho va x m a s r s' :
  pure_ident rho x s ->
  (forall o k f s1, reads rho x s o -> index d k o (VStr m) s = Ok f s1 -> reads rho x s1 o) ->
  eval d n rho va (ECall (EIdent x) (Some m) a) s = Ok r s' ->
  forall k, (n + 7 <= k)%nat ->
  eval d k rho va (rw_method_call (ECall (EIdent x) (Some m) a)) s = Ok r s'.
Proof.
  intros Hp Hstable H k L. rewrite rw_method_call_ident.
  eapply method_call_gen; [|exact H|exact L].
  intros k0 o s0 Ho. apply (eval1_reads d _ _ _ _ _ _ _ Hp) in Ho as [-> Hr].
  split; [reflexivity|]. split.
  - intros j Lj. apply (reads_eval1 d _ _ _ _ _ _ Hr). lia.
  - intros k2 f s1 Hidx j Lj. pose proof (Hstable _ _ _ _ Hr Hidx) as Hr1. split.
    + apply (reads_eval1 d _ _ _ _ _ _ Hr1). lia.
    + apply (reads_eval d _ _ _ _ _ _ Hr1). lia.
Qed.

(** a literal receiver: [("s"):m(args)] -> [("s").m(("s"), args)] - no hypothesis at all *)
Definition is_literal (e : expr) : bool :=
  match e with ENil | ETrue | EFalse | EString _ | ENumber _ => true | _ => false end.

Lemma literal_eval e : is_literal e = true ->
  exists v, forall rho va s j, (1 <= j)%nat -> eval d j rho va e s = Ok [v] s.
Proof.
  destruct e; try discriminate; intros _; eexists; intros rho0 va0 st j L; (destruct j as [|j]; [lia|]); reflexivity.
Qed.

Lemma literal_eval_inv e v : is_literal e = true ->
  (forall rho va s j, (1 <= j)%nat -> eval d j rho va e s = Ok [v] s) ->
  forall rho va s j vs s', eval d j rho va e s = Ok vs s' -> vs = [v] /\ s' = s.
Proof.
  intros Hl Hv rho va s j vs s' H. destruct j as [|j]; [discriminate|].
  rewrite (Hv rho va s (S j) ltac:(lia)) in H. inversion H; auto.
Qed.

Theorem method_call_literal_sound n rho va lit m a s r s' :
  is_literal lit = true ->
  eval d n rho va (ECall (EParen lit) (Some m) a) s = Ok r s' ->
  forall k, (n + 7 <= k)%nat ->
  eval d k rho va (rw_method_call (ECall (EParen lit) (Some m) a)) s = Ok r s'.
Proof.
  intros Hl H k L.
  assert (Erw : rw_method_call (ECall (EParen lit) (Some m) a) =
                ECall (EField (EParen lit) m) None (ATuple (EParen lit :: args_exprs a)))
    by (destruct lit; try discriminate Hl; reflexivity).
  rewrite Erw. destruct (literal_eval lit Hl) as (v & Hv).
  assert (Hparen : forall s0 j, (3 <= j)%nat -> eval d j rho va (EParen lit) s0 = Ok [v] s0).
  { intros s0 j Lj. destruct j as [|[|j]]; try lia. rewrite eval_S_paren.
    eapply bind_ok_intro; [|reflexivity]. rewrite eval1_S.
    eapply bind_ok_intro; [apply Hv; lia|reflexivity]. }
  assert (Hparen1 : forall s0 j, (4 <= j)%nat -> eval1 d j rho va (EParen lit) s0 = Ok v s0).
  { intros s0 j Lj. destruct j as [|j]; [lia|]. rewrite eval1_S.
    eapply bind_ok_intro; [apply Hparen; lia|reflexivity]. }
  eapply method_call_gen; [|exact H|exact L].
  intros k0 o s0 Ho.
  assert (o = v /\ s0 = s) as [-> ->].
  { pose proof (eval1_up d _ (k0 + 4) _ _ _ _ _ _ Ho ltac:(lia)) as Ho'.
    rewrite (Hparen1 s (k0 + 4)%nat ltac:(lia)) in Ho'. inversion Ho'; auto. }
  split; [reflexivity|]. split; [intros j Lj; apply Hparen1; exact Lj|].
  intros k2 f s1 _ j Lj. split; [apply Hparen1; exact Lj|apply Hparen; lia].
Qed.

(** a sufficient condition for the second hypothesis: the lookup does not touch the store *)
Corollary method_call_sound_quiet_lookup n rho va x m a s r s' :
  pure_ident rho x s ->
  (forall o k f s1, reads rho x s o -> index d k o (VStr m) s = Ok f s1 -> s1 = s) ->
  eval d n rho va (ECall (EIdent x) (Some m) a) s = Ok r s' ->
  forall k, (n + 7 <= k)%nat ->
  eval d k rho va (rw_method_call (ECall (EIdent x) (Some m) a)) s = Ok r s'.
Proof.
  intros Hp Hq. apply method_call_sound; [exact Hp|].
  intros o k f s1 Hr Hi. now rewrite (Hq _ _ _ _ Hr Hi).
Qed.

End Call.

(** the receiver is evaluated once in the original and twice in the output: if reading it is
    NOT free of effects the two differ - the rule duplicates only identifiers and literals, and
    an identifier read can run code only through a metatable on the globals table *)

(** satisfiable: a local string [x], [x:len()] *)
Definition ex_store : store :=
  mkStore [VStr (of_string "abc")] initial_tables [] [] [] 0.
Definition ex_rho : env := [(of_string "x", 0)].
Definition ex_call : expr := ECall (EIdent (of_string "x")) (Some (of_string "len")) (ATuple []).

Example method_call_example :
  pure_ident ex_rho (of_string "x") ex_store /\
  eval L51 8 ex_rho [] ex_call ex_store = Ok [VNum (of_Z 3)] ex_store /\
  eval L51 15 ex_rho [] (rw_method_call ex_call) ex_store = Ok [VNum (of_Z 3)] ex_store.
Proof.
  split; [left; discriminate|]. split; vm_compute; reflexivity.
Qed.
