(** C16, remove_method_call: [x:m(args)] and [x.m(x, args)] evaluate alike when reading [x]
    runs no code and the method lookup does not rebind [x]. *)
From Coq Require Import ZArith NArith List Bool String Lia.
From DL Require Import Lib.Bytes Lib.F64 Lua.Syntax Lua.Sem Lua.EvalSpec.
From DL Require Import Model.Removal Model.Refactor.
From DL Require Import Proof.SemFacts Proof.EvaluatorStore Proof.DefaultRulesSem Proof.RefactorSem.
Import ListNotations.
Open Scope N_scope.

Section Call.
Variable d : dialect.

(** the arguments of a call, as the expression list [Arguments::to_expressions] gives *)
Lemma eval_args_exprs n rho va a s vs s' :
  eval_args d n rho va a s = Ok vs s' ->
  forall k, (n + 1 <= k)%nat -> eval_list d k rho va (args_exprs a) s = Ok vs s'.
Proof.
  intros H k L. destruct n as [|n]; [discriminate|]. destruct a as [es|str|ens]; cbn [args_exprs].
  - rewrite eval_args_S_tuple in H. eapply eval_list_up; [exact H|lia].
  - rewrite eval_args_S_string in H. destruct k as [|[|k]]; try lia.
    rewrite eval_list_S_one, eval_S_string. exact H.
  - rewrite eval_args_S_table in H. destruct k as [|k]; [lia|]. rewrite eval_list_S_one.
    eapply eval_up; [|instantiate (1 := S n); lia]. rewrite eval_S_table. exact H.
Qed.

Lemma rw_method_call_ident x m a :
  rw_method_call (ECall (EIdent x) (Some m) a) =
  ECall (EField (EIdent x) m) None (ATuple (EIdent x :: args_exprs a)).
Proof. reflexivity. Qed.

(** [x:m(args)] -> [x.m(x, args)].  Hypotheses: reading [x] runs no code (a local, or a global of
    a globals table without metatable), and the lookup of [m] (which may run an [__index]
    metamethod) leaves the binding of [x] as it is. *)
Theorem method_call_sound n rho va x m a s r s' :
  pure_ident rho x s ->
  (forall o k f s1, reads rho x s o -> index d k o (VStr m) s = Ok f s1 -> reads rho x s1 o) ->
  eval d n rho va (ECall (EIdent x) (Some m) a) s = Ok r s' ->
  forall k, (n + 6 <= k)%nat ->
  eval d k rho va (rw_method_call (ECall (EIdent x) (Some m) a)) s = Ok r s'.
Proof.
  intros Hp Hstable H k L. rewrite rw_method_call_ident.
  destruct n as [|n]; [discriminate|]. rewrite eval_S_call in H. inv_ok H.
  apply (eval1_reads d _ _ _ _ _ _ _ Hp) in H0 as [-> Hr].
  rename a0 into o, a1 into f, a2 into args, H into Hidx, H1 into Hargs, H3 into Hcall.
  pose proof (Hstable _ _ _ _ Hr Hidx) as Hr1.
  destruct k as [|[|[|k]]]; try lia.
  rewrite eval_S_call.
  eapply bind_ok_intro.
  { rewrite eval1_S. eapply bind_ok_intro; [|reflexivity].
    rewrite eval_S_field. eapply bind_ok_intro; [apply (reads_eval1 d _ _ _ _ _ _ Hr); lia|].
    eapply bind_ok_intro; [eapply index_up; [exact Hidx|lia]|reflexivity]. }
  cbn [first]. eapply bind_ok_intro.
  { rewrite eval_args_S_tuple.
    pose proof (eval_args_exprs _ _ _ _ _ _ _ Hargs) as Hl.
    destruct (args_exprs a) as [|e rest].
    - specialize (Hl (S k) ltac:(lia)). rewrite eval_list_S_nil in Hl. inv_ok Hl. subst.
      rewrite eval_list_S_one. apply (reads_eval d _ _ _ _ _ _ Hr1). lia.
    - rewrite eval_list_S_cons. eapply bind_ok_intro; [apply (reads_eval1 d _ _ _ _ _ _ Hr1); lia|].
      eapply bind_ok_intro; [apply Hl; lia|reflexivity]. }
  eapply call_up; [exact Hcall|lia].
Qed.

(** a sufficient condition for the second hypothesis: the lookup does not touch the store *)
Corollary method_call_sound_quiet_lookup n rho va x m a s r s' :
  pure_ident rho x s ->
  (forall o k f s1, reads rho x s o -> index d k o (VStr m) s = Ok f s1 -> s1 = s) ->
  eval d n rho va (ECall (EIdent x) (Some m) a) s = Ok r s' ->
  forall k, (n + 6 <= k)%nat ->
  eval d k rho va (rw_method_call (ECall (EIdent x) (Some m) a)) s = Ok r s'.
Proof.
  intros Hp Hq. apply method_call_sound; [exact Hp|].
  intros o k f s1 Hr Hi. now rewrite (Hq _ _ _ _ Hr Hi).
Qed.

End Call.

(** the receiver is evaluated once in the original and twice in the output: if reading it is
    NOT free of effects the two differ - the rule duplicates only identifiers and literals, and
    an identifier read can run code only through a metatable on the globals table *)

(** satisfiable: a local string [x], [x:len()] *)
Definition ex_store : store :=
  mkStore [VStr (of_string "abc")] initial_tables [] [] [] 0.
Definition ex_rho : env := [(of_string "x", 0)].
Definition ex_call : expr := ECall (EIdent (of_string "x")) (Some (of_string "len")) (ATuple []).

Example method_call_example :
  pure_ident ex_rho (of_string "x") ex_store /\
  eval L51 8 ex_rho [] ex_call ex_store = Ok [VNum (of_Z 3)] ex_store /\
  eval L51 14 ex_rho [] (rw_method_call ex_call) ex_store = Ok [VNum (of_Z 3)] ex_store.
Proof.
  split; [left; discriminate|]. split; vm_compute; reflexivity.
Qed.
