#!/bin/sh
# regenerate _CoqProject and Makefile from the files on disk (serialised by a lock)
cd "$(dirname "$0")"
mkdir -p ../.work
exec 9> ../.work/genproject.lock
flock 9
{ echo "-Q . DL"; echo "-arg -w -arg -all"; find Lib Lua Model Proof Properties Generated -name '*.v' 2>/dev/null | grep -v '/cases_' | sort; } > _CoqProject.new
if ! cmp -s _CoqProject.new _CoqProject 2>/dev/null; then mv _CoqProject.new _CoqProject; coq_makefile -f _CoqProject -o Makefile >/dev/null; else rm _CoqProject.new; [ -f Makefile ] || coq_makefile -f _CoqProject -o Makefile >/dev/null; fi
