(** Decidable descriptions of the recorded finding classes (known_findings.txt) on input
    trees: a failing case is attributed to a known finding only when its input tree has the
    shape of that finding.  Used by the search stage of the rule properties. *)
From Coq Require Import ZArith NArith List Bool String.
From DL Require Import Lib.Bytes Lib.F64 Lua.Syntax Model.StringLit Model.NumberLit Model.Evaluator.
Import ListNotations.
Open Scope N_scope.

(** generic search: [p multi e] is asked on every expression of the tree, [multi] telling
    whether the expression stands where several values are kept (last of an expression
    list) *)
(** [f true x] on the last element, [f false x] on the others *)
Definition last_aware {A} (f : bool -> A -> bool) : list A -> bool :=
  fix go (l : list A) : bool :=
    match l with
    | [] => false
    | [x] => f true x
    | x :: r => f false x || go r
    end.

Section Search.
Variable p : bool -> expr -> bool.
Variable q : stmt -> bool.

Fixpoint s_expr (multi : bool) (e : expr) : bool :=
  p multi e ||
  match e with
  | EInterp segs => existsb (fun s => match s with ISExpr e' => s_expr false e' | _ => false end) segs
  | EField pr _ => s_expr false pr
  | EIndex pr k => s_expr false pr || s_expr false k
  | ECall pr _ a => s_expr false pr || s_args a
  | EFunction f => s_fbody f
  | EIf bs els => existsb (fun b => match b with EBranch c r => s_expr false c || s_expr false r end) bs
                  || s_expr false els
  | EParen e' => s_expr false e'
  | ETable entries => last_aware s_entry entries
  | EUnary _ e' => s_expr false e'
  | EBinary _ l r => s_expr false l || s_expr false r
  | ETypeCast e' _ => s_expr false e'
  | ETypeInst pr _ => s_expr false pr
  | _ => false
  end

with s_args (a : args) : bool :=
  match a with
  | ATuple es => last_aware s_expr es
  | AString _ => false
  | ATable entries => last_aware s_entry entries
  end

with s_entry (is_last : bool) (t : tentry) : bool :=
  match t with
  | TField _ v => s_expr false v
  | TIndex k v => s_expr false k || s_expr false v
  | TValue v => s_expr is_last v
  end

with s_fbody (f : fbody) : bool :=
  match f with FBody _ _ _ _ _ _ body => s_block body end

with s_stmt (s : stmt) : bool :=
  q s ||
  match s with
  | SAssign vars vals => existsb (s_expr false) vars || last_aware s_expr vals
  | SDo b => s_block b
  | SCall c => s_expr false c
  | SCompound _ var v => s_expr false var || s_expr false v
  | SFunction _ _ _ f => s_fbody f
  | SGenericFor _ es b => last_aware s_expr es || s_block b
  | SIf bs els => existsb (fun b => match b with SBranch c body => s_expr false c || s_block body end) bs
                  || match els with Some b => s_block b | None => false end
  | SLocal _ _ vals => last_aware s_expr vals
  | SLocalFunction _ f => s_fbody f
  | SNumericFor _ a b step body =>
    s_expr false a || s_expr false b || match step with Some e => s_expr false e | None => false end || s_block body
  | SRepeat b c => s_block b || s_expr false c
  | SWhile c b => s_expr false c || s_block b
  | STypeDecl _ _ _ _ => false
  | STypeFunction _ _ f => s_fbody f
  end

with s_block (b : block) : bool :=
  match b with
  | Block stmts last =>
    existsb s_stmt stmts ||
    match last with
    | Some (LReturn es) => last_aware s_expr es
    | _ => false
    end
  end.
End Search.

Definition no_stmt (_ : stmt) : bool := false.
Definition no_expr (_ : bool) (_ : expr) : bool := false.

(** K5 (DESIGN 11 #5, pinned by an upstream test): [compute_expression] replaces
    [<statically truthy> and e] (or [<statically falsy> or e]) by [e]; wrong where several
    values are kept and [e] may return several. *)
Definition k5_expr (multi : bool) (e : expr) : bool :=
  multi &&
  match e with
  | EBinary BAnd l r => match is_truthy (evaluate l) with
                        | Some true => negb (has_side_effects false l) && can_return_multiple_values r
                        | _ => false
                        end
  | EBinary BOr l r => match is_truthy (evaluate l) with
                       | Some false => negb (has_side_effects false l) && can_return_multiple_values r
                       | _ => false
                       end
  | _ => false
  end.
Definition known_and_multivalue (b : block) : bool := s_block k5_expr no_stmt b.

(** K7 (DESIGN 11 #7): [expressions_as_statement] emits [local _ = ...]; wrong when the
    program itself uses a variable named [_]. *)
Definition underscore : name := [95].
Definition k7_expr (_ : bool) (e : expr) : bool :=
  match e with EIdent x => bytes_eqb x underscore | _ => false end.
Definition k7_stmt (s : stmt) : bool :=
  match s with
  | SLocal _ vars _ => existsb (fun p => bytes_eqb (param_name p) underscore) vars
  | _ => false
  end.
Definition known_underscore_variable (b : block) : bool := s_block k7_expr k7_stmt b.

(** K2 (DESIGN 11 #2): [remove_continue] on a [repeat] loop whose [until] condition reads a
    local declared in the loop body (the body is moved into an inner loop). *)
Fixpoint idents_of (e : expr) : list name :=
  match e with
  | EIdent x => [x]
  | EParen e' | EUnary _ e' | ETypeCast e' _ => idents_of e'
  | EBinary _ l r => idents_of l ++ idents_of r
  | EField p _ => idents_of p
  | EIndex p k => idents_of p ++ idents_of k
  | ECall p _ (ATuple es) => idents_of p ++ flat_map idents_of es
  | ECall p _ _ => idents_of p
  | _ => []
  end.
Definition declared_in (stmts : list stmt) : list name :=
  flat_map (fun s => match s with
                     | SLocal _ vars _ => map param_name vars
                     | SLocalFunction x _ => [x]
                     | _ => []
                     end) stmts.
Definition has_continue (b : block) : bool :=
  s_block no_expr (fun s => match s with
                            | SIf bs els =>
                              existsb (fun br => match br with SBranch _ (Block _ (Some LContinue)) => true | _ => false end) bs
                              || match els with Some (Block _ (Some LContinue)) => true | _ => false end
                            | SDo (Block _ (Some LContinue)) => true
                            | _ => false
                            end) b
  || match b with Block _ (Some LContinue) => true | _ => false end.
Definition k2_stmt (s : stmt) : bool :=
  match s with
  | SRepeat (Block stmts last) c =>
    has_continue (Block stmts last) &&
    existsb (fun x => existsb (bytes_eqb x) (declared_in stmts)) (idents_of c)
  | _ => false
  end.
Definition known_repeat_continue (b : block) : bool := s_block no_expr k2_stmt b.

(** K10 (DESIGN 11 #10): [math.sqrt(x)] -> [x ^ 0.5] differs on -0 and -inf. *)
Definition k10_expr (_ : bool) (e : expr) : bool :=
  match e with
  | ECall (EField (EIdent m) f) None (ATuple [a]) =>
    bytes_eqb m (of_string "math") && bytes_eqb f (of_string "sqrt") &&
    match evaluate a with
    | LNumber x => sign_of x && (is_zero x || is_inf x)     (* statically -0 or -inf *)
    | _ => false
    end
  | _ => false
  end.
Definition known_sqrt_call (b : block) : bool := s_block k10_expr no_stmt b.

(** K11: [remove_floor_division] writes [a // b] as [math.floor(a / b)]: when an operand is a
    table with metamethods the original calls [__idiv], the output [__div] (and [math.floor] on
    its result).  Inherent to the rewrite; statically recognisable only as "an operand is the
    direct result of an external function", which is what the tag says. *)
Fixpoint opaque_operand (fuel : nat) (e : expr) : bool :=
  match fuel with
  | O => false
  | S f =>
    match e with
    | ECall (EIdent x) None _ => prefix_b (of_string "ext") x
    | EParen e' => opaque_operand f e'
    | ETypeCast e' _ => opaque_operand f e'
    | _ => false
    end
  end.
Definition k11_expr (_ : bool) (e : expr) : bool :=
  match e with
  | EBinary BIDiv l r => opaque_operand 8 l || opaque_operand 8 r
  | _ => false
  end.
Definition k11_stmt (s : stmt) : bool :=
  match s with
  | SCompound BIDiv _ v => opaque_operand 8 v
  | _ => false
  end.
Definition known_idiv_opaque (b : block) : bool := s_block k11_expr k11_stmt b.

Definition known_tags (b : block) : string :=
  ((if known_and_multivalue b then "K5 " else "") ++
   (if known_underscore_variable b then "K7 " else "") ++
   (if known_repeat_continue b then "K2 " else "") ++
   (if known_sqrt_call b then "K10 " else "") ++
   (if known_idiv_opaque b then "K11 " else ""))%string.
