(** Definitions used in the statements of the C08 theorems: what it means for a static
    value to describe a run-time value, for a store to be merely extended, and the decidable
    carve-outs (recorded findings) under which the soundness theorems are stated. *)
From Coq Require Import ZArith NArith List Bool.
From Coq Require Import Floats.SpecFloat.
From DL Require Import Lib.Bytes Lib.F64 Lua.Syntax Lua.Sem Model.StringLit Model.NumberLit Model.Evaluator.
Import ListNotations.
Open Scope N_scope.

(** [lv_matches s v x]: the static value [v] describes the run-time value [x] in store [s].
    Numbers bit-exactly (sign of zero kept, NaN as NaN); a static [LTable] is a table
    without metatable (it comes from a constructor); [LUnknown] describes anything. *)
Definition lv_matches (s : store) (v : lv) (x : value) : Prop :=
  match v, x with
  | LUnknown, _ => True
  | LNil, VNil => True
  | LTrue, VBool true => True
  | LFalse, VBool false => True
  | LNumber a, VNum b => same_f64 a b = true
  | LString a, VStr b => a = b
  | LFunction, VClosure _ => True
  | LTable, VTable a => exists t, nth_N (tables s) (N.to_nat a) = Some t /\ t_meta t = None
  | _, _ => False
  end.

(** prefix order on lists: [s'] only adds fresh allocations to [s] *)
Definition list_extends {A} (l l' : list A) : Prop := exists ext, l' = l ++ ext.

(** nothing observable happened between [s] and [s']: no event, no oracle consumption, every
    existing cell / table / closure unchanged (so no metamethod or function with effects ran);
    only fresh allocations were added *)
Definition store_extends (s s' : store) : Prop :=
  trace s' = trace s /\ oracle s' = oracle s /\ fresh s' = fresh s /\
  list_extends (cells s) (cells s') /\ list_extends (tables s) (tables s') /\
  list_extends (closures s) (closures s').

(** reading a global runs no metamethod: the globals table has no metatable *)
Definition globals_plain (s : store) : Prop :=
  exists t, nth_N (tables s) (N.to_nat A_globals) = Some t /\ t_meta t = None.

(** the string metatable is the pristine one ({__index = string}): no arithmetic, comparison,
    concatenation or __tostring metamethod was installed on strings by the program *)
Definition strmeta_plain (s : store) : Prop :=
  exists t, nth_N (tables s) (N.to_nat A_strmeta) = Some t /\
            t_entries t = [(vstr "__index", VTable A_string)].

Definition env_plain (s : store) : Prop := globals_plain s /\ strmeta_plain s.

(** Finding: [has_side_effects] treats an interpolated string as pure whenever its segment
    expressions are, but rendering a segment calls [tostring], which runs a [__tostring]
    metamethod.  [interp_safe e]: every interpolated segment of [e] is statically of a known
    kind (so no metamethod can be involved). *)
Fixpoint interp_safe (e : expr) : bool :=
  match e with
  | EInterp segs =>
    forallb (fun sg => match sg with
                       | ISExpr e' => interp_safe e' && negb (maybe_metatable (evaluate e'))
                       | ISStr _ => true
                       end) segs
  | EBinary _ l r => interp_safe l && interp_safe r
  | EUnary _ e' | EParen e' | ETypeCast e' _ | ETypeInst e' _ => interp_safe e'
  | EIf bs els =>
    forallb (fun b => match b with EBranch c r => interp_safe c && interp_safe r end) bs && interp_safe els
  | ETable entries =>
    forallb (fun en => match en with
                       | TField _ v => interp_safe v
                       | TIndex k v => interp_safe k && interp_safe v
                       | TValue v => interp_safe v
                       end) entries
  | _ => true
  end.

(** Known finding (DESIGN section 11 #4): [..] on a number uses Rust's [to_string].
    [concat_safe d e]: every concatenation operand of [e] that is statically a number is
    rendered by Rust exactly as dialect [d] renders it. *)
Definition concat_operand_safe (d : dialect) (v : lv) : bool :=
  match v with
  | LNumber x => bytes_eqb (rust_f64_to_string x) (tostring_num d x)
  | _ => true
  end.

Fixpoint concat_safe (d : dialect) (e : expr) : bool :=
  match e with
  | EBinary op l r =>
    concat_safe d l && concat_safe d r &&
    match op with
    | BConcat => concat_operand_safe d (evaluate l) && concat_operand_safe d (evaluate r)
    | _ => true
    end
  | EUnary _ e' | EParen e' | ETypeCast e' _ | ETypeInst e' _ => concat_safe d e'
  | EIf bs els =>
    forallb (fun b => match b with EBranch c r => concat_safe d c && concat_safe d r end) bs
    && concat_safe d els
  | EInterp segs => forallb (fun sg => match sg with ISExpr e' => concat_safe d e' | ISStr _ => true end) segs
  | _ => true
  end.

(** [%]: darklua folds with the Lua 5.1 formula [a - b * floor(a / b)]; Luau uses
    fmod-with-adjustment.  [mod_safe e]: on every statically numeric [%] in [e] they agree. *)
Fixpoint mod_safe (e : expr) : bool :=
  match e with
  | EBinary op l r =>
    mod_safe l && mod_safe r &&
    match op with
    | BMod => match number_coercion (evaluate l), number_coercion (evaluate r) with
              | LNumber a, LNumber b => same_f64 (fmod_51 a b) (fmod_luau a b)
              | _, _ => true
              end
    | _ => true
    end
  | EUnary _ e' | EParen e' | ETypeCast e' _ | ETypeInst e' _ => mod_safe e'
  | EIf bs els =>
    forallb (fun b => match b with EBranch c r => mod_safe c && mod_safe r end) bs && mod_safe els
  | EInterp segs => forallb (fun sg => match sg with ISExpr e' => mod_safe e' | ISStr _ => true end) segs
  | _ => true
  end.

Definition dialect_safe (d : dialect) (e : expr) : bool :=
  concat_safe d e && match d with L51 => true | Luau => mod_safe e end.
