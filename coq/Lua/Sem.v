(** Reference semantics of MiniLua (Lua 5.1 + the Luau extensions darklua lowers).
    SPECIFICATION, trusted: written from the Lua 5.1 reference manual / lvm.c and the Luau
    documentation (decisions on delicate points: DESIGN.md appendix A).

    A deterministic big-step interpreter as ONE mutual [Fixpoint] on fuel (decremented at
    every node).  Results: [Ok a s] | [Err e s] (a Lua error, catchable by pcall) | [Fuel]
    (out of fuel; theorems always exclude it explicitly) | [Unsup] (construct or library
    behaviour outside the modelled fragment; treated like "no verdict", never like a value). *)
From Coq Require Import ZArith NArith List Bool String.
From Coq Require Import Floats.SpecFloat.
From DL Require Import Lib.Bytes Lib.F64 Lua.Syntax.
Import ListNotations.
Open Scope N_scope.

Inductive dialect := L51 | Luau.
Definition is_luau (d : dialect) : bool := match d with Luau => true | L51 => false end.

(** * Values and store *)

Inductive value :=
| VNil
| VBool (b : bool)
| VNum (x : f64)
| VStr (s : bytes)
| VTable (a : N)
| VClosure (a : N)
| VBuiltin (b : N)
| VExt (x : bytes).            (* external (observable) function *)

Definition env := list (name * N).     (* innermost binding first; N = cell address *)

Record table := mkTable { t_entries : list (value * value); t_meta : option N }.
Record closure := mkClosure { c_body : fbody; c_env : env; c_self : bool }.

(** first-order rendering of values in the trace *)
Inductive rvalue :=
| RNil | RBool (b : bool) | RNum (bits : N) | RStr (s : bytes)
| RTable (entries : list (rvalue * rvalue)) (has_meta : bool)
| RFunc | RDeep.

Inductive event := EvCall (f : bytes) (args : list rvalue).

(** values an external call may return (materialised at call time) *)
Inductive oval :=
| ONil | OBool (b : bool) | ONum (bits : N) | OStr (s : bytes)
| OFun                      (* a fresh external function *)
| OTab                      (* a plain table {10, 20, x = 1} *)
| OMeta.                    (* a table whose every metamethod is an external function *)

Record store := mkStore {
  cells : list value;
  tables : list table;
  closures : list closure;
  trace : list event;         (* most recent first *)
  oracle : list (list oval);
  fresh : N;
}.

Inductive error :=
| EUser (v : value)           (* error(v) *)
| ERun (tag : N).             (* run-time error; message text is not observed *)

Inductive res (A : Type) :=
| Ok (a : A) (s : store)
| Err (e : error) (s : store)
| Fuel
| Unsup (why : N).
Arguments Ok {A}. Arguments Err {A}. Arguments Fuel {A}. Arguments Unsup {A}.

Definition M (A : Type) := store -> res A.
Definition ret {A} (a : A) : M A := fun s => Ok a s.
Definition fail {A} (t : N) : M A := fun s => Err (ERun t) s.
Definition unsup {A} (t : N) : M A := fun _ => Unsup t.
Definition bind {A B} (m : M A) (f : A -> M B) : M B :=
  fun s => match m s with
           | Ok a s' => f a s'
           | Err e s' => Err e s'
           | Fuel => Fuel
           | Unsup w => Unsup w
           end.
Notation "x <- m ;; f" := (bind m (fun x => f)) (at level 61, m at next level, right associativity).
Notation "' p <- m ;; f" := (bind m (fun x => let p := x in f))
  (at level 61, p pattern, m at next level, right associativity).

(** * Store primitives *)

Fixpoint nth_N {A} (l : list A) (n : nat) : option A :=
  match l, n with
  | x :: _, O => Some x
  | _ :: l', S n' => nth_N l' n'
  | [], _ => None
  end.
Fixpoint set_nth {A} (l : list A) (n : nat) (v : A) : list A :=
  match l, n with
  | _ :: l', O => v :: l'
  | x :: l', S n' => x :: set_nth l' n' v
  | [], _ => []
  end.

Definition get_cell (a : N) : M value :=
  fun s => match nth_N (cells s) (N.to_nat a) with Some v => Ok v s | None => Unsup 1 end.
Definition set_cell (a : N) (v : value) : M unit :=
  fun s => Ok tt (mkStore (set_nth (cells s) (N.to_nat a) v) (tables s) (closures s) (trace s) (oracle s) (fresh s)).
Definition new_cell (v : value) : M N :=
  fun s => Ok (N.of_nat (List.length (cells s)))
              (mkStore (cells s ++ [v]) (tables s) (closures s) (trace s) (oracle s) (fresh s)).
Definition get_table (a : N) : M table :=
  fun s => match nth_N (tables s) (N.to_nat a) with Some t => Ok t s | None => Unsup 2 end.
Definition set_table (a : N) (t : table) : M unit :=
  fun s => Ok tt (mkStore (cells s) (set_nth (tables s) (N.to_nat a) t) (closures s) (trace s) (oracle s) (fresh s)).
Definition new_table (t : table) : M N :=
  fun s => Ok (N.of_nat (List.length (tables s)))
              (mkStore (cells s) (tables s ++ [t]) (closures s) (trace s) (oracle s) (fresh s)).
Definition get_closure (a : N) : M closure :=
  fun s => match nth_N (closures s) (N.to_nat a) with Some c => Ok c s | None => Unsup 3 end.
Definition new_closure (c : closure) : M N :=
  fun s => Ok (N.of_nat (List.length (closures s)))
              (mkStore (cells s) (tables s) (closures s ++ [c]) (trace s) (oracle s) (fresh s)).
Definition emit_event (e : event) : M unit :=
  fun s => Ok tt (mkStore (cells s) (tables s) (closures s) (e :: trace s) (oracle s) (fresh s)).
Definition pop_oracle : M (list oval) :=
  fun s => match oracle s with
           | [] => Ok [] s
           | o :: rest => Ok o (mkStore (cells s) (tables s) (closures s) (trace s) rest (fresh s))
           end.
Definition next_fresh : M N :=
  fun s => Ok (fresh s) (mkStore (cells s) (tables s) (closures s) (trace s) (oracle s) (fresh s + 1)).

(** * Raw operations on values *)

Definition truthy (v : value) : bool :=
  match v with VNil | VBool false => false | _ => true end.

Definition raw_equal (a b : value) : bool :=
  match a, b with
  | VNil, VNil => true
  | VBool x, VBool y => Bool.eqb x y
  | VNum x, VNum y => feqb x y
  | VStr x, VStr y => bytes_eqb x y
  | VTable x, VTable y => x =? y
  | VClosure x, VClosure y => x =? y
  | VBuiltin x, VBuiltin y => x =? y
  | VExt x, VExt y => bytes_eqb x y
  | _, _ => false
  end.

Fixpoint raw_get (es : list (value * value)) (k : value) : value :=
  match es with
  | [] => VNil
  | (k', v) :: rest => if raw_equal k' k then v else raw_get rest k
  end.

Fixpoint raw_set (es : list (value * value)) (k v : value) : list (value * value) :=
  match es with
  | [] => match v with VNil => [] | _ => [(k, v)] end
  | (k', v') :: rest => if raw_equal k' k then (k', v) :: rest else (k', v') :: raw_set rest k v
  end.

(** keys: -0 is normalised to +0; nil and NaN are not keys *)
Definition norm_key (k : value) : option value :=
  match k with
  | VNil => None
  | VNum x => if is_nan x then None else if is_zero x then Some (VNum fzero) else Some k
  | _ => Some k
  end.

Definition vstr (s : string) : value := VStr (of_string s).

(** border of a sequence: largest n with t[1..n] all non-nil *)
Fixpoint border_fuel (fuel : nat) (es : list (value * value)) (n : Z) : Z :=
  match fuel with
  | O => n
  | S f => match raw_get es (VNum (of_Z (n + 1))) with
           | VNil => n
           | _ => border_fuel f es (n + 1)
           end
  end.
Definition border (es : list (value * value)) : Z := border_fuel (List.length es) es 0.


(** number value of a literal (darklua [NumberExpression::compute_value]) *)
Definition number_value (n : number) : f64 :=
  match n with
  | NDec bits _ => of_bits bits
  | NHex i _ None => of_N i
  | NHex i _ (Some (e, _)) => of_N ((i * 2 ^ e) mod 18446744073709551616)
  | NBin i _ => of_N i
  end.

Definition tostring_num (d : dialect) (x : f64) : bytes :=
  match d with L51 => tostring_51 x | Luau => tostring_luau x end.

(** string -> number coercion for arithmetic *)
Definition tonum (v : value) : option f64 :=
  match v with
  | VNum x => Some x
  | VStr s => str2num s
  | _ => None
  end.

Definition type_name (v : value) : bytes :=
  of_string match v with
            | VNil => "nil" | VBool _ => "boolean" | VNum _ => "number" | VStr _ => "string"
            | VTable _ => "table" | _ => "function"
            end.

Definition first (vs : list value) : value := match vs with v :: _ => v | [] => VNil end.

Definition arith_name (o : binop) : option string :=
  match o with
  | BAdd => Some "__add" | BSub => Some "__sub" | BMul => Some "__mul" | BDiv => Some "__div"
  | BMod => Some "__mod" | BPow => Some "__pow" | BIDiv => Some "__idiv"
  | _ => None
  end%string.

Definition arith_num (d : dialect) (o : binop) (a b : f64) : option f64 :=
  match o with
  | BAdd => Some (fadd a b)
  | BSub => Some (fsub a b)
  | BMul => Some (fmul a b)
  | BDiv => Some (fdiv a b)
  | BIDiv => Some (ffloor (fdiv a b))
  | BMod => Some (match d with L51 => fmod_51 a b | Luau => fmod_luau a b end)
  | BPow => fpow a b
  | _ => None
  end.

(** * Builtins *)
Definition B_select := 1. Definition B_tostring := 2. Definition B_tonumber := 3.
Definition B_type := 4. Definition B_rawget := 5. Definition B_rawset := 6.
Definition B_rawequal := 7. Definition B_setmetatable := 8. Definition B_getmetatable := 9.
Definition B_pcall := 10. Definition B_error := 11. Definition B_assert := 12.
Definition B_next := 13. Definition B_pairs := 14. Definition B_ipairs := 15.
Definition B_unpack := 16. Definition B_floor := 17. Definition B_sqrt := 18.
Definition B_abs := 19. Definition B_max := 20. Definition B_min := 21.
Definition B_format := 22. Definition B_len := 23. Definition B_sub := 24.
Definition B_rep := 25. Definition B_byte := 26. Definition B_char := 27.
Definition B_insert := 28. Definition B_concat := 29. Definition B_ipairs_iter := 30.
Definition B_rawlen := 31. Definition B_require := 32.

(** addresses of the tables allocated by [initial_store] *)
Definition A_globals := 0. Definition A_math := 1. Definition A_string := 2.
Definition A_table := 3. Definition A_strmeta := 4. Definition A_loaded := 5.
Definition A_debug := 6.

Definition initial_tables : list table :=
  [ mkTable [ (vstr "select", VBuiltin B_select); (vstr "tostring", VBuiltin B_tostring);
              (vstr "tonumber", VBuiltin B_tonumber); (vstr "type", VBuiltin B_type);
              (vstr "rawget", VBuiltin B_rawget); (vstr "rawset", VBuiltin B_rawset);
              (vstr "rawequal", VBuiltin B_rawequal); (vstr "rawlen", VBuiltin B_rawlen);
              (vstr "setmetatable", VBuiltin B_setmetatable);
              (vstr "getmetatable", VBuiltin B_getmetatable); (vstr "pcall", VBuiltin B_pcall);
              (vstr "error", VBuiltin B_error); (vstr "assert", VBuiltin B_assert);
              (vstr "next", VBuiltin B_next); (vstr "pairs", VBuiltin B_pairs);
              (vstr "ipairs", VBuiltin B_ipairs); (vstr "unpack", VBuiltin B_unpack);
              (vstr "require", VBuiltin B_require);
              (vstr "math", VTable A_math); (vstr "string", VTable A_string);
              (vstr "table", VTable A_table); (vstr "debug", VTable A_debug);
              (vstr "_G", VTable A_globals) ] None;
    mkTable [ (vstr "floor", VBuiltin B_floor); (vstr "sqrt", VBuiltin B_sqrt);
              (vstr "abs", VBuiltin B_abs); (vstr "max", VBuiltin B_max);
              (vstr "min", VBuiltin B_min); (vstr "huge", VNum (S754_infinity false)) ] None;
    mkTable [ (vstr "format", VBuiltin B_format); (vstr "len", VBuiltin B_len);
              (vstr "sub", VBuiltin B_sub); (vstr "rep", VBuiltin B_rep);
              (vstr "byte", VBuiltin B_byte); (vstr "char", VBuiltin B_char) ] None;
    mkTable [ (vstr "insert", VBuiltin B_insert); (vstr "concat", VBuiltin B_concat);
              (vstr "unpack", VBuiltin B_unpack) ] None;
    mkTable [ (vstr "__index", VTable A_string) ] None;
    mkTable [] None;
    mkTable [ (vstr "profilebegin", VExt (of_string "ext_profilebegin"));
              (vstr "profileend", VExt (of_string "ext_profileend")) ] None ].

Definition initial_store (orc : list (list oval)) : store :=
  mkStore [] initial_tables [] [] orc 0.

Definition is_ext_name (x : bytes) : bool := prefix_b (of_string "ext") x.

(** adjust an argument list *)
Definition arg (vs : list value) (i : nat) : value := nth i vs VNil.

Definition num_result (x : f64) : M (list value) := ret [VNum x].

(** the sub-string s[i..j] with Lua's index conventions *)
Definition lua_sub (s : bytes) (i j : Z) : bytes :=
  let n := Z.of_nat (List.length s) in
  let i := if (i <? 0)%Z then Z.max (n + i + 1) 1 else if (i =? 0)%Z then 1%Z else i in
  let j := if (j <? 0)%Z then (n + j + 1)%Z else Z.min j n in
  if (j <? i)%Z then [] else firstn (Z.to_nat (j - i + 1)) (skipn (Z.to_nat (i - 1)) s).

(** * Rendering for the trace *)
Fixpoint render (fuel : nat) (s : store) (v : value) : rvalue :=
  match v with
  | VNil => RNil
  | VBool b => RBool b
  | VNum x => RNum (to_bits x)
  | VStr b => RStr b
  | VTable a =>
    match fuel with
    | O => RDeep
    | S f =>
      match nth_N (tables s) (N.to_nat a) with
      | Some t =>
        RTable (map (fun kv => (render f s (fst kv), render f s (snd kv)))
                    (filter (fun kv => match snd kv with VNil => false | _ => true end) (t_entries t)))
               (match t_meta t with Some _ => true | None => false end)
      | None => RDeep
      end
    end
  | _ => RFunc
  end.

(** * The interpreter *)

Inductive signal := SigNone | SigBreak | SigContinue | SigReturn (vs : list value).

Fixpoint lookup (rho : env) (x : name) : option N :=
  match rho with
  | [] => None
  | (y, a) :: rest => if bytes_eqb x y then Some a else lookup rest x
  end.

Section Interp.
Variable d : dialect.

(** metatable of a value *)
Definition metatable_of (v : value) : M (option N) :=
  match v with
  | VTable a => t <- get_table a ;; ret (t_meta t)
  | VStr _ => ret (Some A_strmeta)
  | _ => ret None
  end.

Definition metamethod (v : value) (ev : string) : M value :=
  m <- metatable_of v ;;
  match m with
  | None => ret VNil
  | Some a => t <- get_table a ;; ret (raw_get (t_entries t) (vstr ev))
  end.

Definition mm_entry (n : string) : value * value :=
  (vstr n, VExt (of_string "ext_mm" ++ of_string n)).

Definition materialise (o : oval) : M value :=
  match o with
  | ONil => ret VNil
  | OBool b => ret (VBool b)
  | ONum bits => ret (VNum (of_bits bits))
  | OStr s => ret (VStr s)
  | OFun => n <- next_fresh ;; ret (VExt (of_string "ext_cb" ++ dec_digits n))
  | OTab => a <- new_table (mkTable [ (VNum (of_Z 1), VNum (of_Z 10)); (VNum (of_Z 2), VNum (of_Z 20));
                                      (vstr "x", VNum (of_Z 1)) ] None) ;;
            ret (VTable a)
  | OMeta =>
    m <- new_table (mkTable (map mm_entry
                              [ "__index"; "__newindex"; "__call"; "__add"; "__sub";
                                "__mul"; "__div"; "__mod"; "__pow"; "__idiv";
                                "__unm"; "__concat"; "__len"; "__eq"; "__lt";
                                "__le"; "__tostring" ]%string) None) ;;
    a <- new_table (mkTable [] (Some m)) ;;
    ret (VTable a)
  end.

Fixpoint materialise_all (os : list oval) : M (list value) :=
  match os with
  | [] => ret []
  | o :: rest => v <- materialise o ;; vs <- materialise_all rest ;; ret (v :: vs)
  end.

Definition call_ext (x : bytes) (args : list value) : M (list value) :=
  fun s =>
    (_ <- emit_event (EvCall x (map (render 3 s) args)) ;;
     os <- pop_oracle ;;
     materialise_all os) s.

Definition bind_params (ps : list param) (args : list value) : M env :=
  (fix go (ps : list param) (args : list value) : M env :=
     match ps with
     | [] => ret []
     | p :: ps' =>
       a <- new_cell (arg args 0) ;;
       rest <- go ps' (tl args) ;;
       ret ((param_name p, a) :: rest)
     end) ps args.

Definition ws (c : N) : bool := is_space_c c.

Fixpoint call (n : nat) (f : value) (args : list value) {struct n} : M (list value) :=
  match n with
  | O => fun _ => Fuel
  | S n =>
    match f with
    | VClosure a =>
      c <- get_closure a ;;
      match c_body c with
      | FBody ps variadic _ _ _ _ body =>
        let ps := if c_self c then Param (of_string "self") None :: ps else ps in
        rho <- bind_params ps args ;;
        let va := if variadic then skipn (List.length ps) args else [] in
        sg <- exec_block n (rev rho ++ c_env c) va body ;;
        match sg with
        | SigReturn vs => ret vs
        | _ => ret []
        end
      end
    | VExt x => call_ext x args
    | VBuiltin b => call_builtin n b args
    | _ =>
      h <- metamethod f "__call" ;;
      match h with
      | VNil => fail 10
      | _ => call n h (f :: args)
      end
    end
  end

with index (n : nat) (o k : value) {struct n} : M value :=
  match n with
  | O => fun _ => Fuel
  | S n =>
    match o with
    | VTable a =>
      t <- get_table a ;;
      match raw_get (t_entries t) (match norm_key k with Some k' => k' | None => k end) with
      | VNil =>
        h <- metamethod o "__index" ;;
        match h with
        | VNil => ret VNil
        | VTable _ => index n h k
        | _ => vs <- call n h [o; k] ;; ret (first vs)
        end
      | v => ret v
      end
    | _ =>
      h <- metamethod o "__index" ;;
      match h with
      | VNil => fail 11
      | VTable _ => index n h k
      | _ => vs <- call n h [o; k] ;; ret (first vs)
      end
    end
  end

with setindex (n : nat) (o k v : value) {struct n} : M unit :=
  match n with
  | O => fun _ => Fuel
  | S n =>
    match o with
    | VTable a =>
      t <- get_table a ;;
      let existing := raw_get (t_entries t) (match norm_key k with Some k' => k' | None => k end) in
      h <- (match existing with VNil => metamethod o "__newindex" | _ => ret VNil end) ;;
      match h with
      | VNil =>
        match norm_key k with
        | None => fail 12
        | Some k' => set_table a (mkTable (raw_set (t_entries t) k' v) (t_meta t))
        end
      | VTable _ => setindex n h k v
      | _ => _ <- call n h [o; k; v] ;; ret tt
      end
    | _ =>
      h <- metamethod o "__newindex" ;;
      match h with
      | VNil => fail 13
      | VTable _ => setindex n h k v
      | _ => _ <- call n h [o; k; v] ;; ret tt
      end
    end
  end

with tostr (n : nat) (v : value) {struct n} : M value :=
  match n with
  | O => fun _ => Fuel
  | S n =>
    h <- metamethod v "__tostring" ;;
    match h with
    | VNil =>
      ret (VStr match v with
                | VNil => of_string "nil"
                | VBool true => of_string "true"
                | VBool false => of_string "false"
                | VNum x => tostring_num d x
                | VStr s => s
                | VTable _ => of_string "table"
                | _ => of_string "function"
                end)
    | _ => vs <- call n h [v] ;; ret (first vs)
    end
  end

with arith (n : nat) (o : binop) (a b : value) {struct n} : M value :=
  match n with
  | O => fun _ => Fuel
  | S n =>
    match tonum a, tonum b with
    | Some x, Some y =>
      match arith_num d o x y with
      | Some r => ret (VNum r)
      | None => unsup 20
      end
    | _, _ =>
      match arith_name o with
      | None => unsup 21
      | Some ev =>
        h <- metamethod a ev ;;
        h <- (match h with VNil => metamethod b ev | _ => ret h end) ;;
        match h with
        | VNil => fail 14
        | _ => vs <- call n h [a; b] ;; ret (first vs)
        end
      end
    end
  end

with concat (n : nat) (a b : value) {struct n} : M value :=
  match n with
  | O => fun _ => Fuel
  | S n =>
    let str (v : value) := match v with
                           | VStr s => Some s
                           | VNum x => Some (tostring_num d x)
                           | _ => None
                           end in
    match str a, str b with
    | Some x, Some y => ret (VStr (x ++ y))
    | _, _ =>
      h <- metamethod a "__concat" ;;
      h <- (match h with VNil => metamethod b "__concat" | _ => ret h end) ;;
      match h with
      | VNil => fail 15
      | _ => vs <- call n h [a; b] ;; ret (first vs)
      end
    end
  end

with equal (n : nat) (a b : value) {struct n} : M bool :=
  match n with
  | O => fun _ => Fuel
  | S n =>
    if raw_equal a b then ret true
    else match a, b with
         | VTable _, VTable _ =>
           h1 <- metamethod a "__eq" ;;
           h2 <- metamethod b "__eq" ;;
           let h := match d with
                    | L51 => if raw_equal h1 h2 then h1 else VNil
                    | Luau => match h1 with VNil => h2 | _ => h1 end
                    end in
           match h with
           | VNil => ret false
           | _ => vs <- call n h [a; b] ;; ret (truthy (first vs))
           end
         | _, _ => ret false
         end
  end

with less (n : nat) (strict : bool) (a b : value) {struct n} : M bool :=
  match n with
  | O => fun _ => Fuel
  | S n =>
    match a, b with
    | VNum x, VNum y => ret (if strict then fltb x y else fleb x y)
    | VStr x, VStr y => ret (if strict then bytes_ltb x y else bytes_leb x y)
    | _, _ =>
      let ev := if strict then "__lt"%string else "__le"%string in
      h1 <- metamethod a ev ;;
      h2 <- metamethod b ev ;;
      match h1 with
      | VNil =>
        if strict then fail 16
        else (* __le falls back to not (b < a) *)
          r <- less n true b a ;; ret (negb r)
      | _ =>
        if raw_equal h1 h2 then vs <- call n h1 [a; b] ;; ret (truthy (first vs))
        else if strict then fail 16 else r <- less n true b a ;; ret (negb r)
      end
    end
  end

with length (n : nat) (v : value) {struct n} : M value :=
  match n with
  | O => fun _ => Fuel
  | S n =>
    match v with
    | VStr s => ret (VNum (of_Z (Z.of_nat (List.length s))))
    | VTable a =>
      h <- (if is_luau d then metamethod v "__len" else ret VNil) ;;
      match h with
      | VNil => t <- get_table a ;; ret (VNum (of_Z (border (t_entries t))))
      | _ => vs <- call n h [v] ;; ret (first vs)
      end
    | _ =>
      h <- metamethod v "__len" ;;
      match h with
      | VNil => fail 17
      | _ => vs <- call n h [v] ;; ret (first vs)
      end
    end
  end

with call_builtin (n : nat) (b : N) (args : list value) {struct n} : M (list value) :=
  match n with
  | O => fun _ => Fuel
  | S n =>
    let a0 := arg args 0 in let a1 := arg args 1 in let a2 := arg args 2 in
    if b =? B_select then
      match a0 with
      | VStr [35] => ret [VNum (of_Z (Z.of_nat (List.length args) - 1))]
      | VNum x =>
        if is_integer x then
          let i := to_Z x in
          if (0 <? i)%Z then ret (skipn (Z.to_nat i) args)
          else if (i <? 0)%Z then
            let k := (Z.of_nat (List.length args) - 1 + i)%Z in
            if (k <? 0)%Z then fail 30 else ret (skipn (Z.to_nat k + 1) args)
          else fail 30
        else unsup 30
      | _ => fail 30
      end
    else if b =? B_tostring then v <- tostr n a0 ;; ret [v]
    else if b =? B_tonumber then
      match args with
      | [_] | [_; VNil] => ret [match tonum a0 with Some x => VNum x | None => VNil end]
      | _ => unsup 31
      end
    else if b =? B_type then
      match args with [] => fail 32 | _ => ret [VStr (type_name a0)] end
    else if b =? B_rawget then
      match a0 with
      | VTable a => t <- get_table a ;;
                    ret [raw_get (t_entries t) (match norm_key a1 with Some k => k | None => a1 end)]
      | _ => fail 33
      end
    else if b =? B_rawset then
      match a0, norm_key a1 with
      | VTable a, Some k => t <- get_table a ;;
                            _ <- set_table a (mkTable (raw_set (t_entries t) k a2) (t_meta t)) ;;
                            ret [a0]
      | _, _ => fail 34
      end
    else if b =? B_rawequal then ret [VBool (raw_equal a0 a1)]
    else if b =? B_rawlen then
      match a0 with
      | VTable a => t <- get_table a ;; ret [VNum (of_Z (border (t_entries t)))]
      | VStr s => ret [VNum (of_Z (Z.of_nat (List.length s)))]
      | _ => fail 35
      end
    else if b =? B_setmetatable then
      match a0, a1 with
      | VTable a, VNil => t <- get_table a ;; _ <- set_table a (mkTable (t_entries t) None) ;; ret [a0]
      | VTable a, VTable m =>
        t <- get_table a ;;
        (* a protected metatable (__metatable field) is outside the fragment *)
        _ <- set_table a (mkTable (t_entries t) (Some m)) ;; ret [a0]
      | _, _ => fail 36
      end
    else if b =? B_getmetatable then
      m <- metatable_of a0 ;;
      match m with
      | None => ret [VNil]
      | Some a => t <- get_table a ;;
                  match raw_get (t_entries t) (vstr "__metatable") with
                  | VNil => ret [VTable a]
                  | v => ret [v]
                  end
      end
    else if b =? B_pcall then
      fun s =>
        match call n a0 (tl args) s with
        | Ok vs s' => Ok (VBool true :: vs) s'
        | Err (EUser v) s' => Ok [VBool false; v] s'
        | Err (ERun _) s' => Ok [VBool false; vstr "<error>"] s'
        | Fuel => Fuel
        | Unsup w => Unsup w
        end
    else if b =? B_error then fun s => Err (EUser a0) s
    else if b =? B_assert then
      match args with
      | [] => fail 37
      | _ => if truthy a0 then ret args
             else match args with
                  | [_] => fun s => Err (EUser (vstr "assertion failed!")) s
                  | _ => fun s => Err (EUser a1) s
                  end
      end
    else if b =? B_next then
      match a0 with
      | VTable a =>
        t <- get_table a ;;
        let live := filter (fun kv => match snd kv with VNil => false | _ => true end) in
        let after :=
          match a1 with
          | VNil => Some (t_entries t)
          | _ => (fix skip (es : list (value * value)) : option (list (value * value)) :=
                    match es with
                    | [] => None
                    | (k, _) :: rest => if raw_equal k a1 then Some rest else skip rest
                    end) (t_entries t)
          end in
        match after with
        | None => fail 38
        | Some es => match live es with
                     | [] => ret [VNil]
                     | (k, v) :: _ => ret [k; v]
                     end
        end
      | _ => fail 38
      end
    else if b =? B_pairs then
      match a0 with
      | VTable _ => ret [VBuiltin B_next; a0; VNil]
      | _ => fail 39
      end
    else if b =? B_ipairs then
      match a0 with
      | VTable _ => ret [VBuiltin B_ipairs_iter; a0; VNum fzero]
      | _ => fail 40
      end
    else if b =? B_ipairs_iter then
      match a1 with
      | VNum x =>
        let i := VNum (fadd x fone) in
        v <- index n a0 i ;;
        match v with VNil => ret [VNil] | _ => ret [i; v] end
      | _ => fail 41
      end
    else if b =? B_unpack then
      match a0, tl args with
      | VTable a, [] =>
        t <- get_table a ;;
        let nlen := border (t_entries t) in
        ret (map (fun i => raw_get (t_entries t) (VNum (of_Z (Z.of_nat i)))) (seq 1 (Z.to_nat nlen)))
      | _, _ => unsup 42
      end
    else if b =? B_floor then
      match tonum a0 with Some x => num_result (ffloor x) | None => fail 43 end
    else if b =? B_sqrt then
      match tonum a0 with Some x => num_result (fsqrt x) | None => fail 44 end
    else if b =? B_abs then
      match tonum a0 with Some x => num_result (fabs x) | None => fail 45 end
    else if (b =? B_max) || (b =? B_min) then
      match args with
      | [] => fail 46
      | _ =>
        (fix go (vs : list value) (acc : option f64) : M (list value) :=
           match vs with
           | [] => match acc with Some x => num_result x | None => fail 46 end
           | v :: rest =>
             match tonum v with
             | None => fail 46
             | Some x =>
               if is_nan x then unsup 46
               else go rest (match acc with
                             | None => Some x
                             | Some y => if b =? B_max then (if fltb y x then Some x else Some y)
                                         else (if fltb x y then Some x else Some y)
                             end)
             end
           end) args None
      end
    else if b =? B_len then
      match a0 with
      | VStr s => ret [VNum (of_Z (Z.of_nat (List.length s)))]
      | VNum x => ret [VNum (of_Z (Z.of_nat (List.length (tostring_num d x))))]
      | _ => fail 47
      end
    else if b =? B_sub then
      match a0, tonum a1 with
      | VStr s, Some i =>
        match (match a2 with VNil => Some (of_Z (-1)) | _ => tonum a2 end) with
        | Some j => if is_integer i && is_integer j then ret [VStr (lua_sub s (to_Z i) (to_Z j))] else unsup 48
        | None => fail 48
        end
      | _, _ => fail 48
      end
    else if b =? B_rep then
      match a0, tonum a1 with
      | VStr s, Some k => if is_integer k then ret [VStr (List.concat (repeat s (Z.to_nat (to_Z k))))] else unsup 49
      | _, _ => fail 49
      end
    else if b =? B_byte then
      match a0, tl args with
      | VStr s, [] => match s with c :: _ => ret [VNum (of_N c)] | [] => ret [] end
      | _, _ => unsup 50
      end
    else if b =? B_char then
      (fix go (vs : list value) (acc : bytes) : M (list value) :=
         match vs with
         | [] => ret [VStr (rev acc)]
         | v :: rest =>
           match tonum v with
           | Some x => if is_integer x && (0 <=? to_Z x)%Z && (to_Z x <? 256)%Z
                       then go rest (Z.to_N (to_Z x) :: acc) else fail 51
           | None => fail 51
           end
         end) args []
    else if b =? B_insert then
      match a0, args with
      | VTable a, [_; v] =>
        t <- get_table a ;;
        _ <- set_table a (mkTable (raw_set (t_entries t) (VNum (of_Z (border (t_entries t) + 1))) v) (t_meta t)) ;;
        ret []
      | _, _ => unsup 52
      end
    else if b =? B_concat then
      match a0 with
      | VTable a =>
        t <- get_table a ;;
        let sep := match a1 with VStr s => Some s | VNil => Some [] | VNum x => Some (tostring_num d x) | _ => None end in
        match sep, tl (tl args) with
        | Some sep, [] =>
          (fix go (is : list nat) (acc : bytes) (first_item : bool) : M (list value) :=
             match is with
             | [] => ret [VStr acc]
             | i :: rest =>
               match raw_get (t_entries t) (VNum (of_Z (Z.of_nat i))) with
               | VStr s => go rest (acc ++ (if first_item then [] else sep) ++ s) false
               | VNum x => go rest (acc ++ (if first_item then [] else sep) ++ tostring_num d x) false
               | _ => fail 53
               end
             end) (seq 1 (Z.to_nat (border (t_entries t)))) [] true
        | _, _ => unsup 53
        end
      | _ => fail 53
      end
    else if b =? B_format then
      match a0 with
      | VStr fmt =>
        (fix go (fuel : nat) (f : bytes) (vs : list value) (acc : bytes) : M (list value) :=
           match fuel with
           | O => fun _ => Fuel
           | S fuel =>
             match f with
             | [] => ret [VStr acc]
             | 37 :: 37 :: f' => go fuel f' vs (acc ++ [37])
             | 37 :: c :: f' =>
               match vs with
               | [] => fail 54
               | v :: vs' =>
                 if (c =? 115) || (c =? 42) then     (* %s, and Luau's %* *)
                   if (c =? 42) && negb (is_luau d) then fail 54
                   else
                   sv <- tostr n v ;;
                   match sv with
                   | VStr s => go fuel f' vs' (acc ++ s)
                   | _ => fail 54
                   end
                 else if (c =? 100) then             (* %d *)
                   match tonum v with
                   | Some x => if is_integer x then
                                 let z := to_Z x in
                                 go fuel f' vs' (acc ++ (if (z <? 0)%Z then [45] else []) ++ dec_digits (Z.to_N (Z.abs z)))
                               else unsup 54
                   | None => fail 54
                   end
                 else unsup 54
               end
             | [37] => fail 54
             | c :: f' => go fuel f' vs (acc ++ [c])
             end
           end) (S (List.length fmt)) fmt (tl args) []
      | _ => unsup 54
      end
    else unsup 55
  end

with eval (n : nat) (rho : env) (va : list value) (e : expr) {struct n} : M (list value) :=
  match n with
  | O => fun _ => Fuel
  | S n =>
    match e with
    | ENil => ret [VNil]
    | ETrue => ret [VBool true]
    | EFalse => ret [VBool false]
    | ENumber x => ret [VNum (number_value x)]
    | EString s => ret [VStr s]
    | EVarArgs => ret va
    | EIdent x =>
      match lookup rho x with
      | Some a => v <- get_cell a ;; ret [v]
      | None =>
        v <- index n (VTable A_globals) (VStr x) ;;
        match v with
        | VNil => if is_ext_name x then ret [VExt x] else ret [VNil]
        | _ => ret [v]
        end
      end
    | EField p f => o <- eval1 n rho va p ;; v <- index n o (VStr f) ;; ret [v]
    | EIndex p k => o <- eval1 n rho va p ;; kv <- eval1 n rho va k ;; v <- index n o kv ;; ret [v]
    | ECall p m a =>
      o <- eval1 n rho va p ;;
      match m with
      | None => args <- eval_args n rho va a ;; call n o args
      | Some mname =>
        f <- index n o (VStr mname) ;;
        args <- eval_args n rho va a ;;
        call n f (o :: args)
      end
    | EFunction f => a <- new_closure (mkClosure f rho false) ;; ret [VClosure a]
    | EIf branches els =>
      (fix go (bs : list ebranch) : M (list value) :=
         match bs with
         | [] => v <- eval1 n rho va els ;; ret [v]
         | EBranch c r :: rest =>
           cv <- eval1 n rho va c ;;
           if truthy cv then v <- eval1 n rho va r ;; ret [v] else go rest
         end) branches
    | EParen e' => v <- eval1 n rho va e' ;; ret [v]
    | ETable entries => a <- new_table (mkTable [] None) ;;
                        _ <- fill_table n rho va a entries 1 ;; ret [VTable a]
    | EUnary op e' =>
      v <- eval1 n rho va e' ;;
      match op with
      | UNot => ret [VBool (negb (truthy v))]
      | UMinus =>
        match tonum v with
        | Some x => ret [VNum (fneg x)]
        | None =>
          h <- metamethod v "__unm" ;;
          match h with
          | VNil => fail 18
          | _ => vs <- call n h [v; v] ;; ret [first vs]
          end
        end
      | ULen => r <- length n v ;; ret [r]
      end
    | EBinary op l r =>
      match op with
      | BAnd => a <- eval1 n rho va l ;; if truthy a then b <- eval1 n rho va r ;; ret [b] else ret [a]
      | BOr => a <- eval1 n rho va l ;; if truthy a then ret [a] else b <- eval1 n rho va r ;; ret [b]
      | _ =>
        a <- eval1 n rho va l ;;
        b <- eval1 n rho va r ;;
        match op with
        | BEq => r <- equal n a b ;; ret [VBool r]
        | BNeq => r <- equal n a b ;; ret [VBool (negb r)]
        | BLt => r <- less n true a b ;; ret [VBool r]
        | BLe => r <- less n false a b ;; ret [VBool r]
        | BGt => r <- less n true b a ;; ret [VBool r]
        | BGe => r <- less n false b a ;; ret [VBool r]
        | BConcat => r <- concat n a b ;; ret [r]
        | _ => r <- arith n op a b ;; ret [r]
        end
      end
    | EInterp segs =>
      (fix go (ss : list iseg) (acc : bytes) : M (list value) :=
         match ss with
         | [] => ret [VStr acc]
         | ISStr s :: rest => go rest (acc ++ s)
         | ISExpr e' :: rest =>
           v <- eval1 n rho va e' ;;
           sv <- tostr n v ;;
           match sv with
           | VStr s => go rest (acc ++ s)
           | _ => fail 19
           end
         end) segs []
    | ETypeCast e' _ => v <- eval1 n rho va e' ;; ret [v]
    | ETypeInst p _ => v <- eval1 n rho va p ;; ret [v]
    end
  end

with eval1 (n : nat) (rho : env) (va : list value) (e : expr) {struct n} : M value :=
  match n with
  | O => fun _ => Fuel
  | S n => vs <- eval n rho va e ;; ret (first vs)
  end

(** expression list: every expression but the last is truncated to one value *)
with eval_list (n : nat) (rho : env) (va : list value) (es : list expr) {struct n} : M (list value) :=
  match n with
  | O => fun _ => Fuel
  | S n =>
    match es with
    | [] => ret []
    | [e] => eval n rho va e
    | e :: rest => v <- eval1 n rho va e ;; vs <- eval_list n rho va rest ;; ret (v :: vs)
    end
  end

with eval_args (n : nat) (rho : env) (va : list value) (a : args) {struct n} : M (list value) :=
  match n with
  | O => fun _ => Fuel
  | S n =>
    match a with
    | ATuple es => eval_list n rho va es
    | AString s => ret [VStr s]
    | ATable entries => t <- new_table (mkTable [] None) ;;
                        _ <- fill_table n rho va t entries 1 ;; ret [VTable t]
    end
  end

(** table constructor: positional entries get 1, 2, ...; a trailing multi-value entry expands *)
with fill_table (n : nat) (rho : env) (va : list value) (a : N) (entries : list tentry) (pos : Z)
     {struct n} : M unit :=
  match n with
  | O => fun _ => Fuel
  | S n =>
    let put (k v : value) : M unit :=
      t <- get_table a ;;
      match norm_key k with
      | None => fail 12
      | Some k' => set_table a (mkTable (raw_set (t_entries t) k' v) (t_meta t))
      end in
    match entries with
    | [] => ret tt
    | TField f e :: rest => v <- eval1 n rho va e ;; _ <- put (VStr f) v ;; fill_table n rho va a rest pos
    | TIndex k e :: rest =>
      kv <- eval1 n rho va k ;; v <- eval1 n rho va e ;; _ <- put kv v ;; fill_table n rho va a rest pos
    | [TValue e] =>
      vs <- eval n rho va e ;;
      (fix go (vs : list value) (pos : Z) : M unit :=
         match vs with
         | [] => ret tt
         | v :: vs' => _ <- (match v with VNil => ret tt | _ => put (VNum (of_Z pos)) v end) ;; go vs' (pos + 1)%Z
         end) vs pos
    | TValue e :: rest =>
      v <- eval1 n rho va e ;;
      _ <- (match v with VNil => ret tt | _ => put (VNum (of_Z pos)) v end) ;;
      fill_table n rho va a rest (pos + 1)%Z
    end
  end

with exec_block (n : nat) (rho : env) (va : list value) (b : block) {struct n} : M signal :=
  match n with
  | O => fun _ => Fuel
  | S n =>
    match b with
    | Block stmts last => exec_stmts n rho va stmts last
    end
  end

with exec_stmts (n : nat) (rho : env) (va : list value) (ss : list stmt) (last : option laststmt)
     {struct n} : M signal :=
  match n with
  | O => fun _ => Fuel
  | S n =>
    match ss with
    | [] =>
      match last with
      | None => ret SigNone
      | Some LBreak => ret SigBreak
      | Some LContinue => ret SigContinue
      | Some (LReturn es) => vs <- eval_list n rho va es ;; ret (SigReturn vs)
      end
    | st :: rest =>
      '(rho', sg) <- exec_stmt n rho va st ;;
      match sg with
      | SigNone => exec_stmts n rho' va rest last
      | _ => ret sg
      end
    end
  end

(** assignment to one evaluated target *)
with assign_target (n : nat) (rho : env) (tgt : (option N * value * value)) (v : value) {struct n} : M unit :=
  match n with
  | O => fun _ => Fuel
  | S n =>
    match tgt with
    | (Some a, _, _) => set_cell a v
    | (None, o, k) => setindex n o k v
    end
  end

(** evaluate an assignable expression to a target: a cell, or (object, key) *)
with eval_target (n : nat) (rho : env) (va : list value) (e : expr) {struct n}
     : M (option N * value * value) :=
  match n with
  | O => fun _ => Fuel
  | S n =>
    match e with
    | EIdent x =>
      match lookup rho x with
      | Some a => ret (Some a, VNil, VNil)
      | None => ret (None, VTable A_globals, VStr x)
      end
    | EField p f => o <- eval1 n rho va p ;; ret (None, o, VStr f)
    | EIndex p k => o <- eval1 n rho va p ;; kv <- eval1 n rho va k ;; ret (None, o, kv)
    | _ => unsup 60
    end
  end

with exec_stmt (n : nat) (rho : env) (va : list value) (st : stmt) {struct n} : M (env * signal) :=
  match n with
  | O => fun _ => Fuel
  | S n =>
    match st with
    | SAssign vars vals =>
      tgts <- (fix go (vs : list expr) : M (list (option N * value * value)) :=
                 match vs with
                 | [] => ret []
                 | v :: rest => t <- eval_target n rho va v ;; ts <- go rest ;; ret (t :: ts)
                 end) vars ;;
      vs <- eval_list n rho va vals ;;
      _ <- (fix go (ts : list (option N * value * value)) (vs : list value) : M unit :=
              match ts with
              | [] => ret tt
              | t :: rest => _ <- assign_target n rho t (arg vs 0) ;; go rest (tl vs)
              end) tgts vs ;;
      ret (rho, SigNone)
    | SDo b => sg <- exec_block n rho va b ;; ret (rho, sg)
    | SCall c => _ <- eval n rho va c ;; ret (rho, SigNone)
    | SCompound op var e =>
      t <- eval_target n rho va var ;;
      rhs <- eval1 n rho va e ;;
      cur <- (match t with
              | (Some a, _, _) => get_cell a
              | (None, o, k) => index n o k
              end) ;;
      r <- (match op with
            | BConcat => concat n cur rhs
            | _ => arith n op cur rhs
            end) ;;
      _ <- assign_target n rho t r ;;
      ret (rho, SigNone)
    | SFunction base fields method f =>
      c <- new_closure (mkClosure f rho (match method with Some _ => true | None => false end)) ;;
      let path := fields ++ (match method with Some m => [m] | None => [] end) in
      match path with
      | [] =>
        t <- eval_target n rho va (EIdent base) ;;
        _ <- assign_target n rho t (VClosure c) ;; ret (rho, SigNone)
      | _ =>
        o <- eval1 n rho va (EIdent base) ;;
        o <- (fix go (o : value) (ks : list name) : M value :=
                match ks with
                | [] | [_] => ret o
                | k :: rest => o' <- index n o (VStr k) ;; go o' rest
                end) o path ;;
        _ <- setindex n o (VStr (last path [])) (VClosure c) ;;
        ret (rho, SigNone)
      end
    | SLocal _ vars vals =>
      vs <- eval_list n rho va vals ;;
      rho' <- (fix go (ps : list param) (vs : list value) (acc : env) : M env :=
                 match ps with
                 | [] => ret acc
                 | p :: rest => a <- new_cell (arg vs 0) ;; go rest (tl vs) ((param_name p, a) :: acc)
                 end) vars vs rho ;;
      ret (rho', SigNone)
    | SLocalFunction x f =>
      a <- new_cell VNil ;;
      let rho' := (x, a) :: rho in
      c <- new_closure (mkClosure f rho' false) ;;
      _ <- set_cell a (VClosure c) ;;
      ret (rho', SigNone)
    | SIf branches els =>
      sg <- (fix go (bs : list sbranch) : M signal :=
               match bs with
               | [] => match els with
                       | Some b => exec_block n rho va b
                       | None => ret SigNone
                       end
               | SBranch c b :: rest =>
                 cv <- eval1 n rho va c ;;
                 if truthy cv then exec_block n rho va b else go rest
               end) branches ;;
      ret (rho, sg)
    | SWhile c b => sg <- exec_while n rho va c b ;; ret (rho, sg)
    | SRepeat b c => sg <- exec_repeat n rho va b c ;; ret (rho, sg)
    | SNumericFor var start stop step b =>
      v0 <- eval1 n rho va start ;;
      v1 <- eval1 n rho va stop ;;
      v2 <- (match step with Some e => eval1 n rho va e | None => ret (VNum fone) end) ;;
      match tonum v0, tonum v1, tonum v2 with
      | Some x0, Some x1, Some x2 =>
        if is_nan x2 || is_zero x2 then unsup 61
        else sg <- exec_numfor n rho va (param_name var) x0 x1 x2 b ;; ret (rho, sg)
      | _, _, _ => fail 61
      end
    | SGenericFor vars es b =>
      vs <- eval_list n rho va es ;;
      match arg vs 0 with
      | VTable _ => unsup 62        (* Luau generalised iteration / __call iterators: outside the fragment *)
      | f => sg <- exec_genfor n rho va vars f (arg vs 1) (arg vs 2) b ;; ret (rho, sg)
      end
    | STypeDecl _ _ _ _ => ret (rho, SigNone)
    | STypeFunction _ _ _ => ret (rho, SigNone)
    end
  end

with exec_while (n : nat) (rho : env) (va : list value) (c : expr) (b : block) {struct n} : M signal :=
  match n with
  | O => fun _ => Fuel
  | S n =>
    cv <- eval1 n rho va c ;;
    if truthy cv then
      sg <- exec_block n rho va b ;;
      match sg with
      | SigBreak => ret SigNone
      | SigReturn vs => ret sg
      | _ => exec_while n rho va c b
      end
    else ret SigNone
  end

(** repeat ... until c: the condition sees the body's locals, so the body's statements
    are run here and the condition is evaluated in the resulting environment *)
with exec_repeat (n : nat) (rho : env) (va : list value) (b : block) (c : expr) {struct n} : M signal :=
  match n with
  | O => fun _ => Fuel
  | S n =>
    match b with
    | Block stmts last =>
      '(rho', sg) <- (fix go (ss : list stmt) (rho : env) : M (env * signal) :=
                        match ss with
                        | [] =>
                          match last with
                          | None => ret (rho, SigNone)
                          | Some LBreak => ret (rho, SigBreak)
                          | Some LContinue => ret (rho, SigContinue)
                          | Some (LReturn es) => vs <- eval_list n rho va es ;; ret (rho, SigReturn vs)
                          end
                        | st :: rest =>
                          '(rho', sg) <- exec_stmt n rho va st ;;
                          match sg with
                          | SigNone => go rest rho'
                          | _ => ret (rho', sg)
                          end
                        end) stmts rho ;;
      match sg with
      | SigBreak => ret SigNone
      | SigReturn _ => ret sg
      | _ =>
        cv <- eval1 n rho' va c ;;
        if truthy cv then ret SigNone else exec_repeat n rho va b c
      end
    end
  end

with exec_numfor (n : nat) (rho : env) (va : list value) (x : name) (i stop step : f64) (b : block)
     {struct n} : M signal :=
  match n with
  | O => fun _ => Fuel
  | S n =>
    let continue_loop := if fltb fzero step then fleb i stop else fleb stop i in
    if continue_loop then
      a <- new_cell (VNum i) ;;
      sg <- exec_block n ((x, a) :: rho) va b ;;
      match sg with
      | SigBreak => ret SigNone
      | SigReturn _ => ret sg
      | _ => exec_numfor n rho va x (fadd i step) stop step b
      end
    else ret SigNone
  end

with exec_genfor (n : nat) (rho : env) (va : list value) (vars : list param) (f s ctl : value) (b : block)
     {struct n} : M signal :=
  match n with
  | O => fun _ => Fuel
  | S n =>
    vs <- call n f [s; ctl] ;;
    match first vs with
    | VNil => ret SigNone
    | ctl' =>
      rho' <- (fix go (ps : list param) (vs : list value) (acc : env) : M env :=
                 match ps with
                 | [] => ret acc
                 | p :: rest => a <- new_cell (arg vs 0) ;; go rest (tl vs) ((param_name p, a) :: acc)
                 end) vars vs rho ;;
      sg <- exec_block n rho' va b ;;
      match sg with
      | SigBreak => ret SigNone
      | SigReturn _ => ret sg
      | _ => exec_genfor n rho va vars f s ctl' b
      end
    end
  end.

End Interp.

(** * Observation: run a chunk, get the trace and the rendered results *)

Inductive outcome :=
| OutOk (tr : list event) (results : list rvalue)
| OutErr (tr : list event)
| OutFuel
| OutUnsup (why : N).

Definition run_chunk (d : dialect) (fuel : nat) (orc : list (list oval)) (b : block) : outcome :=
  match exec_block d fuel [] [] b (initial_store orc) with
  | Ok sg s => OutOk (rev (trace s)) (match sg with SigReturn vs => map (render 3 s) vs | _ => [] end)
  | Err _ s => OutErr (rev (trace s))
  | Fuel => OutFuel
  | Unsup w => OutUnsup w
  end.
