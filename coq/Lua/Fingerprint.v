(** A flattening of syntax trees into [list N], used to compare trees inside Coq
    ([tree_eqb]).  Every constructor contributes a distinct tag and its arity-determining
    data (list lengths, byte-string lengths), so the flattening is a prefix code: two trees
    have the same fingerprint exactly when they are equal. *)
From Coq Require Import ZArith NArith List Bool.
From DL Require Import Lib.Bytes Lua.Syntax.
Import ListNotations.
Open Scope N_scope.

Definition fp_bytes (s : bytes) : list N := N.of_nat (List.length s) :: s.
Definition fp_bool (b : bool) : list N := [if b then 1 else 0].
Definition fp_Z (z : Z) : list N :=
  match z with Z0 => [0; 0] | Zpos p => [1; Npos p] | Zneg p => [2; Npos p] end.
Definition fp_opt {A} (f : A -> list N) (o : option A) : list N :=
  match o with None => [0] | Some a => 1 :: f a end.
Definition fp_list {A} (f : A -> list N) (l : list A) : list N :=
  N.of_nat (List.length l) :: flat_map f l.

Definition fp_unop (o : unop) : list N := [match o with UNot => 0 | UMinus => 1 | ULen => 2 end].
Definition fp_binop (o : binop) : list N := [binop_tag o].

Definition fp_number (n : number) : list N :=
  match n with
  | NDec bits e => 0 :: bits :: fp_opt (fun p => fp_Z (fst p) ++ fp_bool (snd p)) e
  | NHex i u e => 1 :: i :: fp_bool u ++ fp_opt (fun p => fst p :: fp_bool (snd p)) e
  | NBin i u => 2 :: i :: fp_bool u
  end.

Fixpoint fp_ty (t : ty) : list N :=
  match t with
  | TyNode k subs es => 100 :: k :: fp_list fp_ty subs ++ fp_list fp_expr es
  end

with fp_expr (e : expr) : list N :=
  match e with
  | ENil => [1]
  | ETrue => [2]
  | EFalse => [3]
  | ENumber n => 4 :: fp_number n
  | EString s => 5 :: fp_bytes s
  | EInterp segs => 6 :: fp_list fp_iseg segs
  | EVarArgs => [7]
  | EIdent x => 8 :: fp_bytes x
  | EField p f => 9 :: fp_expr p ++ fp_bytes f
  | EIndex p k => 10 :: fp_expr p ++ fp_expr k
  | ECall p m a => 11 :: fp_expr p ++ fp_opt fp_bytes m ++ fp_args a
  | EFunction f => 12 :: fp_fbody f
  | EIf bs els => 13 :: fp_list fp_ebranch bs ++ fp_expr els
  | EParen e' => 14 :: fp_expr e'
  | ETable entries => 15 :: fp_list fp_tentry entries
  | EUnary op e' => 16 :: fp_unop op ++ fp_expr e'
  | EBinary op l r => 17 :: fp_binop op ++ fp_expr l ++ fp_expr r
  | ETypeCast e' t => 18 :: fp_expr e' ++ fp_ty t
  | ETypeInst p tys => 19 :: fp_expr p ++ fp_list fp_ty tys
  end

with fp_iseg (s : iseg) : list N :=
  match s with ISStr b => 20 :: fp_bytes b | ISExpr e => 21 :: fp_expr e end

with fp_ebranch (b : ebranch) : list N :=
  match b with EBranch c r => 22 :: fp_expr c ++ fp_expr r end

with fp_args (a : args) : list N :=
  match a with
  | ATuple es => 23 :: fp_list fp_expr es
  | AString s => 24 :: fp_bytes s
  | ATable entries => 25 :: fp_list fp_tentry entries
  end

with fp_tentry (t : tentry) : list N :=
  match t with
  | TField f v => 26 :: fp_bytes f ++ fp_expr v
  | TIndex k v => 27 :: fp_expr k ++ fp_expr v
  | TValue v => 28 :: fp_expr v
  end

with fp_fbody (f : fbody) : list N :=
  match f with
  | FBody ps variadic vt rt gen attrs body =>
    29 :: fp_list fp_param ps ++ fp_bool variadic ++ fp_opt fp_ty vt ++ fp_opt fp_ty rt
       ++ fp_opt fp_ty gen ++ [attrs] ++ fp_block body
  end

with fp_param (p : param) : list N :=
  match p with Param x t => 30 :: fp_bytes x ++ fp_opt fp_ty t end

with fp_stmt (s : stmt) : list N :=
  match s with
  | SAssign vars vals => 40 :: fp_list fp_expr vars ++ fp_list fp_expr vals
  | SDo b => 41 :: fp_block b
  | SCall c => 42 :: fp_expr c
  | SCompound op var v => 43 :: fp_binop op ++ fp_expr var ++ fp_expr v
  | SFunction base fields m f => 44 :: fp_bytes base ++ fp_list fp_bytes fields ++ fp_opt fp_bytes m ++ fp_fbody f
  | SGenericFor vars es b => 45 :: fp_list fp_param vars ++ fp_list fp_expr es ++ fp_block b
  | SIf bs els => 46 :: fp_list fp_sbranch bs ++ fp_opt fp_block els
  | SLocal c vars vals => 47 :: fp_bool c ++ fp_list fp_param vars ++ fp_list fp_expr vals
  | SLocalFunction x f => 48 :: fp_bytes x ++ fp_fbody f
  | SNumericFor var a b step body =>
    49 :: fp_param var ++ fp_expr a ++ fp_expr b ++ fp_opt fp_expr step ++ fp_block body
  | SRepeat b c => 50 :: fp_block b ++ fp_expr c
  | SWhile c b => 51 :: fp_expr c ++ fp_block b
  | STypeDecl ex x gen t => 52 :: fp_bool ex ++ fp_bytes x ++ fp_opt fp_ty gen ++ fp_ty t
  | STypeFunction ex x f => 53 :: fp_bool ex ++ fp_bytes x ++ fp_fbody f
  end

with fp_sbranch (b : sbranch) : list N :=
  match b with SBranch c body => 54 :: fp_expr c ++ fp_block body end

with fp_block (b : block) : list N :=
  match b with Block stmts last => 60 :: fp_list fp_stmt stmts ++ fp_opt fp_last last end

with fp_last (l : laststmt) : list N :=
  match l with
  | LBreak => [61]
  | LContinue => [62]
  | LReturn es => 63 :: fp_list fp_expr es
  end.

Fixpoint listN_eqb (a b : list N) : bool :=
  match a, b with
  | [], [] => true
  | x :: a', y :: b' => (x =? y) && listN_eqb a' b'
  | _, _ => false
  end.

Definition block_eqb (a b : block) : bool := listN_eqb (fp_block a) (fp_block b).
Definition expr_eqb (a b : expr) : bool := listN_eqb (fp_expr a) (fp_expr b).
Definition stmt_eqb (a b : stmt) : bool := listN_eqb (fp_stmt a) (fp_stmt b).
