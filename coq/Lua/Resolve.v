(** Lexical scoping of Lua / Luau on the MiniLua syntax: the SPECIFICATION side of property C09.
    Written from the reference manuals (Lua 5.1 section 2.6 "Visibility Rules", the Luau grammar),
    independently of darklua's [ScopeVisitor].

    - [ren pick] : the general capture-unaware renamer: every LOCAL binder (local variables,
      function parameters, [local function] names, numeric / generic [for] variables) named [x]
      met under the environment [env] is renamed to [pick env x], every occurrence that such a
      binder binds follows it.  Globals, field names, method names, [...] and the implicit [self]
      of [function t:m()] are left as they are.
    - [nameless := ren canon_pick []] : the alpha-normaliser.  A binder met with [k] binders in
      scope (de Bruijn LEVEL [k]) is renamed to [canon k] = '%' followed by the number k, which no
      identifier can be.  Two trees have the same [nameless] image iff they are the same program
      up to a consistent renaming of locals.
    - [fingerprint] : an injective-enough flattening of a tree into [list N], so two trees can be
      compared by list equality inside Coq.
    - [binders], [binders_k], [free_globals].

    Scopes:
      [local x = e]               e is outside x;  x is visible in the statements that follow
      [local function f ... end]  f is visible in its own parameter annotations and body
      [function(p1, .., pn) b]    parameters scope over the body, bound left to right
      [function t:m() b]          an implicit parameter [self] (kept as it is) comes first
      [for i = a, b, c do .. end] a, b, c outside i
      [for k, v in es do .. end]  es outside k, v
      [repeat b until c]          c sees the locals of b
      do / while / if / elseif / else / function bodies open a block scope
      [function a.b.c() end]      [a] is an occurrence (local if bound, otherwise global)
    DECISION on Luau types: type names, generics and field names are not identifiers of the value
    name space and are left alone; the expression of [typeof(e)] IS resolved, in the environment
    outside the binder group the annotation belongs to ([local x: T = e]: outside x; parameters,
    return and variadic annotations of a function: outside its parameters - for a
    [local function f] that is inside f; [for] variables: outside the loop variables).
    A type function [type function f() .. end] is a function body in the enclosing environment. *)
From Coq Require Import ZArith NArith List Bool.
From DL Require Import Lib.Bytes Lua.Syntax.
Import ListNotations.
Open Scope N_scope.

(** environment: (source name, new name), innermost binder first *)
Definition renv := list (name * name).

Fixpoint lookup (env : renv) (x : name) : option name :=
  match env with
  | [] => None
  | (o, n) :: r => if bytes_eqb o x then Some n else lookup r x
  end.

(** an identifier occurrence *)
Definition occ (env : renv) (x : name) : name :=
  match lookup env x with Some n => n | None => x end.

Definition self_name : name := [115; 101; 108; 102].
Definition bind_self (env : renv) : renv := (self_name, self_name) :: env.

(** statement lists: [f] sees the environment left by the statements before it *)
Definition seq_map {A B} (g : renv -> A -> renv) (f : renv -> A -> B) : renv -> list A -> list B :=
  fix go (env : renv) (l : list A) : list B :=
    match l with
    | [] => []
    | a :: r => f env a :: go (g env a) r
    end.

Definition seq_env {A} (g : renv -> A -> renv) (env : renv) (l : list A) : renv := fold_left g l env.

Section Ren.
Variable pick : renv -> name -> name.

Definition bind (env : renv) (x : name) : renv := (x, pick env x) :: env.
Definition bind_all (env : renv) (xs : list name) : renv := fold_left bind xs env.

(** the environment a statement leaves to the statements after it *)
Definition stmt_env (env : renv) (s : stmt) : renv :=
  match s with
  | SLocal _ vars _ => bind_all env (map param_name vars)
  | SLocalFunction x _ => bind env x
  | _ => env
  end.

(** a binder group: names bound left to right, annotations rewritten by [fty] *)
Definition ren_params (fty : ty -> ty) : renv -> list param -> list param :=
  fix go (env : renv) (ps : list param) : list param :=
    match ps with
    | [] => []
    | Param x t :: r => Param (pick env x) (option_map fty t) :: go (bind env x) r
    end.

Fixpoint ren_ty (env : renv) (t : ty) : ty :=
  match t with
  | TyNode k subs es => TyNode k (map (ren_ty env) subs) (map (ren_expr env) es)
  end

with ren_expr (env : renv) (e : expr) : expr :=
  match e with
  | ENil | ETrue | EFalse | ENumber _ | EString _ | EVarArgs => e
  | EInterp segs => EInterp (map (ren_iseg env) segs)
  | EIdent x => EIdent (occ env x)
  | EField p f => EField (ren_expr env p) f
  | EIndex p k => EIndex (ren_expr env p) (ren_expr env k)
  | ECall p m a => ECall (ren_expr env p) m (ren_args env a)
  | EFunction f => EFunction (ren_fbody env false f)
  | EIf bs els => EIf (map (ren_ebranch env) bs) (ren_expr env els)
  | EParen e' => EParen (ren_expr env e')
  | ETable entries => ETable (map (ren_tentry env) entries)
  | EUnary op e' => EUnary op (ren_expr env e')
  | EBinary op l r => EBinary op (ren_expr env l) (ren_expr env r)
  | ETypeCast e' t => ETypeCast (ren_expr env e') (ren_ty env t)
  | ETypeInst p tys => ETypeInst (ren_expr env p) (map (ren_ty env) tys)
  end

with ren_iseg (env : renv) (s : iseg) : iseg :=
  match s with ISStr _ => s | ISExpr e => ISExpr (ren_expr env e) end

with ren_ebranch (env : renv) (b : ebranch) : ebranch :=
  match b with EBranch c r => EBranch (ren_expr env c) (ren_expr env r) end

with ren_args (env : renv) (a : args) : args :=
  match a with
  | ATuple es => ATuple (map (ren_expr env) es)
  | AString _ => a
  | ATable entries => ATable (map (ren_tentry env) entries)
  end

with ren_tentry (env : renv) (t : tentry) : tentry :=
  match t with
  | TField f v => TField f (ren_expr env v)
  | TIndex k v => TIndex (ren_expr env k) (ren_expr env v)
  | TValue v => TValue (ren_expr env v)
  end

with ren_fbody (env : renv) (with_self : bool) (f : fbody) : fbody :=
  match f with
  | FBody ps va vt rt gen attrs body =>
    let env0 := if with_self then bind_self env else env in
    FBody (ren_params (ren_ty env) env0 ps) va (option_map (ren_ty env) vt) (option_map (ren_ty env) rt)
          (option_map (ren_ty env) gen) attrs
          (ren_block (bind_all env0 (map param_name ps)) body)
  end

with ren_stmt (env : renv) (s : stmt) : stmt :=
  match s with
  | SAssign vars vals => SAssign (map (ren_expr env) vars) (map (ren_expr env) vals)
  | SDo b => SDo (ren_block env b)
  | SCall c => SCall (ren_expr env c)
  | SCompound op var v => SCompound op (ren_expr env var) (ren_expr env v)
  | SFunction base fields method f =>
    SFunction (occ env base) fields method
              (ren_fbody env (match method with Some _ => true | None => false end) f)
  | SGenericFor vars es b =>
    SGenericFor (ren_params (ren_ty env) env vars) (map (ren_expr env) es)
                (ren_block (bind_all env (map param_name vars)) b)
  | SIf bs els => SIf (map (ren_sbranch env) bs) (option_map (ren_block env) els)
  | SLocal c vars vals => SLocal c (ren_params (ren_ty env) env vars) (map (ren_expr env) vals)
  | SLocalFunction x f => SLocalFunction (pick env x) (ren_fbody (bind env x) false f)
  | SNumericFor (Param x t) a b step body =>
    SNumericFor (Param (pick env x) (option_map (ren_ty env) t)) (ren_expr env a) (ren_expr env b)
                (option_map (ren_expr env) step) (ren_block (bind env x) body)
  | SRepeat (Block ss last) c =>
    SRepeat (Block (seq_map stmt_env ren_stmt env ss) (option_map (ren_last (seq_env stmt_env env ss)) last))
            (ren_expr (seq_env stmt_env env ss) c)
  | SWhile c b => SWhile (ren_expr env c) (ren_block env b)
  | STypeDecl ex x gen t => STypeDecl ex x (option_map (ren_ty env) gen) (ren_ty env t)
  | STypeFunction ex x f => STypeFunction ex x (ren_fbody env false f)
  end

with ren_sbranch (env : renv) (b : sbranch) : sbranch :=
  match b with SBranch c body => SBranch (ren_expr env c) (ren_block env body) end

with ren_block (env : renv) (b : block) : block :=
  match b with
  | Block ss last =>
    Block (seq_map stmt_env ren_stmt env ss) (option_map (ren_last (seq_env stmt_env env ss)) last)
  end

with ren_last (env : renv) (l : laststmt) : laststmt :=
  match l with
  | LBreak | LContinue => l
  | LReturn es => LReturn (map (ren_expr env) es)
  end.

(** ---------------------------------------------------------------------------------------
    a predicate at every identifier occurrence ([p env x], with the environment the renamer
    would have there) *)
Section AllOcc.
Variable p : renv -> name -> bool.

Definition seq_forallb {A} (g : renv -> A -> renv) (f : renv -> A -> bool) : renv -> list A -> bool :=
  fix go (env : renv) (l : list A) : bool :=
    match l with
    | [] => true
    | a :: r => f env a && go (g env a) r
    end.

Definition optb {A} (f : A -> bool) (o : option A) : bool := match o with Some a => f a | None => true end.

Definition ao_params (fty : ty -> bool) (ps : list param) : bool :=
  forallb (fun q => match q with Param _ t => optb fty t end) ps.

Fixpoint ao_ty (env : renv) (t : ty) : bool :=
  match t with
  | TyNode _ subs es => forallb (ao_ty env) subs && forallb (ao_expr env) es
  end

with ao_expr (env : renv) (e : expr) : bool :=
  match e with
  | ENil | ETrue | EFalse | ENumber _ | EString _ | EVarArgs => true
  | EInterp segs => forallb (ao_iseg env) segs
  | EIdent x => p env x
  | EField q _ => ao_expr env q
  | EIndex q k => ao_expr env q && ao_expr env k
  | ECall q _ a => ao_expr env q && ao_args env a
  | EFunction f => ao_fbody env false f
  | EIf bs els => forallb (ao_ebranch env) bs && ao_expr env els
  | EParen e' => ao_expr env e'
  | ETable entries => forallb (ao_tentry env) entries
  | EUnary _ e' => ao_expr env e'
  | EBinary _ l r => ao_expr env l && ao_expr env r
  | ETypeCast e' t => ao_expr env e' && ao_ty env t
  | ETypeInst q tys => ao_expr env q && forallb (ao_ty env) tys
  end

with ao_iseg (env : renv) (s : iseg) : bool :=
  match s with ISStr _ => true | ISExpr e => ao_expr env e end

with ao_ebranch (env : renv) (b : ebranch) : bool :=
  match b with EBranch c r => ao_expr env c && ao_expr env r end

with ao_args (env : renv) (a : args) : bool :=
  match a with
  | ATuple es => forallb (ao_expr env) es
  | AString _ => true
  | ATable entries => forallb (ao_tentry env) entries
  end

with ao_tentry (env : renv) (t : tentry) : bool :=
  match t with
  | TField _ v => ao_expr env v
  | TIndex k v => ao_expr env k && ao_expr env v
  | TValue v => ao_expr env v
  end

with ao_fbody (env : renv) (with_self : bool) (f : fbody) : bool :=
  match f with
  | FBody ps _ vt rt gen _ body =>
    let env0 := if with_self then bind_self env else env in
    ao_params (ao_ty env) ps && optb (ao_ty env) vt && optb (ao_ty env) rt && optb (ao_ty env) gen
    && ao_block (bind_all env0 (map param_name ps)) body
  end

with ao_stmt (env : renv) (s : stmt) : bool :=
  match s with
  | SAssign vars vals => forallb (ao_expr env) vars && forallb (ao_expr env) vals
  | SDo b => ao_block env b
  | SCall c => ao_expr env c
  | SCompound _ var v => ao_expr env var && ao_expr env v
  | SFunction base _ method f =>
    p env base && ao_fbody env (match method with Some _ => true | None => false end) f
  | SGenericFor vars es b =>
    ao_params (ao_ty env) vars && forallb (ao_expr env) es && ao_block (bind_all env (map param_name vars)) b
  | SIf bs els => forallb (ao_sbranch env) bs && optb (ao_block env) els
  | SLocal _ vars vals => ao_params (ao_ty env) vars && forallb (ao_expr env) vals
  | SLocalFunction x f => ao_fbody (bind env x) false f
  | SNumericFor (Param x t) a b step body =>
    optb (ao_ty env) t && ao_expr env a && ao_expr env b && optb (ao_expr env) step && ao_block (bind env x) body
  | SRepeat (Block ss last) c =>
    seq_forallb stmt_env ao_stmt env ss && optb (ao_last (seq_env stmt_env env ss)) last
    && ao_expr (seq_env stmt_env env ss) c
  | SWhile c b => ao_expr env c && ao_block env b
  | STypeDecl _ _ gen t => optb (ao_ty env) gen && ao_ty env t
  | STypeFunction _ _ f => ao_fbody env false f
  end

with ao_sbranch (env : renv) (b : sbranch) : bool :=
  match b with SBranch c body => ao_expr env c && ao_block env body end

with ao_block (env : renv) (b : block) : bool :=
  match b with
  | Block ss last => seq_forallb stmt_env ao_stmt env ss && optb (ao_last (seq_env stmt_env env ss)) last
  end

with ao_last (env : renv) (l : laststmt) : bool :=
  match l with
  | LBreak | LContinue => true
  | LReturn es => forallb (ao_expr env) es
  end.
End AllOcc.

(** ---------------------------------------------------------------------------------------
    collecting something at every occurrence ([hocc env x]) and at every binder
    ([hbind kind env x]; kinds: 0 local variable, 1 function parameter, 2 local function name,
    3 numeric for variable, 4 generic for variable) in traversal order *)
Section Collect.
Context {X : Type}.
Variable hocc : renv -> name -> list X.
Variable hbind : N -> renv -> name -> list X.

Definition seq_flat {A} (g : renv -> A -> renv) (f : renv -> A -> list X) : renv -> list A -> list X :=
  fix go (env : renv) (l : list A) : list X :=
    match l with
    | [] => []
    | a :: r => f env a ++ go (g env a) r
    end.

Definition optl {A} (f : A -> list X) (o : option A) : list X := match o with Some a => f a | None => [] end.

Definition co_params (kind : N) (fty : ty -> list X) : renv -> list param -> list X :=
  fix go (env : renv) (ps : list param) : list X :=
    match ps with
    | [] => []
    | Param x t :: r => hbind kind env x ++ optl fty t ++ go (bind env x) r
    end.

Fixpoint co_ty (env : renv) (t : ty) : list X :=
  match t with
  | TyNode _ subs es => flat_map (co_ty env) subs ++ flat_map (co_expr env) es
  end

with co_expr (env : renv) (e : expr) : list X :=
  match e with
  | ENil | ETrue | EFalse | ENumber _ | EString _ | EVarArgs => []
  | EInterp segs => flat_map (co_iseg env) segs
  | EIdent x => hocc env x
  | EField q _ => co_expr env q
  | EIndex q k => co_expr env q ++ co_expr env k
  | ECall q _ a => co_expr env q ++ co_args env a
  | EFunction f => co_fbody env false f
  | EIf bs els => flat_map (co_ebranch env) bs ++ co_expr env els
  | EParen e' => co_expr env e'
  | ETable entries => flat_map (co_tentry env) entries
  | EUnary _ e' => co_expr env e'
  | EBinary _ l r => co_expr env l ++ co_expr env r
  | ETypeCast e' t => co_expr env e' ++ co_ty env t
  | ETypeInst q tys => co_expr env q ++ flat_map (co_ty env) tys
  end

with co_iseg (env : renv) (s : iseg) : list X :=
  match s with ISStr _ => [] | ISExpr e => co_expr env e end

with co_ebranch (env : renv) (b : ebranch) : list X :=
  match b with EBranch c r => co_expr env c ++ co_expr env r end

with co_args (env : renv) (a : args) : list X :=
  match a with
  | ATuple es => flat_map (co_expr env) es
  | AString _ => []
  | ATable entries => flat_map (co_tentry env) entries
  end

with co_tentry (env : renv) (t : tentry) : list X :=
  match t with
  | TField _ v => co_expr env v
  | TIndex k v => co_expr env k ++ co_expr env v
  | TValue v => co_expr env v
  end

with co_fbody (env : renv) (with_self : bool) (f : fbody) : list X :=
  match f with
  | FBody ps _ vt rt gen _ body =>
    let env0 := if with_self then bind_self env else env in
    co_params 1 (co_ty env) env0 ps ++ optl (co_ty env) vt ++ optl (co_ty env) rt ++ optl (co_ty env) gen
    ++ co_block (bind_all env0 (map param_name ps)) body
  end

with co_stmt (env : renv) (s : stmt) : list X :=
  match s with
  | SAssign vars vals => flat_map (co_expr env) vars ++ flat_map (co_expr env) vals
  | SDo b => co_block env b
  | SCall c => co_expr env c
  | SCompound _ var v => co_expr env var ++ co_expr env v
  | SFunction base _ method f =>
    hocc env base ++ co_fbody env (match method with Some _ => true | None => false end) f
  | SGenericFor vars es b =>
    co_params 4 (co_ty env) env vars ++ flat_map (co_expr env) es
    ++ co_block (bind_all env (map param_name vars)) b
  | SIf bs els => flat_map (co_sbranch env) bs ++ optl (co_block env) els
  | SLocal _ vars vals => flat_map (co_expr env) vals ++ co_params 0 (co_ty env) env vars
  | SLocalFunction x f => hbind 2 env x ++ co_fbody (bind env x) false f
  | SNumericFor (Param x t) a b step body =>
    co_expr env a ++ co_expr env b ++ optl (co_expr env) step ++ hbind 3 env x ++ optl (co_ty env) t
    ++ co_block (bind env x) body
  | SRepeat (Block ss last) c =>
    seq_flat stmt_env co_stmt env ss ++ optl (co_last (seq_env stmt_env env ss)) last
    ++ co_expr (seq_env stmt_env env ss) c
  | SWhile c b => co_expr env c ++ co_block env b
  | STypeDecl _ _ gen t => optl (co_ty env) gen ++ co_ty env t
  | STypeFunction _ _ f => co_fbody env false f
  end

with co_sbranch (env : renv) (b : sbranch) : list X :=
  match b with SBranch c body => co_expr env c ++ co_block env body end

with co_block (env : renv) (b : block) : list X :=
  match b with
  | Block ss last => seq_flat stmt_env co_stmt env ss ++ optl (co_last (seq_env stmt_env env ss)) last
  end

with co_last (env : renv) (l : laststmt) : list X :=
  match l with
  | LBreak | LContinue => []
  | LReturn es => flat_map (co_expr env) es
  end.
End Collect.
End Ren.

(** ---------------------------------------------------------------------------------------
    the alpha-normaliser *)
(** the canonical name of de Bruijn level k: '%' followed by ONE element carrying k itself (names
    are lists over N; no identifier starts with '%') *)
Definition canon (k : nat) : name := [37; N.of_nat k].
Definition is_canon (x : name) : bool := match x with c :: _ => c =? 37 | [] => false end.
Definition canon_pick (env : renv) (_ : name) : name := canon (List.length env).

Definition nameless (b : block) : block := ren_block canon_pick [] b.

(** every local binder of a tree with its kind, in traversal order *)
Definition keep_pick (_ : renv) (x : name) : name := x.
Definition binders_k (b : block) : list (N * name) :=
  co_block keep_pick (fun _ _ => []) (fun k _ x => [(k, x)]) [] b.
Definition binders (b : block) : list name := map snd (binders_k b).

(** the identifier occurrences no enclosing local binder (nor an implicit [self]) binds, with
    repetitions, in traversal order *)
Definition free_globals (b : block) : list name :=
  co_block keep_pick (fun env x => match lookup env x with Some _ => [] | None => [x] end)
           (fun _ _ _ => []) [] b.

(** ---------------------------------------------------------------------------------------
    [rename_ok pick b]: renaming b's binders with [pick] captures nothing: at every occurrence,
    the new name resolves, among the new names in scope, to the binder the old name resolved to
    among the old names; a global stays free. *)
Fixpoint find_fst (env : renv) (x : name) : option nat :=
  match env with
  | [] => None
  | (o, _) :: r => if bytes_eqb o x then Some O else option_map S (find_fst r x)
  end.
Fixpoint find_snd (env : renv) (x : name) : option nat :=
  match env with
  | [] => None
  | (_, n) :: r => if bytes_eqb n x then Some O else option_map S (find_snd r x)
  end.
Definition opt_nat_eqb (a b : option nat) : bool :=
  match a, b with
  | Some x, Some y => Nat.eqb x y
  | None, None => true
  | _, _ => false
  end.
Definition occ_ok (env : renv) (x : name) : bool :=
  opt_nat_eqb (find_snd env (occ env x)) (find_fst env x).

Definition rename_ok (pick : renv -> name -> name) (b : block) : bool := ao_block pick occ_ok [] b.

(** no free identifier of the tree is spelled like a canonical name *)
Definition canon_free (b : block) : bool :=
  ao_block canon_pick (fun env x => match lookup env x with Some _ => true | None => negb (is_canon x) end) [] b.

(** ---------------------------------------------------------------------------------------
    fingerprint *)
Definition fp_name (x : name) : list N := N.of_nat (List.length x) :: x.
Definition fp_list {A} (f : A -> list N) (l : list A) : list N := N.of_nat (List.length l) :: flat_map f l.
Definition fp_opt {A} (f : A -> list N) (o : option A) : list N :=
  match o with Some a => 1 :: f a | None => [0] end.
Definition fp_bool (b : bool) : N := if b then 1 else 0.
Definition fp_z (z : Z) : list N :=
  match z with Z0 => [0; 0] | Zpos p => [1; Npos p] | Zneg p => [2; Npos p] end.
Definition fp_number (n : number) : list N :=
  match n with
  | NDec bits ex => 0 :: bits :: fp_opt (fun q => fp_z (fst q) ++ [fp_bool (snd q)]) ex
  | NHex i up ex => 1 :: i :: fp_bool up :: fp_opt (fun q => [fst q; fp_bool (snd q)]) ex
  | NBin i up => [2; i; fp_bool up]
  end.
Definition unop_tag (o : unop) : N := match o with UNot => 0 | UMinus => 1 | ULen => 2 end.

Fixpoint fp_ty (t : ty) : list N :=
  match t with
  | TyNode k subs es => 100 :: k :: fp_list fp_ty subs ++ fp_list fp_expr es
  end

with fp_expr (e : expr) : list N :=
  match e with
  | ENil => [1]
  | ETrue => [2]
  | EFalse => [3]
  | ENumber n => 4 :: fp_number n
  | EString s => 5 :: fp_name s
  | EInterp segs => 6 :: fp_list fp_iseg segs
  | EVarArgs => [7]
  | EIdent x => 8 :: fp_name x
  | EField p f => 9 :: fp_expr p ++ fp_name f
  | EIndex p k => 10 :: fp_expr p ++ fp_expr k
  | ECall p m a => 11 :: fp_expr p ++ fp_opt fp_name m ++ fp_args a
  | EFunction f => 12 :: fp_fbody f
  | EIf bs els => 13 :: fp_list fp_ebranch bs ++ fp_expr els
  | EParen e' => 14 :: fp_expr e'
  | ETable entries => 15 :: fp_list fp_tentry entries
  | EUnary op e' => 16 :: unop_tag op :: fp_expr e'
  | EBinary op l r => 17 :: binop_tag op :: fp_expr l ++ fp_expr r
  | ETypeCast e' t => 18 :: fp_expr e' ++ fp_ty t
  | ETypeInst p tys => 19 :: fp_expr p ++ fp_list fp_ty tys
  end

with fp_iseg (s : iseg) : list N :=
  match s with ISStr s' => 20 :: fp_name s' | ISExpr e => 21 :: fp_expr e end

with fp_ebranch (b : ebranch) : list N :=
  match b with EBranch c r => 22 :: fp_expr c ++ fp_expr r end

with fp_args (a : args) : list N :=
  match a with
  | ATuple es => 23 :: fp_list fp_expr es
  | AString s => 24 :: fp_name s
  | ATable entries => 25 :: fp_list fp_tentry entries
  end

with fp_tentry (t : tentry) : list N :=
  match t with
  | TField f v => 26 :: fp_name f ++ fp_expr v
  | TIndex k v => 27 :: fp_expr k ++ fp_expr v
  | TValue v => 28 :: fp_expr v
  end

with fp_fbody (f : fbody) : list N :=
  match f with
  | FBody ps va vt rt gen attrs body =>
    29 :: fp_list fp_param ps ++ fp_bool va :: fp_opt fp_ty vt ++ fp_opt fp_ty rt ++ fp_opt fp_ty gen
       ++ attrs :: fp_block body
  end

with fp_param (p : param) : list N :=
  match p with Param x t => 30 :: fp_name x ++ fp_opt fp_ty t end

with fp_stmt (s : stmt) : list N :=
  match s with
  | SAssign vars vals => 31 :: fp_list fp_expr vars ++ fp_list fp_expr vals
  | SDo b => 32 :: fp_block b
  | SCall c => 33 :: fp_expr c
  | SCompound op var v => 34 :: binop_tag op :: fp_expr var ++ fp_expr v
  | SFunction base fields method f =>
    35 :: fp_name base ++ fp_list fp_name fields ++ fp_opt fp_name method ++ fp_fbody f
  | SGenericFor vars es b => 36 :: fp_list fp_param vars ++ fp_list fp_expr es ++ fp_block b
  | SIf bs els => 37 :: fp_list fp_sbranch bs ++ fp_opt fp_block els
  | SLocal c vars vals => 38 :: fp_bool c :: fp_list fp_param vars ++ fp_list fp_expr vals
  | SLocalFunction x f => 39 :: fp_name x ++ fp_fbody f
  | SNumericFor var a b step body =>
    40 :: fp_param var ++ fp_expr a ++ fp_expr b ++ fp_opt fp_expr step ++ fp_block body
  | SRepeat b c => 41 :: fp_block b ++ fp_expr c
  | SWhile c b => 42 :: fp_expr c ++ fp_block b
  | STypeDecl ex x gen t => 43 :: fp_bool ex :: fp_name x ++ fp_opt fp_ty gen ++ fp_ty t
  | STypeFunction ex x f => 44 :: fp_bool ex :: fp_name x ++ fp_fbody f
  end

with fp_sbranch (b : sbranch) : list N :=
  match b with SBranch c body => 45 :: fp_expr c ++ fp_block body end

with fp_block (b : block) : list N :=
  match b with
  | Block ss last => 46 :: fp_list fp_stmt ss ++ fp_opt fp_last last
  end

with fp_last (l : laststmt) : list N :=
  match l with
  | LBreak => [47]
  | LContinue => [48]
  | LReturn es => 49 :: fp_list fp_expr es
  end.

Definition fingerprint (b : block) : list N := fp_block b.

Fixpoint list_N_eqb (a b : list N) : bool :=
  match a, b with
  | [], [] => true
  | x :: a', y :: b' => (x =? y) && list_N_eqb a' b'
  | _, _ => false
  end.
