(** Further decidable carve-outs used in the statements of the C08 theorems (found while
    proving them; counter-examples in [Proof/EvaluatorSound.v]).

    - [deep_safe d e]: [dialect_safe d] on [e] AND on every expression inside the table
      constructors of [e] ([concat_safe]/[mod_safe] stop at a table constructor, but
      [has_side_effects] looks into it).
    - [ctor_pure d e]: every table constructor that [evaluate] looks past (it answers
      [LTable] without looking at the entries, and [and]/[or]/[if] then continue with the
      siblings) has entries without side effects: otherwise the entries run arbitrary code,
      which can for instance install [__tostring] in the string metatable before a sibling
      is rendered. *)
From Coq Require Import ZArith NArith List Bool.
From DL Require Import Lib.Bytes Lib.F64 Lua.Syntax Lua.Sem Model.Evaluator Lua.EvalSpec.
Import ListNotations.

Fixpoint tables_safe (d : dialect) (e : expr) : bool :=
  match e with
  | ETable entries =>
    forallb (fun en => match en with
                       | TField _ v => dialect_safe d v && tables_safe d v
                       | TIndex k v => dialect_safe d k && tables_safe d k && (dialect_safe d v && tables_safe d v)
                       | TValue v => dialect_safe d v && tables_safe d v
                       end) entries
  | EBinary _ l r => tables_safe d l && tables_safe d r
  | EUnary _ e' | EParen e' | ETypeCast e' _ | ETypeInst e' _ => tables_safe d e'
  | EIf bs els =>
    forallb (fun b => match b with EBranch c r => tables_safe d c && tables_safe d r end) bs
    && tables_safe d els
  | EInterp segs => forallb (fun sg => match sg with ISExpr e' => tables_safe d e' | ISStr _ => true end) segs
  | _ => true
  end.

Definition deep_safe (d : dialect) (e : expr) : bool := dialect_safe d e && tables_safe d e.

Fixpoint ctor_pure (d : dialect) (e : expr) : bool :=
  match e with
  | ETable _ => negb (has_side_effects false e) && deep_safe d e
  | EBinary _ l r => ctor_pure d l && ctor_pure d r
  | EUnary _ e' | EParen e' | ETypeCast e' _ | ETypeInst e' _ => ctor_pure d e'
  | EIf bs els =>
    forallb (fun b => match b with EBranch c r => ctor_pure d c && ctor_pure d r end) bs
    && ctor_pure d els
  | EInterp segs => forallb (fun sg => match sg with ISExpr e' => ctor_pure d e' | ISStr _ => true end) segs
  | _ => true
  end.
