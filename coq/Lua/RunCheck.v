(** Comparison of whole-program behaviours in the reference interpreter: the search
    oracle of the rule properties (C01, C06, C16, C17) and of C05. *)
From Coq Require Import ZArith NArith List Bool String.
From DL Require Import Lib.Bytes Lib.F64 Lua.Syntax Lua.Sem.
Import ListNotations.
Open Scope N_scope.

Fixpoint rvalue_eqb (a b : rvalue) : bool :=
  match a, b with
  | RNil, RNil | RFunc, RFunc | RDeep, RDeep => true
  | RBool x, RBool y => Bool.eqb x y
  | RNum x, RNum y => x =? y
  | RStr x, RStr y => bytes_eqb x y
  | RTable xs mx, RTable ys my =>
    Bool.eqb mx my &&
    (fix go (xs ys : list (rvalue * rvalue)) : bool :=
       match xs, ys with
       | [], [] => true
       | (k1, v1) :: xs', (k2, v2) :: ys' => rvalue_eqb k1 k2 && rvalue_eqb v1 v2 && go xs' ys'
       | _, _ => false
       end) xs ys
  | _, _ => false
  end.

Fixpoint list_eqb {A} (eqb : A -> A -> bool) (l l' : list A) : bool :=
  match l, l' with
  | [], [] => true
  | x :: r, y :: r' => eqb x y && list_eqb eqb r r'
  | _, _ => false
  end.

Definition event_eqb (a b : event) : bool :=
  match a, b with
  | EvCall f xs, EvCall g ys => bytes_eqb f g && list_eqb rvalue_eqb xs ys
  end.

Definition outcome_eqb (a b : outcome) : bool :=
  match a, b with
  | OutOk t1 r1, OutOk t2 r2 => list_eqb event_eqb t1 t2 && list_eqb rvalue_eqb r1 r2
  | _, _ => false
  end.

(** oracle streams: what external functions return *)
Definition orc_numbers : list (list oval) :=
  map (fun z => [ONum (to_bits (of_Z z))]) [3; 1; 0; 7; 2; -1; 5; 4; 10; 1; 2; 3; 0; 6; 8; 1]%Z.
Definition orc_mixed : list (list oval) :=
  [ [ONum (to_bits (of_Z 2)); ONum (to_bits (of_Z 9))]; [OBool false]; [ONum (to_bits (of_Z 1))]; [];
    [OStr [115]]; [ONum (to_bits (of_Z 4)); ONil; ONum (to_bits (of_Z 6))]; [OBool true];
    [ONum (to_bits (of_Z 0))]; [OTab]; [ONum (to_bits (of_Z 5))]; [OMeta]; [ONum (to_bits (of_Z 3))];
    [ONil]; [ONum (to_bits (of_Z 2))]; [OFun]; [ONum (to_bits (of_Z 1))] ].
Definition orc_streams : list (list (list oval)) :=
  [ orc_numbers ++ orc_numbers ++ orc_numbers; orc_mixed ++ orc_numbers; rev orc_numbers ++ orc_mixed ].

(** verdict for one oracle stream: 0 = same behaviour, 1 = no verdict (the reference run is
    not error-free, runs out of fuel, leaves the modelled fragment, or depends on the
    dialect), 2 = different behaviour *)
Definition compare_on (fuel : nat) (orc : list (list oval)) (ref out : block) : N :=
  match run_chunk L51 fuel orc ref, run_chunk Luau fuel orc ref with
  | OutOk t1 r1, OutOk t2 r2 =>
    if outcome_eqb (OutOk t1 r1) (OutOk t2 r2) then
      if outcome_eqb (run_chunk L51 fuel orc out) (OutOk t1 r1)
         && outcome_eqb (run_chunk Luau fuel orc out) (OutOk t1 r1)
      then 0 else 2
    else 1
  | _, _ => 1
  end.

Definition compare_all (fuel : nat) (ref out : block) : N :=
  let vs := map (fun orc => compare_on fuel orc ref out) orc_streams in
  if existsb (N.eqb 2) vs then 2 else if existsb (N.eqb 0) vs then 0 else 1.

(** why a reference run gave no verdict (diagnostics) *)
Definition outcome_tag (o : outcome) : string :=
  match o with
  | OutOk _ _ => "ok"
  | OutErr _ => "error"
  | OutFuel => "fuel"
  | OutUnsup w => "unsupported"
  end.
