(** C14 — what it means for a Lua value to "equal" a data document.  SPECIFICATION.

    [data] is the serde data model as far as JSON / JSON5 / YAML / TOML values reach it
    (documents): null, booleans, integers (i64 / u64), binary64 floats, strings, sequences
    and mappings.  YAML mappings may have non-string keys, so keys are [data] too.

    [value_denotes s v d]: in store [s] the Lua value [v] is the document [d]:
      - null is nil, booleans are booleans, strings are byte-identical;
      - an integer is the nearest double ([of_Z] rounds to nearest, ties to even),
        a float is the double with the document's bit pattern;
      - a sequence of n elements is a table without metatable whose content, read as a function
        from keys to values, is exactly  i |-> element i  for i = 1..n and nil for every other
        key (a null element is an absent key: reading it gives nil);
      - a mapping is a table without metatable that holds, under the Lua key of each
        document key, the value of that key, and nil under every key that is not a document
        key.  When two document keys are the same Lua key (duplicates, or YAML [1] and [1.0]),
        the LAST binding holds.  A key whose value is null is absent.
    Keys are compared the way Lua tables compare them ([raw_equal]: -0 and +0 are one key).

    [value_denotes_from lo] additionally says that every table involved lives at an address
    >= [lo] (used to state that evaluation only allocates fresh tables); [lo = 0] is no
    constraint. *)
From Coq Require Import ZArith NArith List Bool.
From DL Require Import Lib.Bytes Lib.F64 Lua.Syntax Lua.Sem.
Import ListNotations.
Open Scope N_scope.

Inductive data :=
| DNull
| DBool (b : bool)
| DInt (z : Z)                          (* i64 / u64 *)
| DFloat (bits : N)                     (* binary64 bit pattern *)
| DString (s : bytes)
| DSeq (items : list data)
| DMap (entries : list (data * data)).

(** the Lua table key of a document key ([None]: Lua has no such key).  Numbers go through
    Lua's key normalisation [norm_key]: NaN is not a key, -0 is the key +0. *)
Definition key_value (k : data) : option value :=
  match k with
  | DBool b => Some (VBool b)
  | DInt z => norm_key (VNum (of_Z z))
  | DFloat bits => norm_key (VNum (of_bits bits))
  | DString s => Some (VStr s)
  | DNull | DSeq _ | DMap _ => None
  end.

(** Lua index of the i-th element (0-based) of a sequence *)
Definition seq_key (i : nat) : value := VNum (of_Z (Z.of_nat i + 1)).

(** [k] is none of the Lua keys of the document keys [ks] *)
Definition not_a_key (ks : list data) (k : value) : Prop :=
  forall dk kv, In dk ks -> key_value dk = Some kv -> raw_equal kv k = false.

Inductive value_denotes_from (lo : nat) (s : store) : value -> data -> Prop :=
| VD_null : value_denotes_from lo s VNil DNull
| VD_bool b : value_denotes_from lo s (VBool b) (DBool b)
| VD_int z : value_denotes_from lo s (VNum (of_Z z)) (DInt z)
| VD_float bits : value_denotes_from lo s (VNum (of_bits bits)) (DFloat bits)
| VD_string b : value_denotes_from lo s (VStr b) (DString b)
| VD_seq a t items :
    (lo <= N.to_nat a)%nat ->
    nth_N (tables s) (N.to_nat a) = Some t -> t_meta t = None ->
    (* element i is at index i + 1 *)
    (forall i d, nth_error items i = Some d ->
       value_denotes_from lo s (raw_get (t_entries t) (seq_key i)) d) ->
    (* nothing else is in the table *)
    (forall k, (forall i, (i < List.length items)%nat -> raw_equal (seq_key i) k = false) ->
       raw_get (t_entries t) k = VNil) ->
    value_denotes_from lo s (VTable a) (DSeq items)
| VD_map a t entries :
    (lo <= N.to_nat a)%nat ->
    nth_N (tables s) (N.to_nat a) = Some t -> t_meta t = None ->
    (* a binding that no later binding overrides holds *)
    (forall before k d after kv,
       entries = before ++ (k, d) :: after -> key_value k = Some kv ->
       not_a_key (map fst after) kv ->
       value_denotes_from lo s (raw_get (t_entries t) kv) d) ->
    (* nothing else is in the table *)
    (forall k, not_a_key (map fst entries) k -> raw_get (t_entries t) k = VNil) ->
    value_denotes_from lo s (VTable a) (DMap entries).

Definition value_denotes (s : store) (v : value) (d : data) : Prop := value_denotes_from 0 s v d.

(** keys Lua tables can hold and whose identity is determined by the document: booleans,
    numbers other than NaN, strings.  Excluded: null and NaN keys (Lua raises an error when a
    table constructor stores under them) and sequence / mapping keys (a table used as a key
    is a key by identity) -- all three only arise from YAML documents. *)
Fixpoint wf_keys (d : data) : Prop :=
  match d with
  | DSeq items => (fix all (l : list data) : Prop :=
                     match l with [] => True | x :: r => wf_keys x /\ all r end) items
  | DMap entries => (fix all (l : list (data * data)) : Prop :=
                       match l with
                       | [] => True
                       | (k, v) :: r => key_value k <> None /\ wf_keys v /\ all r
                       end) entries
  | _ => True
  end.

(** positional indices are doubles in the reference interpreter: below 2^53 they are exact *)
Fixpoint seq_len_ok (d : data) : Prop :=
  match d with
  | DSeq items => (Z.of_nat (List.length items) < 9007199254740992)%Z /\
                  (fix all (l : list data) : Prop :=
                     match l with [] => True | x :: r => seq_len_ok x /\ all r end) items
  | DMap entries => (fix all (l : list (data * data)) : Prop :=
                       match l with
                       | [] => True
                       | (_, v) :: r => seq_len_ok v /\ all r
                       end) entries
  | _ => True
  end.

(** * Rendered values compared as unordered maps (the per-run oracle of the C14 check) *)

Fixpoint rv_scalar_eqb (a b : rvalue) : bool :=
  match a, b with
  | RNil, RNil => true
  | RBool x, RBool y => Bool.eqb x y
  | RNum x, RNum y => x =? y
  | RStr x, RStr y => bytes_eqb x y
  | _, _ => false
  end.

(** tables: same number of entries and every entry of [a] has an entry of [b] with the same
    (scalar) key and an equal value; table-valued keys never compare equal.  A Lua table has
    no two entries with the same key, so this is equality of finite maps. *)
Fixpoint rv_eqb (a b : rvalue) : bool :=
  match a, b with
  | RTable xs mx, RTable ys my =>
    Bool.eqb mx my && Nat.eqb (List.length xs) (List.length ys) &&
    forallb (fun kv =>
      existsb (fun kv' => rv_scalar_eqb (fst kv) (fst kv') && rv_eqb (snd kv) (snd kv')) ys) xs
  | RTable _ _, _ | _, RTable _ _ => false
  | _, _ => rv_scalar_eqb a b
  end.

(** run a chunk and render its single result to the given depth *)
Inductive run_result :=
| RunValue (v : rvalue)
| RunValues (n : nat)          (* not exactly one value returned *)
| RunError                     (* a Lua run-time error *)
| RunFuel
| RunUnsup (why : N).

Definition run_data (d : dialect) (fuel depth : nat) (b : block) : run_result :=
  match exec_block d fuel [] [] b (initial_store []) with
  | Ok (SigReturn [v]) s => RunValue (render depth s v)
  | Ok (SigReturn vs) _ => RunValues (List.length vs)
  | Ok _ _ => RunValues 0
  | Err _ _ => RunError
  | Fuel => RunFuel
  | Unsup w => RunUnsup w
  end.
