(** Executable (boolean) versions of the C08 predicates and the adversarial environment
    used by the C08 correspondence / search: the claims the Rust evaluator makes about an
    expression are checked against the reference interpreter. *)
From Coq Require Import ZArith NArith List Bool String.
From Coq Require Import Floats.SpecFloat.
From DL Require Import Lib.Bytes Lib.F64 Lua.Syntax Lua.Sem Model.Evaluator Lua.EvalSpec.
Import ListNotations.
Open Scope N_scope.

Definition lv_eqb (a b : lv) : bool :=
  match a, b with
  | LFalse, LFalse | LFunction, LFunction | LNil, LNil | LTable, LTable | LTrue, LTrue
  | LUnknown, LUnknown => true
  | LNumber x, LNumber y => same_f64 x y
  | LString x, LString y => bytes_eqb x y
  | _, _ => false
  end.

Definition value_same (a b : value) : bool :=
  match a, b with
  | VNil, VNil => true
  | VBool x, VBool y => Bool.eqb x y
  | VNum x, VNum y => same_f64 x y
  | VStr x, VStr y => bytes_eqb x y
  | VTable x, VTable y => x =? y
  | VClosure x, VClosure y => x =? y
  | VBuiltin x, VBuiltin y => x =? y
  | VExt x, VExt y => bytes_eqb x y
  | _, _ => false
  end.

Definition lv_matches_b (s : store) (v : lv) (x : value) : bool :=
  match v, x with
  | LUnknown, _ => true
  | LNil, VNil => true
  | LTrue, VBool true => true
  | LFalse, VBool false => true
  | LNumber a, VNum b => same_f64 a b
  | LString a, VStr b => bytes_eqb a b
  | LFunction, VClosure _ => true
  | LTable, VTable a => match nth_N (tables s) (N.to_nat a) with
                        | Some t => match t_meta t with None => true | Some _ => false end
                        | None => false
                        end
  | _, _ => false
  end.

Fixpoint prefix_by {A} (eqb : A -> A -> bool) (l l' : list A) : bool :=
  match l, l' with
  | [], _ => true
  | x :: r, y :: r' => eqb x y && prefix_by eqb r r'
  | _ :: _, [] => false
  end.

Definition entry_same (a b : value * value) : bool :=
  value_same (fst a) (fst b) && value_same (snd a) (snd b).

Fixpoint list_same {A} (eqb : A -> A -> bool) (l l' : list A) : bool :=
  match l, l' with
  | [], [] => true
  | x :: r, y :: r' => eqb x y && list_same eqb r r'
  | _, _ => false
  end.

Definition table_same (a b : table) : bool :=
  list_same entry_same (t_entries a) (t_entries b) &&
  match t_meta a, t_meta b with
  | None, None => true
  | Some x, Some y => x =? y
  | _, _ => false
  end.

Definition store_extends_b (s s' : store) : bool :=
  Nat.eqb (List.length (trace s')) (List.length (trace s)) &&
  Nat.eqb (List.length (oracle s')) (List.length (oracle s)) &&
  (fresh s' =? fresh s) &&
  prefix_by value_same (cells s) (cells s') &&
  prefix_by table_same (tables s) (tables s') &&
  Nat.leb (List.length (closures s)) (List.length (closures s')).

(** adversarial environment: [t] a table whose every metamethod is an external function,
    [n] a number, [s] a string, [q] a number that is NaN, [u] unbound (nil global); [ext_f] an external function whose
    results come from the oracle stream; varargs = (7, nil, "v") *)
Definition adv_oracle : list (list oval) :=
  [ [ONum 4607182418800017408; ONum 4611686018427387904; ONum 4613937818241073152];
    [OMeta]; [OStr [113]]; []; [OBool false]; [OTab; ONil]; [OFun]; [ONil];
    [ONum 4607182418800017408]; [OMeta; OMeta]; [OBool true]; [OStr [49; 48]] ].

Definition adv_setup : M env :=
  t <- materialise OMeta ;;
  ct <- new_cell t ;;
  cn <- new_cell (VNum (of_Z 3)) ;;
  cs <- new_cell (VStr (of_string "str")) ;;
  cq <- new_cell (VNum S754_nan) ;;
  ret [ (of_string "t", ct); (of_string "n", cn); (of_string "s", cs); (of_string "q", cq) ].

Definition adv_va : list value := [VNum (of_Z 7); VNil; VStr [118]].

Definition adv_eval (d : dialect) (fuel : nat) (e : expr) : option (store * res (list value)) :=
  match adv_setup (initial_store (adv_oracle ++ adv_oracle)) with
  | Ok rho s0 => Some (s0, eval d fuel rho adv_va e s0)
  | _ => None
  end.

(** the three claims of the evaluator about [e], checked against the reference run *)
Definition claim_value_ok (fuel : nat) (e : expr) (v : lv) : bool :=
  match adv_eval L51 fuel e, adv_eval Luau fuel e with
  | Some (_, Ok vs1 s1), Some (_, Ok vs2 s2) =>
    (* only where the two dialects agree on the value *)
    if value_same (first vs1) (first vs2) then lv_matches_b s1 v (first vs1) else true
  | _, _ => true
  end.

Definition claim_pure_ok (fuel : nat) (e : expr) (se : bool) : bool :=
  if se then true
  else
    let chk d := match adv_eval d fuel e with
                 | Some (s0, Ok _ s') => store_extends_b s0 s'
                 | _ => true
                 end in
    chk L51 && chk Luau.

Definition claim_single_ok (fuel : nat) (e : expr) (multi : bool) : bool :=
  if multi then true
  else
    let chk d := match adv_eval d fuel e with
                 | Some (_, Ok vs _) => Nat.eqb (List.length vs) 1
                 | _ => true
                 end in
    chk L51 && chk Luau.

Definition outcome_tag (fuel : nat) (e : expr) : string :=
  match adv_eval L51 fuel e with
  | Some (_, Ok _ _) => "ok"
  | Some (_, Err _ _) => "err"
  | Some (_, Fuel) => "fuel"
  | Some (_, Unsup _) => "unsup"
  | None => "setup"
  end.

(** [uses_unmodelled_pow], also looking into table constructors, call arguments and the other
    places [has_side_effects] looks into *)
Fixpoint pow_gap (e : expr) : bool :=
  uses_unmodelled_pow e ||
  match e with
  | EBinary _ l r => pow_gap l || pow_gap r
  | EUnary _ e' | EParen e' | ETypeCast e' _ | ETypeInst e' _ => pow_gap e'
  | EField p _ => pow_gap p
  | EIndex p k => pow_gap p || pow_gap k
  | EIf bs els => existsb (fun b => match b with EBranch c r => pow_gap c || pow_gap r end) bs || pow_gap els
  | EInterp segs => existsb (fun s => match s with ISExpr e' => pow_gap e' | _ => false end) segs
  | ETable entries =>
    existsb (fun en => match en with
                       | TField _ v => pow_gap v
                       | TIndex k v => pow_gap k || pow_gap v
                       | TValue v => pow_gap v
                       end) entries
  | _ => false
  end.
