(** Feature census over the full MiniLua syntax (including the type sub-trees): how many
    occurrences of each Luau-only construct a tree contains.  Independent of the rule
    models: this is the observation of property C07 applied to darklua's output trees.

    Features (index in the result vector):
      0 compound assignment statements        5 Luau-only number literals (binary, or any
      1 [continue]                               spelling the tree records as such — see [luau_number])
      2 if-expressions                         6 [const] declarations
      3 interpolated strings                   7 type syntax (annotations, casts, declarations,
      4 floor division ([//] and [//=])          type functions, generics, instantiations)
                                               8 function attributes *)
From Coq Require Import ZArith NArith List Bool.
From DL Require Import Lib.Bytes Lua.Syntax.
Import ListNotations.
Open Scope N_scope.

Definition NF : nat := 9.
Definition vec := list N.
Definition vzero : vec := repeat 0 NF.
Fixpoint vadd (a b : vec) : vec :=
  match a, b with
  | x :: a', y :: b' => (x + y) :: vadd a' b'
  | _, _ => []
  end.
Definition vsum (l : list vec) : vec := fold_right vadd vzero l.
Definition unit_at (i : nat) : vec := repeat 0 i ++ [1] ++ repeat 0 (NF - S i).

Definition F_compound := unit_at 0.
Definition F_continue := unit_at 1.
Definition F_ifexpr := unit_at 2.
Definition F_interp := unit_at 3.
Definition F_floordiv := unit_at 4.
Definition F_luaunum := unit_at 5.
Definition F_const := unit_at 6.
Definition F_type := unit_at 7.
Definition F_attr := unit_at 8.

(** a number literal only Luau can read: binary notation.  (Underscores are not recorded in
    the tree: the tree keeps the value; [convert_luau_number] works on the token text, which
    the token-level check of C07 observes in the written output.) *)
Definition luau_number (n : number) : bool :=
  match n with NBin _ _ => true | _ => false end.

Definition opt {A} (f : A -> vec) (o : option A) : vec := match o with Some a => f a | None => vzero end.

Fixpoint c_ty (t : ty) : vec :=
  match t with
  | TyNode _ subs es => vadd F_type (vadd (vsum (map c_ty subs)) (vsum (map c_expr es)))
  end

with c_expr (e : expr) : vec :=
  match e with
  | ENil | ETrue | EFalse | EString _ | EVarArgs | EIdent _ => vzero
  | ENumber n => if luau_number n then F_luaunum else vzero
  | EInterp segs => vadd F_interp (vsum (map c_iseg segs))
  | EField p _ => c_expr p
  | EIndex p k => vadd (c_expr p) (c_expr k)
  | ECall p _ a => vadd (c_expr p) (c_args a)
  | EFunction f => c_fbody f
  | EIf bs els => vadd F_ifexpr (vadd (vsum (map c_ebranch bs)) (c_expr els))
  | EParen e' => c_expr e'
  | ETable entries => vsum (map c_tentry entries)
  | EUnary _ e' => c_expr e'
  | EBinary op l r => vadd (match op with BIDiv => F_floordiv | _ => vzero end) (vadd (c_expr l) (c_expr r))
  | ETypeCast e' t => vadd F_type (vadd (c_expr e') (c_ty t))
  | ETypeInst p tys => vadd F_type (vadd (c_expr p) (vsum (map c_ty tys)))
  end

with c_iseg (s : iseg) : vec :=
  match s with ISStr _ => vzero | ISExpr e => c_expr e end

with c_ebranch (b : ebranch) : vec :=
  match b with EBranch c r => vadd (c_expr c) (c_expr r) end

with c_args (a : args) : vec :=
  match a with
  | ATuple es => vsum (map c_expr es)
  | AString _ => vzero
  | ATable entries => vsum (map c_tentry entries)
  end

with c_tentry (t : tentry) : vec :=
  match t with
  | TField _ v => c_expr v
  | TIndex k v => vadd (c_expr k) (c_expr v)
  | TValue v => c_expr v
  end

with c_fbody (f : fbody) : vec :=
  match f with
  | FBody ps _ vt rt gen attrs body =>
    vadd (vsum (map c_param ps))
      (vadd (opt c_ty vt) (vadd (opt c_ty rt) (vadd (opt c_ty gen)
        (vadd (if attrs =? 0 then vzero else F_attr) (c_block body)))))
  end

with c_param (p : param) : vec :=
  match p with Param _ t => opt c_ty t end

with c_stmt (s : stmt) : vec :=
  match s with
  | SAssign vars vals => vadd (vsum (map c_expr vars)) (vsum (map c_expr vals))
  | SDo b => c_block b
  | SCall c => c_expr c
  | SCompound op var v =>
    vadd F_compound (vadd (match op with BIDiv => F_floordiv | _ => vzero end) (vadd (c_expr var) (c_expr v)))
  | SFunction _ _ _ f => c_fbody f
  | SGenericFor vars es b => vadd (vsum (map c_param vars)) (vadd (vsum (map c_expr es)) (c_block b))
  | SIf bs els => vadd (vsum (map c_sbranch bs)) (opt c_block els)
  | SLocal is_const vars vals =>
    vadd (if is_const then F_const else vzero) (vadd (vsum (map c_param vars)) (vsum (map c_expr vals)))
  | SLocalFunction _ f => c_fbody f
  | SNumericFor var a b step body =>
    vadd (c_param var) (vadd (c_expr a) (vadd (c_expr b) (vadd (opt c_expr step) (c_block body))))
  | SRepeat b c => vadd (c_block b) (c_expr c)
  | SWhile c b => vadd (c_expr c) (c_block b)
  | STypeDecl _ _ gen t => vadd F_type (vadd (opt c_ty gen) (c_ty t))
  | STypeFunction _ _ f => vadd F_type (c_fbody f)
  end

with c_sbranch (b : sbranch) : vec :=
  match b with SBranch c body => vadd (c_expr c) (c_block body) end

with c_block (b : block) : vec :=
  match b with
  | Block stmts last => vadd (vsum (map c_stmt stmts)) (opt c_last last)
  end

with c_last (l : laststmt) : vec :=
  match l with
  | LBreak => vzero
  | LContinue => F_continue
  | LReturn es => vsum (map c_expr es)
  end.

Definition census (b : block) : vec := c_block b.
Definition feature (i : nat) (b : block) : N := nth i (census b) 0.

(** a tree a strict Lua 5.1 grammar can express: none of the Luau-only constructs *)
Definition lua51_tree (b : block) : bool := forallb (N.eqb 0) (census b).
