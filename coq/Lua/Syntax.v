(** MiniLua: the syntax tree of darklua ([darklua_core::nodes]) constructor for constructor,
    minus tokens.  Prefix / Variable / Arguments of the Rust AST are folded into [expr]
    ([EIdent], [EField], [EIndex], [ECall], [EParen], [ETypeInst] are the prefix forms;
    [EIdent]/[EField]/[EIndex] the assignable ones).  Luau types are kept as generic nodes
    ([TyNode kind children embedded-expressions]) so that "inside a type annotation" is a
    position in the tree.  The harness crate [astdump] prints darklua trees in this syntax. *)
From DL Require Import Lib.Bytes.
Open Scope N_scope.

Inductive unop := UNot | UMinus | ULen.

Inductive binop :=
| BAnd | BOr | BEq | BNeq | BLt | BLe | BGt | BGe
| BAdd | BSub | BMul | BDiv | BIDiv | BMod | BPow | BConcat.

(** number literals: the raw content of darklua's NumberExpression *)
Inductive number :=
| NDec (bits : N) (exponent : option (Z * bool))           (* f64 bit pattern; recorded exponent, uppercase E *)
| NHex (int : N) (x_upper : bool) (exponent : option (N * bool))
| NBin (int : N) (b_upper : bool).

Definition name := bytes.

Inductive ty :=
| TyNode (kind : N) (subs : list ty) (exprs : list expr)

with expr :=
| ENil
| ETrue
| EFalse
| ENumber (n : number)
| EString (s : bytes)
| EInterp (segs : list iseg)
| EVarArgs
| EIdent (x : name)
| EField (prefix : expr) (field : name)
| EIndex (prefix : expr) (key : expr)
| ECall (prefix : expr) (method : option name) (a : args)
| EFunction (f : fbody)
| EIf (branches : list ebranch) (els : expr)       (* first branch is the [if], others [elseif] *)
| EParen (e : expr)
| ETable (entries : list tentry)
| EUnary (op : unop) (e : expr)
| EBinary (op : binop) (l r : expr)
| ETypeCast (e : expr) (t : ty)
| ETypeInst (prefix : expr) (tys : list ty)

with iseg :=
| ISStr (s : bytes)
| ISExpr (e : expr)

with ebranch :=
| EBranch (cond result : expr)

with args :=
| ATuple (es : list expr)
| AString (s : bytes)
| ATable (entries : list tentry)

with tentry :=
| TField (field : name) (v : expr)
| TIndex (k v : expr)
| TValue (v : expr)

with fbody :=
| FBody (params : list param) (variadic : bool) (vartype : option ty) (ret : option ty)
        (generics : option ty) (attrs : N) (body : block)

with param :=
| Param (x : name) (t : option ty)

with stmt :=
| SAssign (vars : list expr) (vals : list expr)
| SDo (b : block)
| SCall (call : expr)
| SCompound (op : binop) (var : expr) (v : expr)
| SFunction (base : name) (fields : list name) (method : option name) (f : fbody)
| SGenericFor (vars : list param) (es : list expr) (b : block)
| SIf (branches : list sbranch) (els : option block)
| SLocal (is_const : bool) (vars : list param) (vals : list expr)
| SLocalFunction (x : name) (f : fbody)
| SNumericFor (var : param) (start stop : expr) (step : option expr) (b : block)
| SRepeat (b : block) (cond : expr)
| SWhile (cond : expr) (b : block)
| STypeDecl (exported : bool) (x : name) (generics : option ty) (t : ty)
| STypeFunction (exported : bool) (x : name) (f : fbody)

with sbranch :=
| SBranch (cond : expr) (b : block)

with block :=
| Block (stmts : list stmt) (last : option laststmt)

with laststmt :=
| LBreak
| LContinue
| LReturn (es : list expr).

Definition param_name (p : param) : name := match p with Param x _ => x end.

Definition unop_eqb (a b : unop) : bool :=
  match a, b with
  | UNot, UNot | UMinus, UMinus | ULen, ULen => true
  | _, _ => false
  end.

Definition binop_tag (o : binop) : N :=
  match o with
  | BAnd => 0 | BOr => 1 | BEq => 2 | BNeq => 3 | BLt => 4 | BLe => 5 | BGt => 6 | BGe => 7
  | BAdd => 8 | BSub => 9 | BMul => 10 | BDiv => 11 | BIDiv => 12 | BMod => 13 | BPow => 14
  | BConcat => 15
  end.
Definition binop_eqb (a b : binop) : bool := binop_tag a =? binop_tag b.
