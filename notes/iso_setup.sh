#!/bin/sh
# creates the isolated universe used by notes/iso_test_seed.sh / iso_sync.sh / iso_run_seeds.sh:
# a clone of /repo and a copy of /verif under /tmp/iso, bind-mounted over the real paths inside a private mount
# namespace (unshare -m) by those scripts; nothing here is needed by a registered command
mkdir -p /tmp/iso && cd /tmp/iso && rm -rf repo && git clone -q /repo repo && rsync -a --delete /verif/ /tmp/iso/verif/
cp /verif/notes/iso_test_seed.sh /tmp/iso/test_seed.sh; cp /verif/notes/iso_sync.sh /tmp/iso/sync.sh; cp /verif/notes/iso_run_seeds.sh /tmp/iso/run_seeds.sh
chmod +x /tmp/iso/*.sh
echo "usage: /tmp/iso/test_seed.sh C07 /verif/seeded/C07-4/patch.diff"
