#!/bin/sh
# run every claimed check (quick tier by default) and print one line per property
cd "$(dirname "$0")/.."
tier=${1:-quick}
for p in $(grep -v '^#' claimed.txt | sort); do
  out=$(./check $p --tier $tier 2>&1); rc=$?
  echo "$p rc=$rc $(echo "$out" | grep -v KNOWN-FINDING | tail -1 | cut -c1-140) known=$(echo "$out" | grep -c KNOWN-FINDING)"
done
