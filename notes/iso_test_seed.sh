#!/bin/sh
# usage: /tmp/iso/test_seed.sh <PROP> <patch>  -- runs the quick check of PROP against a private copy of /repo with the patch applied,
# inside a private mount namespace (nothing outside /tmp/iso is touched)
prop=$1; patch=$2
cd /tmp/iso/repo && git checkout -q -- . && git apply "$patch" || { echo "apply failed"; exit 1; }
rm -f /tmp/iso/verif/evidence/replays/$prop-*.json
unshare -m sh -c "mount --bind /tmp/iso/repo /repo && mount --bind /tmp/iso/verif /verif && cd /verif && ./check $prop 2>&1" | grep -v KNOWN-FINDING | tail -1 | cut -c1-160
python3 - $prop <<'PY'
import json,sys,glob
fs=sorted(glob.glob('/tmp/iso/verif/evidence/replays/%s-*.json'%sys.argv[1]))
if fs:
    r=json.load(open(fs[0])); print('  what:',r['what'][:200]); print('  replay:',str(r['replay'])[:300].replace('\n',' ; '))
else: print('  no replay')
PY
cd /tmp/iso/repo && git checkout -q -- .
