#!/bin/sh
# usage: verify_seed.sh <worktree> <patch> <demo-test-name>
# confirms: suite passes with the change; demo fails with it and passes without it
wt=$1; patch=$2; demo=$3
cd "$wt" || exit 2
git checkout -q -- src
git apply "$patch" || { echo "RESULT apply-failed"; exit 1; }
hold="$wt.demos_hold"; mkdir -p "$hold"; mv tests/seeded_demo*.rs "$hold"/ 2>/dev/null
cargo test --workspace --offline --no-fail-fast > "$wt.suite.log" 2>&1; suite=$?
mv "$hold"/seeded_demo*.rs tests/ 2>/dev/null; rmdir "$hold"
cargo test --offline --test "$demo" > "$wt.demo_with.log" 2>&1; with=$?
git checkout -q -- src
cargo test --offline --test "$demo" > "$wt.demo_without.log" 2>&1; without=$?
echo "RESULT suite_exit=$suite demo_with_change_exit=$with demo_without_change_exit=$without"
