#!/bin/sh
# usage: verify_seed.sh <worktree> <patch> <demo-test-name>
# confirms: suite passes with the change; demo fails with it and passes without it
wt=$1; patch=$2; demo=$3
cd "$wt" || exit 2
git checkout -q -- src
git apply "$patch" || { echo "RESULT apply-failed"; exit 1; }
mkdir -p /tmp/seed_demos_hold; mv tests/seeded_demo*.rs /tmp/seed_demos_hold/ 2>/dev/null
cargo test --workspace --offline --no-fail-fast > /tmp/seed_suite.log 2>&1; suite=$?
mv /tmp/seed_demos_hold/seeded_demo*.rs tests/ 2>/dev/null
cargo test --offline --test "$demo" > /tmp/seed_demo_with.log 2>&1; with=$?
git checkout -q -- src
cargo test --offline --test "$demo" > /tmp/seed_demo_without.log 2>&1; without=$?
echo "RESULT suite_exit=$suite demo_with_change_exit=$with demo_without_change_exit=$without"
