#!/bin/sh
# refresh the private copies from /verif and /repo (keeps the private cargo target dir)
rsync -a --delete --exclude harness/target /verif/ /tmp/iso/verif/
cd /tmp/iso/repo && git checkout -q -- . && git fetch -q /repo main && git checkout -q --detach FETCH_HEAD && git log --oneline | head -1
