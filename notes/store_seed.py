#!/usr/bin/env python3
"""store_seed.py PROP SRC_WORKTREE SEED_INDEX NEW_NUMBER 'change' 'needs' 'check_result'
Copies seedN.diff and tests/seeded_demoN.rs of a mutation worktree into /verif/seeded/PROP-NEW/."""
import json, os, shutil, sys
prop, src, idx, new, change, needs, result = sys.argv[1:8]
d = f"/verif/seeded/{prop}-{new}"
os.makedirs(d, exist_ok=True)
shutil.copy(f"{src}/seed{idx}.diff", f"{d}/patch.diff")
shutil.copy(f"{src}/tests/seeded_demo{idx}.rs", f"{d}/demo.rs")
json.dump({
 "property": prop, "round": int(os.environ.get("SEED_ROUND", "2")), "change": change, "needs_to_manifest": needs,
 "confirmed": "notes/verify_seed.sh in a scratch worktree: cargo test --workspace --offline passes with the change (exit 0); demo test fails with the change (exit 101) and passes without it (exit 0)",
 "author": "fresh sub-agent given only the property text, the list of first-round mechanisms to avoid, and a scratch worktree",
 "check_result": result}, open(f"{d}/meta.json", "w"), indent=1)
print(d)
