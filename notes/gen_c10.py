thms = []
def T(name, stmt, lemma):
    thms.append((name, stmt.strip(), lemma))

T("C10_incremental_eq_fresh", """
  forall (cfg : Type) (hash : cfg -> N)
         (xform : cfg -> path -> content -> fs -> option content * list path) (inp outp : path),
    starts_with inp outp = false -> starts_with outp inp = false ->
    (forall c1 c2, hash c1 = hash c2 -> forall q t f, xform c1 q t f = xform c2 q t f) ->
    (forall c q t f f', fst (xform c q t f) <> None ->
        (forall d, In d (snd (xform c q t f)) -> fs_get f' d = fs_get f d) ->
        xform c q t f' = xform c q t f) ->
    (forall c q t f d, fst (xform c q t f) <> None -> In d (snd (xform c q t f)) -> fs_get f d <> None) ->
    (forall c q t f d, fst (xform c q t f) <> None -> In d (snd (xform c q t f)) -> starts_with outp d = false) ->
    forall (f0 : fs) (c_init : cfg) (h : list (event cfg)),
      paths_ok cfg inp outp f0 h = true ->
      reported cfg inp f0 (h ++ [Process]) = true ->
      dirs_ok cfg hash xform inp outp (mkWorld f0 c_init empty_tree) h = true ->
      always_healthy cfg xform inp f0 c_init (h ++ [Process]) = true ->
      exists w, run cfg hash xform inp outp (mkWorld f0 c_init empty_tree) (h ++ [Process]) = Running w /\\
                forall p, fs_get (w_fs w) p =
                          fs_get (fresh cfg xform inp outp (final_cfg cfg c_init h) (user_fs cfg f0 h)) p
""", "incremental_eq_fresh")

T("C10_no_panic", """
  forall (cfg : Type) (hash : cfg -> N)
         (xform : cfg -> path -> content -> fs -> option content * list path) (inp outp : path),
    starts_with inp outp = false -> starts_with outp inp = false ->
    (forall c1 c2, hash c1 = hash c2 -> forall q t f, xform c1 q t f = xform c2 q t f) ->
    (forall c q t f f', fst (xform c q t f) <> None ->
        (forall d, In d (snd (xform c q t f)) -> fs_get f' d = fs_get f d) ->
        xform c q t f' = xform c q t f) ->
    (forall c q t f d, fst (xform c q t f) <> None -> In d (snd (xform c q t f)) -> fs_get f d <> None) ->
    (forall c q t f d, fst (xform c q t f) <> None -> In d (snd (xform c q t f)) -> starts_with outp d = false) ->
    forall (f0 : fs) (c_init : cfg) (h : list (event cfg)),
      paths_ok cfg inp outp f0 h = true ->
      reported cfg inp f0 h = true ->
      dirs_ok cfg hash xform inp outp (mkWorld f0 c_init empty_tree) h = true ->
      always_healthy cfg xform inp f0 c_init h = true ->
      exists w, run cfg hash xform inp outp (mkWorld f0 c_init empty_tree) h = Running w
""", "no_panic")

T("C10_work_loop_one_pass", """
  forall (cfg : Type) (xform : cfg -> path -> content -> fs -> option content * list path)
         (c : cfg) (t : wtree) (f : fs) (k : nat),
    exists t' f', work_loop cfg xform (S k) c t f (count_pending (slots t)) = Some (t', f') /\\
                  count_pending (slots t') = 0%nat
""", "work_loop_one_pass")

T("C10_process_total", """
  forall (cfg : Type) (hash : cfg -> N)
         (xform : cfg -> path -> content -> fs -> option content * list path)
         (c : cfg) (t : wtree) (f : fs),
    process cfg hash xform c t f <> None
""", "process_total")

T("C10_instance_eq_fresh", """
  forall h,
    toy_paths_ok h = true -> toy_reported (h ++ [Process]) = true -> toy_dirs_ok h = true ->
    toy_healthy (h ++ [Process]) = true ->
    exists w, toy_run toy_w0 (h ++ [Process]) = Running w /\\
              forall p, fs_get (w_fs w) p = fs_get (toy_fresh (final_cfg N 0 h) (user_fs N toy_f0 h)) p
""", "toy_incremental_eq_fresh")

T("C10_instance_in_scope", """
  toy_paths_ok toy_history = true /\\ toy_reported (toy_history ++ [Process]) = true /\\
  toy_dirs_ok toy_history = true /\\ toy_healthy (toy_history ++ [Process]) = true
""", "toy_history_in_scope")

T("C10_stale_output_refuted", """
  toy_paths_ok h_stale = true /\\ toy_reported (h_stale ++ [Process]) = true /\\
  toy_dirs_ok h_stale = true /\\ toy_healthy (h_stale ++ [Process]) = false /\\
  differs_from_fresh (h_stale ++ [Process])
""", "stale_output_refuted")

T("C10_failed_dependency_refuted", """
  toy_paths_ok h_unregistered = true /\\ toy_reported (h_unregistered ++ [Process]) = true /\\
  toy_dirs_ok h_unregistered = true /\\
  healthy N toy_xform t_inp (final_cfg N 0 h_unregistered) (user_fs N toy_f0 h_unregistered) = true /\\
  toy_healthy (h_unregistered ++ [Process]) = false /\\
  differs_from_fresh (h_unregistered ++ [Process])
""", "failed_dependency_refuted")

T("C10_remove_directory_panic_refuted", """
  toy_paths_ok h_panic = true /\\ toy_reported h_panic = true /\\ toy_healthy h_panic = true /\\
  toy_dirs_ok h_panic = false /\\ toy_run toy_w0 h_panic = Panicked
""", "remove_directory_panic_refuted")

T("C10_remove_directory_dependents_refuted", """
  toy_paths_ok h_dirdep = true /\\ toy_reported (h_dirdep ++ [Process]) = true /\\
  toy_dirs_ok h_dirdep = false /\\
  differs_from_fresh (h_dirdep ++ [Process]) /\\
  exists w, toy_run toy_w0 (h_dirdep ++ [Process]) = Running w /\\
            map (fun it => (i_src it, i_st it)) (all_items (w_tree w)) = [(p_a, DoneOk); (p_main, DoneOk)]
""", "remove_directory_dependents_refuted")

T("C10_unreported_refuted", """
  toy_paths_ok h_unreported = true /\\ toy_reported (h_unreported ++ [Process]) = false /\\
  toy_dirs_ok h_unreported = true /\\ toy_healthy (h_unreported ++ [Process]) = true /\\
  differs_from_fresh (h_unreported ++ [Process])
""", "unreported_refuted")

T("C10_prune_keeps_snapshot", """
  forall snapshot files anc dirs d,
    In d snapshot -> In d dirs -> In d (prune_ancestors snapshot files dirs anc)
""", "prune_keeps_snapshot")

T("C10_prune_keeps_nonempty", """
  forall snapshot files anc dirs d f,
    In d dirs -> In f files -> starts_with d f = true -> d <> f ->
    In d (prune_ancestors snapshot files dirs anc)
""", "prune_keeps_nonempty")

T("C10_prune_subset", """
  forall snapshot files anc dirs d,
    In d (prune_ancestors snapshot files dirs anc) -> In d dirs
""", "prune_subset")

T("C10_failed_run_keeps_dependencies", """
  forall (cfg : Type) (xform : cfg -> path -> content -> fs -> option content * list path)
         (c : cfg) (it : item) (f : fs) (txt : content),
    fs_get f (i_src it) = Some txt ->
    fst (xform c (i_src it) txt f) = None ->
    i_st (fst (advance cfg xform c it f)) = DoneErr /\\
    snd (advance cfg xform c it f) = f /\\
    forall d, In d (snd (xform c (i_src it) txt f)) -> In d (i_deps (fst (advance cfg xform c it f)))
""", "failed_run_keeps_dependencies")

T("C10_sweep_links_dependencies", """
  forall (cfg : Type) (xform : cfg -> path -> content -> fs -> option content * list path)
         (c : cfg) s i e f done s2 e2 f2 d2,
    sweep cfg xform c s i e f done = (s2, e2, f2, d2) ->
    (forall q j, In j (ext_get e q) -> In j (ext_get e2 q)) /\\
    forall k it2 dep, nth k s2 None = Some it2 -> In dep (i_deps it2) -> In (i + k)%nat (ext_get e2 dep)
""", "sweep_links_dependencies")

T("C10_source_changed_restarts_dependents", """
  forall inp outp E t p i it,
    wf inp outp E t -> get_slot (slots t) i = Some it -> In p (i_deps it) ->
    exists t' it', source_changed t p = Ok t' /\\ get_slot (slots t') i = Some it' /\\
                   i_st it' = NotStarted /\\ i_src it' = i_src it
""", "source_changed_restarts_dependents")

out = ['''(** C10 — Incremental reprocessing equals processing from scratch.
    Only statements, closed by [exact], with their assumptions printed. *)
From DL Require Import Lib.Bytes Model.WorkerFs Model.Worker Proof.WorkerInv Proof.WorkerLoop Proof.WorkerPrune
     Proof.WorkerFailure Proof.WorkerTheorems.
Open Scope N_scope.
''']
for name, stmt, lemma in thms:
    out.append("Theorem %s :\n  %s.\nProof. exact %s. Qed.\nPrint Assumptions %s.\nCheck %s :\n  %s.\n" % (name, stmt, lemma, name, name, stmt))
open('/verif/coq/Properties/C10.v','w').write("\n".join(out))
