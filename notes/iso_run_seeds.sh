#!/bin/sh
# run every quick check under several seeds inside the isolated universe (unchanged tree)
for seed in 4 6 10 12 13 17 23; do
  for p in C01 C02 C03 C04 C05 C06 C07 C08 C09 C10 C11 C12 C13 C14 C15 C16 C17 C18 C19 C20; do
    out=$(unshare -m sh -c "mount --bind /tmp/iso/repo /repo && mount --bind /tmp/iso/verif /verif && cd /verif && VERIF_SEED=$seed ./check $p 2>&1"); rc=$?
    echo "seed=$seed $p rc=$rc $(echo "$out" | grep -v KNOWN-FINDING | tail -1 | cut -c1-150)"
    if [ $rc -ne 0 ]; then echo "$out" | grep -v KNOWN-FINDING | tail -5 | cut -c1-400; fi
  done
done
