//! C19: configurations are read strictly and round-trip.
//!
//! `dl-c19 serve` reads one JSON request per line on stdin and answers with one JSON line each:
//!
//!   {"names": true}
//!       -> {"names": [all rule names], "default_rules": <serialized default rule list>}
//!   {"oracles": {"globs": [..], "regexes": [..], "identifiers": [..], "require_modes": [json text..],
//!                "bundles": [json text..]}}
//!       -> validity / normal-form tables computed WITHOUT going through Configuration or Box<dyn Rule>:
//!          wax (through darklua's FilterPattern hook), the regex crate, darklua's identifier check,
//!          the public RequireMode and BundleConfiguration deserializers
//!   {"config": "<text>"}   ->  the chain  json5::from_str::<Configuration>(text) -> serde_json::to_string
//!                              -> json5::from_str and serde_json::from_str of that -> serde_json::to_string
//!   {"rule": "<text>"}     ->  the same chain for Box<dyn Rule>
//!       -> {"ok": bool, "error": s, "ser": s, "ser_again": s,
//!           "back": {"ok": bool, "error": s, "ser": s}, "back_json": {"ok": bool, "error": s, "ser": s}}
//!   {"tree": {path: content, ...}}            sets the probe tree
//!   {"id": n, "config": "<text>", "input": "src", "output": null | "out"}
//!       -> {"id": n, "ok": bool, "errors": [..], "panic": bool, "files": {path: content}}
//!          (darklua_core::process on fresh in-memory resources holding the tree and `.darklua.json`)

use std::collections::BTreeMap;
use std::io::{BufRead, Write};
use std::path::Path;

use darklua_core::rules::{get_all_rule_names, get_default_rules, RequireMode, Rule};
use darklua_core::{process, BundleConfiguration, Configuration, Options, Resources};
use serde_json::{json, Map, Value};

fn guarded<T>(f: impl FnOnce() -> T) -> Result<T, String> {
    std::panic::catch_unwind(std::panic::AssertUnwindSafe(f)).map_err(|_| "panic".to_owned())
}

fn chain<T>(text: &str) -> Value
where
    T: serde::Serialize + for<'de> serde::Deserialize<'de>,
{
    let parsed: Result<Result<T, String>, String> =
        guarded(|| json5::from_str::<T>(text).map_err(|err| err.to_string()));
    let value = match parsed {
        Err(p) => return json!({ "ok": false, "error": p, "panic": true }),
        Ok(Err(err)) => return json!({ "ok": false, "error": err }),
        Ok(Ok(value)) => value,
    };
    let ser = match serde_json::to_string(&value) {
        Ok(s) => s,
        Err(err) => return json!({ "ok": true, "ser_error": err.to_string() }),
    };
    let ser_again = serde_json::to_string(&value).unwrap_or_default();
    let reread = |result: Result<T, String>| match result {
        Ok(v) => json!({ "ok": true, "ser": serde_json::to_string(&v).unwrap_or_default() }),
        Err(err) => json!({ "ok": false, "error": err }),
    };
    let back = reread(json5::from_str::<T>(&ser).map_err(|err| err.to_string()));
    let back_json = reread(serde_json::from_str::<T>(&ser).map_err(|err| err.to_string()));
    json!({ "ok": true, "ser": ser, "ser_again": ser_again, "back": back, "back_json": back_json })
}

fn strings(request: &Value, name: &str) -> Vec<String> {
    request
        .get(name)
        .and_then(Value::as_array)
        .map(|a| a.iter().filter_map(Value::as_str).map(str::to_owned).collect())
        .unwrap_or_default()
}

/// RequireMode as it is met inside the untagged RulePropertyValue: serde first buffers the value, and the
/// derived deserializer of the internally tagged enum then reads that buffer (which, unlike reading the text
/// directly, also takes a sequence whose first element is the variant name or index).
#[derive(serde::Deserialize)]
#[serde(untagged)]
enum BufferedRequireMode {
    Mode(RequireMode),
}

fn oracles(request: &Value) -> Value {
    let mut globs = Map::new();
    for g in strings(request, "globs") {
        let ok = darklua_core::verif_hooks::filter_pattern_matches(&g, Path::new("x")).is_ok();
        globs.insert(g, Value::Bool(ok));
    }
    let mut regexes = Map::new();
    for r in strings(request, "regexes") {
        let ok = regex::Regex::new(&r).is_ok();
        regexes.insert(r, Value::Bool(ok));
    }
    let mut identifiers = Map::new();
    for i in strings(request, "identifiers") {
        let ok = darklua_core::verif_hooks::is_valid_identifier(&i);
        identifiers.insert(i, Value::Bool(ok));
    }
    let mut require_modes = Map::new();
    for text in strings(request, "require_modes") {
        let normal = match json5::from_str::<BufferedRequireMode>(&text) {
            Ok(BufferedRequireMode::Mode(mode)) => {
                Value::String(serde_json::to_string(&mode).unwrap_or_default())
            }
            Err(_) => Value::Null,
        };
        require_modes.insert(text, normal);
    }
    let mut bundles = Map::new();
    for text in strings(request, "bundles") {
        let normal = match json5::from_str::<BundleConfiguration>(&text) {
            Ok(bundle) => Value::String(serde_json::to_string(&bundle).unwrap_or_default()),
            Err(_) => Value::Null,
        };
        bundles.insert(text, normal);
    }
    json!({ "globs": globs, "regexes": regexes, "identifiers": identifiers,
            "require_modes": require_modes, "bundles": bundles })
}

fn run_job(tree: &BTreeMap<String, String>, job: &Value) -> Value {
    let id = job.get("id").cloned().unwrap_or(Value::Null);
    let input = job.get("input").and_then(Value::as_str).unwrap_or("src").to_owned();
    let output = job.get("output").and_then(Value::as_str).map(str::to_owned);
    let config = job.get("config").and_then(Value::as_str).map(str::to_owned);
    let config_name = ".darklua.json";

    let resources = Resources::from_memory();
    for (path, content) in tree {
        resources.write(path, content).expect("memory write");
    }
    if let Some(config) = &config {
        resources.write(config_name, config).expect("memory write");
    }

    let result = guarded(|| {
        let mut options = Options::new(&input);
        if let Some(output) = &output {
            options = options.with_output(output);
        }
        match process(&resources, options) {
            Ok(worker_tree) => {
                let errors: Vec<String> = worker_tree
                    .collect_errors()
                    .into_iter()
                    .map(|err| err.to_string())
                    .collect();
                (errors.is_empty(), errors)
            }
            Err(err) => (false, vec![format!("process: {}", err)]),
        }
    });
    let (ok, errors, panicked) = match result {
        Ok((ok, errors)) => (ok, errors, false),
        Err(_) => (false, vec!["panic".to_owned()], true),
    };

    let mut files = Map::new();
    let mut paths: Vec<_> = resources.walk("").collect();
    paths.sort();
    for path in paths {
        let key = path.to_string_lossy().replace('\\', "/");
        if key == config_name {
            continue;
        }
        if let Ok(content) = resources.get(&path) {
            files.insert(key, Value::String(content));
        }
    }
    json!({ "id": id, "ok": ok, "errors": errors, "panic": panicked, "files": files })
}

fn main() {
    let args: Vec<String> = std::env::args().collect();
    if args.get(1).map(String::as_str) != Some("serve") {
        eprintln!("usage: dl-c19 serve   (JSON requests on stdin, see the module documentation)");
        std::process::exit(2);
    }
    std::panic::set_hook(Box::new(|_| {}));

    let stdin = std::io::stdin();
    let stdout = std::io::stdout();
    let mut out = std::io::BufWriter::new(stdout.lock());
    let mut tree: BTreeMap<String, String> = BTreeMap::new();

    for line in stdin.lock().lines() {
        let line = line.expect("read stdin");
        if line.trim().is_empty() {
            continue;
        }
        let request: Value = match serde_json::from_str(&line) {
            Ok(value) => value,
            Err(err) => {
                writeln!(out, "{}", json!({ "bad_request": err.to_string() })).unwrap();
                continue;
            }
        };
        let answer = if request.get("names").is_some() {
            json!({ "names": get_all_rule_names(),
                    "default_rules": serde_json::to_value(get_default_rules()).unwrap_or(Value::Null) })
        } else if let Some(o) = request.get("oracles") {
            oracles(o)
        } else if let Some(t) = request.get("tree").and_then(Value::as_object) {
            tree = t
                .iter()
                .filter_map(|(k, v)| v.as_str().map(|s| (k.clone(), s.to_owned())))
                .collect();
            json!({ "tree": tree.len() })
        } else if request.get("id").is_some() {
            run_job(&tree, &request)
        } else if let Some(text) = request.get("rule").and_then(Value::as_str) {
            chain::<Box<dyn Rule>>(text)
        } else if let Some(text) = request.get("config").and_then(Value::as_str) {
            chain::<Configuration>(text)
        } else {
            json!({ "bad_request": "unknown request" })
        };
        writeln!(out, "{}", answer).unwrap();
    }
    out.flush().unwrap();
}
