//! C09 harness: the Rust side of the correspondence checks for `rename_variables`.
//!
//! * `dl-c09 stream --n N`   the first N names of `generate_identifier` (hook `generated_identifiers`), one per line
//! * `dl-c09 raw --n N`      the first N strings of the raw `Permutator` over the identifier alphabet
//! * `dl-c09 trace`          stdin: one case per line `<include_functions 0|1>\t<avoid names, comma separated>\t<ops>`
//!                           with ops separated by spaces: `+` push, `-` pop, `i:NAME` insert, `l:NAME` insert_local,
//!                           `s` insert_self, `f:NAME` insert_local_function, `?:NAME` process_variable_expression;
//!                           stdout: per case the result of every op separated by spaces (`-` = nothing)
//! * `dl-c09 self-witness`   builds a (valid) method whose locals exhaust the names before `self`, applies the real
//!                           rule and prints the statements of the output in which `self` is declared or read
use darklua_core::rules::rename_verif_hooks::{rename_processor_trace, raw_permutator_names, RenameOp};
use darklua_core::rules::{ContextBuilder, Rule};
use darklua_core::{Parser, Resources};
use hutil::arg_u64;
use std::io::{BufRead, Write};

fn parse_op(text: &str) -> Option<RenameOp> {
    Some(match text {
        "+" => RenameOp::Push,
        "-" => RenameOp::Pop,
        "s" => RenameOp::InsertSelf,
        _ => {
            let (kind, name) = text.split_once(':')?;
            let name = name.to_owned();
            match kind {
                "i" => RenameOp::Insert(name),
                "l" => RenameOp::InsertLocal(name),
                "f" => RenameOp::LocalFunction(name),
                "?" => RenameOp::Lookup(name),
                _ => return None,
            }
        }
    })
}

fn main() {
    let args: Vec<String> = std::env::args().collect();
    let sub = args.get(1).map(String::as_str).unwrap_or("");
    let stdout = std::io::stdout();
    let mut out = std::io::BufWriter::new(stdout.lock());
    match sub {
        "stream" => {
            let n = arg_u64(&args, "--n", 1000) as usize;
            for name in darklua_core::verif_hooks::generated_identifiers(n) {
                writeln!(out, "{}", name).unwrap();
            }
        }
        "raw" => {
            let n = arg_u64(&args, "--n", 1000) as usize;
            for name in raw_permutator_names(n) {
                writeln!(out, "{}", name).unwrap();
            }
        }
        "trace" => {
            let stdin = std::io::stdin();
            for line in stdin.lock().lines() {
                let line = line.expect("stdin");
                let parts: Vec<&str> = line.split('\t').collect();
                if parts.len() != 3 {
                    continue;
                }
                let include_functions = parts[0] == "1";
                let avoid: Vec<String> = parts[1]
                    .split(',')
                    .filter(|s| !s.is_empty())
                    .map(str::to_owned)
                    .collect();
                let ops: Vec<RenameOp> = parts[2]
                    .split(' ')
                    .filter(|s| !s.is_empty())
                    .map(|t| parse_op(t).unwrap_or_else(|| panic!("bad op {:?}", t)))
                    .collect();
                let result = rename_processor_trace(avoid, include_functions, &ops);
                let rendered: Vec<String> = result
                    .into_iter()
                    .map(|r| r.unwrap_or_else(|| "-".to_owned()))
                    .collect();
                writeln!(out, "{}", rendered.join(" ")).unwrap();
            }
        }
        "self-witness" => {
            // names drawn before `self`: every valid identifier whose raw index is below that of "self"
            let target = arg_u64(&args, "--names", 0) as usize;
            let per_block = 190usize;
            let mut source = String::with_capacity(target * 3 + 1024);
            source.push_str("local t = {}\nfunction t:m()\n");
            // each `do local x,x,...,x end` (190 names, below Lua's limit of 200 locals per function) draws
            // 190 names and gives back one: 189 names are lost for good
            let mut drawn = 0usize; // fresh names taken from the generator so far (`t` took the first)
            drawn += 1;
            let mut in_pool = 0usize;
            while drawn + (per_block - in_pool) <= target {
                source.push_str("do local x");
                for _ in 1..per_block {
                    source.push_str(",x");
                }
                source.push_str(" end\n");
                drawn += per_block - in_pool;
                in_pool = 1;
            }
            // the pool holds one name; take it, then draw fresh names one by one, reading `self` after each block
            source.push_str("local p0 = 0\n");
            let singles = arg_u64(&args, "--singles", 900) as usize;
            for k in 0..singles {
                if k % 150 == 0 {
                    source.push_str("do\n");
                }
                source.push_str("local y = 0 ");
                drawn += 1;
                if k % 150 == 149 || k + 1 == singles {
                    source.push_str("\nuse(self, y)\nend\n");
                }
            }
            source.push_str("end\nreturn t\n");
            eprintln!("source: {} bytes, {} names drawn before `victim`", source.len(), drawn);
            let mut block = Parser::default().parse(&source).expect("witness parses");
            let rule: Box<dyn Rule> = "rename_variables".parse().expect("rule");
            let resources = Resources::from_memory();
            let context = ContextBuilder::new(".", &resources, &source).build();
            rule.process(&mut block, &context).expect("rule applies");
            let mut generator = darklua_core::generator::DenseLuaGenerator::new(200);
            use darklua_core::generator::LuaGenerator;
            generator.write_block(&block);
            let text = generator.into_string();
            let flat = text.replace('\n', " ");
            match flat.find("local self=") {
                Some(at) => {
                    let from = at.saturating_sub(40);
                    let until = flat[at..].find("end").map(|e| at + e + 3).unwrap_or(flat.len());
                    let shown = &flat[from..until];
                    let head: String = shown.chars().take(120).collect();
                    let tail: String = shown.chars().rev().take(100).collect::<Vec<_>>().into_iter().rev().collect();
                    writeln!(out, "CAPTURED ...{} ... {}", head, tail).unwrap();
                }
                None => writeln!(out, "NOT-REACHED").unwrap(),
            }
        }
        _ => {
            eprintln!("dl-c09: unknown subcommand {:?}", sub);
            std::process::exit(2);
        }
    }
}
