//! Prints darklua syntax trees (`darklua_core::nodes`) as Coq terms of `/verif/coq/Lua/Syntax.v`.
//!
//! The output is a single-line, fully parenthesised Gallina term of type `block` / `expr` /
//! `stmt`, to be parsed with `N_scope` (then `string_scope`) open and the helpers of
//! [`coq_prelude`] in scope:
//!
//! * `bx "6162"`: lower-case hex of a byte string; used for ALL string VALUES
//!   (`EString`, `ISStr`, `AString`) and as fall-back for odd names;
//! * `nm "foo"`: plain ASCII; used for identifiers, field names and method names when every
//!   byte is printable ASCII (0x20..=0x7e) and is not `"`.
//!
//! Numbers of type `N` are plain decimal numerals, `Z` is `(5)%Z` / `(-5)%Z`.
//!
//! Prefix / Variable / Arguments of the Rust AST are folded into `expr` exactly as `Syntax.v`
//! says (Prefix::Identifier -> `EIdent`, Variable::Field -> `EField`, ...).
//!
//! # Luau types: `TyNode kind [sub types] [embedded expressions]`
//!
//! Every type-level node becomes one generic `TyNode`. Names, string literal contents, the
//! `read`/`write` property modifiers and all tokens are dropped; only the shape (kind + children)
//! and the expressions embedded in types (`typeof(e)`) are kept.
//!
//! | kind | darklua node                                   | subs (in order)                                             | exprs |
//! |------|------------------------------------------------|-------------------------------------------------------------|-------|
//! |  0   | `Type::Name` (`T`, `T<A, B...>`)               | the type parameters (see "type parameter" below)            |       |
//! |  1   | `Type::Field` (`ns.T<A>`)                      | the type parameters of the inner `TypeName`                 |       |
//! |  2   | `Type::True`                                   |                                                             |       |
//! |  3   | `Type::False`                                  |                                                             |       |
//! |  4   | `Type::Nil`                                    |                                                             |       |
//! |  5   | `Type::String` (singleton string type)         |                                                             |       |
//! |  6   | `Type::Array` (`{ T }`)                        | element type                                                |       |
//! |  7   | `Type::Table`                                  | one node per entry (kinds 14, 15, 16), in source order      |       |
//! |  8   | `Type::TypeOf` (`typeof(e)`)                   |                                                             | `[e]` |
//! |  9   | `Type::Parenthese`                             | inner type                                                  |       |
//! | 10   | `Type::Function`                               | generics (kind 21) if any; one kind-17 node per argument;   |       |
//! |      |                                                | variadic argument (kind 19 or 20) if any; return type LAST  |       |
//! | 11   | `Type::Optional` (`T?`)                        | inner type                                                  |       |
//! | 12   | `Type::Intersection`                           | the member types                                            |       |
//! | 13   | `Type::Union`                                  | the member types                                            |       |
//! | 14   | `TableEntryType::Property` (`name: T`)         | value type                                                  |       |
//! | 15   | `TableEntryType::Literal` (`["s"]: T`)         | value type                                                  |       |
//! | 16   | `TableEntryType::Indexer` (`[K]: V`)           | key type; value type                                        |       |
//! | 17   | `FunctionArgumentType` (`name: T` / `T`)       | argument type                                               |       |
//! | 18   | `TypePack` (`(A, B, ...C)`)                    | the types; then the variadic tail (kind 19 or 20) if any    |       |
//! | 19   | `VariadicTypePack` (`...T`)                    | element type                                                |       |
//! | 20   | `GenericTypePack` (`T...`)                     |                                                             |       |
//! | 21   | `GenericParameters` (functions, function types)| one node per parameter: kind 22 (type variable) then        |       |
//! |      |                                                | kind 20 (generic type pack)                                 |       |
//! | 22   | generic type variable `T` (no default)         |                                                             |       |
//! | 23   | `TypeVariableWithDefault` (`T = D`)            | default type                                                |       |
//! | 24   | `GenericTypePackWithDefault` (`T... = D`)      | default (kind 18, 19 or 20)                                 |       |
//! | 25   | `GenericParametersWithDefaults` (type decl.)   | one node per parameter (kind 22, 23, 20 or 24), in order    |       |
//!
//! Enumerations that merely choose between the nodes above are transparent (no node of their own):
//! `FunctionReturnType` (a `Type` itself, or kind 18 / 20 / 19), `FunctionVariadicType` (a `Type`
//! itself, or kind 20), `VariadicArgumentType` (kind 20 / 19), `TypeParameter` (a `Type` itself, or
//! kind 18 / 19 / 20), `GenericTypePackDefault` (kind 18 / 19 / 20).
//!
//! # Not represented
//!
//! * tokens, comments, whitespace (by design);
//! * the `const` keyword of `const function f() end` (`FunctionAssignment::get_assignment_kind`):
//!   `SLocalFunction` has no flag for it;
//! * the method type instantiation of `obj:method<<T>>()` (`FunctionCall::get_method_type_instantiation`);
//! * attribute names and arguments: only the number of entries of `Attributes` is kept (`attrs : N`),
//!   an attribute group `@[a, b]` counts for one;
//! * inside types: names, namespaces, string literal contents and `read`/`write` modifiers.

use darklua_core::nodes::*;

/// The Coq definitions the printed terms rely on (beside `From DL Require Import Lib.Bytes Lua.Syntax.`,
/// `Open Scope N_scope.` and `Open Scope string_scope.`).
///
/// `ZArith` is required for the `(5)%Z` / `(-5)%Z` numerals of decimal exponents: `Lib.Bytes` only
/// exports `NArith`, under which `(-3)%Z` is rejected ("Cannot interpret this number as a value of
/// type N"). Importing it does not open `Z_scope`.
pub fn coq_prelude() -> &'static str {
    "From Coq Require Import ZArith.\nDefinition bx := unhex.\nDefinition nm := of_string.\n"
}

pub fn block_to_coq(block: &Block) -> String {
    let mut p = Printer::default();
    p.block(block);
    p.out
}

pub fn expr_to_coq(e: &Expression) -> String {
    let mut p = Printer::default();
    p.expr(e);
    p.out
}

pub fn stmt_to_coq(s: &Statement) -> String {
    let mut p = Printer::default();
    p.stmt(s);
    p.out
}

// kinds of the TyNode's (see the table in the crate documentation)
const K_NAME: u32 = 0;
const K_FIELD: u32 = 1;
const K_TRUE: u32 = 2;
const K_FALSE: u32 = 3;
const K_NIL: u32 = 4;
const K_STRING: u32 = 5;
const K_ARRAY: u32 = 6;
const K_TABLE: u32 = 7;
const K_TYPEOF: u32 = 8;
const K_PARENTHESE: u32 = 9;
const K_FUNCTION: u32 = 10;
const K_OPTIONAL: u32 = 11;
const K_INTERSECTION: u32 = 12;
const K_UNION: u32 = 13;
const K_TABLE_PROPERTY: u32 = 14;
const K_TABLE_LITERAL: u32 = 15;
const K_TABLE_INDEXER: u32 = 16;
const K_FUNCTION_ARGUMENT: u32 = 17;
const K_TYPE_PACK: u32 = 18;
const K_VARIADIC_TYPE_PACK: u32 = 19;
const K_GENERIC_TYPE_PACK: u32 = 20;
const K_GENERIC_PARAMETERS: u32 = 21;
const K_TYPE_VARIABLE: u32 = 22;
const K_TYPE_VARIABLE_DEFAULT: u32 = 23;
const K_GENERIC_TYPE_PACK_DEFAULT: u32 = 24;
const K_GENERIC_PARAMETERS_DEFAULTS: u32 = 25;

#[derive(Default)]
struct Printer {
    out: String,
}

impl Printer {
    #[inline]
    fn s(&mut self, text: &str) {
        self.out.push_str(text);
    }

    fn boolean(&mut self, value: bool) {
        self.s(if value { "true" } else { "false" });
    }

    fn n(&mut self, value: u64) {
        self.s(&value.to_string());
    }

    fn z(&mut self, value: i64) {
        self.s("(");
        self.s(&value.to_string());
        self.s(")%Z");
    }

    /// `bx "<lower-case hex>"`, parenthesised
    fn bytes(&mut self, value: &[u8]) {
        const DIGITS: &[u8; 16] = b"0123456789abcdef";
        self.s("(bx \"");
        for b in value {
            self.out.push(DIGITS[(b >> 4) as usize] as char);
            self.out.push(DIGITS[(b & 15) as usize] as char);
        }
        self.s("\")");
    }

    /// `nm "<ascii>"` when the name is printable ASCII without `"`, else `bx "<hex>"`
    fn name(&mut self, value: &str) {
        let plain = value
            .bytes()
            .all(|b| (0x20..=0x7e).contains(&b) && b != b'"');
        if plain {
            self.s("(nm \"");
            self.s(value);
            self.s("\")");
        } else {
            self.bytes(value.as_bytes());
        }
    }

    fn ident(&mut self, identifier: &Identifier) {
        self.name(identifier.get_name());
    }

    /// `[a; b; c]`
    fn list<T>(&mut self, items: impl IntoIterator<Item = T>, mut each: impl FnMut(&mut Self, T)) {
        self.s("[");
        let mut first = true;
        for item in items {
            if !first {
                self.s("; ");
            }
            first = false;
            each(self, item);
        }
        self.s("]");
    }

    /// `None` / `(Some x)`
    fn option<T>(&mut self, item: Option<T>, each: impl FnOnce(&mut Self, T)) {
        match item {
            None => self.s("None"),
            Some(item) => {
                self.s("(Some ");
                each(self, item);
                self.s(")");
            }
        }
    }

    // ---------------------------------------------------------------- blocks and statements

    fn block(&mut self, block: &Block) {
        self.s("(Block ");
        self.list(block.iter_statements(), |p, s| p.stmt(s));
        self.s(" ");
        self.option(block.get_last_statement(), |p, l| p.last_stmt(l));
        self.s(")");
    }

    fn last_stmt(&mut self, last: &LastStatement) {
        match last {
            LastStatement::Break(_) => self.s("LBreak"),
            LastStatement::Continue(_) => self.s("LContinue"),
            LastStatement::Return(statement) => {
                self.s("(LReturn ");
                self.list(statement.iter_expressions(), |p, e| p.expr(e));
                self.s(")");
            }
        }
    }

    fn stmt(&mut self, statement: &Statement) {
        match statement {
            Statement::Assign(assign) => {
                self.s("(SAssign ");
                self.list(assign.iter_variables(), |p, v| p.variable(v));
                self.s(" ");
                self.list(assign.iter_values(), |p, e| p.expr(e));
                self.s(")");
            }
            Statement::Do(statement) => {
                self.s("(SDo ");
                self.block(statement.get_block());
                self.s(")");
            }
            Statement::Call(call) => {
                self.s("(SCall ");
                self.call(call);
                self.s(")");
            }
            Statement::CompoundAssign(statement) => {
                self.s("(SCompound ");
                self.binop(statement.get_operator().to_binary_operator());
                self.s(" ");
                self.variable(statement.get_variable());
                self.s(" ");
                self.expr(statement.get_value());
                self.s(")");
            }
            Statement::Function(function) => {
                let name = function.get_name();
                self.s("(SFunction ");
                self.ident(name.get_name());
                self.s(" ");
                self.list(name.get_field_names().iter(), |p, f| p.ident(f));
                self.s(" ");
                self.option(name.get_method(), |p, m| p.ident(m));
                self.s(" ");
                self.fbody(
                    function.iter_parameters(),
                    function.is_variadic(),
                    function.get_variadic_type(),
                    function.get_return_type(),
                    function.get_generic_parameters(),
                    function.attributes().len(),
                    function.get_block(),
                );
                self.s(")");
            }
            Statement::GenericFor(statement) => {
                self.s("(SGenericFor ");
                self.list(statement.iter_identifiers(), |p, i| p.param(i));
                self.s(" ");
                self.list(statement.iter_expressions(), |p, e| p.expr(e));
                self.s(" ");
                self.block(statement.get_block());
                self.s(")");
            }
            Statement::If(statement) => {
                self.s("(SIf ");
                self.list(statement.iter_branches(), |p, branch| {
                    p.s("(SBranch ");
                    p.expr(branch.get_condition());
                    p.s(" ");
                    p.block(branch.get_block());
                    p.s(")");
                });
                self.s(" ");
                self.option(statement.get_else_block(), |p, b| p.block(b));
                self.s(")");
            }
            Statement::LocalAssign(assign) => {
                self.s("(SLocal ");
                self.boolean(match assign.get_assignment_kind() {
                    AssignmentKind::Local => false,
                    AssignmentKind::Const => true,
                });
                self.s(" ");
                self.list(assign.iter_variables(), |p, v| p.param(v));
                self.s(" ");
                self.list(assign.iter_values(), |p, e| p.expr(e));
                self.s(")");
            }
            Statement::LocalFunction(function) => {
                self.s("(SLocalFunction ");
                self.ident(function.get_identifier());
                self.s(" ");
                self.fbody(
                    function.iter_parameters(),
                    function.is_variadic(),
                    function.get_variadic_type(),
                    function.get_return_type(),
                    function.get_generic_parameters(),
                    function.attributes().len(),
                    function.get_block(),
                );
                self.s(")");
            }
            Statement::NumericFor(statement) => {
                self.s("(SNumericFor ");
                self.param(statement.get_identifier());
                self.s(" ");
                self.expr(statement.get_start());
                self.s(" ");
                self.expr(statement.get_end());
                self.s(" ");
                self.option(statement.get_step(), |p, e| p.expr(e));
                self.s(" ");
                self.block(statement.get_block());
                self.s(")");
            }
            Statement::Repeat(statement) => {
                self.s("(SRepeat ");
                self.block(statement.get_block());
                self.s(" ");
                self.expr(statement.get_condition());
                self.s(")");
            }
            Statement::While(statement) => {
                self.s("(SWhile ");
                self.expr(statement.get_condition());
                self.s(" ");
                self.block(statement.get_block());
                self.s(")");
            }
            Statement::TypeDeclaration(declaration) => {
                self.s("(STypeDecl ");
                self.boolean(declaration.is_exported());
                self.s(" ");
                self.ident(declaration.get_name());
                self.s(" ");
                self.option(declaration.get_generic_parameters(), |p, g| {
                    p.generic_parameters_with_defaults(g)
                });
                self.s(" ");
                self.ty(declaration.get_type());
                self.s(")");
            }
            Statement::TypeFunction(function) => {
                self.s("(STypeFunction ");
                self.boolean(function.is_exported());
                self.s(" ");
                self.ident(function.get_identifier());
                self.s(" ");
                self.fbody(
                    function.iter_parameters(),
                    function.is_variadic(),
                    function.get_variadic_type(),
                    function.get_return_type(),
                    function.get_generic_parameters(),
                    0, // type functions carry no attributes
                    function.get_block(),
                );
                self.s(")");
            }
        }
    }

    #[allow(clippy::too_many_arguments)]
    fn fbody<'a>(
        &mut self,
        parameters: impl Iterator<Item = &'a TypedIdentifier>,
        is_variadic: bool,
        variadic_type: Option<&FunctionVariadicType>,
        return_type: Option<&FunctionReturnType>,
        generics: Option<&GenericParameters>,
        attributes: usize,
        block: &Block,
    ) {
        self.s("(FBody ");
        self.list(parameters, |p, i| p.param(i));
        self.s(" ");
        self.boolean(is_variadic);
        self.s(" ");
        self.option(variadic_type, |p, t| p.function_variadic_type(t));
        self.s(" ");
        self.option(return_type, |p, t| p.function_return_type(t));
        self.s(" ");
        self.option(generics, |p, g| p.generic_parameters(g));
        self.s(" ");
        self.n(attributes as u64);
        self.s(" ");
        self.block(block);
        self.s(")");
    }

    fn param(&mut self, identifier: &TypedIdentifier) {
        self.s("(Param ");
        self.ident(identifier.get_identifier());
        self.s(" ");
        self.option(identifier.get_type(), |p, t| p.ty(t));
        self.s(")");
    }

    // ---------------------------------------------------------------- expressions

    fn variable(&mut self, variable: &Variable) {
        match variable {
            Variable::Identifier(identifier) => self.e_ident(identifier),
            Variable::Field(field) => self.field(field),
            Variable::Index(index) => self.index(index),
        }
    }

    fn prefix(&mut self, prefix: &Prefix) {
        match prefix {
            Prefix::Call(call) => self.call(call),
            Prefix::Field(field) => self.field(field),
            Prefix::Identifier(identifier) => self.e_ident(identifier),
            Prefix::Index(index) => self.index(index),
            Prefix::Parenthese(parenthese) => self.parenthese(parenthese),
            Prefix::TypeInstantiation(instantiation) => self.type_instantiation(instantiation),
        }
    }

    fn e_ident(&mut self, identifier: &Identifier) {
        self.s("(EIdent ");
        self.ident(identifier);
        self.s(")");
    }

    fn field(&mut self, field: &FieldExpression) {
        self.s("(EField ");
        self.prefix(field.get_prefix());
        self.s(" ");
        self.ident(field.get_field());
        self.s(")");
    }

    fn index(&mut self, index: &IndexExpression) {
        self.s("(EIndex ");
        self.prefix(index.get_prefix());
        self.s(" ");
        self.expr(index.get_index());
        self.s(")");
    }

    fn parenthese(&mut self, parenthese: &ParentheseExpression) {
        self.s("(EParen ");
        self.expr(parenthese.inner_expression());
        self.s(")");
    }

    fn type_instantiation(&mut self, instantiation: &TypeInstantiationExpression) {
        self.s("(ETypeInst ");
        self.prefix(instantiation.get_prefix());
        self.s(" ");
        self.list(instantiation.iter_types(), |p, t| p.ty(t));
        self.s(")");
    }

    fn call(&mut self, call: &FunctionCall) {
        // the method type instantiation (`obj:method<<T>>()`) is not represented
        self.s("(ECall ");
        self.prefix(call.get_prefix());
        self.s(" ");
        self.option(call.get_method(), |p, m| p.ident(m));
        self.s(" ");
        match call.get_arguments() {
            Arguments::Tuple(tuple) => {
                self.s("(ATuple ");
                self.list(tuple.iter_values(), |p, e| p.expr(e));
                self.s(")");
            }
            Arguments::String(string) => {
                self.s("(AString ");
                self.bytes(string.get_value());
                self.s(")");
            }
            Arguments::Table(table) => {
                self.s("(ATable ");
                self.table_entries(table);
                self.s(")");
            }
        }
        self.s(")");
    }

    fn table_entries(&mut self, table: &TableExpression) {
        self.list(table.iter_entries(), |p, entry| match entry {
            TableEntry::Field(entry) => {
                p.s("(TField ");
                p.ident(entry.get_field());
                p.s(" ");
                p.expr(entry.get_value());
                p.s(")");
            }
            TableEntry::Index(entry) => {
                p.s("(TIndex ");
                p.expr(entry.get_key());
                p.s(" ");
                p.expr(entry.get_value());
                p.s(")");
            }
            TableEntry::Value(value) => {
                p.s("(TValue ");
                p.expr(value);
                p.s(")");
            }
        });
    }

    fn number(&mut self, number: &NumberExpression) {
        match number {
            NumberExpression::Decimal(decimal) => {
                // `compute_value` returns the stored float unchanged (= `get_raw_float`)
                self.s("(NDec ");
                self.n(decimal.compute_value().to_bits());
                self.s(" ");
                let exponent = decimal.get_exponent().zip(decimal.is_uppercase());
                self.option(exponent, |p, (exponent, uppercase)| {
                    p.s("(");
                    p.z(exponent);
                    p.s(", ");
                    p.boolean(uppercase);
                    p.s(")");
                });
                self.s(")");
            }
            NumberExpression::Hex(hex) => {
                self.s("(NHex ");
                self.n(hex.get_raw_integer());
                self.s(" ");
                self.boolean(hex.is_x_uppercase());
                self.s(" ");
                let exponent = hex.get_exponent().zip(hex.is_exponent_uppercase());
                self.option(exponent, |p, (exponent, uppercase)| {
                    p.s("(");
                    p.n(exponent as u64);
                    p.s(", ");
                    p.boolean(uppercase);
                    p.s(")");
                });
                self.s(")");
            }
            NumberExpression::Binary(binary) => {
                self.s("(NBin ");
                self.n(binary.get_raw_value());
                self.s(" ");
                self.boolean(binary.is_b_uppercase());
                self.s(")");
            }
        }
    }

    fn unop(&mut self, operator: UnaryOperator) {
        self.s(match operator {
            UnaryOperator::Length => "ULen",
            UnaryOperator::Minus => "UMinus",
            UnaryOperator::Not => "UNot",
        });
    }

    fn binop(&mut self, operator: BinaryOperator) {
        self.s(match operator {
            BinaryOperator::And => "BAnd",
            BinaryOperator::Or => "BOr",
            BinaryOperator::Equal => "BEq",
            BinaryOperator::NotEqual => "BNeq",
            BinaryOperator::LowerThan => "BLt",
            BinaryOperator::LowerOrEqualThan => "BLe",
            BinaryOperator::GreaterThan => "BGt",
            BinaryOperator::GreaterOrEqualThan => "BGe",
            BinaryOperator::Plus => "BAdd",
            BinaryOperator::Minus => "BSub",
            BinaryOperator::Asterisk => "BMul",
            BinaryOperator::Slash => "BDiv",
            BinaryOperator::DoubleSlash => "BIDiv",
            BinaryOperator::Percent => "BMod",
            BinaryOperator::Caret => "BPow",
            BinaryOperator::Concat => "BConcat",
        });
    }

    fn expr(&mut self, expression: &Expression) {
        match expression {
            Expression::Nil(_) => self.s("ENil"),
            Expression::True(_) => self.s("ETrue"),
            Expression::False(_) => self.s("EFalse"),
            Expression::VariableArguments(_) => self.s("EVarArgs"),
            Expression::Number(number) => {
                self.s("(ENumber ");
                self.number(number);
                self.s(")");
            }
            Expression::String(string) => {
                self.s("(EString ");
                self.bytes(string.get_value());
                self.s(")");
            }
            Expression::InterpolatedString(string) => {
                self.s("(EInterp ");
                self.list(string.iter_segments(), |p, segment| match segment {
                    InterpolationSegment::String(segment) => {
                        p.s("(ISStr ");
                        p.bytes(segment.get_value());
                        p.s(")");
                    }
                    InterpolationSegment::Value(segment) => {
                        p.s("(ISExpr ");
                        p.expr(segment.get_expression());
                        p.s(")");
                    }
                });
                self.s(")");
            }
            Expression::Identifier(identifier) => self.e_ident(identifier),
            Expression::Field(field) => self.field(field),
            Expression::Index(index) => self.index(index),
            Expression::Call(call) => self.call(call),
            Expression::Function(function) => {
                self.s("(EFunction ");
                self.fbody(
                    function.iter_parameters(),
                    function.is_variadic(),
                    function.get_variadic_type(),
                    function.get_return_type(),
                    function.get_generic_parameters(),
                    function.attributes().len(),
                    function.get_block(),
                );
                self.s(")");
            }
            Expression::If(if_expression) => {
                self.s("(EIf [(EBranch ");
                self.expr(if_expression.get_condition());
                self.s(" ");
                self.expr(if_expression.get_result());
                self.s(")");
                for branch in if_expression.iter_branches() {
                    self.s("; (EBranch ");
                    self.expr(branch.get_condition());
                    self.s(" ");
                    self.expr(branch.get_result());
                    self.s(")");
                }
                self.s("] ");
                self.expr(if_expression.get_else_result());
                self.s(")");
            }
            Expression::Parenthese(parenthese) => self.parenthese(parenthese),
            Expression::Table(table) => {
                self.s("(ETable ");
                self.table_entries(table);
                self.s(")");
            }
            Expression::Unary(unary) => {
                self.s("(EUnary ");
                self.unop(unary.operator());
                self.s(" ");
                self.expr(unary.get_expression());
                self.s(")");
            }
            Expression::Binary(binary) => {
                self.s("(EBinary ");
                self.binop(binary.operator());
                self.s(" ");
                self.expr(binary.left());
                self.s(" ");
                self.expr(binary.right());
                self.s(")");
            }
            Expression::TypeCast(cast) => {
                self.s("(ETypeCast ");
                self.expr(cast.get_expression());
                self.s(" ");
                self.ty(cast.get_type());
                self.s(")");
            }
            Expression::TypeInstantiation(instantiation) => self.type_instantiation(instantiation),
        }
    }

    // ---------------------------------------------------------------- types

    /// `(TyNode kind [subs] [exprs])`; `subs` prints the `; `-separated sub nodes through `sub`
    fn ty_node(&mut self, kind: u32, subs: impl FnOnce(&mut TyList)) {
        self.s("(TyNode ");
        self.n(kind as u64);
        self.s(" [");
        let mut list = TyList {
            printer: self,
            first: true,
        };
        subs(&mut list);
        self.s("] [])");
    }

    fn ty_leaf(&mut self, kind: u32) {
        self.ty_node(kind, |_| {});
    }

    fn ty(&mut self, r#type: &Type) {
        match r#type {
            Type::Name(name) => self.type_name(K_NAME, name),
            Type::Field(field) => self.type_name(K_FIELD, field.get_type_name()),
            Type::True(_) => self.ty_leaf(K_TRUE),
            Type::False(_) => self.ty_leaf(K_FALSE),
            Type::Nil(_) => self.ty_leaf(K_NIL),
            Type::String(_) => self.ty_leaf(K_STRING),
            Type::Array(array) => self.ty_node(K_ARRAY, |l| l.add(|p| p.ty(array.get_element_type()))),
            Type::Table(table) => self.ty_node(K_TABLE, |l| {
                for entry in table.iter_entries() {
                    l.add(|p| p.table_entry_type(entry));
                }
            }),
            Type::TypeOf(expression_type) => {
                self.s("(TyNode ");
                self.n(K_TYPEOF as u64);
                self.s(" [] [");
                self.expr(expression_type.get_expression());
                self.s("])");
            }
            Type::Parenthese(parenthese) => {
                self.ty_node(K_PARENTHESE, |l| l.add(|p| p.ty(parenthese.get_inner_type())))
            }
            Type::Function(function) => self.ty_node(K_FUNCTION, |l| {
                if let Some(generics) = function.get_generic_parameters() {
                    l.add(|p| p.generic_parameters(generics));
                }
                for argument in function.iter_arguments() {
                    l.add(|p| {
                        p.ty_node(K_FUNCTION_ARGUMENT, |l| l.add(|p| p.ty(argument.get_type())))
                    });
                }
                if let Some(variadic) = function.get_variadic_argument_type() {
                    l.add(|p| p.variadic_argument_type(variadic));
                }
                l.add(|p| p.function_return_type(function.get_return_type()));
            }),
            Type::Optional(optional) => {
                self.ty_node(K_OPTIONAL, |l| l.add(|p| p.ty(optional.get_inner_type())))
            }
            Type::Intersection(intersection) => self.ty_node(K_INTERSECTION, |l| {
                for member in intersection.iter_types() {
                    l.add(|p| p.ty(member));
                }
            }),
            Type::Union(union) => self.ty_node(K_UNION, |l| {
                for member in union.iter_types() {
                    l.add(|p| p.ty(member));
                }
            }),
        }
    }

    fn type_name(&mut self, kind: u32, name: &TypeName) {
        self.ty_node(kind, |l| {
            if let Some(parameters) = name.get_type_parameters() {
                for parameter in parameters.iter() {
                    l.add(|p| match parameter {
                        TypeParameter::Type(r#type) => p.ty(r#type),
                        TypeParameter::TypePack(pack) => p.type_pack(pack),
                        TypeParameter::VariadicTypePack(pack) => p.variadic_type_pack(pack),
                        TypeParameter::GenericTypePack(pack) => p.generic_type_pack(pack),
                    });
                }
            }
        });
    }

    fn table_entry_type(&mut self, entry: &TableEntryType) {
        match entry {
            TableEntryType::Property(property) => {
                self.ty_node(K_TABLE_PROPERTY, |l| l.add(|p| p.ty(property.get_type())))
            }
            TableEntryType::Literal(property) => {
                self.ty_node(K_TABLE_LITERAL, |l| l.add(|p| p.ty(property.get_type())))
            }
            TableEntryType::Indexer(indexer) => self.ty_node(K_TABLE_INDEXER, |l| {
                l.add(|p| p.ty(indexer.get_key_type()));
                l.add(|p| p.ty(indexer.get_value_type()));
            }),
        }
    }

    fn type_pack(&mut self, pack: &TypePack) {
        self.ty_node(K_TYPE_PACK, |l| {
            for member in pack.iter() {
                l.add(|p| p.ty(member));
            }
            if let Some(variadic) = pack.get_variadic_type() {
                l.add(|p| p.variadic_argument_type(variadic));
            }
        });
    }

    fn variadic_type_pack(&mut self, pack: &VariadicTypePack) {
        self.ty_node(K_VARIADIC_TYPE_PACK, |l| l.add(|p| p.ty(pack.get_type())));
    }

    fn generic_type_pack(&mut self, _pack: &GenericTypePack) {
        self.ty_leaf(K_GENERIC_TYPE_PACK);
    }

    fn variadic_argument_type(&mut self, variadic: &VariadicArgumentType) {
        match variadic {
            VariadicArgumentType::GenericTypePack(pack) => self.generic_type_pack(pack),
            VariadicArgumentType::VariadicTypePack(pack) => self.variadic_type_pack(pack),
        }
    }

    fn function_return_type(&mut self, return_type: &FunctionReturnType) {
        match return_type {
            FunctionReturnType::Type(r#type) => self.ty(r#type),
            FunctionReturnType::TypePack(pack) => self.type_pack(pack),
            FunctionReturnType::GenericTypePack(pack) => self.generic_type_pack(pack),
            FunctionReturnType::VariadicTypePack(pack) => self.variadic_type_pack(pack),
        }
    }

    fn function_variadic_type(&mut self, variadic: &FunctionVariadicType) {
        match variadic {
            FunctionVariadicType::Type(r#type) => self.ty(r#type),
            FunctionVariadicType::GenericTypePack(pack) => self.generic_type_pack(pack),
        }
    }

    fn generic_parameters(&mut self, generics: &GenericParameters) {
        self.ty_node(K_GENERIC_PARAMETERS, |l| {
            for _variable in generics.iter_type_variable() {
                l.add(|p| p.ty_leaf(K_TYPE_VARIABLE));
            }
            for pack in generics.iter_generic_type_pack() {
                l.add(|p| p.generic_type_pack(pack));
            }
        });
    }

    fn generic_parameters_with_defaults(&mut self, generics: &GenericParametersWithDefaults) {
        self.ty_node(K_GENERIC_PARAMETERS_DEFAULTS, |l| {
            for parameter in generics.iter() {
                l.add(|p| match parameter {
                    GenericParameterRef::TypeVariable(_) => p.ty_leaf(K_TYPE_VARIABLE),
                    GenericParameterRef::TypeVariableWithDefault(variable) => {
                        p.ty_node(K_TYPE_VARIABLE_DEFAULT, |l| {
                            l.add(|p| p.ty(variable.get_default_type()))
                        })
                    }
                    GenericParameterRef::GenericTypePack(pack) => p.generic_type_pack(pack),
                    GenericParameterRef::GenericTypePackWithDefault(pack) => {
                        p.ty_node(K_GENERIC_TYPE_PACK_DEFAULT, |l| {
                            l.add(|p| match pack.get_default_type() {
                                GenericTypePackDefault::TypePack(pack) => p.type_pack(pack),
                                GenericTypePackDefault::VariadicTypePack(pack) => {
                                    p.variadic_type_pack(pack)
                                }
                                GenericTypePackDefault::GenericTypePack(pack) => {
                                    p.generic_type_pack(pack)
                                }
                            })
                        })
                    }
                });
            }
        });
    }
}

/// Helper printing the `; ` separators of a `TyNode`'s sub node list.
struct TyList<'a> {
    printer: &'a mut Printer,
    first: bool,
}

impl TyList<'_> {
    fn add(&mut self, print: impl FnOnce(&mut Printer)) {
        if !self.first {
            self.printer.s("; ");
        }
        self.first = false;
        print(self.printer);
    }
}
