--!strict
local a, b: number, c: string? = nil, true, false
const K = 0x1F
const function cf() end
local n1, n2, n3, n4, n5, n6, n7 = 1, 1.5e10, 2E-3, 0XAB, 0xff, 0b101, 0B11
local n8 = 1e+5
local s1, s2, s3 = "ab\n\"q\"", 'single', [[long
string]]
local istr = `hello {a} and {b + 1} \{ end`
local istr2 = `plain`
local function va(...: number): ...string
    return ...
end
x = 1
x.y, x[1], x.y.z = 1, 2, 3
x:method("a"):other{1, 2}.field = f "str"
f{ a = 1, ["b"] = 2, 3; [4] = 5 }
obj:m "s"
obj:m { k = 1 }
obj.f(1, 2, 3)
(f)()
(f or g)(...)
do local z = 1 end
x += 1; x -= 2; x *= 3; x /= 4; x //= 5; x %= 6; x ^= 7; x ..= "s"
x.y[1] += 1
function M.a.b:c<T, U...>(p: T, ...: U...): (T, U...)
    return p, ...
end
function g() end
@native
function h(a) return a end
@native @checked
local function lf<T>(a: T, b): T
    return a
end
@native
local function lg() end
for k: string, v in pairs(t), nil do
    if k then continue end
    break
end
for i = 1, 10 do end
for i: number = 10, 1, -1 do print(i) end
if a then
elseif b then
    return
elseif c then
    x = 2
else
    x = 3
end
if a then end
repeat local q = 1 until q == 1
while true do break end
local e1 = if a then 1 elseif b then 2 elseif c then 3 else 4
local e2 = if a then 1 else 2
local e3 = (a)
local e4 = { }
local e5 = not a, -b, #c
local e6 = a and b or c == d ~= e < f <= g > h >= i + j - k * l / m // n % o ^ p .. q
local e7 = a :: number
local e8 = (a :: any) :: { [string]: number }
local e9 = function<T>(a: T, ...): () end
local e10 = @native function() end
local e11 = f<<number, string>>(1)
local e12 = obj.f<<T>>
local e13 = x.y["z"](1)
local e14 = nil
local e15 = ...
type T1 = number
type T2<A, B = string, C... = ...number> = { a: A, read b: B, write ["lit"]: C, [number]: string }
export type T3<A..., B... = (number, string)> = (A...) -> B...
type T4 = typeof(a.b(1))
type T5 = (number)
type T6 = <T, U...>(a: T, number, ...U) -> (T, ...number)
type T7 = number?
type T8 = A & B & (C | D)
type T9 = | "a" | 'b' | true | false | nil
type T10 = ns.Name<number, (string, boolean), ...number, T...>
type T11 = { number }
type T12 = () -> ()
type T13 = (...number) -> ...string
type T14<X...> = (a: number, X...) -> X...
type T15 = & A & B
type T16<P... = Q...> = Foo<P...>
type function tf(a, b)
    return a
end
export type function tf2(...)
    return ...
end
local w: typeof(x) = x
return a, b, function() return end
