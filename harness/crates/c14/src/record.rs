//! A serde `Serializer` that records the call protocol a value drives as a `Data` tree: the
//! input of the Coq model `Model/Serializer.v: to_expression`.
//!
//! The calls are collapsed exactly where darklua's serializer
//! (`src/process/expression_serializer.rs`) forwards one method to another:
//!   * i8..i64 -> `Int`, u8..u64 -> `Int` (both end in `DecimalNumber::new(v as f64)`),
//!     f32 -> f64 -> `Float(bits)`;
//!   * `serialize_none`, `serialize_unit`, `serialize_unit_struct` -> `Null`;
//!   * `serialize_some`, `serialize_newtype_struct` -> the inner value;
//!   * `serialize_char`, `serialize_unit_variant` -> `Str`;
//!   * seq / tuple / tuple struct -> `Seq`;
//!   * map / struct -> `Map` (a struct field is a `Str` key);
//!   * newtype / tuple / struct variant -> `Map [(Str variant, inner)]`;
//!   * `serialize_bytes`, i128/u128 -> `Unsupported` (not reachable from JSON/YAML/TOML values).

use serde::ser::{self, Serialize};
use std::fmt;

#[derive(Debug, Clone)]
pub enum Data {
    Null,
    Bool(bool),
    Int(i128),
    Float(u64),
    Str(Vec<u8>),
    Seq(Vec<Data>),
    Map(Vec<(Data, Data)>),
    Unsupported(&'static str),
}

impl Data {
    pub fn to_coq(&self, out: &mut String) {
        match self {
            Data::Null => out.push_str("DNull"),
            Data::Bool(b) => out.push_str(if *b { "(DBool true)" } else { "(DBool false)" }),
            Data::Int(i) => out.push_str(&format!("(DInt ({})%Z)", i)),
            Data::Float(bits) => out.push_str(&format!("(DFloat {})", bits)),
            Data::Str(s) => {
                out.push_str("(DString (bx \"");
                out.push_str(&hutil::hex(s));
                out.push_str("\"))");
            }
            Data::Seq(items) => {
                out.push_str("(DSeq [");
                for (i, item) in items.iter().enumerate() {
                    if i > 0 {
                        out.push_str("; ");
                    }
                    item.to_coq(out);
                }
                out.push_str("])");
            }
            Data::Map(entries) => {
                out.push_str("(DMap [");
                for (i, (k, v)) in entries.iter().enumerate() {
                    if i > 0 {
                        out.push_str("; ");
                    }
                    out.push('(');
                    k.to_coq(out);
                    out.push_str(", ");
                    v.to_coq(out);
                    out.push(')');
                }
                out.push_str("])");
            }
            Data::Unsupported(what) => out.push_str(&format!("(DUnsupported (* {} *))", what)),
        }
    }

    pub fn has_unsupported(&self) -> bool {
        match self {
            Data::Unsupported(_) => true,
            Data::Seq(items) => items.iter().any(Data::has_unsupported),
            Data::Map(entries) => entries
                .iter()
                .any(|(k, v)| k.has_unsupported() || v.has_unsupported()),
            _ => false,
        }
    }
}

#[derive(Debug)]
pub struct RecError(String);
impl fmt::Display for RecError {
    fn fmt(&self, f: &mut fmt::Formatter) -> fmt::Result {
        f.write_str(&self.0)
    }
}
impl std::error::Error for RecError {}
impl ser::Error for RecError {
    fn custom<T: fmt::Display>(msg: T) -> Self {
        RecError(msg.to_string())
    }
}

pub fn record<T: Serialize + ?Sized>(value: &T) -> Result<Data, RecError> {
    value.serialize(Recorder)
}

pub struct Recorder;

pub struct SeqRec {
    items: Vec<Data>,
    variant: Option<&'static str>,
}
pub struct MapRec {
    entries: Vec<(Data, Data)>,
    key: Option<Data>,
    variant: Option<&'static str>,
}

fn wrap(variant: Option<&'static str>, inner: Data) -> Data {
    match variant {
        None => inner,
        Some(name) => Data::Map(vec![(Data::Str(name.as_bytes().to_vec()), inner)]),
    }
}

type R<T> = Result<T, RecError>;

impl ser::Serializer for Recorder {
    type Ok = Data;
    type Error = RecError;
    type SerializeSeq = SeqRec;
    type SerializeTuple = SeqRec;
    type SerializeTupleStruct = SeqRec;
    type SerializeTupleVariant = SeqRec;
    type SerializeMap = MapRec;
    type SerializeStruct = MapRec;
    type SerializeStructVariant = MapRec;

    fn serialize_bool(self, v: bool) -> R<Data> {
        Ok(Data::Bool(v))
    }
    fn serialize_i8(self, v: i8) -> R<Data> {
        Ok(Data::Int(v as i128))
    }
    fn serialize_i16(self, v: i16) -> R<Data> {
        Ok(Data::Int(v as i128))
    }
    fn serialize_i32(self, v: i32) -> R<Data> {
        Ok(Data::Int(v as i128))
    }
    fn serialize_i64(self, v: i64) -> R<Data> {
        Ok(Data::Int(v as i128))
    }
    fn serialize_i128(self, _v: i128) -> R<Data> {
        Ok(Data::Unsupported("i128"))
    }
    fn serialize_u8(self, v: u8) -> R<Data> {
        Ok(Data::Int(v as i128))
    }
    fn serialize_u16(self, v: u16) -> R<Data> {
        Ok(Data::Int(v as i128))
    }
    fn serialize_u32(self, v: u32) -> R<Data> {
        Ok(Data::Int(v as i128))
    }
    fn serialize_u64(self, v: u64) -> R<Data> {
        Ok(Data::Int(v as i128))
    }
    fn serialize_u128(self, _v: u128) -> R<Data> {
        Ok(Data::Unsupported("u128"))
    }
    fn serialize_f32(self, v: f32) -> R<Data> {
        Ok(Data::Float(f64::from(v).to_bits()))
    }
    fn serialize_f64(self, v: f64) -> R<Data> {
        Ok(Data::Float(v.to_bits()))
    }
    fn serialize_char(self, v: char) -> R<Data> {
        Ok(Data::Str(v.to_string().into_bytes()))
    }
    fn serialize_str(self, v: &str) -> R<Data> {
        Ok(Data::Str(v.as_bytes().to_vec()))
    }
    fn serialize_bytes(self, _v: &[u8]) -> R<Data> {
        Ok(Data::Unsupported("bytes"))
    }
    fn serialize_none(self) -> R<Data> {
        Ok(Data::Null)
    }
    fn serialize_some<T: ?Sized + Serialize>(self, value: &T) -> R<Data> {
        value.serialize(Recorder)
    }
    fn serialize_unit(self) -> R<Data> {
        Ok(Data::Null)
    }
    fn serialize_unit_struct(self, _name: &'static str) -> R<Data> {
        Ok(Data::Null)
    }
    fn serialize_unit_variant(self, _n: &'static str, _i: u32, variant: &'static str) -> R<Data> {
        Ok(Data::Str(variant.as_bytes().to_vec()))
    }
    fn serialize_newtype_struct<T: ?Sized + Serialize>(self, _n: &'static str, value: &T) -> R<Data> {
        value.serialize(Recorder)
    }
    fn serialize_newtype_variant<T: ?Sized + Serialize>(
        self,
        _n: &'static str,
        _i: u32,
        variant: &'static str,
        value: &T,
    ) -> R<Data> {
        Ok(wrap(Some(variant), value.serialize(Recorder)?))
    }
    fn serialize_seq(self, _len: Option<usize>) -> R<SeqRec> {
        Ok(SeqRec { items: Vec::new(), variant: None })
    }
    fn serialize_tuple(self, _len: usize) -> R<SeqRec> {
        Ok(SeqRec { items: Vec::new(), variant: None })
    }
    fn serialize_tuple_struct(self, _n: &'static str, _len: usize) -> R<SeqRec> {
        Ok(SeqRec { items: Vec::new(), variant: None })
    }
    fn serialize_tuple_variant(self, _n: &'static str, _i: u32, variant: &'static str, _len: usize) -> R<SeqRec> {
        Ok(SeqRec { items: Vec::new(), variant: Some(variant) })
    }
    fn serialize_map(self, _len: Option<usize>) -> R<MapRec> {
        Ok(MapRec { entries: Vec::new(), key: None, variant: None })
    }
    fn serialize_struct(self, _n: &'static str, _len: usize) -> R<MapRec> {
        Ok(MapRec { entries: Vec::new(), key: None, variant: None })
    }
    fn serialize_struct_variant(self, _n: &'static str, _i: u32, variant: &'static str, _len: usize) -> R<MapRec> {
        Ok(MapRec { entries: Vec::new(), key: None, variant: Some(variant) })
    }
}

impl ser::SerializeSeq for SeqRec {
    type Ok = Data;
    type Error = RecError;
    fn serialize_element<T: ?Sized + Serialize>(&mut self, value: &T) -> R<()> {
        self.items.push(value.serialize(Recorder)?);
        Ok(())
    }
    fn end(self) -> R<Data> {
        Ok(wrap(self.variant, Data::Seq(self.items)))
    }
}
impl ser::SerializeTuple for SeqRec {
    type Ok = Data;
    type Error = RecError;
    fn serialize_element<T: ?Sized + Serialize>(&mut self, value: &T) -> R<()> {
        ser::SerializeSeq::serialize_element(self, value)
    }
    fn end(self) -> R<Data> {
        ser::SerializeSeq::end(self)
    }
}
impl ser::SerializeTupleStruct for SeqRec {
    type Ok = Data;
    type Error = RecError;
    fn serialize_field<T: ?Sized + Serialize>(&mut self, value: &T) -> R<()> {
        ser::SerializeSeq::serialize_element(self, value)
    }
    fn end(self) -> R<Data> {
        ser::SerializeSeq::end(self)
    }
}
impl ser::SerializeTupleVariant for SeqRec {
    type Ok = Data;
    type Error = RecError;
    fn serialize_field<T: ?Sized + Serialize>(&mut self, value: &T) -> R<()> {
        ser::SerializeSeq::serialize_element(self, value)
    }
    fn end(self) -> R<Data> {
        ser::SerializeSeq::end(self)
    }
}
impl ser::SerializeMap for MapRec {
    type Ok = Data;
    type Error = RecError;
    fn serialize_key<T: ?Sized + Serialize>(&mut self, key: &T) -> R<()> {
        self.key = Some(key.serialize(Recorder)?);
        Ok(())
    }
    fn serialize_value<T: ?Sized + Serialize>(&mut self, value: &T) -> R<()> {
        let key = self.key.take().ok_or_else(|| RecError("value without key".to_owned()))?;
        self.entries.push((key, value.serialize(Recorder)?));
        Ok(())
    }
    fn end(self) -> R<Data> {
        Ok(wrap(self.variant, Data::Map(self.entries)))
    }
}
impl ser::SerializeStruct for MapRec {
    type Ok = Data;
    type Error = RecError;
    fn serialize_field<T: ?Sized + Serialize>(&mut self, key: &'static str, value: &T) -> R<()> {
        self.entries
            .push((Data::Str(key.as_bytes().to_vec()), value.serialize(Recorder)?));
        Ok(())
    }
    fn end(self) -> R<Data> {
        Ok(wrap(self.variant, Data::Map(self.entries)))
    }
}
impl ser::SerializeStructVariant for MapRec {
    type Ok = Data;
    type Error = RecError;
    fn serialize_field<T: ?Sized + Serialize>(&mut self, key: &'static str, value: &T) -> R<()> {
        ser::SerializeStruct::serialize_field(self, key, value)
    }
    fn end(self) -> R<Data> {
        ser::SerializeStruct::end(self)
    }
}
