//! C14: data files convert to Lua values equal to the data.
//!
//! `dl-c14 run --input FILE [--generators dense,readable,retain_lines]`
//!   FILE: one document per line, `<id>\t<format>\t<hex of the document text>` with format one of
//!   json, json5, yaml, yml, toml, txt.  For every document (parsed exactly as
//!   `src/cli/convert.rs` / `path_require_mode::require_resource` do) prints
//!     `D\t<id>\t<format>\t<data term | ERR:msg>\t<expr term of to_expression | ERR:msg>`
//!        data term = the serde calls the parsed value drives (record.rs), tree = what the real
//!        `to_expression` built (hook `verif_hooks::to_expression`), both as Coq terms;
//!     `C\t<id>\t<hex of convert_data's text | ERR:msg>\t<block term of the parsed text | ERR:msg>`
//!     `B\t<id>\t<generator>\t<hex of the bundled main | ERR:msg>\t<block term | ERR:msg>`
//!        the bundle of `return require("./data.<format>")` through `darklua_core::process`;
//!     `P\t<id>\t<message>` when the document itself is rejected by the format's parser.
//!
//! `dl-c14 ident --input FILE`: one hex string per line (valid UTF-8), prints `<hex>\t<0|1>` =
//!   `darklua_core::process::utils::is_valid_identifier` (through the hook).

mod record;

use darklua_core::{process, Options, Parser, Resources};
use hutil::{arg_value, hex};
use record::{record, Data};
use serde::Serialize;
use std::panic::{catch_unwind, AssertUnwindSafe};

fn unhex(text: &str) -> Vec<u8> {
    (0..text.len() / 2)
        .map(|i| u8::from_str_radix(&text[2 * i..2 * i + 2], 16).expect("hex"))
        .collect()
}

fn clean(message: impl std::fmt::Display) -> String {
    message
        .to_string()
        .replace(['\t', '\n', '\r'], " ")
        .chars()
        .take(300)
        .collect()
}

fn parse_to_block(text: &str) -> String {
    match catch_unwind(AssertUnwindSafe(|| Parser::default().parse(text))) {
        Ok(Ok(block)) => astdump::block_to_coq(&block),
        Ok(Err(err)) => format!("ERR:{}", clean(err)),
        Err(_) => "ERR:parser panicked".to_owned(),
    }
}

fn data_line<T: Serialize>(id: &str, format: &str, value: &T) {
    let data = match record(value) {
        Ok(data) if data.has_unsupported() => "ERR:unsupported serde call".to_owned(),
        Ok(data) => {
            let mut out = String::new();
            Data::to_coq(&data, &mut out);
            out
        }
        Err(err) => format!("ERR:{}", clean(err)),
    };
    let tree = match catch_unwind(AssertUnwindSafe(|| {
        darklua_core::verif_hooks::to_expression(value)
    })) {
        Ok(Ok(expression)) => astdump::expr_to_coq(&expression),
        Ok(Err(err)) => format!("ERR:{}", clean(err)),
        Err(_) => "ERR:to_expression panicked".to_owned(),
    };
    println!("D\t{}\t{}\t{}\t{}", id, format, data, tree);
}

fn convert_line<T: Serialize>(id: &str, value: T) {
    match catch_unwind(AssertUnwindSafe(|| darklua_core::convert_data(value))) {
        Ok(Ok(text)) => println!("C\t{}\t{}\t{}", id, hex(text.as_bytes()), parse_to_block(&text)),
        Ok(Err(err)) => println!("C\t{}\tERR:{}\tERR:no text", id, clean(err)),
        Err(_) => println!("C\t{}\tERR:convert_data panicked\tERR:no text", id),
    }
}

fn bundle_line(id: &str, format: &str, text: &str, generator: &str) {
    let result = catch_unwind(AssertUnwindSafe(|| -> Result<String, String> {
        let resources = Resources::from_memory();
        let data_name = format!("src/data.{}", format);
        resources.write(&data_name, text).map_err(|err| format!("{:?}", err))?;
        resources
            .write("src/main.lua", &format!("return require(\"./data.{}\")", format))
            .map_err(|err| format!("{:?}", err))?;
        resources
            .write(
                ".darklua.json",
                &format!(
                    "{{ \"rules\": [], \"generator\": \"{}\", \"bundle\": {{ \"require_mode\": \"path\" }} }}",
                    generator
                ),
            )
            .map_err(|err| format!("{:?}", err))?;
        let tree = process(&resources, Options::new("src/main.lua").with_output("out.lua"))
            .map_err(|err| err.to_string())?;
        tree.result().map_err(|errors| {
            errors
                .into_iter()
                .map(|err| err.to_string())
                .collect::<Vec<_>>()
                .join(" | ")
        })?;
        resources.get("out.lua").map_err(|err| format!("{:?}", err))
    }));
    match result {
        Ok(Ok(out)) => println!("B\t{}\t{}\t{}\t{}", id, generator, hex(out.as_bytes()), parse_to_block(&out)),
        Ok(Err(err)) => println!("B\t{}\t{}\tERR:{}\tERR:no text", id, generator, clean(err)),
        Err(_) => println!("B\t{}\t{}\tERR:process panicked\tERR:no text", id, generator),
    }
}

fn run(args: &[String]) {
    let input = arg_value(args, "--input").expect("--input FILE");
    let generators: Vec<String> = arg_value(args, "--generators")
        .unwrap_or_else(|| "dense".to_owned())
        .split(',')
        .map(str::to_owned)
        .collect();
    let content = std::fs::read_to_string(&input).expect("read input");
    for (index, line) in content.lines().enumerate() {
        let parts: Vec<&str> = line.split('\t').collect();
        if parts.len() != 3 {
            continue;
        }
        let (id, format) = (parts[0], parts[1]);
        let bytes = unhex(parts[2]);
        let text = match String::from_utf8(bytes) {
            Ok(text) => text,
            Err(_) => {
                println!("P\t{}\tdocument is not UTF-8", id);
                continue;
            }
        };
        let parsed_ok = match format {
            "json" | "json5" => match catch_unwind(AssertUnwindSafe(|| json5::from_str::<serde_json::Value>(&text))) {
                Ok(Ok(value)) => {
                    data_line(id, format, &value);
                    convert_line(id, value);
                    true
                }
                Ok(Err(err)) => {
                    println!("P\t{}\t{}", id, clean(err));
                    false
                }
                Err(_) => {
                    println!("P\t{}\tparser panicked", id);
                    false
                }
            },
            "yaml" | "yml" => match catch_unwind(AssertUnwindSafe(|| serde_yaml::from_str::<serde_yaml::Value>(&text))) {
                Ok(Ok(value)) => {
                    data_line(id, format, &value);
                    convert_line(id, value);
                    true
                }
                Ok(Err(err)) => {
                    println!("P\t{}\t{}", id, clean(err));
                    false
                }
                Err(_) => {
                    println!("P\t{}\tparser panicked", id);
                    false
                }
            },
            "toml" => match catch_unwind(AssertUnwindSafe(|| toml::from_str::<toml::Value>(&text))) {
                Ok(Ok(value)) => {
                    data_line(id, format, &value);
                    convert_line(id, value);
                    true
                }
                Ok(Err(err)) => {
                    println!("P\t{}\t{}", id, clean(err));
                    false
                }
                Err(_) => {
                    println!("P\t{}\tparser panicked", id);
                    false
                }
            },
            "txt" => {
                // path_require_mode: `StringExpression::from_value(content)`; there is no
                // `convert` for text files
                data_line(id, format, &text);
                true
            }
            other => {
                println!("P\t{}\tunknown format {}", id, other);
                false
            }
        };
        if parsed_ok {
            let generator = &generators[index % generators.len()];
            bundle_line(id, format, &text, generator);
        }
    }
}

fn ident(args: &[String]) {
    let input = arg_value(args, "--input").expect("--input FILE");
    let content = std::fs::read_to_string(&input).expect("read input");
    for line in content.lines() {
        let line = line.trim();
        match String::from_utf8(unhex(line)) {
            Ok(text) => println!(
                "{}\t{}",
                line,
                if darklua_core::verif_hooks::is_valid_identifier(&text) { 1 } else { 0 }
            ),
            Err(_) => println!("{}\tERR", line),
        }
    }
}

fn main() {
    let args: Vec<String> = std::env::args().collect();
    // keep panic messages of the code under test out of the way (they are reported as ERR)
    std::panic::set_hook(Box::new(|_| {}));
    match args.get(1).map(String::as_str) {
        Some("run") => run(&args),
        Some("ident") => ident(&args),
        _ => {
            eprintln!("usage: dl-c14 run --input FILE [--generators g1,g2] | dl-c14 ident --input FILE");
            std::process::exit(2);
        }
    }
}
