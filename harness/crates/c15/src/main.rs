//! C15: require resolution and convert_require, driven on the real darklua code.
//!
//! `dl-c15 cases --tier quick|thorough` prints
//!   `C <cfg> <path|luau> <mfn hex> <project hex|-> <name hex>=<path hex>,...|-`   a require-mode configuration
//!   `L <layout> <n optional> <hex path>...`   layout: the first n files are optional (bit i of the mask), the rest always exist
//!   `K <layout> <dir hex> <name hex>=<path hex>,...`   the layout has `<dir>/.luaurc` with these aliases
//!   `R <cfg> <layout> <src hex> <literal hex> <res>*2^n`   find_require under every subset of the optional files
//!   `V <cur cfg> <tgt cfg> <layout> <src hex> <literal hex> <f;s;g>*2^n`   find (current) ; generate (target) ; find (target)
//!   `I <path hex> <mfn hex> <hex path>...`   the candidate iterator
//!   `N <path hex> <normalize_path hex> <normalize_path_with_current_dir hex>`
//!   `G <require hex> <source hex> <get_relative_path(.., true)> <write_require_path(require)>`
//!   `E <cur cfg> <tgt cfg> <layout> <mask> <src hex> <literal hex> <hook literal> <rule literal> <process literal>`
//!   `M <cfg> <files|folders|mixed> <order> <spelling hex> <expected markers> <distinct|same> <markers in the bundle>`   two modules, same spelling
//!   `D <cfg> <layout> <mask> <src hex> <literal hex> <find_require by hook> <files whose marker is in the bundle made by process>`
//! results: `<hex path>`, `!nf` (not found), `!unk` (unknown source), `!empty`, `!none`, `!err<hex message>`; `-` = empty string / not run.

use std::collections::BTreeMap;
use std::path::{Path, PathBuf};

use darklua_core::nodes::{Arguments, Block, Expression, LastStatement, Prefix, Statement};
use darklua_core::rules::{ContextBuilder, RequireMode, Rule};
use darklua_core::verif_hooks as hooks;
use darklua_core::{Options, Parser, Resources};
use hutil::{arg_value, hex};

#[derive(Clone)]
struct Cfg {
    id: &'static str,
    luau: bool,
    mfn: &'static str,
    project: Option<&'static str>,
    sources: Vec<(&'static str, &'static str)>,
    use_rc: bool,
}

impl Cfg {
    fn json(&self) -> String {
        let map: BTreeMap<&str, &str> = self.sources.iter().cloned().collect();
        let map = serde_json::to_string(&map).unwrap();
        if self.luau {
            format!(
                r#"{{"name":"luau","use_luau_configuration":{},"aliases":{}}}"#,
                self.use_rc, map
            )
        } else {
            format!(
                r#"{{"name":"path","module_folder_name":{},"use_luau_configuration":{},"sources":{}}}"#,
                serde_json::to_string(self.mfn).unwrap(),
                self.use_rc,
                map
            )
        }
    }
    fn mode(&self) -> RequireMode {
        serde_json::from_str(&self.json()).expect("require mode json")
    }
    fn project(&self) -> Option<&Path> {
        self.project.map(Path::new)
    }
}

struct Layout {
    id: &'static str,
    optional: Vec<&'static str>,
    base: Vec<&'static str>,
    /// (directory, aliases) of a `.luaurc`
    rc: Vec<(&'static str, Vec<(&'static str, &'static str)>)>,
}

fn h(s: &str) -> String {
    if s.is_empty() {
        "-".to_owned()
    } else {
        hex(s.as_bytes())
    }
}

fn hp(p: &Path) -> String {
    h(p.to_str().expect("utf-8 path"))
}

fn pairs(list: &[(&str, &str)]) -> String {
    if list.is_empty() {
        "-".to_owned()
    } else {
        list.iter()
            .map(|(k, v)| format!("{}={}", h(k), h(v)))
            .collect::<Vec<_>>()
            .join(",")
    }
}

fn classify(err: &str) -> String {
    if err.contains("unknown source name") {
        "!unk".to_owned()
    } else if err.contains("path is empty") {
        "!empty".to_owned()
    } else if err.starts_with("unable to find") {
        "!nf".to_owned()
    } else {
        format!("!err{}", hex(err.as_bytes()))
    }
}

fn resources_for(layout: &Layout, mask: usize) -> Resources {
    hooks::c15::clear_luau_configuration_cache();
    let resources = Resources::from_memory();
    for (i, file) in layout.optional.iter().enumerate() {
        if mask >> i & 1 == 1 {
            resources.write(file, &format!("return {:?}", file)).unwrap();
        }
    }
    for file in &layout.base {
        resources.write(file, &format!("return {:?}", file)).unwrap();
    }
    for (dir, aliases) in &layout.rc {
        let map: BTreeMap<&str, &str> = aliases.iter().cloned().collect();
        // a .luaurc without aliases: no `aliases` key at all, or an empty map (deeper directories)
        let content = if aliases.is_empty() && !dir.contains("deep") {
            r#"{"languageMode":"strict"}"#.to_owned()
        } else {
            format!(r#"{{"aliases":{}}}"#, serde_json::to_string(&map).unwrap())
        };
        resources
            .write(Path::new(dir).join(".luaurc"), &content)
            .unwrap();
    }
    resources
}

fn find(cfg: &Cfg, mode: &RequireMode, src: &str, literal: &str, resources: &Resources) -> Result<PathBuf, String> {
    let result = std::panic::catch_unwind(std::panic::AssertUnwindSafe(|| {
        hooks::c15::find_require(mode, cfg.project(), Path::new(src), literal, resources)
    }));
    match result {
        Ok(Ok(Some(path))) => Ok(path),
        Ok(Ok(None)) => Err("!none".to_owned()),
        Ok(Err(err)) => Err(classify(&err)),
        Err(_) => Err("!panic".to_owned()),
    }
}

fn generate(
    target: &Cfg,
    target_mode: &RequireMode,
    current_mode: &RequireMode,
    src: &str,
    required: &Path,
    resources: &Resources,
) -> Result<String, String> {
    let result = std::panic::catch_unwind(std::panic::AssertUnwindSafe(|| {
        hooks::c15::generate_require(
            target_mode,
            current_mode,
            target.project(),
            Path::new(src),
            required,
            resources,
        )
    }));
    match result {
        Ok(Ok(Some(bytes))) => String::from_utf8(bytes).map_err(|_| "!utf8".to_owned()),
        Ok(Ok(None)) => Err("!none".to_owned()),
        Ok(Err(err)) => Err(format!("!err{}", hex(err.as_bytes()))),
        Err(_) => Err("!panic".to_owned()),
    }
}

fn res_path(r: &Result<PathBuf, String>) -> String {
    match r {
        Ok(p) => hp(p),
        Err(e) => e.clone(),
    }
}

fn run_resolution(cfg: &Cfg, layout: &Layout, src: &str, literal: &str) {
    let mode = cfg.mode();
    let mut line = format!("R {} {} {} {}", cfg.id, layout.id, h(src), h(literal));
    for mask in 0..(1usize << layout.optional.len()) {
        let resources = resources_for(layout, mask);
        let result = find(cfg, &mode, src, literal, &resources);
        line.push(' ');
        line.push_str(&res_path(&result));
    }
    println!("{}", line);
}

/// The `.luaurc` lookup cache lives for a whole run: a require resolved after other files of the same run were
/// processed (warm cache, either order) must give what it gives first thing in a run (cold cache).
fn run_warm(cfg: &Cfg, layout: &Layout, srcs: &[&str], src: &str, literal: &str) {
    let mode = cfg.mode();
    let full = (1usize << layout.optional.len()) - 1;
    for mask in [full, full & 0x55, full & 0xAA] {
        let resources = resources_for(layout, mask);
        let cold = find(cfg, &mode, src, literal, &resources);
        let mut warm = Vec::new();
        for reversed in [false, true] {
            let resources = resources_for(layout, mask);
            let mut others: Vec<&str> = srcs.iter().cloned().filter(|o| *o != src).collect();
            if reversed {
                others.reverse();
            }
            for other in others {
                let _ = find(cfg, &mode, other, literal, &resources);
            }
            warm.push(res_path(&find(cfg, &mode, src, literal, &resources)));
        }
        println!(
            "W {} {} {} {} {} {} {} {}",
            cfg.id,
            layout.id,
            h(src),
            h(literal),
            mask,
            res_path(&cold),
            warm[0],
            warm[1]
        );
    }
}

fn convert_one(
    current: &Cfg,
    current_mode: &RequireMode,
    target: &Cfg,
    target_mode: &RequireMode,
    src: &str,
    literal: &str,
    resources: &Resources,
) -> (Result<PathBuf, String>, Option<Result<String, String>>, Option<Result<PathBuf, String>>) {
    let found = find(current, current_mode, src, literal, resources);
    let generated = found
        .as_ref()
        .ok()
        .map(|f| generate(target, target_mode, current_mode, src, f, resources));
    let refound = generated
        .as_ref()
        .and_then(|g| g.as_ref().ok())
        .map(|g| find(target, target_mode, src, g, resources));
    (found, generated, refound)
}

fn run_conversion(current: &Cfg, target: &Cfg, layout: &Layout, src: &str, literal: &str) {
    let current_mode = current.mode();
    let target_mode = target.mode();
    let mut line = format!(
        "V {} {} {} {} {}",
        current.id,
        target.id,
        layout.id,
        h(src),
        h(literal)
    );
    for mask in 0..(1usize << layout.optional.len()) {
        let resources = resources_for(layout, mask);
        let (found, generated, refound) =
            convert_one(current, &current_mode, target, &target_mode, src, literal, &resources);
        line.push(' ');
        line.push_str(&res_path(&found));
        line.push(';');
        line.push_str(&match &generated {
            None => "~".to_owned(),
            Some(Ok(s)) => h(s),
            Some(Err(e)) => e.clone(),
        });
        line.push(';');
        line.push_str(&match &refound {
            None => "~".to_owned(),
            Some(r) => res_path(r),
        });
    }
    println!("{}", line);
}

// ---- end-to-end: the rule itself, and the rule through `darklua_core::process`

fn first_require_literal(block: &Block) -> Option<String> {
    fn from_expression(expression: &Expression) -> Option<String> {
        if let Expression::Call(call) = expression {
            if let Prefix::Identifier(identifier) = call.get_prefix() {
                if identifier.get_name() == "require" {
                    return match call.get_arguments() {
                        Arguments::String(string) => string.get_string_value().map(str::to_owned),
                        Arguments::Tuple(tuple) => match tuple.iter_values().next() {
                            Some(Expression::String(string)) => {
                                string.get_string_value().map(str::to_owned)
                            }
                            _ => None,
                        },
                        _ => None,
                    };
                }
            }
        }
        None
    }
    for statement in block.iter_statements() {
        if let Statement::LocalAssign(assign) = statement {
            for value in assign.iter_values() {
                if let Some(found) = from_expression(value) {
                    return Some(found);
                }
            }
        }
    }
    if let Some(LastStatement::Return(ret)) = block.get_last_statement() {
        for value in ret.iter_expressions() {
            if let Some(found) = from_expression(value) {
                return Some(found);
            }
        }
    }
    None
}

fn lua_quote(s: &str) -> String {
    let mut out = String::from("\"");
    for c in s.chars() {
        match c {
            '"' => out.push_str("\\\""),
            '\\' => out.push_str("\\\\"),
            '\n' => out.push_str("\\n"),
            c => out.push(c),
        }
    }
    out.push('"');
    out
}

fn rule_json(current: &Cfg, target: &Cfg) -> String {
    format!(
        r#"{{"rule":"convert_require","current":{},"target":{}}}"#,
        current.json(),
        target.json()
    )
}

fn run_e2e(current: &Cfg, target: &Cfg, layout: &Layout, mask: usize, src: &str, literal: &str) {
    let code = format!("local m = require({})\nreturn m\n", lua_quote(literal));
    // (1) hooks
    let resources = resources_for(layout, mask);
    resources.write(src, &code).unwrap();
    let current_mode = current.mode();
    let target_mode = target.mode();
    let (_, generated, _) =
        convert_one(current, &current_mode, target, &target_mode, src, literal, &resources);
    let by_hook = match generated {
        Some(Ok(s)) => s,
        _ => literal.to_owned(),
    };
    // (2) the rule object built from its JSON configuration, applied to the parsed block
    let by_rule = {
        let resources = resources_for(layout, mask);
        resources.write(src, &code).unwrap();
        let rule: Box<dyn Rule> = json5::from_str(&rule_json(current, target)).expect("rule json");
        let mut block = Parser::default().parse(&code).expect("parse");
        let mut builder = ContextBuilder::new(Path::new(src), &resources, &code);
        if let Some(project) = current.project() {
            builder = builder.with_project_location(project);
        }
        let context = builder.build();
        match rule.process(&mut block, &context) {
            Ok(()) => first_require_literal(&block).map(|s| h(&s)).unwrap_or("!lost".to_owned()),
            Err(err) => format!("!err{}", hex(err.as_bytes())),
        }
    };
    // (3) the front door: configuration file discovered in the working directory, or given with
    //     `with_configuration_at` when the configuration location is another directory
    let by_process = if current.project.is_some() && current.project == target.project {
        let resources = resources_for(layout, mask);
        resources.write(src, &code).unwrap();
        let config = format!(r#"{{"rules":[{}]}}"#, rule_json(current, target));
        match run_process(&resources, current.project.unwrap(), &config, src) {
            Ok(output) => match Parser::default().parse(&output) {
                Ok(block) => first_require_literal(&block)
                    .map(|s| h(&s))
                    .unwrap_or("!lost".to_owned()),
                Err(_) => "!unparsable".to_owned(),
            },
            Err(e) => e,
        }
    } else {
        "~".to_owned()
    };
    println!(
        "E {} {} {} {} {} {} {} {} {}",
        current.id,
        target.id,
        layout.id,
        mask,
        h(src),
        h(literal),
        h(&by_hook),
        by_rule,
        by_process
    );
}

/// `darklua_core::process` of `src` into `out.lua` with the configuration file in `location`
fn run_process(resources: &Resources, location: &str, config: &str, src: &str) -> Result<String, String> {
    let options = if location.is_empty() {
        resources.write(".darklua.json", config).unwrap();
        Options::new(src).with_output("out.lua")
    } else {
        let config_path = Path::new(location).join(".darklua.json");
        resources.write(&config_path, config).unwrap();
        Options::new(src)
            .with_output("out.lua")
            .with_configuration_at(config_path)
    };
    let result = std::panic::catch_unwind(std::panic::AssertUnwindSafe(|| {
        match darklua_core::process(resources, options) {
            Ok(tree) => match tree.result() {
                Ok(()) => resources.get("out.lua").map_err(|_| "!nooutput".to_owned()),
                Err(_) => Err("!processerr".to_owned()),
            },
            Err(_) => Err("!processerr".to_owned()),
        }
    }));
    result.unwrap_or(Err("!panic".to_owned()))
}

/// bundling through the front door: which files' marker strings end up in the bundle
fn run_bundle(cfg: &Cfg, layout: &Layout, mask: usize, src: &str, literal: &str) {
    let code = format!("local m = require({})\nreturn m\n", lua_quote(literal));
    let resources = resources_for(layout, mask);
    resources.write(src, &code).unwrap();
    let mode = cfg.mode();
    let by_hook = res_path(&find(cfg, &mode, src, literal, &resources));
    let resources = resources_for(layout, mask);
    resources.write(src, &code).unwrap();
    let config = format!(r#"{{"rules":[],"bundle":{{"require_mode":{}}}}}"#, cfg.json());
    let bundled = match run_process(&resources, cfg.project.unwrap_or(""), &config, src) {
        Ok(output) => {
            let markers: Vec<String> = layout
                .optional
                .iter()
                .chain(layout.base.iter())
                .filter(|f| output.contains(&format!("{:?}", f)) || output.contains(&format!("'{}'", f)))
                .map(|f| h(f))
                .collect();
            if markers.is_empty() {
                "-".to_owned()
            } else {
                markers.join(",")
            }
        }
        Err(e) => e,
    };
    println!(
        "D {} {} {} {} {} {} {}",
        cfg.id,
        layout.id,
        mask,
        h(src),
        h(literal),
        by_hook,
        bundled
    );
}

/// A bundle of an entry and two modules in DIFFERENT folders that write the SAME require spelling:
/// each module must inline the file the locator resolves from THAT module.
fn run_multi_bundle(cfg: &Cfg, kind: &str, order: usize, spelling: &str) {
    hooks::c15::clear_luau_configuration_cache();
    let resources = Resources::from_memory();
    let targets = ["util.lua", "a/util.lua", "c/util.lua", "c/b/util.lua", "x.lua", "c/x.lua", "a/x.lua", "c/b/x.lua", "util/init.lua"];
    for t in targets {
        resources.write(t, &format!("return {:?}", t)).unwrap();
    }
    let folder_file = if cfg.luau { "init" } else { cfg.mfn };
    let (folder_a, folder_b) = (format!("a/{}.lua", folder_file), format!("c/b/{}.lua", folder_file));
    let (mod_a, req_a, mod_b, req_b) = match kind {
        "files" => ("a/mod.lua", "./a/mod", "c/b/mod.lua", "./c/b/mod"),
        "folders" => (folder_a.as_str(), "./a", folder_b.as_str(), "./c/b"),
        _ => ("a/mod.lua", "./a/mod", folder_b.as_str(), "./c/b"),
    };
    for m in [mod_a, mod_b] {
        resources
            .write(m, &format!("return {{ {:?}, require({}) }}\n", m, lua_quote(spelling)))
            .unwrap();
    }
    let (first, second) = if order == 0 { (req_a, req_b) } else { (req_b, req_a) };
    let entry = format!(
        "local one = require({})\nlocal two = require({})\nreturn {{ one, two }}\n",
        lua_quote(first),
        lua_quote(second)
    );
    resources.write("main.lua", &entry).unwrap();
    let mode = cfg.mode();
    // what the locator says, module by module
    let mut expected: Vec<String> = Vec::new();
    let mut failed = false;
    let mut own: Vec<String> = Vec::new();
    for m in [mod_a, mod_b] {
        expected.push(h(m));
        match find(cfg, &mode, m, spelling, &resources) {
            Ok(p) => {
                let normalized = hooks::normalize_path(&p);
                own.push(hp(&normalized));
                expected.push(hp(&normalized));
            }
            Err(_) => failed = true,
        }
    }
    let config = format!(r#"{{"rules":[],"bundle":{{"require_mode":{}}}}}"#, cfg.json());
    let got = match run_process(&resources, "", &config, "main.lua") {
        Ok(output) => {
            let mut markers: Vec<String> = targets
                .iter()
                .map(|f| f.to_string())
                .chain([mod_a.to_string(), mod_b.to_string()])
                .filter(|f| output.contains(&format!("{:?}", f)))
                .map(|f| h(&f))
                .collect();
            markers.sort();
            if markers.is_empty() { "-".to_owned() } else { markers.join(",") }
        }
        Err(e) => e,
    };
    expected.sort();
    expected.dedup();
    println!(
        "M {} {} {} {} {} {} {}",
        cfg.id,
        kind,
        order,
        h(spelling),
        if failed { "!err".to_owned() } else { expected.join(",") },
        if own.len() == 2 && own[0] != own[1] { "distinct" } else { "same" },
        got
    );
}

// ---- the enumeration

fn cfgs() -> Vec<Cfg> {
    let c = |id, luau, mfn, project, sources: &[(&'static str, &'static str)], use_rc| Cfg {
        id,
        luau,
        mfn,
        project,
        sources: sources.to_vec(),
        use_rc,
    };
    vec![
        c("P0", false, "init", None, &[], false),
        c("P1", false, "index", None, &[], false),
        c("P2", false, "init.luau", None, &[], false),
        c("P3", false, "init", Some(""), &[("pkg", "pkg"), ("@deep", "pkg/b"), ("up", "../lib"), ("vendor", "lib")], false),
        c("P4", false, "init", Some("."), &[("pkg", "./pkg")], false),
        c("P5", false, "init", Some("/project"), &[("pkg", "pkg"), ("abs", "/abs")], false),
        c("P6", false, "init", Some(""), &[("pkg", "pkg"), ("@pkg", "lib")], true),
        c("P7", false, "init", Some(""), &[], false),
        c("P8", false, "init", Some(""), &[("@pkg", "./pkg")], false),
        c("U0", true, "init", None, &[], false),
        c("U3", true, "init", Some(""), &[("@pkg", "pkg"), ("@deep", "pkg/b"), ("@up", "../lib"), ("vendor", "lib")], false),
        c("U4", true, "init", Some("."), &[("@pkg", "./pkg")], false),
        c("U5", true, "init", Some("/project"), &[("@pkg", "pkg"), ("@abs", "/abs")], false),
        c("U6", true, "init", Some(""), &[("@pkg", "pkg")], true),
        c("U7", true, "init", Some(""), &[], false),
        c("U8", true, "init", Some(""), &[("@pkg", "./pkg")], false),
        // sources / aliases whose value is a FILE (an ordinary file, a module-folder file, with and without
        // extension) next to directory-valued ones
        c("PF", false, "init", Some(""), &[("@value", "src/value/init.luau"), ("@valuex", "src/value/init"), ("@vdir", "src/value"),
                                          ("@b", "lib/b.lua"), ("@bx", "lib/b"), ("@lib", "lib")], false),
        c("UF", true, "init", Some(""), &[("@value", "src/value/init.luau"), ("@valuex", "src/value/init"), ("@vdir", "src/value"),
                                         ("@b", "lib/b.lua"), ("@bx", "lib/b"), ("@lib", "lib")], false),
        // the documented spelling with a leading `./`
        c("PG", false, "init", Some(""), &[("@value", "./src/value/init.luau"), ("@pkg", "./packages")], false),
        c("UG", true, "init", Some(""), &[("@value", "./src/value/init.luau"), ("@pkg", "./packages")], false),
        // a configured alias that an OUTER .luaurc also declares, behind a nearer alias-less .luaurc
        c("PQ", false, "init", Some(""), &[("@lib", "vendorB")], true),
        c("UQ", true, "init", Some(""), &[("@lib", "vendorB")], true),
        // the darklua configuration is in `project/` (an ancestor of the sources) ...
        c("P9", false, "init", Some("project"), &[("vendor", "vendor"), ("@cfg", "./packages")], true),
        c("U9", true, "init", Some("project"), &[("@vendor", "vendor"), ("@cfg", "./packages")], true),
        // ... or in the working directory, for the same files
        c("PA", false, "init", Some(""), &[("vendor", "project/vendor"), ("@cfg", "project/packages")], true),
        c("UA", true, "init", Some(""), &[("@vendor", "project/vendor"), ("@cfg", "project/packages")], true),
    ]
}

fn layouts() -> Vec<Layout> {
    let l = |id, optional: &[&'static str], base: &[&'static str]| Layout {
        id,
        optional: optional.to_vec(),
        base: base.to_vec(),
        rc: Vec::new(),
    };
    let mut list = vec![
        // every subset of the candidates of the stem `src/b`
        l("LA", &["src/b", "src/b.luau", "src/b.lua", "src/b/init", "src/b/init.luau", "src/b/init.lua"],
          &["src/a.lua", "src/init.lua", "main.lua", "init.luau", "src/sub/init.luau", "src/sub/c.lua"]),
        // custom module folder names
        l("LB", &["src/b.luau", "src/b.lua", "src/b/index", "src/b/index.luau", "src/b/index.lua", "src/b/init.lua", "src/b/init.luau"],
          &["src/a.lua", "src/index.lua", "src/init.lua", "main.lua"]),
        // nested folders, parents, files and directories of the same stem
        l("LC", &["b.lua", "b/init.lua", "lib/b.luau", "lib/b/init.luau", "src/sub/b.lua", "src/sub/b/init.lua", "src/b.lua"],
          &["src/a.lua", "src/init.lua", "main.lua", "init.luau", "src/sub/init.luau", "src/sub/c.lua"]),
        // alias targets
        l("LD", &["pkg/b.lua", "pkg/b.luau", "pkg/b/init.lua", "pkg/b/c.lua", "pkg.lua", "pkg/init.lua", "src/pkg/b.lua"],
          &["src/a.lua", "src/init.lua", "main.lua", "src/sub/init.luau", "src/sub/c.lua"]),
        // outside of the working directory, absolute paths, odd names
        l("LE", &["../x.lua", "../x/init.lua", "x.lua", "/abs/b.lua", "/abs/b.luau", "../lib/b.lua", "src/x.lua"],
          &["src/a.lua", "src/init.lua", "main.lua", "src/sub/c.lua", "../up/a.lua", "../up/sub/a.lua", "../up/sub/init.lua"]),
        // absolute project
        l("LF", &["/project/src/b.lua", "/project/src/b.luau", "/project/src/b/init.lua", "/project/b.lua", "/project/pkg/b.lua", "/abs/b.lua", "/b.lua"],
          &["/project/src/a.lua", "/project/src/init.lua", "/project/main.lua", "/main.lua", "/init.lua"]),
        // names with dots, extension-like stems, init-like stems
        l("LG", &["src/b.lua.lua", "src/b.lua.luau", "src/init.txt", "src/b.txt", "src/b.txt.lua", "src/.luau", "src/.luau.lua", "src/b."],
          &["src/a.lua", "src/init.lua", "main.lua"]),
    ];
    // names that begin with the module folder name but are not module-folder files
    // (init.spec.luau, init.server.luau, index.spec.lua) as requiring files and as targets
    list.push(l(
        "LH",
        &["src/pkg/helper.luau", "src/helper.luau", "src/shared.lua", "shared.lua", "src/pkg/init.config",
          "src/pkg/init.config.lua", "src/pkg/index.config.luau"],
        &["src/pkg/init.spec.luau", "src/pkg/init.server.luau", "src/pkg/init.luau", "src/pkg/index.spec.lua",
          "src/pkg/index.lua", "src/a.lua", "init.spec.luau"],
    ));
    // the nearest .luaurc wins even when it declares no aliases
    let mut nearest = l(
        "LQ",
        &["vendorA/x.lua", "vendorB/x.lua", "vendorB/x.luau", "src/vendorA/x.lua", "src/vendorB/x.lua"],
        &["src/main.luau", "src/init.luau", "src/deep/mod.lua", "tools/run.lua", "main.lua"],
    );
    nearest.rc = vec![
        ("", vec![("lib", "vendorA"), ("only", "vendorA")]),
        ("src", vec![]),
        ("src/deep", vec![]),
    ];
    list.push(nearest);
    // targets of file-valued sources
    list.push(l(
        "LV",
        &["src/value/init.luau", "src/value/init.lua", "src/value/init", "src/value.luau", "lib/b.lua", "lib/b.luau", "lib/b/init.lua"],
        &["src/a.lua", "src/init.lua", "main.lua", "src/value/helper.lua", "src/sub/init.luau", "packages/value.luau"],
    ));
    // a project in a sub-directory: `sources` are relative to the configuration location, .luaurc
    // aliases to the directory of their .luaurc (three of them, at different depths)
    let mut project = l(
        "LP",
        &["project/packages/lib.lua", "project/project/packages/lib.lua", "packages/lib.lua", "project/vendor/lib.lua",
          "vendor/lib.lua", "project/src/deep/local/lib.luau", "project/src/packages/lib.lua"],
        &["project/src/main.lua", "project/src/init.luau", "project/src/deep/mod.lua", "project/src/deep/init.lua", "tools/run.lua"],
    );
    project.rc = vec![
        ("project", vec![("pkg", "packages"), ("up", "../vendor")]),
        ("project/src/deep", vec![("pkg", "local"), ("here", ".")]),
        ("", vec![("pkg", "packages"), ("rootonly", "vendor")]),
    ];
    list.push(project);
    // .luaurc aliases
    let mut with_rc = l(
        "LR",
        &["pkg/b.lua", "pkg/b/init.luau", "src/vendor/b.lua", "src/vendor/b.luau", "src/pkg/b.lua", "rc/b.lua", "lib/b.lua"],
        &["src/a.lua", "src/init.lua", "main.lua", "src/sub/c.lua", "src/sub/init.luau"],
    );
    with_rc.rc = vec![
        ("", vec![("pkg", "rc"), ("root", ".")]),
        ("src/sub", vec![("pkg", "../vendor"), ("here", "./")]),
    ];
    list.push(with_rc);
    list
}

const COMMON: &[&str] = &[
    "./b", "./b.lua", "./b.luau", "./b/init", "./b/init.lua", "./b/init.luau", "./b/", "./b/.", "././b", ".//b",
    "./x/../b", "../src/b", "./sub/../b", "./b/../b", "../b", "../lib/b", "./sub/b", "../sub/b", "../../b", "b", "src/b", "./src/b",
    "@self/b", "@self", "@self/../b", "@self/sub/b", ".", "..", "./", "../", "", "./.", "./..", "../src",
    "./b.txt", "./b.lua.lua", "./b.", "./.luau", "./init", "./init.lua", "../init", "./sub", "./sub/init", "./c", "../c",
    "./b/index", "./b/index.lua", "./index", "@unknown/b", "unknown/b", "/abs/b", "/abs/b.lua", "/project/src/b",
    "pkg/b", "@pkg/b", "@pkg/b.lua", "@pkg/b/c", "@pkg", "pkg", "@deep", "@deep/c", "deep/c", "@pkg/../pkg/b", "@pkg/./b",
    "@up/b", "up/b", "@abs/b", "abs/b", "../../x", "../x", "../../../x", "./x", "../../lib/b", "@root/src/b", "@here/c", "@pkg/b/init",
    "./init.txt", "./b.txt.lua", "./.luau.lua", "../up/a", "./sub/a", "./a", "../a", "vendor/b", "../pkg/b", "./pkg/b", "/b", "../../../b",
];

const INIT_LIKE: &[&str] = &[
    "./helper", "../helper", "../shared", "./shared", "../../shared", "@self/helper", "@self/../helper", "./pkg/helper",
    "./pkg/init.config", "./pkg/init.config.lua", "./pkg/init.spec", "./pkg/init.spec.luau", "./pkg/init.server",
    "./pkg/init.server.luau", "./pkg/index.spec", "./pkg/index.spec.lua", "./pkg/index.config", "./pkg/index.config.luau",
    "./init.spec", "./init.spec.luau", "./init.config", "./init.config.lua", "./init.server.luau", "./index.spec", "./index.config",
    "./pkg", "../pkg/init.spec", "../pkg/init.config", ".", "./init", "./index",
];

const PROJECT: &[&str] = &[
    "@pkg/lib", "@pkg/lib.lua", "@pkg", "@up/lib", "@here/mod", "@rootonly/lib", "vendor/lib", "@vendor/lib", "@cfg/lib",
    "../packages/lib", "../../packages/lib", "./local/lib", "@unknown/lib", "../vendor/lib", "./main",
];

const NEAREST: &[&str] = &["@lib/x", "@lib/x.lua", "@only/x", "../vendorB/x", "../vendorA/x", "./vendorB/x", "@lib", "../../vendorB/x"];

const FILE_VALUED: &[&str] = &[
    "@value", "@valuex", "@vdir", "@vdir/init", "@vdir/init.luau", "./value", "./value/init", "./value/init.luau", "../value",
    "./init", "./init.luau", "@self/value", "@b", "@bx", "@lib/b", "@lib/b.lua", "../lib/b", "../lib/b.lua", "../../lib/b.lua",
    "@value/x", "@pkg/value", "./src/value", "./lib/b.lua",
];

fn lits_for(layout: &str, quick: bool) -> Vec<&'static str> {
    if layout == "LH" {
        return INIT_LIKE.to_vec();
    }
    if layout == "LP" {
        return PROJECT.to_vec();
    }
    if layout == "LV" {
        return FILE_VALUED.to_vec();
    }
    if layout == "LQ" {
        return NEAREST.to_vec();
    }
    if !quick {
        return COMMON.to_vec();
    }
    let pick: &[&str] = match layout {
        "LA" => &["./b", "./b.lua", "./b.luau", "./b/init", "./b/init.lua", "./b/init.luau", "./b/", "./b/.", "././b", ".//b",
                  "./x/../b", "../src/b", "./sub/../b", "../b", "b", "src/b", "./src/b", "@self/b", "@self", "@self/../b", ".", "..", "./", "",
                  "./b.txt", "./b.", "./init", "./init.lua", "../init", "./sub", "./c", "../c", "@unknown/b", "unknown/b", "./a", "../a"],
        "LB" => &["./b", "./b.lua", "./b/index", "./b/index.lua", "./b/init", "./b/init.luau", "./index", "../b", "@self/b", "."],
        "LC" => &["vendor/b", "up/b", "@up/b", "./b", "../b", "../lib/b", "./sub/b", "../sub/b", "../../b", "b", "src/b", "@self/b", "@self/sub/b", "@self/../b", "../src/b", "./sub/../b", "../../lib/b"],
        "LD" => &["pkg/b", "@pkg/b", "@pkg/b.lua", "@pkg/b/c", "@pkg", "pkg", "@deep", "@deep/c", "deep/c", "@pkg/../pkg/b", "@pkg/./b", "@pkg/b/init",
                  "../pkg/b", "./pkg/b", "@unknown/b", "@up/b"],
        "LE" => &["../../x", "../x", "../../../x", "./x", "/abs/b", "/abs/b.lua", "@abs/b", "abs/b", "@up/b", "up/b", "../../lib/b", "../up/a", "./sub/a", "./a", "../a"],
        "LF" => &["./b", "./b.lua", "../b", "../../b", "/project/src/b", "/abs/b", "@pkg/b", "pkg/b", "@abs/b", "@self/b", "../src/b", "../../../b", "/b"],
        "LG" => &["./b.lua.lua", "./b.lua", "./b.txt", "./b.txt.lua", "./b.", "./.luau", "./.luau.lua", "./init.txt", "./init", "./b", "."],
        "LH" => INIT_LIKE,
        "LP" => PROJECT,
        "LV" => FILE_VALUED,
        "LQ" => NEAREST,
        "LR" => &["@pkg/b", "pkg/b", "@root/src/a", "@root/pkg/b", "@here/c", "@unknown/b", "./b", "../pkg/b", "../lib/b"],
        _ => COMMON,
    };
    pick.to_vec()
}

fn srcs_for(layout: &str) -> Vec<&'static str> {
    match layout {
        "LA" | "LC" => vec!["src/a.lua", "src/init.lua", "main.lua", "init.luau", "src/sub/init.luau", "src/sub/c.lua"],
        "LB" => vec!["src/a.lua", "src/index.lua", "src/init.lua", "main.lua"],
        "LD" | "LR" => vec!["src/a.lua", "src/init.lua", "main.lua", "src/sub/c.lua", "src/sub/init.luau"],
        "LE" => vec!["src/a.lua", "src/init.lua", "main.lua", "src/sub/c.lua", "../up/a.lua", "../up/sub/a.lua", "../up/sub/init.lua"],
        "LH" => vec!["src/pkg/init.spec.luau", "src/pkg/init.server.luau", "src/pkg/init.luau", "src/pkg/index.spec.lua",
                     "src/pkg/index.lua", "src/a.lua", "init.spec.luau"],
        "LP" => vec!["project/src/main.lua", "project/src/init.luau", "project/src/deep/mod.lua", "project/src/deep/init.lua", "tools/run.lua"],
        "LV" => vec!["src/a.lua", "src/init.lua", "main.lua", "src/value/helper.lua", "src/sub/init.luau"],
        "LQ" => vec!["src/main.luau", "src/init.luau", "src/deep/mod.lua", "tools/run.lua", "main.lua"],
        "LF" => vec!["/project/src/a.lua", "/project/src/init.lua", "/project/main.lua", "/main.lua", "/init.lua"],
        _ => vec!["src/a.lua", "src/init.lua", "main.lua"],
    }
}

fn cfgs_for(layout: &str) -> Vec<&'static str> {
    match layout {
        "LA" => vec!["P0", "U0", "P7", "U7"],
        "LB" => vec!["P0", "P1", "P2", "U0"],
        "LC" => vec!["P0", "U0", "P3", "U3"],
        "LD" => vec!["P3", "P4", "U3", "U4", "P8", "U8"],
        "LE" => vec!["P0", "U0", "P3", "U3", "P5", "U5"],
        "LF" => vec!["P5", "U5", "P0", "U0"],
        "LG" => vec!["P0", "U0", "P2"],
        "LH" => vec!["P0", "U0", "P1"],
        "LP" => vec!["P9", "U9", "PA", "UA"],
        "LV" => vec!["PF", "UF", "PG", "UG"],
        "LQ" => vec!["PQ", "UQ"],
        "LR" => vec!["P6", "U6", "P3", "U3"],
        _ => vec![],
    }
}

/// conversion pairs: path <-> luau with the same alias map
fn pairs_for(layout: &str) -> Vec<(&'static str, &'static str)> {
    match layout {
        "LA" => vec![("P0", "U0"), ("U0", "P0"), ("P7", "U7"), ("U7", "P7")],
        "LB" => vec![("P1", "U0"), ("U0", "P1"), ("P2", "U0"), ("U0", "P2"), ("P0", "U0")],
        "LC" => vec![("P0", "U0"), ("U0", "P0"), ("P3", "U3"), ("U3", "P3")],
        "LD" => vec![("P3", "U3"), ("U3", "P3"), ("P4", "U4"), ("U4", "P4"), ("P8", "U8"), ("U8", "P8")],
        "LE" => vec![("P0", "U0"), ("U0", "P0"), ("P3", "U3"), ("U3", "P3")],
        "LF" => vec![("P5", "U5"), ("U5", "P5"), ("P0", "U0"), ("U0", "P0")],
        "LG" => vec![("P0", "U0"), ("U0", "P0")],
        "LH" => vec![("P0", "U0"), ("U0", "P0"), ("P1", "U0"), ("U0", "P1")],
        "LP" => vec![("P9", "U9"), ("U9", "P9"), ("PA", "UA"), ("UA", "PA")],
        "LV" => vec![("PF", "UF"), ("UF", "PF"), ("PG", "UG"), ("UG", "PG"), ("PF", "PF"), ("UF", "UF")],
        "LQ" => vec![("PQ", "UQ"), ("UQ", "PQ")],
        "LR" => vec![("P6", "U6"), ("U6", "P6")],
        _ => vec![],
    }
}

fn print_candidates() {
    let paths = [
        "hello", "hello.lua", "hello.luau", "hello.global", ".luau", ".lua", "..", ".", "", "/", "a/b", "a/b.lua", "a/..", "./a", "../a",
        "/a", "a.", "a.lua.txt", "a.b.luau", "a/.hidden", "a/b.Lua", "x/init", "./", "a//b/", "/..", "a/./b",
    ];
    let names = ["init", "index", "init.luau", "test.lua", "a/b", "a.b/c", "", ".", "..", ".hidden", "init.", "x.y.z", "/abs"];
    for path in paths {
        for name in names {
            let list = hooks::c15::find_require_paths(Path::new(path), name);
            let mut line = format!("I {} {}", h(path), h(name));
            for p in list {
                line.push(' ');
                line.push_str(&hp(&p));
            }
            println!("{}", line);
        }
    }
}

const NORMALIZE_INPUTS: &[&str] = &[
    "", ".", "..", "/", "a", "./a", "../a", "a/..", "a/../..", "a/../../b", "./..", "./../a", "../..", "../../a", "/..", "/../a", "/a/..", "/a/../..",
    "/a/../../b", "a/./b", "a//b", "a/b/", "a/b/.", "./.", "././a", "./a/..", "./a/../..", "./a/../../b", "a/b/../c", "a/b/../../c", "a/b/../../../c",
    "../a/..", "../a/../..", "/./a", "/.", "//a", "a/../b/../c", "./a/./b/./..", "..//a", ".a", "..a", "a/...", ".../a", "src/../../x", "src/sub/../../x",
];

fn print_normalize() {
    for input in NORMALIZE_INPUTS {
        let p = Path::new(input);
        println!(
            "N {} {} {}",
            h(input),
            hp(&hooks::normalize_path(p)),
            hp(&hooks::normalize_path_with_current_dir(p))
        );
    }
}

fn print_relative() {
    let paths = [
        "a", "a/b", "a/b/c.lua", "b.lua", "src/b.lua", "src/sub/b.lua", "lib/b.lua", "/abs/b.lua", "/project/src/b.lua", "../x.lua", "../lib/b.lua",
        ".", "..", "", "/", "src", "src/a.lua", "./a", "./src/b.lua", "/project", "x/y/z/w.lua",
    ];
    for require in paths {
        for source in paths {
            let relative = match hooks::c15::get_relative_path(Path::new(require), Path::new(source), true) {
                Ok(Some(p)) => hp(&p),
                Ok(None) => "!none".to_owned(),
                Err(e) => format!("!err{}", hex(e.as_bytes())),
            };
            let written = match hooks::c15::write_require_path(Path::new(require)) {
                Ok(s) => h(&s),
                Err(e) => format!("!err{}", hex(e.as_bytes())),
            };
            println!("G {} {} {} {}", h(require), h(source), relative, written);
        }
    }
}

fn main() {
    let args: Vec<String> = std::env::args().skip(1).collect();
    let sub = args.first().map(String::as_str).unwrap_or("");
    let quick = arg_value(&args, "--tier").as_deref() != Some("thorough");
    std::panic::set_hook(Box::new(|_| {}));
    let cfgs = cfgs();
    let layouts = layouts();
    let cfg = |id: &str| cfgs.iter().find(|c| c.id == id).expect("cfg").clone();
    match sub {
        "cases" => {
            for c in &cfgs {
                println!(
                    "C {} {} {} {} {} {}",
                    c.id,
                    if c.luau { "luau" } else { "path" },
                    h(c.mfn),
                    c.project.map(h).unwrap_or("~".to_owned()),
                    pairs(&c.sources),
                    if c.use_rc { "rc" } else { "norc" }
                );
            }
            for l in &layouts {
                let mut line = format!("L {} {}", l.id, l.optional.len());
                for f in l.optional.iter().chain(l.base.iter()) {
                    line.push(' ');
                    line.push_str(&h(f));
                }
                println!("{}", line);
                for (dir, aliases) in &l.rc {
                    println!("K {} {} {}", l.id, h(dir), pairs(aliases));
                }
            }
            for id in ["P7", "U7", "P1"] {
                let c = cfg(id);
                for kind in ["files", "folders", "mixed"] {
                    for order in [0, 1] {
                        for spelling in ["./util", "../x", "@self/util", "./util.lua", "../util", "./x"] {
                            run_multi_bundle(&c, kind, order, spelling);
                        }
                    }
                }
            }
            print_candidates();
            print_normalize();
            print_relative();
            for l in &layouts {
                let lits = lits_for(l.id, quick);
                let srcs = srcs_for(l.id);
                let cfg_ids: Vec<&str> = if quick {
                    cfgs_for(l.id)
                } else {
                    cfgs.iter().map(|c| c.id).collect()
                };
                for id in &cfg_ids {
                    let c = cfg(id);
                    for src in &srcs {
                        for lit in &lits {
                            run_resolution(&c, l, src, lit);
                        }
                    }
                }
                if !l.rc.is_empty() {
                    for id in &cfg_ids {
                        let c = cfg(id);
                        if !c.use_rc {
                            continue;
                        }
                        for src in &srcs {
                            for lit in &lits {
                                if lit.starts_with('@') {
                                    run_warm(&c, l, &srcs, src, lit);
                                }
                            }
                        }
                    }
                }
                let mut pairs = pairs_for(l.id);
                if !quick {
                    for (a, b) in [("P0", "U0"), ("U0", "P0"), ("P3", "U3"), ("U3", "P3"), ("P4", "U4"), ("U4", "P4"), ("P1", "U0"), ("U0", "P1")] {
                        if !pairs.contains(&(a, b)) {
                            pairs.push((a, b));
                        }
                    }
                }
                for (a, b) in &pairs {
                    let (ca, cb) = (cfg(a), cfg(b));
                    for src in &srcs {
                        for lit in &lits {
                            run_conversion(&ca, &cb, l, src, lit);
                        }
                    }
                }
                if l.id == "LP" || l.id == "LQ" {
                    let full = (1usize << l.optional.len()) - 1;
                    for id in cfgs_for(l.id) {
                        let c = cfg(id);
                        for src in &srcs {
                            for lit in &lits {
                                for mask in [full, 1, 2, 4, 8, 32, 0] {
                                    run_bundle(&c, l, mask, src, lit);
                                }
                            }
                        }
                    }
                }
                // the rule object and the front door on a thin slice
                let full = (1usize << l.optional.len()) - 1;
                for (a, b) in &pairs_for(l.id) {
                    let (ca, cb) = (cfg(a), cfg(b));
                    for src in &srcs {
                        for lit in &lits_for(l.id, true) {
                            for mask in [full, 5] {
                                if l.base.contains(src) {
                                    run_e2e(&ca, &cb, l, mask & full, src, lit);
                                }
                            }
                        }
                    }
                }
            }
        }
        "one" => {
            // dl-c15 one <cur> <tgt> <src> <literal> <file>...   (a file named .luaurc gets `{"aliases":{"pkg":"rc","root":"."}}`)
            let (ca, cb) = (cfg(&args[1]), cfg(&args[2]));
            let resources = Resources::from_memory();
            hooks::c15::clear_luau_configuration_cache();
            for f in &args[5..] {
                if f.ends_with(".luaurc") {
                    resources.write(f, r#"{"aliases":{"pkg":"rc","root":"."}}"#).unwrap();
                } else {
                    resources.write(f, "return nil").unwrap();
                }
            }
            let (f, g, r) = convert_one(&ca, &ca.mode(), &cb, &cb.mode(), &args[3], &args[4], &resources);
            println!("found={:?}\ngenerated={:?}\nrefound={:?}", f, g, r);
        }
        _ => {
            eprintln!("dl-c15: unknown subcommand {:?}", sub);
            std::process::exit(2);
        }
    }
}
