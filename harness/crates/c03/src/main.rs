//! C03 / C04: the token-based (retain_lines) generator.
//!
//! `dl-c03 run`  reads one JSON object per line on stdin
//!        {"id": n, "config": "<json5 configuration text>", "src": "<lua source>", "trace": bool}
//!    runs `darklua_core::process` on memory resources (`src/main.lua`, `.darklua.json`) and prints
//!        {"id": n, "ok": true, "out": "<generated text>", "trace": [event...]}
//!        {"id": n, "ok": false, "err": "<message>", "panic": bool}
//!    With "inplace": true there is no output path: the file is processed in place and the answer carries
//!    "after", the content of `src/main.lua` afterwards (also when darklua reports an error).
//!    With "trace": true the write requests received by the token-based generator during that
//!    very run are recorded through `verif_hooks::token_trace`:
//!        {"t":"tok","p":POS,"l":[[is_comment,POS]...],"r":[[is_comment,POS]...],"sc":bool}
//!        {"t":"sym","c":"<hex>","sc":bool}      {"t":"raw","c":"<hex>"}
//!        POS = [0,start,end,line] | [1,"<hex content>",line] | [2,"<hex content>"]
//!
//! `dl-c03 sbws` prints the 128x128 table of `should_break_with_space` as 128 lines of 0/1.

use std::io::{BufRead, Write};
use std::panic::{catch_unwind, AssertUnwindSafe};

use darklua_core::verif_hooks::token_trace::{self, Event, Pos, TracedTrivia};
use darklua_core::{Options, Resources};
use hutil::hex;
use serde_json::{json, Value};

/// in place: no output path, the processed text replaces `src/main.lua`; returns (result, content of the file afterwards)
fn run_in_place(config: &str, src: &str) -> (Result<(), String>, Option<String>) {
    let resources = Resources::from_memory();
    if resources.write("src/main.lua", src).is_err() || resources.write(".darklua.json", config).is_err() {
        return (Err("write".to_owned()), None);
    }
    let options = Options::new("src/main.lua").with_configuration_at(".darklua.json");
    let result = darklua_core::process(&resources, options)
        .map_err(|e| e.to_string())
        .and_then(|tree| {
            tree.result().map_err(|errors| {
                errors
                    .iter()
                    .map(|e| e.to_string())
                    .collect::<Vec<_>>()
                    .join(" | ")
            })
        });
    (result, resources.get("src/main.lua").ok())
}

fn run_one(config: &str, src: &str) -> Result<String, String> {
    let resources = Resources::from_memory();
    resources
        .write("src/main.lua", src)
        .map_err(|e| format!("write: {:?}", e))?;
    resources
        .write(".darklua.json", config)
        .map_err(|e| format!("write: {:?}", e))?;
    let options = Options::new("src/main.lua")
        .with_configuration_at(".darklua.json")
        .with_output("out/main.lua");
    let tree = darklua_core::process(&resources, options).map_err(|e| e.to_string())?;
    tree.result().map_err(|errors| {
        errors
            .iter()
            .map(|e| e.to_string())
            .collect::<Vec<_>>()
            .join(" | ")
    })?;
    resources
        .get("out/main.lua")
        .map_err(|e| format!("no output: {:?}", e))
}

fn pos_json(position: &Pos) -> Value {
    match position {
        Pos::Ref { start, end, line } => json!([0, start, end, line]),
        Pos::Owned { content, line } => json!([1, hex(content.as_bytes()), line]),
        Pos::Any { content } => json!([2, hex(content.as_bytes())]),
    }
}

fn trivia_json(trivia: &[TracedTrivia]) -> Value {
    Value::Array(
        trivia
            .iter()
            .map(|t| json!([t.is_comment, pos_json(&t.position)]))
            .collect(),
    )
}

fn event_json(event: &Event) -> Value {
    match event {
        Event::Token {
            position,
            leading,
            trailing,
            space_check,
        } => json!({"t": "tok", "p": pos_json(position), "l": trivia_json(leading),
                    "r": trivia_json(trailing), "sc": space_check}),
        Event::Symbol {
            content,
            space_check,
        } => json!({"t": "sym", "c": hex(content.as_bytes()), "sc": space_check}),
        Event::Raw { content } => json!({"t": "raw", "c": hex(content.as_bytes())}),
    }
}

fn main() {
    let args: Vec<String> = std::env::args().skip(1).collect();
    let sub = args.first().map(String::as_str).unwrap_or("");
    std::panic::set_hook(Box::new(|_| {}));
    let stdin = std::io::stdin();
    let stdout = std::io::stdout();
    let mut out = stdout.lock();
    match sub {
        "run" => {
            for line in stdin.lock().lines() {
                let line = line.expect("stdin");
                if line.trim().is_empty() {
                    continue;
                }
                let case: Value = serde_json::from_str(&line).expect("case json");
                let id = case["id"].clone();
                let config = case["config"].as_str().unwrap_or("{}").to_owned();
                let src = case["src"].as_str().unwrap_or("").to_owned();
                let trace = case["trace"].as_bool().unwrap_or(false);
                if case["inplace"].as_bool().unwrap_or(false) {
                    // {"inplace": true}: process the file in place and report its content afterwards
                    let result = catch_unwind(AssertUnwindSafe(|| run_in_place(&config, &src)));
                    let answer = match result {
                        Ok((Ok(()), after)) => json!({"id": id, "ok": true, "out": after.clone(), "after": after}),
                        Ok((Err(err), after)) => json!({"id": id, "ok": false, "err": err, "panic": false, "after": after}),
                        Err(_) => json!({"id": id, "ok": false, "err": "panic", "panic": true}),
                    };
                    writeln!(out, "{}", answer).unwrap();
                    continue;
                }
                if trace {
                    token_trace::start();
                }
                let result = catch_unwind(AssertUnwindSafe(|| run_one(&config, &src)));
                let events = token_trace::take();
                let answer = match result {
                    Ok(Ok(text)) => {
                        if trace {
                            json!({"id": id, "ok": true, "out": text,
                                   "trace": events.iter().map(event_json).collect::<Vec<_>>()})
                        } else {
                            json!({"id": id, "ok": true, "out": text})
                        }
                    }
                    Ok(Err(err)) => json!({"id": id, "ok": false, "err": err, "panic": false}),
                    Err(_) => json!({"id": id, "ok": false, "err": "panic", "panic": true}),
                };
                writeln!(out, "{}", answer).unwrap();
            }
        }
        "sbws" => {
            for a in 0u8..128 {
                let row: String = (0u8..128)
                    .map(|b| {
                        if darklua_core::verif_hooks::generator_utils::should_break_with_space(
                            a as char, b as char,
                        ) {
                            '1'
                        } else {
                            '0'
                        }
                    })
                    .collect();
                writeln!(out, "{}", row).unwrap();
            }
        }
        _ => {
            eprintln!("dl-c03: unknown subcommand {:?}", sub);
            std::process::exit(2);
        }
    }
}
