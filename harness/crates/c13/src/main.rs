//! C13: string / number literal writers and readers.
//!
//! `c13 strings --seed S --n N [--exhaustive2]` prints one case per line:
//!   `<hex input bytes> <hex write_string output> <hex darklua-read-back or "ERR">`

use hutil::{arg_u64, hex, Rng};
use darklua_core::nodes::{BinaryNumber, DecimalNumber, HexNumber, NumberExpression, StringExpression};
use darklua_core::verif_hooks::generator_utils::write_number;
use darklua_core::verif_hooks::generator_utils::write_string;
use darklua_core::verif_hooks::generator_utils::write_interpolated_string_segment;
use darklua_core::nodes::{Expression, InterpolatedStringExpression, InterpolationSegment, ReturnStatement, StringSegment, Block};
use darklua_core::generator::{DenseLuaGenerator, LuaGenerator, ReadableLuaGenerator, TokenBasedLuaGenerator};
use darklua_core::nodes::{IndexExpression, Prefix, TableExpression, TableIndexEntry};
use darklua_core::Parser;

fn emit(value: &[u8]) {
    let written = write_string(value);
    let back = match StringExpression::new(&written) {
        Ok(expr) => hex(expr.get_value()),
        Err(_) => "ERR".to_owned(),
    };
    println!("{} {} {}", hex(value), hex(written.as_bytes()), back);
}

fn number_to_coq(number: &NumberExpression) -> String {
    match number {
        NumberExpression::Decimal(d) => format!(
            "(NDec {} {})",
            d.compute_value().to_bits(),
            match (d.get_exponent(), d.is_uppercase()) {
                (Some(e), Some(u)) => format!("(Some (({})%Z, {}))", e, u),
                _ => "None".to_owned(),
            }
        ),
        NumberExpression::Hex(h) => format!(
            "(NHex {} {} {})",
            h.get_raw_integer(),
            h.is_x_uppercase(),
            match (h.get_exponent(), h.is_exponent_uppercase()) {
                (Some(e), Some(u)) => format!("(Some ({}, {}))", e, u),
                _ => "None".to_owned(),
            }
        ),
        NumberExpression::Binary(b) => format!("(NBin {} {})", b.get_raw_value(), b.is_b_uppercase()),
    }
}

fn emit_number(number: &NumberExpression) {
    println!("{}\t{}", number_to_coq(number), hex(write_number(number).as_bytes()));
}

const INTERESTING: &[u8] = &[
    0, 1, 7, 8, 9, 10, 11, 12, 13, 27, 31, 32, b'!', b'"', b'\'', b'0', b'1', b'9', b'=', b'A',
    b'[', b'\\', b']', b'a', b'n', b'u', b'x', b'z', b'{', b'}', 126, 127, 128, 159, 160, 191,
    192, 193, 194, 195, 223, 224, 225, 237, 238, 239, 240, 241, 243, 244, 245, 255,
];

/// long-bracket candidates: printable, long enough, containing closers of the levels
/// below `k` and ending in a half closer of a level around `k`
fn long_bracket_adversarial(rng: &mut Rng) -> Vec<u8> {
    let mut out = Vec::new();
    let k = rng.below(4);
    if rng.chance(1, 4) {
        out.push(b'\n');
    }
    let filler = 60 + rng.below(20);
    for _ in 0..filler {
        out.push(if rng.chance(1, 12) { b'\n' } else { b'a' + rng.below(26) as u8 });
    }
    for level in 0..k {
        if rng.chance(5, 6) {
            let at = rng.below(out.len());
            let mut closer = vec![b']'];
            closer.extend(std::iter::repeat(b'=').take(level));
            closer.push(b']');
            out.splice(at..at, closer);
        }
    }
    match rng.below(4) {
        0 => {}
        _ => {
            let j = (k + rng.below(3)).saturating_sub(1);
            out.push(b']');
            out.extend(std::iter::repeat(b'=').take(j));
        }
    }
    out
}

fn structured(rng: &mut Rng) -> Vec<u8> {
    if rng.chance(1, 6) {
        return long_bracket_adversarial(rng);
    }
    let mut out = Vec::new();
    let kind = rng.below(10);
    let target_len = match rng.below(8) {
        0 => rng.below(4),
        1 => 18 + rng.below(5),
        2 => 58 + rng.below(5),
        3 => 60 + rng.below(40),
        _ => rng.below(30),
    };
    while out.len() < target_len {
        match kind {
            // printable text with bracket / equals runs (long string candidates)
            0 | 1 => match rng.below(12) {
                0 => out.extend_from_slice(b"]]"),
                1 => out.extend_from_slice(b"]=]"),
                2 => out.extend_from_slice(b"]==]"),
                3 => out.push(b']'),
                4 => out.push(b'='),
                5 => out.push(b'\n'),
                6 => out.push(b'['),
                _ => out.push(b'a' + rng.below(26) as u8),
            },
            // control bytes followed by digits
            2 => {
                out.push(*rng.pick(&[0u8, 1, 2, 5, 7, 8, 9, 11, 12, 13, 14, 27, 31, 127, 200, 255]));
                if rng.chance(2, 3) {
                    out.push(b'0' + rng.below(10) as u8);
                }
            }
            // quotes and backslashes
            3 => out.push(*rng.pick(&[b'"', b'\'', b'\\', b'a', b' ', b'n', b'0'])),
            // valid utf-8
            4 | 5 => {
                let cp = match rng.below(8) {
                    0 => rng.below(128) as u32,
                    1 => 0x80 + rng.below(0x780) as u32,
                    2 => 0x800 + rng.below(0xD000) as u32,
                    3 => 0xE000 + rng.below(0x2000) as u32,
                    4 => 0x10000 + rng.below(0x100000) as u32,
                    5 => *rng.pick(&[0x7Fu32, 0x80, 0x7FF, 0x800, 0xD7FF, 0xE000, 0xFFFF, 0x10000, 0x10FFFF, 0x130, 0x139, 0x230]),
                    _ => b'0' as u32 + rng.below(10) as u32,
                };
                if let Some(c) = char::from_u32(cp) {
                    let mut buf = [0u8; 4];
                    out.extend_from_slice(c.encode_utf8(&mut buf).as_bytes());
                }
            }
            // long strings with many newlines
            6 => match rng.below(24) {
                0..=5 => out.push(b'\n'),
                6 => out.push(b'\r'),
                7 => out.extend_from_slice(b"\r\n"),
                8 => out.push(b'\t'),
                9 => out.push(0x0c),
                _ => out.push(b'a' + rng.below(26) as u8),
            },
            // arbitrary bytes
            7 => out.push(rng.below(256) as u8),
            // interesting alphabet
            _ => out.push(*rng.pick(INTERESTING)),
        }
    }
    // sometimes force a specific ending / beginning
    match rng.below(12) {
        0 => out.push(b']'),
        1 => out.extend_from_slice(b"]="),
        2 => out.extend_from_slice(b"]=="),
        3 => out.insert(0, b'\n'),
        4 => out.insert(0, b'['),
        _ => {}
    }
    out
}

fn main() {
    let args: Vec<String> = std::env::args().skip(1).collect();
    let args = &args[..];
    let sub = args.first().map(String::as_str).unwrap_or("");
    match sub {
        "strings" => {
            let seed = arg_u64(args, "--seed", 1);
            let n = arg_u64(args, "--n", 1000);
            let mut rng = Rng::new(seed);
            // all strings of length <= 1
            emit(&[]);
            for b in 0..=255u8 {
                emit(&[b]);
            }
            if args.iter().any(|a| a == "--exhaustive2") {
                for a in 0..=255u8 {
                    for b in 0..=255u8 {
                        emit(&[a, b]);
                    }
                }
            } else {
                for a in INTERESTING {
                    for b in INTERESTING {
                        emit(&[*a, *b]);
                    }
                }
            }
            for _ in 0..n {
                emit(&structured(&mut rng));
            }
        }
        "gens" => {
            // literals written by each generator from token-less trees:
            //   `NUM\t<coq number term>\t<generator>\t<hex text of "return <n>">`
            //   `STR\t<generator>\t<shape>\t<hex value>\t<hex text>\t<ok | parse-error | differs>`
            let seed = arg_u64(args, "--seed", 1);
            let n = arg_u64(args, "--n", 40);
            let mut rng = Rng::new(seed ^ 0x6e5);
            let write = |generator: &str, block: &Block| -> String {
                match generator {
                    "dense" => { let mut g = DenseLuaGenerator::default(); g.write_block(block); g.into_string() }
                    "readable" => { let mut g = ReadableLuaGenerator::default(); g.write_block(block); g.into_string() }
                    _ => { let mut g = TokenBasedLuaGenerator::new(""); g.write_block(block); g.into_string() }
                }
            };
            let mut numbers: Vec<NumberExpression> = Vec::new();
            for v in [0.0, -0.0, 1.5, 1e100, 5e-324, 1.7976931348623157e308, f64::INFINITY, f64::NEG_INFINITY, f64::NAN, 0.1, 1e21, 1e22] {
                numbers.push(DecimalNumber::new(v).into());
                for e in [309i64, 999, 22, 1, 0, -1, -400] {
                    numbers.push(DecimalNumber::new(v).with_exponent(e, false).into());
                }
            }
            for text in ["1e309", "1e999", "2E308", "1.8e308", "-0e3", "0e-400", "1.18e1", "0x10", "0b101", "1_000.5e1_0"] {
                if let Ok(number) = text.trim_start_matches('-').parse::<NumberExpression>() {
                    numbers.push(number);
                }
            }
            for number in &numbers {
                let block = Block::default().with_last_statement(ReturnStatement::one(Expression::from(number.clone())));
                for generator in ["dense", "readable", "token"] {
                    println!("NUM\t{}\t{}\t{}", number_to_coq(number), generator, hex(write(generator, &block).as_bytes()));
                }
            }
            let mut strings: Vec<Vec<u8>> = vec![
                b"a".to_vec(), b"".to_vec(), vec![b'x'; 74], [vec![b'y'; 30], b"]]".to_vec(), vec![b'y'; 40]].concat(),
                [vec![b'z'; 70], b"]".to_vec()].concat(), b"l1\nl2\nl3\nl4\nl5\nl6\nl7 long enough".to_vec(),
                [b"\n".to_vec(), vec![b'w'; 70]].concat(), [vec![b'q'; 61], b"]=".to_vec()].concat(),
            ];
            for _ in 0..n {
                strings.push(long_bracket_adversarial(&mut rng));
                strings.push(structured(&mut rng));
            }
            let parser = Parser::default();
            for value in strings {
                let string: Expression = StringExpression::from_value(value.clone()).into();
                let shapes: Vec<(&str, Block)> = vec![
                    ("return", Block::default().with_last_statement(ReturnStatement::one(string.clone()))),
                    ("index", Block::default().with_last_statement(ReturnStatement::one(IndexExpression::new(Prefix::from_name("t"), string.clone())))),
                    ("key", Block::default().with_last_statement(ReturnStatement::one(
                        TableExpression::new(vec![TableIndexEntry::new(string.clone(), true).into()])))),
                    ("nested-index", Block::default().with_last_statement(ReturnStatement::one(IndexExpression::new(
                        Prefix::from_name("t"), IndexExpression::new(Prefix::from_name("u"), string.clone()))))),
                ];
                for (shape, block) in shapes {
                    let reference = write("dense", &block);
                    for generator in ["dense", "readable", "token"] {
                        let text = write(generator, &block);
                        let verdict = match parser.parse(&text) {
                            Ok(parsed) => if write("dense", &parsed) == reference { "ok" } else { "differs" },
                            Err(_) => "parse-error",
                        };
                        println!("STR\t{}\t{}\t{}\t{}\t{}", generator, shape, hex(&value), hex(text.as_bytes()), verdict);
                    }
                }
            }
        }
        "strparse" => {
            // `<hex literal text> <hex value darklua reads, or ERR>`: source spellings of string literals, in
            // particular long brackets holding every kind of line break
            let seed = arg_u64(args, "--seed", 1);
            let n = arg_u64(args, "--n", 300);
            let mut rng = Rng::new(seed ^ 0x57a);
            let mut literals: Vec<Vec<u8>> = Vec::new();
            let pieces: [&[u8]; 12] = [b"first", b"\r\n", b"\n", b"second", b"\r\n\r\n", b" ", b"x\ry", b"]", b"]=", b"\\n", b"\t", b"\xc3\xa9"];
            for level in 0..3usize {
                let open = format!("[{}[", "=".repeat(level)).into_bytes();
                let close = format!("]{}]", "=".repeat(level)).into_bytes();
                for lead in [&b""[..], b"\n", b"\r\n", b"\n\n", b"\r\n\r\n", b"x"] {
                    for _ in 0..(n / 18 + 1) {
                        let mut body: Vec<u8> = lead.to_vec();
                        for _ in 0..rng.below(6) {
                            body.extend_from_slice(*rng.pick(&pieces));
                        }
                        // keep the closer of this level out of the body and do not end in a half closer
                        let text = String::from_utf8_lossy(&body).into_owned();
                        if text.contains(&String::from_utf8_lossy(&close).into_owned()) || body.ends_with(b"]") || body.ends_with(b"=") {
                            continue;
                        }
                        // lone CR right after the opening bracket / LF CR pairs: Lua 5.1 and Luau differ, left out
                        if body.starts_with(b"\r") && !body.starts_with(b"\r\n") || text.contains("\n\r") {
                            continue;
                        }
                        let mut lit = open.clone();
                        lit.extend_from_slice(&body);
                        lit.extend_from_slice(&close);
                        literals.push(lit);
                    }
                }
            }
            for q in [b'"', b'\''] {
                for body in [&b"a\\\nb"[..], b"\\z  \n  b", b"\\x41\\u{48}\\065\\0659", b"\\\\", b"tab\\t", b""] {
                    let mut lit = vec![q];
                    lit.extend_from_slice(body);
                    lit.push(q);
                    literals.push(lit);
                }
            }
            for lit in literals {
                let text = String::from_utf8_lossy(&lit).into_owned();
                let value = match StringExpression::new(&text) {
                    Ok(expr) => hex(expr.get_value()),
                    Err(_) => "ERR".to_owned(),
                };
                println!("{} {}", hex(text.as_bytes()), value);
            }
        }
        "segments" => {
            // `<hex value> <hex written segment> <hex dense text> <hex readable text>`: the literal part of an
            // interpolated string, alone and followed by a hole
            let seed = arg_u64(args, "--seed", 1);
            let n = arg_u64(args, "--n", 1000);
            let mut rng = Rng::new(seed ^ 0x5e6);
            let mut values: Vec<Vec<u8>> = Vec::new();
            for b in 0..=255u8 {
                values.push(vec![b]);
            }
            for a in INTERESTING {
                for b in INTERESTING {
                    values.push(vec![*a, *b]);
                }
            }
            // every byte without a named escape followed by every digit, and by a non-digit
            for a in (0..=31u8).chain(127..=129u8).chain(250..=255u8) {
                for d in b'0'..=b'9' {
                    values.push(vec![b'<', a, d, b'>']);
                    values.push(vec![a, d, d]);
                }
                values.push(vec![a, b'x']);
                values.push(vec![a, b'{']);
                values.push(vec![a, b'`']);
            }
            for _ in 0..n {
                let mut v = structured(&mut rng);
                if rng.chance(1, 2) {
                    let at = rng.below(v.len() + 1);
                    v.insert(at, *rng.pick(&[b'{', b'`', b'}', b'\\']));
                }
                values.push(v);
            }
            for value in values {
                if value.is_empty() {
                    continue;
                }
                let segment = StringSegment::from_value(value.clone());
                let written = write_interpolated_string_segment(&segment);
                let expression = InterpolatedStringExpression::empty()
                    .with_segment(InterpolationSegment::String(StringSegment::from_value(value.clone())))
                    .with_segment(Expression::identifier("v"));
                let block = Block::default().with_last_statement(ReturnStatement::one(expression));
                let mut dense = DenseLuaGenerator::default();
                dense.write_block(&block);
                let mut readable = ReadableLuaGenerator::default();
                readable.write_block(&block);
                println!(
                    "{} {} {} {}",
                    hex(&value),
                    hex(written.as_bytes()),
                    hex(dense.into_string().as_bytes()),
                    hex(readable.into_string().as_bytes())
                );
            }
        }
        "numbers" => {
            // `<coq number term>\t<written text hex>` for write_number
            let seed = arg_u64(args, "--seed", 1);
            let n = arg_u64(args, "--n", 1000);
            let mut rng = Rng::new(seed ^ 0x9999);
            let mut values: Vec<f64> = vec![
                0.0, -0.0, 1.0, -1.0, 0.1, 0.5, 1e15, 1e16, 1e21, 1e22, 1e23, 1e100, 1e-5, 1e-7, 1e-300, 5e-324,
                2.2250738585072014e-308, 2.225073858507201e-308, 1.7976931348623157e308, f64::NAN, f64::INFINITY,
                f64::NEG_INFINITY, 9007199254740992.0, 9007199254740993.0, 9007199254740991.0, 9007199254740994.0,
                4503599627370496.0, 0.30000000000000004, 123456789012345680.0, 1.5, 255.0, 1e-10, 123.456,
                1793956054482776061e9, 8.41e21, 2e-20, 5e-324 * 3.0,
            ];
            for k in 0..64 {
                values.push(2f64.powi(k));
                values.push(2f64.powi(-k));
            }
            for k in -30..30 {
                values.push(10f64.powi(k));
            }
            for _ in 0..n {
                let v = match rng.below(5) {
                    0 => f64::from_bits(rng.next()),
                    1 => (rng.below(1_000_000) as f64) / 1000.0,
                    2 => rng.below(100_000) as f64,
                    3 => (rng.next() >> 4) as f64 * 10f64.powi(rng.below(40) as i32 - 20),
                    _ => f64::from_bits(rng.next() & 0x7fef_ffff_ffff_ffff),
                };
                values.push(v);
                if rng.chance(1, 3) {
                    values.push(-v);
                }
            }
            // non-finite values with a recorded exponent (what parsing `1e309` builds)
            for v in [f64::INFINITY, f64::NEG_INFINITY, f64::NAN] {
                for e in [309i64, 999, 308, 0, -1] {
                    emit_number(&NumberExpression::from(DecimalNumber::new(v).with_exponent(e, e == 999)));
                }
            }
            for v in &values {
                emit_number(&NumberExpression::from(DecimalNumber::new(*v)));
                if v.is_finite() {
                    for e in [-25i64, -10, -9, -3, -1, 0, 1, 2, 3, 9, 10, 22, 25, 300, -300] {
                        if rng.chance(1, 3) {
                            emit_number(&NumberExpression::from(DecimalNumber::new(*v).with_exponent(e, rng.chance(1, 2))));
                        }
                    }
                }
            }
            for i in [0u64, 1, 9, 10, 15, 16, 255, 256, 4096, u32::MAX as u64, 1 << 53, (1 << 53) + 1, u64::MAX, u64::MAX - 1] {
                emit_number(&NumberExpression::from(HexNumber::new(i, false)));
                emit_number(&NumberExpression::from(HexNumber::new(i, true)));
                emit_number(&NumberExpression::from(BinaryNumber::new(i, false)));
                emit_number(&NumberExpression::from(BinaryNumber::new(i, true)));
            }
            // hexadecimal / binary nodes of every bit length, hexadecimal exponents (Model/NumberWrite.v arms)
            for k in 0..(n / 4).max(64) {
                let bits = (k % 64) as u32 + 1;
                let raw = rng.next();
                let v = if bits == 64 { raw } else { (raw & ((1u64 << bits) - 1)) | (1u64 << (bits - 1)) };
                let v = if rng.chance(1, 6) { (1u64 << (bits - 1)).wrapping_sub(rng.next() % 2) } else { v };
                emit_number(&NumberExpression::from(HexNumber::new(v, rng.chance(1, 2))));
                emit_number(&NumberExpression::from(BinaryNumber::new(v, rng.chance(1, 2))));
                let e = match rng.next() % 5 {
                    0 => (rng.next() % 64) as u32,
                    1 => u32::MAX - (rng.next() % 3) as u32,
                    2 => 0,
                    _ => (rng.next() >> (rng.next() % 64)) as u32,
                };
                emit_number(&NumberExpression::from(HexNumber::new(v, rng.chance(1, 2)).with_exponent(e, rng.chance(1, 2))));
            }
        }
        "parse" => {
            // literal texts through NumberExpression::from_str: `<text hex>\t<coq number term or ERR>`
            let seed = arg_u64(args, "--seed", 1);
            let n = arg_u64(args, "--n", 1000);
            let mut rng = Rng::new(seed ^ 0x7777);
            let mut texts: Vec<String> = [
                "0", "1", "10", "007", "1.", ".5", "0.5", "1e5", "1E5", "1e+5", "1e-5", "1.5e3", "1_000", "1__0", "_1", "1_",
                "0x10", "0X1F", "0xff", "0x_ff", "0xF_F", "0x", "0xg", "0b101", "0B11", "0b_1", "0b1_0", "0b", "0b2",
                "1e", "e5", "1e5e6", "1e_5", "1_e5", "1e5_", "1_.5", "._5", "1._5", "1.5_", "0x1p4", "0x1P4", "0xAp2",
                "0x1p", "0x1p-1", "0x1p+2", "0x_1p1", "9007199254740993", "18446744073709551615", "0xffffffffffffffff",
                "0x10000000000000000", "0b1111111111111111111111111111111111111111111111111111111111111111",
                "1e308", "1e309", "1e-324", "4.9e-324", "2.4703282292062327e-324", "2.4703282292062328e-324",
                "0.1", "0.30000000000000004", "123456789012345678901234567890", "1e400", "inf", "nan", "infinity", "+1", "-1",
                "1_0.5_0e1_0", "0x1e5", "0b1e5", "0e0", "00x10", "0_x10", "1e+_5", "1_-5", "1e_+5", "١", "1 ", " 1",
            ]
            .iter()
            .map(|s| s.to_string())
            .collect();
            // long integral mantissas with small positive exponents (double rounding if parsed in two steps)
            for _ in 0..(n / 4).max(40) {
                let digits = 15 + rng.below(6);
                let mut t = String::new();
                t.push((b'1' + rng.below(9) as u8) as char);
                for _ in 1..digits {
                    t.push((b'0' + rng.below(10) as u8) as char);
                }
                let e = 1 + rng.below(24);
                t.push(if rng.chance(1, 2) { 'e' } else { 'E' });
                if rng.chance(1, 4) {
                    t.push('+');
                }
                t.push_str(&e.to_string());
                texts.push(t);
            }
            for t in ["9007199254740993e1", "12345678901234567e4", "9_007_199_254_740_993E22", "18014398509481985e2", "9007199254740993e22"] {
                texts.push(t.to_string());
            }
            let alphabet: &[u8] = b"0123456789_.eExXbBpP+-aAfF";
            for _ in 0..n {
                let len = 1 + rng.below(8);
                let mut t = String::new();
                if rng.chance(1, 3) {
                    t.push_str(*rng.pick(&["0x", "0b", "0X", "0B", "0", "1", "."]));
                }
                for _ in 0..len {
                    t.push(*rng.pick(alphabet) as char);
                }
                texts.push(t);
            }
            for t in &texts {
                let result = std::panic::catch_unwind(|| t.parse::<NumberExpression>());
                let out = match result {
                    Ok(Ok(number)) => number_to_coq(&number),
                    Ok(Err(_)) => "ERR".to_owned(),
                    Err(_) => "PANIC".to_owned(),
                };
                println!("{}\t{}", hex(t.as_bytes()), out);
            }
        }
        _ => {
            eprintln!("c13: unknown subcommand {:?}", sub);
            std::process::exit(2);
        }
    }
}
