//! C13: string / number literal writers and readers.
//!
//! `c13 strings --seed S --n N [--exhaustive2]` prints one case per line:
//!   `<hex input bytes> <hex write_string output> <hex darklua-read-back or "ERR">`

use hutil::{arg_u64, hex, Rng};
use darklua_core::nodes::StringExpression;
use darklua_core::verif_hooks::generator_utils::write_string;

fn emit(value: &[u8]) {
    let written = write_string(value);
    let back = match StringExpression::new(&written) {
        Ok(expr) => hex(expr.get_value()),
        Err(_) => "ERR".to_owned(),
    };
    println!("{} {} {}", hex(value), hex(written.as_bytes()), back);
}

const INTERESTING: &[u8] = &[
    0, 1, 7, 8, 9, 10, 11, 12, 13, 27, 31, 32, b'!', b'"', b'\'', b'0', b'1', b'9', b'=', b'A',
    b'[', b'\\', b']', b'a', b'n', b'u', b'x', b'z', b'{', b'}', 126, 127, 128, 159, 160, 191,
    192, 193, 194, 195, 223, 224, 225, 237, 238, 239, 240, 241, 243, 244, 245, 255,
];

/// long-bracket candidates: printable, long enough, containing closers of the levels
/// below `k` and ending in a half closer of a level around `k`
fn long_bracket_adversarial(rng: &mut Rng) -> Vec<u8> {
    let mut out = Vec::new();
    let k = rng.below(4);
    if rng.chance(1, 4) {
        out.push(b'\n');
    }
    let filler = 60 + rng.below(20);
    for _ in 0..filler {
        out.push(if rng.chance(1, 12) { b'\n' } else { b'a' + rng.below(26) as u8 });
    }
    for level in 0..k {
        if rng.chance(5, 6) {
            let at = rng.below(out.len());
            let mut closer = vec![b']'];
            closer.extend(std::iter::repeat(b'=').take(level));
            closer.push(b']');
            out.splice(at..at, closer);
        }
    }
    match rng.below(4) {
        0 => {}
        _ => {
            let j = (k + rng.below(3)).saturating_sub(1);
            out.push(b']');
            out.extend(std::iter::repeat(b'=').take(j));
        }
    }
    out
}

fn structured(rng: &mut Rng) -> Vec<u8> {
    if rng.chance(1, 6) {
        return long_bracket_adversarial(rng);
    }
    let mut out = Vec::new();
    let kind = rng.below(10);
    let target_len = match rng.below(8) {
        0 => rng.below(4),
        1 => 18 + rng.below(5),
        2 => 58 + rng.below(5),
        3 => 60 + rng.below(40),
        _ => rng.below(30),
    };
    while out.len() < target_len {
        match kind {
            // printable text with bracket / equals runs (long string candidates)
            0 | 1 => match rng.below(12) {
                0 => out.extend_from_slice(b"]]"),
                1 => out.extend_from_slice(b"]=]"),
                2 => out.extend_from_slice(b"]==]"),
                3 => out.push(b']'),
                4 => out.push(b'='),
                5 => out.push(b'\n'),
                6 => out.push(b'['),
                _ => out.push(b'a' + rng.below(26) as u8),
            },
            // control bytes followed by digits
            2 => {
                out.push(*rng.pick(&[0u8, 1, 2, 5, 7, 8, 9, 11, 12, 13, 14, 27, 31, 127, 200, 255]));
                if rng.chance(2, 3) {
                    out.push(b'0' + rng.below(10) as u8);
                }
            }
            // quotes and backslashes
            3 => out.push(*rng.pick(&[b'"', b'\'', b'\\', b'a', b' ', b'n', b'0'])),
            // valid utf-8
            4 | 5 => {
                let cp = match rng.below(8) {
                    0 => rng.below(128) as u32,
                    1 => 0x80 + rng.below(0x780) as u32,
                    2 => 0x800 + rng.below(0xD000) as u32,
                    3 => 0xE000 + rng.below(0x2000) as u32,
                    4 => 0x10000 + rng.below(0x100000) as u32,
                    5 => *rng.pick(&[0x7Fu32, 0x80, 0x7FF, 0x800, 0xD7FF, 0xE000, 0xFFFF, 0x10000, 0x10FFFF, 0x130, 0x139, 0x230]),
                    _ => b'0' as u32 + rng.below(10) as u32,
                };
                if let Some(c) = char::from_u32(cp) {
                    let mut buf = [0u8; 4];
                    out.extend_from_slice(c.encode_utf8(&mut buf).as_bytes());
                }
            }
            // long strings with many newlines
            6 => match rng.below(4) {
                0 => out.push(b'\n'),
                _ => out.push(b'a' + rng.below(26) as u8),
            },
            // arbitrary bytes
            7 => out.push(rng.below(256) as u8),
            // interesting alphabet
            _ => out.push(*rng.pick(INTERESTING)),
        }
    }
    // sometimes force a specific ending / beginning
    match rng.below(12) {
        0 => out.push(b']'),
        1 => out.extend_from_slice(b"]="),
        2 => out.extend_from_slice(b"]=="),
        3 => out.insert(0, b'\n'),
        4 => out.insert(0, b'['),
        _ => {}
    }
    out
}

fn main() {
    let args: Vec<String> = std::env::args().skip(1).collect();
    let args = &args[..];
    let sub = args.first().map(String::as_str).unwrap_or("");
    match sub {
        "strings" => {
            let seed = arg_u64(args, "--seed", 1);
            let n = arg_u64(args, "--n", 1000);
            let mut rng = Rng::new(seed);
            // all strings of length <= 1
            emit(&[]);
            for b in 0..=255u8 {
                emit(&[b]);
            }
            if args.iter().any(|a| a == "--exhaustive2") {
                for a in 0..=255u8 {
                    for b in 0..=255u8 {
                        emit(&[a, b]);
                    }
                }
            } else {
                for a in INTERESTING {
                    for b in INTERESTING {
                        emit(&[*a, *b]);
                    }
                }
            }
            for _ in 0..n {
                emit(&structured(&mut rng));
            }
        }
        _ => {
            eprintln!("c13: unknown subcommand {:?}", sub);
            std::process::exit(2);
        }
    }
}
