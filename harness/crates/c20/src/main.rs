//! C20: file / rule filters through the real front door.
//!
//! `dl-c20 serve` reads one JSON request per line on stdin and answers with one JSON line each:
//!
//!   {"match": {"patterns": [..], "paths": [..]}}
//!       -> {"match": [[bool per path] per pattern], "invalid": {pattern: error}}
//!          (darklua's own glob engine, through the hook `verif_hooks::filter_pattern_matches`)
//!   {"tree": {path: content, ...}}
//!       -> {"tree": n}      sets the file tree used by the following jobs
//!   {"id": n, "config": "<text of .darklua.json>", "input": "src", "output": null | "out",
//!    "config_name": path the text is written to (default ".darklua.json", found by darklua on its own only there),
//!    "config_at": true -> Options::with_configuration_at(config_name),
//!    "config_memory": true -> the text is parsed here and given with Options::with_configuration (no file),
//!    "config2": "<text>" -> after the first run the configuration file is replaced by this text, the SAME
//!                WorkerTree is told so (source_changed(config file), as the watcher does) and processes again}
//!       -> {"id": n, "ok": bool, "errors": [..], "panic": bool, "files": {path: content}}
//!          a fresh `Resources::from_memory()` is filled with the tree and the configuration file,
//!          `darklua_core::process` is run, and every file present afterwards is reported.

use std::collections::BTreeMap;
use std::io::{BufRead, Write};
use std::path::Path;

use darklua_core::{process, Options, Resources};
use serde_json::{json, Map, Value};

fn run_job(tree: &BTreeMap<String, String>, job: &Value) -> Value {
    let id = job.get("id").cloned().unwrap_or(Value::Null);
    let input = job.get("input").and_then(Value::as_str).unwrap_or("src").to_owned();
    let output = job.get("output").and_then(Value::as_str).map(str::to_owned);
    let config = job.get("config").and_then(Value::as_str).map(str::to_owned);
    let config_name = job
        .get("config_name")
        .and_then(Value::as_str)
        .unwrap_or(".darklua.json")
        .to_owned();

    let config_at = job.get("config_at").and_then(Value::as_bool).unwrap_or(false);
    let config_memory = job.get("config_memory").and_then(Value::as_bool).unwrap_or(false);

    let resources = Resources::from_memory();
    for (path, content) in tree {
        resources.write(path, content).expect("memory write");
    }
    if let (Some(config), false) = (&config, config_memory) {
        resources.write(&config_name, config).expect("memory write");
    }

    let result = std::panic::catch_unwind(std::panic::AssertUnwindSafe(|| {
        let mut options = Options::new(&input);
        if let Some(output) = &output {
            options = options.with_output(output);
        }
        if config_at {
            options = options.with_configuration_at(&config_name);
        }
        if config_memory {
            match json5::from_str::<darklua_core::Configuration>(config.as_deref().unwrap_or("{}")) {
                Ok(configuration) => options = options.with_configuration(configuration),
                Err(err) => return (false, vec![format!("configuration: {}", err)]),
            }
        }
        let second = job.get("config2").and_then(Value::as_str).map(str::to_owned);
        let rerun_options = |input: &str, output: &Option<String>| {
            let mut options = Options::new(input);
            if let Some(output) = output {
                options = options.with_output(output);
            }
            if config_at {
                options = options.with_configuration_at(&config_name);
            }
            options
        };
        match process(&resources, options) {
            Ok(mut worker_tree) => {
                if let Some(second) = &second {
                    resources.write(&config_name, second).expect("memory write");
                    worker_tree.source_changed(&config_name);
                    if let Err(err) = worker_tree.process(&resources, rerun_options(&input, &output)) {
                        return (false, vec![format!("second process: {}", err)]);
                    }
                }
                let errors: Vec<String> = worker_tree
                    .collect_errors()
                    .into_iter()
                    .map(|err| err.to_string())
                    .collect();
                (errors.is_empty(), errors)
            }
            Err(err) => (false, vec![format!("process: {}", err)]),
        }
    }));

    let (ok, errors, panicked) = match result {
        Ok((ok, errors)) => (ok, errors, false),
        Err(_) => (false, vec!["panic".to_owned()], true),
    };

    let mut files = Map::new();
    let mut paths: Vec<_> = resources.walk("").collect();
    paths.sort();
    for path in paths {
        let key = path.to_string_lossy().replace('\\', "/");
        if key == config_name {
            continue;
        }
        if let Ok(content) = resources.get(&path) {
            files.insert(key, Value::String(content));
        }
    }

    json!({ "id": id, "ok": ok, "errors": errors, "panic": panicked, "files": files })
}

fn run_match(request: &Value) -> Value {
    let list = |name: &str| -> Vec<String> {
        request
            .get(name)
            .and_then(Value::as_array)
            .map(|a| a.iter().filter_map(Value::as_str).map(str::to_owned).collect())
            .unwrap_or_default()
    };
    let patterns = list("patterns");
    let paths = list("paths");
    let mut rows = Vec::new();
    let mut invalid = Map::new();
    for pattern in &patterns {
        let mut row = Vec::new();
        for path in &paths {
            match darklua_core::verif_hooks::filter_pattern_matches(pattern, Path::new(path)) {
                Ok(matched) => row.push(Value::Bool(matched)),
                Err(err) => {
                    invalid.insert(pattern.clone(), Value::String(err));
                    row.push(Value::Null);
                }
            }
        }
        rows.push(Value::Array(row));
    }
    json!({ "match": rows, "invalid": invalid })
}

fn main() {
    let args: Vec<String> = std::env::args().collect();
    if args.get(1).map(String::as_str) != Some("serve") {
        eprintln!("usage: dl-c20 serve   (JSON requests on stdin, see the module documentation)");
        std::process::exit(2);
    }
    // the default panic hook would print to stderr, which the driver merges into stdout
    std::panic::set_hook(Box::new(|_| {}));

    let stdin = std::io::stdin();
    let stdout = std::io::stdout();
    let mut out = std::io::BufWriter::new(stdout.lock());
    let mut tree: BTreeMap<String, String> = BTreeMap::new();

    for line in stdin.lock().lines() {
        let line = line.expect("read stdin");
        if line.trim().is_empty() {
            continue;
        }
        let request: Value = match serde_json::from_str(&line) {
            Ok(value) => value,
            Err(err) => {
                writeln!(out, "{}", json!({ "bad_request": err.to_string() })).unwrap();
                continue;
            }
        };
        let answer = if let Some(m) = request.get("match") {
            run_match(m)
        } else if let Some(t) = request.get("tree").and_then(Value::as_object) {
            tree = t
                .iter()
                .filter_map(|(k, v)| v.as_str().map(|s| (k.clone(), s.to_owned())))
                .collect();
            json!({ "tree": tree.len() })
        } else {
            run_job(&tree, &request)
        };
        writeln!(out, "{}", answer).unwrap();
    }
    out.flush().unwrap();
}
