//! C11: batch runs map files one-to-one, isolate failures and are deterministic.
//!
//!   dl-c11 mem  --seed S --n N            scenarios on `Resources::from_memory()`
//!   dl-c11 disk --seed S --n N --root DIR  scenarios on real directories below DIR
//!   dl-c11 luaurc --seed S --n N          nested `.luaurc` aliases: forced processing orders, runs in sequence on one thread
//!   dl-c11 one  --seed S --case K [--root DIR]   a single scenario (replay)
//!
//! One JSON line per scenario: the generated tree, the options, and for the run with all the
//! files and for the run without the faulty files: the work items (source, output, status,
//! error text), whether `process` itself failed, and the complete tree afterwards.
//! Everything printed is a function of the seed only, so two processes must print the same bytes.

use std::collections::BTreeMap;
use std::panic::{catch_unwind, AssertUnwindSafe};
use std::path::{Path, PathBuf};

use darklua_core::{Options, Resources};
use hutil::{arg_u64, arg_value, hex, Rng};
use serde_json::{json, Value};

const CONFIG: &str = ".darklua.json";

#[derive(Clone, Debug, PartialEq)]
enum Content {
    Good(u32),
    /// requires an existing sibling (only meaningful with the bundle configuration)
    GoodRequire(String, u32),
    SyntaxError,
    MissingRequire,
    InvalidUtf8,
    /// invalid bytes inside a string literal / a comment: valid Lua after a lossy decoding
    InvalidUtf8InString,
    Latin1InComment,
    /// "", "\n", "  \t\n": an empty chunk is a valid program
    Blank(u8),
    CommentOnly,
    Semicolon,
    /// valid Lua whatever the file is called
    Scratch,
    /// a JSON document (not Lua)
    Json,
    /// something that already sits at an output path before the run
    Raw(String),
    NotLua,
}

impl Content {
    fn bytes(&self) -> Vec<u8> {
        match self {
            Content::Good(n) => format!("-- good {n}\nlocal x = 1\nreturn x + {n}\n", n = n).into_bytes(),
            Content::GoodRequire(target, n) => format!(
                "local m = require(\"./{t}\")\n-- needs {t}\nreturn m + {n}\n",
                t = target,
                n = n
            )
            .into_bytes(),
            Content::SyntaxError => b"local x = = 1\nreturn x\n".to_vec(),
            Content::MissingRequire => {
                b"local m = require(\"./does_not_exist\")\nreturn m\n".to_vec()
            }
            Content::InvalidUtf8 => vec![b'r', b'e', b't', b'u', b'r', b'n', b' ', 0xff, 0xfe, b'\n'],
            Content::InvalidUtf8InString => b"local s = \"ab\xff\xfecd\"\nreturn s\n".to_vec(),
            Content::Latin1InComment => b"-- caf\xe9 au lait\nreturn 1\n".to_vec(),
            Content::Blank(0) => Vec::new(),
            Content::Blank(1) => b"\n".to_vec(),
            Content::Blank(_) => b"  \t\n".to_vec(),
            Content::CommentOnly => b"-- nothing but a comment\n--[[ and\n a block ]]\n".to_vec(),
            Content::Semicolon => b";\n".to_vec(),
            Content::Scratch => b"-- scratch pad\nvalue = 1 + 1\n".to_vec(),
            Content::Json => b"{\"name\": \"demo\"}\n".to_vec(),
            Content::Raw(text) => text.clone().into_bytes(),
            Content::NotLua => b"just some text\n".to_vec(),
        }
    }
}

#[derive(Clone, Debug)]
struct Scenario {
    id: u64,
    /// path -> content, relative to the scenario root
    files: BTreeMap<String, Content>,
    /// directories that exist although they are empty or named like Lua files (disk only)
    extra_dirs: Vec<String>,
    input: String,
    output: Option<String>,
    fail_fast: bool,
    bundle: bool,
    /// bundle + token-preserving generator + a rule that is not idempotent (in-place runs)
    stamp: bool,
    /// `rules: []` with the token-preserving generator: the generated code equals the source
    identity: bool,
    /// how the input / output are spelled in the options (not normalised)
    input_arg: String,
    output_arg: Option<String>,
    /// files that exist at output paths before the run
    prepopulated: Vec<String>,
    /// files expected to fail (by themselves or through a declared dependency)
    faulty: Vec<String>,
    shape: &'static str,
}

const FILE_NAMES: [&str; 9] = [
    "a.lua",
    "b.luau",
    "c.lua",
    "with space.lua",
    "dotted.name.lua",
    "\u{fc}n\u{ef}.lua",
    "e.lua",
    "f.luau",
    "g.lua",
];
const OTHER_NAMES: [&str; 6] = ["notes.txt", "noext", ".lua", "x.lua.bak", "UP.LUA", "data.json"];
const DIRS: [&str; 5] = ["", "sub", "sub/deep", "with space", "d.lua"];
/// names whose extension merely looks like a Lua one: none of them may be processed
const BYSTANDERS: [&str; 9] = [
    "init.lua~",
    "chunk.luac",
    "impl.lua_old",
    "x.luax",
    "lua",
    "mod.luau.bak",
    "y.lua.bak",
    "BIG.LUA",
    "z.Luau",
];
const DOTTED_DIRS: [&str; 2] = ["dist.v2", "build/pkg-1.2.0"];

fn is_lua(path: &str) -> bool {
    matches!(
        Path::new(path).extension().and_then(|e| e.to_str()),
        Some("lua") | Some("luau")
    )
}

static CASE_SENSITIVE_DISK: std::sync::atomic::AtomicBool = std::sync::atomic::AtomicBool::new(false);

fn case_sensitive_disk() -> bool {
    CASE_SENSITIVE_DISK.load(std::sync::atomic::Ordering::Relaxed)
}

/// are `Probe.txt` and `probe.txt` two files in this directory?
fn probe_case_sensitivity(root: &Path) -> bool {
    let dir = root.join("case_probe");
    let _ = std::fs::create_dir_all(&dir);
    let _ = std::fs::write(dir.join("Probe.txt"), b"upper");
    let _ = std::fs::write(dir.join("probe.txt"), b"lower");
    let distinct = std::fs::read(dir.join("Probe.txt")).map(|b| b == b"upper").unwrap_or(false);
    let _ = std::fs::remove_dir_all(&dir);
    CASE_SENSITIVE_DISK.store(distinct, std::sync::atomic::Ordering::Relaxed);
    distinct
}

fn generate(seed: u64, id: u64, disk: bool) -> Scenario {
    let mut rng = Rng::new(seed.wrapping_mul(1_000_003).wrapping_add(id));
    let bundle = rng.chance(1, 3);
    let mut files = BTreeMap::new();
    let mut faulty = Vec::new();
    let n_files = 2 + rng.below(6);
    for _ in 0..n_files {
        let dir = *rng.pick(&DIRS);
        let name = *rng.pick(&FILE_NAMES);
        let path = if dir.is_empty() {
            format!("src/{}", name)
        } else {
            format!("src/{}/{}", dir, name)
        };
        if files.contains_key(&path) {
            continue;
        }
        let content = match rng.below(10) {
            0 | 1 => Content::SyntaxError,
            2 if bundle => Content::MissingRequire,
            3 if disk => Content::InvalidUtf8,
            _ => Content::Good(rng.below(50) as u32),
        };
        files.insert(path, content);
    }
    // a requiring file next to an existing good or bad sibling (bundle only)
    if bundle {
        let siblings: Vec<String> = files.keys().cloned().collect();
        if let Some(target) = siblings.get(rng.below(siblings.len().max(1))) {
            let parent = Path::new(target).parent().unwrap().display().to_string();
            let entry = format!("{}/entry.lua", parent);
            let target_name = Path::new(target).file_name().unwrap().to_str().unwrap().to_owned();
            // requires with unusual characters are left to C15; keep plain names here
            if target_name.is_ascii() && !target_name.contains(' ') && !files.contains_key(&entry) {
                files.insert(entry, Content::GoodRequire(target_name, rng.below(50) as u32));
            }
        }
    }
    for _ in 0..rng.below(3) {
        let dir = *rng.pick(&DIRS);
        let name = *rng.pick(&OTHER_NAMES);
        let path = if dir.is_empty() {
            format!("src/{}", name)
        } else {
            format!("src/{}/{}", dir, name)
        };
        files.entry(path).or_insert(Content::NotLua);
    }
    let mut extra_dirs = Vec::new();
    if disk && rng.chance(1, 3) {
        // a directory named like a Lua file, with nothing to process inside
        extra_dirs.push("src/dir_named.lua".to_owned());
    }
    let lua_files: Vec<String> = files.keys().filter(|p| is_lua(p)).cloned().collect();
    let shape_pick = rng.below(9);
    let (input, output, shape): (String, Option<String>, &'static str) = match shape_pick {
        0 | 1 => ("src".into(), Some("out".into()), "dir->new-dir"),
        2 => {
            files.insert("out/README.md".into(), Content::NotLua);
            files.insert("out/sub/keep.txt".into(), Content::NotLua);
            ("src".into(), Some("out".into()), "dir->existing-dir")
        }
        3 => ("src".into(), None, "dir-in-place"),
        4 => ("src".into(), Some("src".into()), "dir->itself"),
        5 if !lua_files.is_empty() => {
            let f = rng.pick(&lua_files).clone();
            (f, Some("out/result.lua".into()), "file->file")
        }
        6 if !lua_files.is_empty() => {
            let f = rng.pick(&lua_files).clone();
            files.insert("out/README.md".into(), Content::NotLua);
            (f, Some("out".into()), "file->existing-dir")
        }
        7 if !lua_files.is_empty() => {
            let f = rng.pick(&lua_files).clone();
            (f, Some("fresh/place".into()), "file->new-path-without-extension")
        }
        8 if !lua_files.is_empty() => {
            let f = rng.pick(&lua_files).clone();
            (f, None, "file-in-place")
        }
        _ => ("src/sub".into(), Some("out/nested".into()), "subdir->new-dir"),
    };
    // ---- additions drawn from a second generator, so that the scenarios above keep their ids
    let mut rng2 = Rng::new(seed.wrapping_mul(7919).wrapping_add(id).wrapping_add(0xABCDEF));
    let (mut input, mut output, mut shape) = (input, output, shape);
    // quiet sources: empty, blank, comment-only, a lone semicolon
    const QUIET: [&str; 5] = ["empty.lua", "blank.luau", "ws.lua", "only_comment.lua", "semi.lua"];
    let mut quiet_paths = Vec::new();
    for _ in 0..rng2.below(3) {
        let dir = *rng2.pick(&DIRS);
        let name = *rng2.pick(&QUIET);
        let path = if dir.is_empty() {
            format!("src/{}", name)
        } else {
            format!("src/{}/{}", dir, name)
        };
        let content = match name {
            "only_comment.lua" => Content::CommentOnly,
            "semi.lua" => Content::Semicolon,
            _ => Content::Blank(rng2.below(3) as u8),
        };
        if !files.contains_key(&path) {
            files.insert(path.clone(), content);
            quiet_paths.push(path);
        }
    }
    if disk && rng2.chance(1, 3) {
        let dir = *rng2.pick(&DIRS);
        let (name, content) = if rng2.chance(1, 2) {
            ("bytes_in_string.lua", Content::InvalidUtf8InString)
        } else {
            ("latin1_comment.luau", Content::Latin1InComment)
        };
        let path = if dir.is_empty() {
            format!("src/{}", name)
        } else {
            format!("src/{}/{}", dir, name)
        };
        files.entry(path.clone()).or_insert(content);
        quiet_paths.push(path);
    }
    if shape.starts_with("file") && !quiet_paths.is_empty() && rng2.chance(1, 2) {
        // the single input file is one of them
        input = rng2.pick(&quiet_paths).clone();
    }
    if shape.starts_with("file") && rng2.chance(1, 2) {
        // a single input file: every kind of extension x every spelling of the output
        const EXTENSIONS: [&str; 7] = ["lua", "luau", "txt", "json", "", "LUA", "lua.bak"];
        let extension = *rng2.pick(&EXTENSIONS);
        let dir = *rng2.pick(&DIRS);
        let name = if extension.is_empty() {
            "single".to_owned()
        } else {
            format!("single.{}", extension)
        };
        let path = if dir.is_empty() {
            format!("src/{}", name)
        } else {
            format!("src/{}/{}", dir, name)
        };
        files.insert(
            path.clone(),
            if extension == "json" { Content::Json } else { Content::Scratch },
        );
        input = path;
        files.retain(|p, _| !p.starts_with("out/") && !p.starts_with("dist") && !p.starts_with("build/"));
        output = match rng2.below(13) {
            0 | 1 => None,
            2 => Some("out/bundle.lua".to_owned()),
            3 => Some("out/bundle.luau".to_owned()),
            4 => Some("out/bundle.txt".to_owned()),
            5 => Some("dist/v1.2".to_owned()),
            6 => Some("out/main.client".to_owned()),
            7 => {
                files.insert("out/existing.lua".to_owned(), Content::NotLua);
                Some("out/existing.lua".to_owned())
            }
            8 => {
                files.insert("out/existing".to_owned(), Content::NotLua);
                Some("out/existing".to_owned())
            }
            9 => {
                files.insert("out/README.md".to_owned(), Content::NotLua);
                Some("out".to_owned())
            }
            10 => {
                files.insert("dist.v2/README.md".to_owned(), Content::NotLua);
                Some("dist.v2".to_owned())
            }
            11 => Some("out/new".to_owned()),
            _ => Some("out/newdir/".to_owned()),
        };
        shape = "single-file-matrix";
    } else if shape.starts_with("file") {
        if rng2.chance(1, 3) && output.is_some() {
            // single file into an EXISTING directory whose name contains a dot
            let dir = *rng2.pick(&DOTTED_DIRS);
            files.insert(format!("{}/README.md", dir), Content::NotLua);
            output = Some(dir.to_owned());
            shape = "file->existing-dotted-dir";
        }
        if rng2.chance(1, 3) {
            // a project made of exactly one Lua file
            let keep = input.clone();
            files.retain(|path, _| *path == keep || !path.starts_with("src/"));
        }
    } else {
        for _ in 0..(1 + rng2.below(3)) {
            let dir = *rng2.pick(&DIRS);
            let name = *rng2.pick(&BYSTANDERS);
            let path = if dir.is_empty() {
                format!("src/{}", name)
            } else {
                format!("src/{}/{}", dir, name)
            };
            let content = if rng2.chance(1, 2) {
                Content::NotLua
            } else {
                Content::Good(rng2.below(50) as u32)
            };
            files.entry(path).or_insert(content);
        }
    }
    if disk && shape == "dir->existing-dir" && rng.chance(1, 2) {
        // unwritable destination: `out/sub` needs to be a directory for sources under src/sub,
        // make `out/with space` a plain file instead
        files.insert("out/with space".into(), Content::NotLua);
    }
    // which files are expected to fail
    for (path, content) in &files {
        match content {
            Content::SyntaxError
            | Content::MissingRequire
            | Content::InvalidUtf8
            | Content::InvalidUtf8InString
            | Content::Latin1InComment
            | Content::Semicolon => faulty.push(path.clone()),
            // a JSON file is only read when it is the explicit input and an output is given
            Content::Json if output.is_some() => faulty.push(path.clone()),
            _ => {}
        }
    }
    // a requiring file fails when its target fails (declared dependency)
    let failing: Vec<String> = faulty.clone();
    for (path, content) in &files {
        if let Content::GoodRequire(target, _) = content {
            let target_path = format!(
                "{}/{}",
                Path::new(path).parent().unwrap().display(),
                target
            );
            if failing.contains(&target_path) || !is_lua(&target_path) || !files.contains_key(&target_path) {
                faulty.push(path.clone());
            }
        }
    }
    // ---- a third generator (ids and the draws above stay what they were)
    let mut rng3 = Rng::new(seed.wrapping_mul(15_485_863).wrapping_add(id).wrapping_add(0x5EED));
    let input_is_dir = !shape.starts_with("file") && shape != "single-file-matrix";
    // paths that differ only by ASCII case (on disk only when the file system tells them apart)
    if input_is_dir && input == "src" && rng3.chance(1, 4) && (!disk || case_sensitive_disk()) {
        if rng3.chance(2, 3) {
            files.entry("src/Config.lua".into()).or_insert(Content::Good(60));
            files.entry("src/config.lua".into()).or_insert(Content::Good(61));
        }
        if rng3.chance(1, 2) {
            files.entry("src/Shared/Init.luau".into()).or_insert(Content::Good(62));
            files.entry("src/shared/init.luau".into()).or_insert(Content::Good(63));
        }
    }
    let identity = !bundle && rng3.chance(1, 3);
    // the output location already holds files at the mirrored paths
    let mut prepopulated = Vec::new();
    let separate_output = match output.as_deref() {
        Some(out) => {
            let out = out.trim_end_matches('/');
            out != input && !out.starts_with(&format!("{}/", input)) && !input.starts_with(&format!("{}/", out))
        }
        None => false,
    };
    if separate_output && rng3.chance(1, 2) {
        let out = output.clone().unwrap();
        let targets: Vec<(String, String)> = if input_is_dir {
            files
                .iter()
                .filter(|(p, _)| is_lua(p) && p.starts_with(&format!("{}/", input)))
                .map(|(p, _)| (p.clone(), format!("{}/{}", out, &p[input.len() + 1..])))
                .collect()
        } else if shape == "file->file" {
            vec![(input.clone(), out.clone())]
        } else {
            Vec::new()
        };
        for (source, target) in targets {
            if files.contains_key(&target) || !rng3.chance(2, 3) {
                continue;
            }
            // an ancestor of the target may be a plain file in the unwritable-destination scenario
            let text = match rng3.below(3) {
                0 => "-- an older output that is much longer than what the run will write here\nlocal stale = 'stale stale stale stale stale'\nreturn stale\n".to_owned(),
                1 => "x".to_owned(),
                _ => String::from_utf8_lossy(&files[&source].bytes()).into_owned() + "-- stale tail\n",
            };
            files.insert(target.clone(), Content::Raw(text));
            prepopulated.push(target);
        }
    }
    // non-normalised spellings of the input and output arguments
    let first = |p: &str| p.split('/').next().unwrap_or("x").to_owned();
    let spell = |rng: &mut Rng, p: &str, directory: bool| -> String {
        if p.ends_with('/') {
            return p.to_owned();
        }
        match rng.below(if directory { 8 } else { 6 }) {
            0 | 1 | 2 => p.to_owned(),
            3 | 4 => format!("./{}", p),
            5 => format!("{}/../{}", first(p), p),
            6 => format!("{}/.", p),
            _ => format!("{}/", p),
        }
    };
    let input_arg = spell(&mut rng3, &input, input_is_dir);
    let output_arg = output.as_ref().map(|out| {
        let directory = files.keys().any(|k| k.starts_with(&format!("{}/", out)))
            || (!files.contains_key(out) && !out.rsplit('/').next().unwrap_or("").contains('.'));
        spell(&mut rng3, out, directory)
    });
    let fail_fast = rng.chance(1, 4);
    let stamp = bundle && (shape == "dir-in-place" || shape == "dir->itself") && rng.chance(1, 2);
    Scenario {
        id,
        files,
        extra_dirs,
        input,
        output,
        fail_fast,
        bundle,
        stamp,
        identity,
        input_arg,
        output_arg,
        prepopulated,
        faulty,
        shape,
    }
}

fn config_of(scenario: &Scenario) -> String {
    config_text3(scenario.bundle, scenario.stamp, scenario.identity)
}

fn config_text3(bundle: bool, stamp: bool, identity: bool) -> String {
    if identity {
        return r#"{ "rules": [], "generator": "retain_lines" }"#.to_owned();
    }
    if stamp {
        r#"{ "rules": [{ "rule": "append_text_comment", "text": "stamp" }], "generator": "retain_lines", "bundle": { "require_mode": "path" } }"#
            .to_owned()
    } else if bundle {
        r#"{ "rules": ["remove_comments"], "generator": "dense", "bundle": { "require_mode": "path" } }"#
            .to_owned()
    } else {
        r#"{ "rules": ["remove_comments"], "generator": "dense" }"#.to_owned()
    }
}

fn options(scenario: &Scenario) -> Options {
    let mut options = Options::new(&scenario.input_arg).with_configuration_at(CONFIG);
    if let Some(output) = scenario.output_arg.as_ref() {
        options = options.with_output(output);
    }
    if scenario.fail_fast {
        options = options.fail_fast();
    }
    options
}

fn tree_of_items(tree: &darklua_core::WorkerTree) -> Value {
    let dump = tree.verif_dump();
    let mut items: Vec<Value> = dump
        .items
        .iter()
        .map(|(_index, source, output, status, error, _external)| {
            json!({
                "source": source.display().to_string(),
                "output": output.display().to_string(),
                "status": status,
                "error": error,
            })
        })
        .collect();
    items.sort_by_key(|item| item["source"].as_str().map(str::to_owned));
    Value::Array(items)
}

fn run_memory(scenario: &Scenario, skip: &[String]) -> Value {
    let resources = Resources::from_memory();
    let mut before = BTreeMap::new();
    for (path, content) in &scenario.files {
        if skip.contains(path) {
            continue;
        }
        // memory resources hold strings: invalid UTF-8 is a disk-only fault
        let text = String::from_utf8_lossy(&content.bytes()).into_owned();
        resources.write(path, &text).unwrap();
        before.insert(path.clone(), text);
    }
    let config = config_of(scenario);
    resources.write(CONFIG, &config).unwrap();
    before.insert(CONFIG.to_owned(), config);
    let outcome = catch_unwind(AssertUnwindSafe(|| darklua_core::process(&resources, options(scenario))));
    let mut after = BTreeMap::new();
    for path in resources.walk("") {
        let text = resources.get(&path).unwrap_or_default();
        after.insert(path.display().to_string(), hex(text.as_bytes()));
    }
    let before: BTreeMap<String, String> = before.into_iter().map(|(p, c)| (p, hex(c.as_bytes()))).collect();
    match outcome {
        Err(_) => json!({ "panic": true, "before": before, "after": after }),
        Ok(Err(err)) => json!({ "process_error": err.to_string(), "before": before, "after": after }),
        Ok(Ok(tree)) => json!({ "items": tree_of_items(&tree), "before": before, "after": after }),
    }
}

fn read_tree(root: &Path) -> (BTreeMap<String, String>, Vec<String>) {
    let mut files = BTreeMap::new();
    let mut dirs = Vec::new();
    let mut stack = vec![root.to_path_buf()];
    while let Some(dir) = stack.pop() {
        let mut entries: Vec<PathBuf> = std::fs::read_dir(&dir)
            .map(|rd| rd.filter_map(|e| e.ok().map(|e| e.path())).collect())
            .unwrap_or_default();
        entries.sort();
        for entry in entries {
            let relative = entry.strip_prefix(root).unwrap().display().to_string();
            if entry.is_dir() {
                dirs.push(relative);
                stack.push(entry);
            } else {
                let bytes = std::fs::read(&entry).unwrap_or_default();
                files.insert(relative, hex(&bytes));
            }
        }
    }
    dirs.sort();
    (files, dirs)
}

fn run_disk(scenario: &Scenario, skip: &[String], root: &Path) -> Value {
    let _ = std::fs::remove_dir_all(root);
    std::fs::create_dir_all(root).unwrap();
    for dir in &scenario.extra_dirs {
        std::fs::create_dir_all(root.join(dir)).unwrap();
    }
    for (path, content) in &scenario.files {
        if skip.contains(path) {
            continue;
        }
        let full = root.join(path);
        if let Some(parent) = full.parent() {
            // a parent may already exist as a plain file (unwritable destination scenario)
            let _ = std::fs::create_dir_all(parent);
        }
        let _ = std::fs::write(&full, content.bytes());
    }
    std::fs::write(root.join(CONFIG), config_of(scenario)).unwrap();
    let (before, dirs_before) = read_tree(root);
    std::env::set_current_dir(root).unwrap();
    let resources = Resources::from_file_system();
    let outcome = catch_unwind(AssertUnwindSafe(|| darklua_core::process(&resources, options(scenario))));
    std::env::set_current_dir("/").unwrap();
    let (after, dirs_after) = read_tree(root);
    match outcome {
        Err(_) => json!({ "panic": true, "before": before, "after": after, "dirs_before": dirs_before, "dirs_after": dirs_after }),
        Ok(Err(err)) => {
            json!({ "process_error": err.to_string(), "before": before, "after": after, "dirs_before": dirs_before, "dirs_after": dirs_after })
        }
        Ok(Ok(tree)) => {
            json!({ "items": tree_of_items(&tree), "before": before, "after": after, "dirs_before": dirs_before, "dirs_after": dirs_after })
        }
    }
}

fn describe(scenario: &Scenario) -> Value {
    json!({
        "id": scenario.id,
        "shape": scenario.shape,
        "input": scenario.input,
        "output": scenario.output,
        "fail_fast": scenario.fail_fast,
        "bundle": scenario.bundle,
        "stamp": scenario.stamp,
        "identity": scenario.identity,
        "input_arg": scenario.input_arg,
        "output_arg": scenario.output_arg,
        "prepopulated": scenario.prepopulated,
        "faulty": scenario.faulty,
        "kinds": scenario.files.iter().map(|(p, c)| (p.clone(), Value::String(format!("{:?}", c)))).collect::<serde_json::Map<_, _>>(),
        "extra_dirs": scenario.extra_dirs,
    })
}

/// the output location when it is separate from the input
fn separate_output(scenario: &Scenario) -> Option<String> {
    let out = scenario.output.as_deref()?.trim_end_matches('/').to_owned();
    let input = &scenario.input;
    if out == *input || out.starts_with(&format!("{}/", input)) || input.starts_with(&format!("{}/", out)) {
        None
    } else {
        Some(out)
    }
}

/// run, edit a source, run, restore it, run: the tree afterwards (same resources all along)
fn run_memory_sequence(scenario: &Scenario, victim: &str) -> Value {
    let resources = Resources::from_memory();
    for (path, content) in &scenario.files {
        resources.write(path, &String::from_utf8_lossy(&content.bytes())).unwrap();
    }
    resources.write(CONFIG, &config_of(scenario)).unwrap();
    let original = resources.get(victim).unwrap_or_default();
    let outcome = catch_unwind(AssertUnwindSafe(|| {
        let _ = darklua_core::process(&resources, options(scenario));
        resources.write(victim, &format!("{}local edited_in_between = 1\n", original)).unwrap();
        let _ = darklua_core::process(&resources, options(scenario));
        resources.write(victim, &original).unwrap();
        darklua_core::process(&resources, options(scenario)).is_ok()
    }));
    let mut after = BTreeMap::new();
    for path in resources.walk("") {
        after.insert(path.display().to_string(), hex(resources.get(&path).unwrap_or_default().as_bytes()));
    }
    json!({ "victim": victim, "ok": outcome.unwrap_or(false), "after": after })
}

fn run_disk_sequence(scenario: &Scenario, victim: &str, root: &Path) -> Value {
    let first = run_disk(scenario, &[], root);
    if first.get("items").is_none() {
        return json!({ "victim": victim, "ok": false, "after": first["after"] });
    }
    let original = std::fs::read(root.join(victim)).unwrap_or_default();
    std::env::set_current_dir(root).unwrap();
    let resources = Resources::from_file_system();
    let outcome = catch_unwind(AssertUnwindSafe(|| {
        let mut edited = original.clone();
        edited.extend_from_slice(b"local edited_in_between = 1\n");
        std::fs::write(victim, &edited).unwrap();
        let _ = darklua_core::process(&resources, options(scenario));
        std::fs::write(victim, &original).unwrap();
        darklua_core::process(&resources, options(scenario)).is_ok()
    }));
    std::env::set_current_dir("/").unwrap();
    let (after, _) = read_tree(root);
    json!({ "victim": victim, "ok": outcome.unwrap_or(false), "after": after })
}

fn run_scenario(scenario: &Scenario, disk_root: Option<&Path>) -> Value {
    let mut record = describe(scenario);
    // the same run WITHOUT the files that were already sitting at output paths
    let output_dir = separate_output(scenario);
    let under_output: Vec<String> = scenario.prepopulated.clone();
    // a healthy Lua file of the input to edit and restore between runs
    let victim = scenario
        .files
        .iter()
        .find(|(p, c)| {
            matches!(c, Content::Good(_))
                && is_lua(p)
                && (*p == &scenario.input || p.starts_with(&format!("{}/", scenario.input)))
        })
        .map(|(p, _)| p.clone());
    let sequence = output_dir.is_some() && !scenario.fail_fast && !scenario.stamp;
    match disk_root {
        None => {
            record["full"] = run_memory(scenario, &[]);
            record["without_faulty"] = run_memory(scenario, &scenario.faulty);
            if !under_output.is_empty() {
                record["clean_output"] = run_memory(scenario, &under_output);
            }
            if let (true, Some(victim)) = (sequence, victim.as_ref()) {
                record["sequence"] = run_memory_sequence(scenario, victim);
            }
        }
        Some(root) => {
            let case_root = root.join(format!("case_{}", scenario.id));
            record["full"] = run_disk(scenario, &[], &case_root.join("full"));
            record["without_faulty"] = run_disk(scenario, &scenario.faulty, &case_root.join("without"));
            if !under_output.is_empty() {
                record["clean_output"] = run_disk(scenario, &under_output, &case_root.join("clean"));
            }
            if let (true, Some(victim)) = (sequence, victim.as_ref()) {
                record["sequence"] = run_disk_sequence(scenario, victim, &case_root.join("sequence"));
            }
            let _ = std::fs::remove_dir_all(&case_root);
        }
    }
    record
}


// ---------------------------------------------------------------------------------------------
// `.luaurc` scenarios: nested configurations overriding an alias, processed in forced orders and
// in sequences of runs on one thread

const RC_DIRS: [&str; 4] = ["src", "src/nested", "src/nested/deep", "src/other"];
const LIBS: [&str; 3] = ["a", "b", "c"];

struct RcScenario {
    id: u64,
    config: &'static str,
    /// two trees with the same Lua files and different aliases
    trees: [BTreeMap<String, String>; 2],
    /// per tree: file -> expected library letter (None: no `.luaurc` applies, the file fails)
    expected: [BTreeMap<String, Option<&'static str>>; 2],
}

fn rc_config(name: &str) -> String {
    match name {
        "bundle-path" => r#"{ "rules": [], "generator": "dense", "bundle": { "require_mode": "path" } }"#.to_owned(),
        "bundle-luau" => r#"{ "rules": [], "generator": "dense", "bundle": { "require_mode": "luau" } }"#.to_owned(),
        _ => r#"{ "rules": [{ "rule": "convert_require", "current": "path", "target": "luau" }], "generator": "dense" }"#.to_owned(),
    }
}

fn up_to_src(dir: &str) -> String {
    let depth = dir.split('/').count() - 1;
    "../".repeat(depth)
}

fn generate_rc(seed: u64, id: u64) -> RcScenario {
    let mut rng = Rng::new(seed.wrapping_mul(104_729).wrapping_add(id).wrapping_add(0xC11));
    let config = *rng.pick(&["bundle-path", "bundle-luau", "convert-require"]);
    // which directories have their own `.luaurc`, and which Lua files exist (shared by both trees)
    let has_rc: Vec<bool> = vec![rng.chance(5, 6), rng.chance(1, 2), rng.chance(1, 2), rng.chance(1, 3)];
    let mut lua_files = Vec::new();
    for dir in RC_DIRS {
        lua_files.push(format!("{}/f0.lua", dir));
        if rng.chance(1, 2) {
            lua_files.push(format!("{}/g0.luau", dir));
        }
    }
    let mut trees = [BTreeMap::new(), BTreeMap::new()];
    let mut expected = [BTreeMap::new(), BTreeMap::new()];
    for which in 0..2 {
        let mut alias_of_dir: Vec<Option<&'static str>> = Vec::new();
        for (index, dir) in RC_DIRS.iter().enumerate() {
            if has_rc[index] {
                let letter = *rng.pick(&LIBS);
                alias_of_dir.push(Some(letter));
                trees[which].insert(
                    format!("{}/.luaurc", dir),
                    format!("{{ \"aliases\": {{ \"Lib\": \"{}libs_{}\" }} }}\n", up_to_src(dir), letter),
                );
            } else {
                alias_of_dir.push(None);
            }
        }
        for letter in LIBS {
            trees[which].insert(
                format!("src/libs_{}/value.lua", letter),
                format!("return \"LIB_{}\"\n", letter.to_uppercase()),
            );
        }
        for (n, file) in lua_files.iter().enumerate() {
            trees[which].insert(
                file.clone(),
                format!("local v = require(\"@Lib/value\")\nreturn v .. \"{}\"\n", n),
            );
            // the closest `.luaurc`: the directory of the file, then its ancestors
            let dir = Path::new(file).parent().unwrap().display().to_string();
            let closest = RC_DIRS
                .iter()
                .enumerate()
                .filter(|(index, d)| has_rc[*index] && (dir == **d || dir.starts_with(&format!("{}/", d))))
                .max_by_key(|(_, d)| d.len())
                .and_then(|(index, _)| alias_of_dir[index]);
            expected[which].insert(file.clone(), closest);
        }
        trees[which].insert(CONFIG.to_owned(), rc_config(config));
    }
    RcScenario { id, config, trees, expected }
}

fn rc_resources(tree: &BTreeMap<String, String>) -> Resources {
    let resources = Resources::from_memory();
    for (path, content) in tree {
        resources.write(path, content).unwrap();
    }
    resources
}

fn rc_outputs(resources: &Resources) -> BTreeMap<String, String> {
    resources
        .walk("out")
        .map(|path| (path.display().to_string(), hex(resources.get(&path).unwrap_or_default().as_bytes())))
        .collect()
}

fn rc_options() -> Options {
    Options::new("src").with_output("out").with_configuration_at(CONFIG)
}

/// `darklua_core::process`: the enumeration order of the resources
fn rc_run_collect(tree: &BTreeMap<String, String>) -> Value {
    let resources = rc_resources(tree);
    match catch_unwind(AssertUnwindSafe(|| darklua_core::process(&resources, rc_options()))) {
        Ok(Ok(worker)) => json!({ "out": rc_outputs(&resources), "items": tree_of_items(&worker) }),
        Ok(Err(err)) => json!({ "process_error": err.to_string() }),
        Err(_) => json!({ "panic": true }),
    }
}

/// the sources added one by one in the given order, then one `WorkerTree::process`
fn rc_run_ordered(tree: &BTreeMap<String, String>, order: &[String]) -> Value {
    let resources = rc_resources(tree);
    let outcome = catch_unwind(AssertUnwindSafe(|| {
        let mut worker = darklua_core::WorkerTree::default();
        for source in order {
            let relative = Path::new(source).strip_prefix("src").unwrap();
            worker.add_source(source, Some(Path::new("out").join(relative)));
        }
        worker.process(&resources, rc_options()).map(|_| worker)
    }));
    match outcome {
        Ok(Ok(worker)) => json!({ "out": rc_outputs(&resources), "items": tree_of_items(&worker) }),
        Ok(Err(err)) => json!({ "process_error": err.to_string() }),
        Err(_) => json!({ "panic": true }),
    }
}

fn in_new_thread<T: Send + 'static>(work: impl FnOnce() -> T + Send + 'static) -> T {
    std::thread::spawn(work).join().expect("thread")
}

fn run_rc_scenario(scenario: &RcScenario) -> Value {
    let mut record = json!({
        "id": scenario.id,
        "config": scenario.config,
        "trees": scenario.trees.iter().map(|tree| {
            tree.iter().filter(|(p, _)| p.ends_with(".luaurc")).map(|(p, c)| (p.clone(), Value::String(c.trim().to_owned()))).collect::<serde_json::Map<_, _>>()
        }).collect::<Vec<_>>(),
        "files": scenario.trees.iter().map(|tree| {
            tree.iter().map(|(p, c)| (p.clone(), Value::String(hex(c.as_bytes())))).collect::<serde_json::Map<_, _>>()
        }).collect::<Vec<_>>(),
        "expected": scenario.expected.iter().map(|e| {
            e.iter().map(|(p, l)| (p.clone(), json!(l))).collect::<serde_json::Map<_, _>>()
        }).collect::<Vec<_>>(),
    });
    let sources = |tree: &BTreeMap<String, String>| -> Vec<String> {
        tree.keys().filter(|p| is_lua(p)).cloned().collect()
    };
    // ---- one run, the files enumerated in several orders; every run on its own thread
    let mut orders = serde_json::Map::new();
    for which in 0..2 {
        let tree = scenario.trees[which].clone();
        let ascending = sources(&tree);
        let mut descending = ascending.clone();
        descending.reverse();
        let mut rng = Rng::new(scenario.id.wrapping_mul(31).wrapping_add(which as u64));
        let mut shuffled = ascending.clone();
        for i in (1..shuffled.len()).rev() {
            shuffled.swap(i, rng.below(i + 1));
        }
        // deepest directories first / last: the orders in which a parent's configuration is
        // resolved before or after the one of a nested directory
        let mut shallow_first = ascending.clone();
        shallow_first.sort_by_key(|p| (p.matches('/').count(), p.clone()));
        let mut deep_first = shallow_first.clone();
        deep_first.reverse();
        let t = tree.clone();
        orders.insert(format!("{}:collect", which), in_new_thread(move || rc_run_collect(&t)));
        for (name, order) in [
            ("ascending", ascending),
            ("descending", descending),
            ("shuffled", shuffled),
            ("shallow-first", shallow_first),
            ("deep-first", deep_first),
        ] {
            let t = tree.clone();
            orders.insert(
                format!("{}:{}", which, name),
                in_new_thread(move || rc_run_ordered(&t, &order)),
            );
        }
    }
    record["orders"] = Value::Object(orders);
    // ---- runs one after the other ON ONE THREAD: A, B, B, A; compared with each tree alone
    let trees = scenario.trees.clone();
    record["sequence"] = in_new_thread(move || {
        json!([
            rc_run_collect(&trees[0]),
            rc_run_collect(&trees[1]),
            rc_run_collect(&trees[1]),
            rc_run_collect(&trees[0]),
        ])
    });
    record
}

fn main() {
    let args: Vec<String> = std::env::args().skip(1).collect();
    let mode = args.first().cloned().unwrap_or_default();
    std::panic::set_hook(Box::new(|_| {}));
    let seed = arg_u64(&args, "--seed", 1);
    let count = arg_u64(&args, "--n", 50);
    let root = arg_value(&args, "--root").map(PathBuf::from);
    match mode.as_str() {
        "mem" => {
            for id in 0..count {
                let scenario = generate(seed, id, false);
                println!("{}", run_scenario(&scenario, None));
            }
        }
        "disk" => {
            let root = root.expect("--root DIR");
            assert!(root.starts_with("/tmp"), "scenario directories must live under /tmp");
            std::fs::create_dir_all(&root).ok();
            println!("{}", json!({ "case_sensitive_file_system": probe_case_sensitivity(&root) }));
            for id in 0..count {
                let scenario = generate(seed, id, true);
                println!("{}", run_scenario(&scenario, Some(&root)));
            }
        }
        "luaurc" => {
            for id in 0..count {
                println!("{}", run_rc_scenario(&generate_rc(seed, id)));
            }
        }
        "one" => {
            let id = arg_u64(&args, "--case", 0);
            let disk = root.is_some();
            if let Some(root) = root.as_ref() {
                std::fs::create_dir_all(root).ok();
                probe_case_sensitivity(root);
            }
            let scenario = generate(seed, id, disk);
            println!("{}", run_scenario(&scenario, root.as_deref()));
        }
        _ => {
            eprintln!("usage: dl-c11 mem|disk|luaurc|one --seed S --n N [--root DIR]");
            std::process::exit(2);
        }
    }
}
