//! `dl-rules gen --profile c01|c06|c16|c17 --seed S --n N`
//!
//! For each generated program prints one tab-separated line:
//!   id  profile  rules(json)  generator  src(hex)  IN-term  OUT-term(rules applied to the AST)
//!   E2E-term(text written by darklua_core::process, re-parsed)  REF-term(program whose behaviour OUT must have)
//! A term column holds `ERR:<message>` when that stage failed.



use std::panic::{catch_unwind, AssertUnwindSafe};

use darklua_core::nodes::Block;
use darklua_core::rules::{ContextBuilder, Rule};
use darklua_core::{Configuration, Options, Parser, Resources};
use proggen::{Features, Gen};
use hutil::{arg_u64, arg_value, hex, Rng};

const DEFAULT_RULES: &[&str] = &[
    "remove_spaces",
    "remove_comments",
    "compute_expression",
    "remove_unused_if_branch",
    "remove_unused_while",
    "filter_after_early_return",
    "remove_empty_do",
    "remove_unused_variable",
    "remove_method_definition",
    "convert_index_to_field",
    "remove_nil_declaration",
    "rename_variables",
    "remove_function_call_parens",
];

const LOWERING_RULES: &[&str] = &[
    "remove_compound_assignment",
    "remove_continue",
    "remove_if_expression",
    "remove_interpolated_string",
    "remove_floor_division",
    "convert_luau_number",
    "make_assignment_local",
    "remove_types",
];

const REFACTOR_RULES: &[&str] = &[
    "group_local_assignment",
    "convert_local_function_to_assign",
    "convert_function_to_assignment",
    "remove_method_call",
    "convert_square_root_call",
];

fn unhex(s: &str) -> Vec<u8> {
    (0..s.len() / 2)
        .filter_map(|i| u8::from_str_radix(&s[2 * i..2 * i + 2], 16).ok())
        .collect()
}

fn one_line(message: impl ToString) -> String {
    message.to_string().replace(['\n', '\r', '\t'], " ")
}

fn quote(names: &[String]) -> String {
    format!("[{}]", names.join(", "))
}

/// line comments at the end of random lines and on lines of their own: rules that drop or build nodes and the
/// token-preserving generator must cope with trivia everywhere
fn commentify(source: &str, rng: &mut Rng) -> String {
    let mut out = String::new();
    for line in source.lines() {
        if rng.chance(1, 6) {
            out.push_str("-- note\n");
        }
        out.push_str(line);
        if rng.chance(1, 3) && !line.contains("[[") && !line.contains('`') && !line.contains("--") {
            out.push_str(*rng.pick(&[" -- c", " --[[b]]", " -- trailing ]] x", " --- doc"]));
        }
        out.push('\n');
    }
    out
}

fn pick_rules(rng: &mut Rng, pool: &[&str]) -> Vec<String> {
    let q = |s: &str| format!("\"{}\"", s);
    match rng.below(3) {
        0 => pool.iter().map(|s| q(s)).collect(),
        1 => vec![q(*rng.pick(pool))],
        _ => {
            let mut v: Vec<String> = pool.iter().filter(|_| rng.chance(1, 2)).map(|s| q(s)).collect();
            // shuffle
            for i in (1..v.len()).rev() {
                let j = rng.below(i + 1);
                v.swap(i, j);
            }
            if v.is_empty() {
                v.push(q(*rng.pick(pool)));
            }
            v
        }
    }
}

struct Case {
    rules: Vec<String>,
    prelude: String,
    features: Features,
}

fn make_case(profile: &str, rng: &mut Rng) -> Case {
    let mut f = Features::default();
    f.meta = rng.chance(1, 2);
    match profile {
        "c01" => {
            f.foldable = true;
            f.luau = rng.chance(1, 4);
            Case { rules: pick_rules(rng, DEFAULT_RULES), prelude: String::new(), features: f }
        }
        "c06" => {
            f.luau = true;
            f.foldable = rng.chance(1, 3);
            let mut rules = pick_rules(rng, LOWERING_RULES);
            if rng.chance(1, 4) {
                rules.extend(pick_rules(rng, DEFAULT_RULES));
            }
            Case { rules, prelude: String::new(), features: f }
        }
        "c16" => {
            f.refactor = true;
            f.foldable = rng.chance(1, 3);
            let mut rules = pick_rules(rng, REFACTOR_RULES);
            if rng.chance(1, 3) {
                rules.extend(pick_rules(rng, DEFAULT_RULES));
            }
            Case { rules, prelude: String::new(), features: f }
        }
        _ => {
            f.removal = true;
            let mut rules = Vec::new();
            let mut prelude = String::new();
            if rng.chance(2, 3) {
                rules.push("\"remove_assertions\"".to_owned());
                prelude.push_str("assert = function(...) return ... end ");
            }
            if rng.chance(2, 3) {
                rules.push("\"remove_debug_profiling\"".to_owned());
                prelude.push_str("debug.profilebegin = function() end debug.profileend = function() end ");
            }
            if rng.chance(2, 3) || rules.is_empty() {
                let (json, lua) = *rng.pick(&[
                    ("3", "3"),
                    ("true", "true"),
                    ("false", "false"),
                    ("\"text\"", "\"text\""),
                    ("null", "nil"),
                    ("1.5", "1.5"),
                    ("-4", "-4"),
                    ("[-1, 2, -2.5, -40]", "{ -1, 2, -2.5, -40 }"),
                    ("{ offset: -3 }", "{ offset = -3 }"),
                    ("[1, null, 3]", "{ [1] = 1, [3] = 3 }"),
                ]);
                let name = *rng.pick(&["DEBUG_LEVEL", "DEBUG"]);
                rules.push(format!("{{ rule: \"inject_global_value\", identifier: \"{}\", value: {} }}", name, json));
                prelude.push_str(&format!("{} = {} ", name, lua));
            }
            Case { rules, prelude, features: f }
        }
    }
}

fn term_of(result: Result<Block, String>) -> String {
    match result {
        Ok(block) => astdump::block_to_coq(&block),
        Err(message) => format!("ERR:{}", one_line(message)),
    }
}

fn parse(source: &str) -> Result<Block, String> {
    match catch_unwind(AssertUnwindSafe(|| Parser::default().parse(source))) {
        Ok(Ok(block)) => Ok(block),
        Ok(Err(err)) => Err(format!("parse: {}", err)),
        Err(_) => Err("parse: panic".to_owned()),
    }
}

fn apply_to_ast(source: &str, rules_json: &str) -> Result<Block, String> {
    let rules: Vec<Box<dyn Rule>> = json5::from_str(rules_json).map_err(|e| format!("config: {}", e))?;
    let mut block = parse(source)?;
    let resources = Resources::from_memory();
    let _ = resources.write("src/main.lua", source);
    for rule in &rules {
        let context = ContextBuilder::new("src/main.lua", &resources, source).build();
        match catch_unwind(AssertUnwindSafe(|| rule.process(&mut block, &context))) {
            Ok(Ok(())) => {}
            Ok(Err(err)) => return Err(format!("rule {}: {}", rule.get_name(), err)),
            Err(_) => return Err(format!("rule {}: panic", rule.get_name())),
        }
    }
    Ok(block)
}

fn end_to_end(source: &str, rules_json: &str, generator: &str) -> Result<String, String> {
    end_to_end_with_module(source, rules_json, generator, None)
}

/// with a module: `src/m.lua` holds it, the configuration bundles (path mode) and the rules run on the bundle
fn end_to_end_with_module(source: &str, rules_json: &str, generator: &str, module: Option<&str>) -> Result<String, String> {
    let config_text = if module.is_some() {
        format!("{{ generator: {}, rules: {}, bundle: {{ require_mode: \"path\" }} }}", generator, rules_json)
    } else {
        format!("{{ generator: {}, rules: {} }}", generator, rules_json)
    };
    let config: Configuration = json5::from_str(&config_text).map_err(|e| format!("config: {}", e))?;
    let resources = Resources::from_memory();
    resources.write("src/main.lua", source).map_err(|e| format!("write: {:?}", e))?;
    if let Some(module) = module {
        resources.write("src/m.lua", module).map_err(|e| format!("write: {:?}", e))?;
    }
    let result = catch_unwind(AssertUnwindSafe(|| {
        darklua_core::process(&resources, Options::new("src/main.lua").with_configuration(config))
    }));
    match result {
        Ok(Ok(worker)) => {
            let errors: Vec<String> = worker.collect_errors().iter().map(|e| e.to_string()).collect();
            if !errors.is_empty() {
                return Err(format!("process: {}", errors.join("; ")));
            }
        }
        Ok(Err(err)) => return Err(format!("process: {}", err)),
        Err(_) => return Err("process: panic".to_owned()),
    }
    resources.get("src/main.lua").map_err(|e| format!("read: {:?}", e))
}

fn main() {
    let args: Vec<String> = std::env::args().skip(1).collect();
    let sub = args.first().map(String::as_str).unwrap_or("");
    match sub {
        "gen" => {
            let profile = arg_value(&args, "--profile").unwrap_or_else(|| "c01".to_owned());
            let seed = arg_u64(&args, "--seed", 1);
            let n = arg_u64(&args, "--n", 100);
            let size = arg_u64(&args, "--size", 7) as usize;
            let mut rng = Rng::new(seed ^ 0x5eed_0000);
            // fixed part (profile c01): comment-bearing snippets x rule subsets that keep the comments, written by the
            // token-preserving generator - nodes built by a rule have no token and are written next to the trivia of
            // their neighbours
            let mut fixed: Vec<(String, String, &'static str)> = Vec::new();
            if profile == "c01" {
                let snippets = [
                    "local dbg = -- set by the build\n  1 == 2\next_p(dbg)\nreturn dbg",
                    "local function resolved()\n  return -- resolved at build time\n    1 == 2\nend\next_p(resolved())",
                    "ext_p(-- note\n  1 + 1 == 2, \"x\" .. -- c\n  \"y\", not -- why\n  nil)",
                    "local t = { -- first\n  1 + 1, -- second\n  k = -- third\n    2 * 3 }\next_p(t[1], t.k)",
                    "if -- always\n  1 < 2 then -- yes\n  ext_p(1) -- after\nelse -- no\n  ext_p(2)\nend",
                    "local unused = -- dropped\n  ext_n(1) -- kept call\next_p(\"after\")",
                    "while -- never\n  false do -- body\n  ext_p(\"never\")\nend -- done\next_p(\"next\")",
                    "do -- empty\nend -- gone\next_p(1) -- stays",
                    "local a, b = -- two\n  nil, -- first nil\n  ext_n(2) -- second\next_p(a, b)",
                    "local obj = { v = 1 } -- table\nfunction obj:get() -- method\n  return self.v -- field\nend\next_p(obj:get(), obj[\"v\"]) -- index",
                ];
                let subsets: &[&[&str]] = &[
                    &["remove_spaces", "compute_expression"],
                    &["compute_expression", "remove_spaces"],
                    &["remove_spaces", "compute_expression", "remove_unused_if_branch", "remove_unused_while"],
                    &["remove_spaces", "remove_unused_variable", "remove_empty_do", "remove_nil_declaration"],
                    &["compute_expression"],
                    &["remove_spaces"],
                    &["remove_spaces", "remove_method_definition", "convert_index_to_field", "remove_function_call_parens"],
                    &["remove_spaces", "compute_expression", "remove_unused_if_branch", "remove_unused_while",
                      "filter_after_early_return", "remove_empty_do", "remove_unused_variable", "remove_method_definition",
                      "convert_index_to_field", "remove_nil_declaration", "remove_function_call_parens"],
                ];
                for snippet in snippets {
                    for subset in subsets {
                        let rules: Vec<String> = subset.iter().map(|r| format!("\"{}\"", r)).collect();
                        fixed.push((snippet.to_owned(), quote(&rules), "\"retain_lines\""));
                    }
                }
            }
            let fixed_count = fixed.len() as u64;
            for (k, (source, rules_json, generator)) in fixed.into_iter().enumerate() {
                let input = term_of(parse(&source));
                let out_ast = term_of(apply_to_ast(&source, &rules_json));
                let e2e = match end_to_end(&source, &rules_json, generator) {
                    Ok(text) => term_of(parse(&text).map_err(|e| format!("output does not parse ({}): {}", e, text))),
                    Err(e) => format!("ERR:{}", one_line(e)),
                };
                println!(
                    "{}\t{}\t{}\t{}\t{}\t{}\t{}\t{}\tSAME",
                    1_000_000 + k as u64, profile, rules_json, generator, hex(source.as_bytes()), input, out_ast, e2e
                );
            }
            let _ = fixed_count;
            for id in 0..n {
                let case = make_case(&profile, &mut rng);
                let mut source = Gen::new(&mut rng, case.features.clone()).program(size);
                if rng.chance(1, 3) {
                    source = commentify(&source, &mut rng);
                }
                let rules_json = quote(&case.rules);
                let generator = *rng.pick(&["\"retain_lines\"", "\"retain_lines\"", "\"dense\"", "\"readable\"", "{ name: \"dense\", column_span: 20 }"]);
                let input = term_of(parse(&source));
                let out_ast = term_of(apply_to_ast(&source, &rules_json));
                let e2e_text = end_to_end(&source, &rules_json, generator);
                let e2e = match &e2e_text {
                    Ok(text) => term_of(parse(text).map_err(|e| format!("output does not parse ({}): {}", e, text))),
                    Err(e) => format!("ERR:{}", one_line(e)),
                };
                let reference = if case.prelude.is_empty() {
                    "SAME".to_owned()
                } else {
                    term_of(parse(&format!("{}\n{}", case.prelude, source)))
                };
                println!(
                    "{}\t{}\t{}\t{}\t{}\t{}\t{}\t{}\t{}",
                    id,
                    profile,
                    rules_json,
                    generator,
                    hex(source.as_bytes()),
                    input,
                    out_ast,
                    e2e,
                    reference
                );
            }
        }
        "apply-batch" => {
            // stdin: one case per line `<rules json>\t<generator json>\t<source hex>`;
            // stdout: `<IN term>\t<OUT term>\t<E2E term>\t<E2E text hex or ->`
            use std::io::BufRead;
            let stdin = std::io::stdin();
            for line in stdin.lock().lines() {
                let line = line.expect("stdin");
                let parts: Vec<&str> = line.split('\t').collect();
                if parts.len() != 3 && parts.len() != 4 {
                    continue;
                }
                let rules_json = parts[0];
                let generator = parts[1];
                let source = String::from_utf8(unhex(parts[2])).unwrap_or_default();
                // optional fourth field: a module `src/m.lua` (hex) that the entry requires; the run then bundles
                let module = parts.get(3).map(|m| String::from_utf8(unhex(m)).unwrap_or_default());
                let input = term_of(parse(&source));
                let out_ast = term_of(apply_to_ast(&source, rules_json));
                let e2e_text = end_to_end_with_module(&source, rules_json, generator, module.as_deref());
                let (e2e, text_hex) = match &e2e_text {
                    Ok(text) => (
                        term_of(parse(text).map_err(|e| format!("output does not parse ({}): {}", e, text))),
                        hex(text.as_bytes()),
                    ),
                    Err(e) => (format!("ERR:{}", one_line(e)), "-".to_owned()),
                };
                println!("{}\t{}\t{}\t{}", input, out_ast, e2e, text_hex);
            }
        }
        "show" => {
            // print the generated sources only (debugging)
            let profile = arg_value(&args, "--profile").unwrap_or_else(|| "c01".to_owned());
            let seed = arg_u64(&args, "--seed", 1);
            let n = arg_u64(&args, "--n", 3);
            let size = arg_u64(&args, "--size", 7) as usize;
            let mut rng = Rng::new(seed ^ 0x5eed_0000);
            for id in 0..n {
                let case = make_case(&profile, &mut rng);
                let source = Gen::new(&mut rng, case.features.clone()).program(size);
                let _ = rng.pick(&[0, 1, 2, 3]);
                println!("-- case {} rules {}\n{}", id, quote(&case.rules), source);
            }
        }
        _ => {
            eprintln!("dl-rules: unknown subcommand {:?}", sub);
            std::process::exit(2);
        }
    }
}
