//! Shared helpers: PRNG, hex rendering, argument parsing.

pub struct Rng(u64);

impl Rng {
    pub fn new(seed: u64) -> Self {
        Rng(seed.wrapping_mul(0x9E3779B97F4A7C15).wrapping_add(0x1234567))
    }
    pub fn next(&mut self) -> u64 {
        // splitmix64
        self.0 = self.0.wrapping_add(0x9E3779B97F4A7C15);
        let mut z = self.0;
        z = (z ^ (z >> 30)).wrapping_mul(0xBF58476D1CE4E5B9);
        z = (z ^ (z >> 27)).wrapping_mul(0x94D049BB133111EB);
        z ^ (z >> 31)
    }
    pub fn below(&mut self, n: usize) -> usize {
        if n == 0 {
            0
        } else {
            (self.next() % n as u64) as usize
        }
    }
    pub fn chance(&mut self, num: usize, den: usize) -> bool {
        self.below(den) < num
    }
    pub fn pick<'a, T>(&mut self, items: &'a [T]) -> &'a T {
        &items[self.below(items.len())]
    }
}

pub fn hex(bytes: &[u8]) -> String {
    let mut s = String::with_capacity(bytes.len() * 2);
    for b in bytes {
        s.push_str(&format!("{:02x}", b));
    }
    s
}

pub fn arg_value(args: &[String], name: &str) -> Option<String> {
    args.iter()
        .position(|a| a == name)
        .and_then(|i| args.get(i + 1).cloned())
}

pub fn arg_u64(args: &[String], name: &str, default: u64) -> u64 {
    arg_value(args, name)
        .and_then(|v| v.parse().ok())
        .unwrap_or(default)
}
