//! Seeded generator of syntax trees built through darklua's public node constructors.
//! The trees are biased towards the corners the C02 property names: numbers next to `..`, `.`
//! and names, long strings next to `[`, unary chains, call statements followed by a statement
//! starting with `(`, operators of every precedence with both associativities.

use std::str::FromStr;

use darklua_core::nodes::*;
use hutil::Rng;

pub const NAMES: &[&str] = &[
    "a", "b", "e", "E", "x1", "_", "_0", "f", "g", "t", "self", "n0", "e1", "p", "x", "do_", "nil_",
    "e2", "xe", "E5",
];

pub const NUMBERS: &[&str] = &[
    "0", "1", "2", "10", "1.5", "0.5", "1e10", "1E10", "1e-7", "5e+20", "0x1F", "0xe", "0XE",
    "0b101", "0B1", "123456789", "1e300", "0.1", "3.14159", "0xff", "7", "1e5", "0xabcdef", "2e-3",
];

pub const BINARY_OPERATORS: [BinaryOperator; 16] = [
    BinaryOperator::And,
    BinaryOperator::Or,
    BinaryOperator::Equal,
    BinaryOperator::NotEqual,
    BinaryOperator::LowerThan,
    BinaryOperator::LowerOrEqualThan,
    BinaryOperator::GreaterThan,
    BinaryOperator::GreaterOrEqualThan,
    BinaryOperator::Plus,
    BinaryOperator::Minus,
    BinaryOperator::Asterisk,
    BinaryOperator::Slash,
    BinaryOperator::DoubleSlash,
    BinaryOperator::Percent,
    BinaryOperator::Caret,
    BinaryOperator::Concat,
];

pub const UNARY_OPERATORS: [UnaryOperator; 3] =
    [UnaryOperator::Length, UnaryOperator::Minus, UnaryOperator::Not];

pub const COMPOUND_OPERATORS: [CompoundOperator; 8] = [
    CompoundOperator::Plus,
    CompoundOperator::Minus,
    CompoundOperator::Asterisk,
    CompoundOperator::Slash,
    CompoundOperator::DoubleSlash,
    CompoundOperator::Percent,
    CompoundOperator::Caret,
    CompoundOperator::Concat,
];

pub fn string_values() -> Vec<Vec<u8>> {
    let mut values: Vec<Vec<u8>> = vec![
        b"".to_vec(),
        b"a".to_vec(),
        b"hello".to_vec(),
        b"'".to_vec(),
        b"\"".to_vec(),
        b"a\nb".to_vec(),
        b"]]".to_vec(),
        b"\\".to_vec(),
        vec![0xff],
        b"1".to_vec(),
        b"--".to_vec(),
        b"[[".to_vec(),
        b"it's \"x\"".to_vec(),
    ];
    // long bracket candidates (>= 60 bytes, or >= 20 bytes with >= 6 new lines)
    values.push(vec![b'x'; 64]);
    let mut v = vec![b'y'; 61];
    v.extend_from_slice(b"]]");
    v.push(b']');
    values.push(v);
    let mut v = b"[".to_vec();
    v.extend(vec![b'z'; 62]);
    values.push(v);
    values.push(b"l1\nl2\nl3\nl4\nl5\nl6\nl7 and some".to_vec());
    let mut v = b"\n".to_vec();
    v.extend(vec![b'w'; 62]);
    v.extend_from_slice(b"]=]");
    values.push(v);
    // long bracket candidates containing closers and ending in a half closer "]" "="^j
    let mut v = vec![b'k'; 61];
    v.extend_from_slice(b"]]");
    v.extend_from_slice(b" x]=");
    values.push(v);
    let mut v = vec![b'm'; 61];
    v.extend_from_slice(b"]] and ]=] then ]==");
    values.push(v);
    let mut v = b"a\nb\nc\nd\ne\nf\ng ]] closing early ]".to_vec();
    v.extend_from_slice(b"=");
    values.push(v);
    values
}

pub fn number(spelling: &str) -> Expression {
    NumberExpression::from_str(spelling)
        .unwrap_or_else(|_| panic!("bad number spelling {}", spelling))
        .into()
}

pub struct Gen<'a> {
    pub rng: &'a mut Rng,
    strings: Vec<Vec<u8>>,
    pub types: bool,
    /// also generate the full Luau type grammar (outside the modelled fragment: lexer and parser oracles only)
    pub rich_types: bool,
}

impl<'a> Gen<'a> {
    pub fn new(rng: &'a mut Rng) -> Self {
        Gen { rng, strings: string_values(), types: true, rich_types: false }
    }

    fn name(&mut self) -> &'static str {
        NAMES[self.rng.below(NAMES.len())]
    }

    pub fn string(&mut self) -> StringExpression {
        let i = self.rng.below(self.strings.len());
        StringExpression::from_value(self.strings[i].clone())
    }

    pub fn atom(&mut self) -> Expression {
        match self.rng.below(12) {
            0 => Expression::from(true),
            1 => Expression::from(false),
            2 => Expression::nil(),
            3 | 4 | 5 => number(NUMBERS[self.rng.below(NUMBERS.len())]),
            6 => self.string().into(),
            7 => Expression::variable_arguments(),
            _ => Expression::identifier(self.name()),
        }
    }

    pub fn prefix(&mut self, depth: usize) -> Prefix {
        if depth == 0 {
            return Prefix::from_name(self.name());
        }
        match self.rng.below(10) {
            0 | 1 | 2 => Prefix::from_name(self.name()),
            3 => Prefix::Parenthese(Box::new(ParentheseExpression::new(self.expression(depth - 1)))),
            4 | 5 => Prefix::Call(Box::new(self.call(depth - 1))),
            6 | 7 => FieldExpression::new(self.prefix(depth - 1), self.name()).into(),
            _ => IndexExpression::new(self.prefix(depth - 1), self.expression(depth - 1)).into(),
        }
    }

    pub fn call(&mut self, depth: usize) -> FunctionCall {
        let prefix = self.prefix(depth);
        let arguments = match self.rng.below(8) {
            0 => Arguments::String(self.string()),
            1 => Arguments::Table(self.table(depth)),
            _ => {
                let n = self.rng.below(3);
                let mut tuple = TupleArguments::default();
                for _ in 0..n {
                    tuple = tuple.with_argument(self.expression(depth.saturating_sub(1)));
                }
                Arguments::Tuple(tuple)
            }
        };
        let method = if self.rng.chance(1, 5) { Some(Identifier::new(self.name())) } else { None };
        FunctionCall::new(prefix, arguments, method)
    }

    pub fn table(&mut self, depth: usize) -> TableExpression {
        let n = self.rng.below(4);
        let mut entries = Vec::new();
        for _ in 0..n {
            let d = depth.saturating_sub(1);
            entries.push(match self.rng.below(3) {
                0 => TableEntry::Field(Box::new(TableFieldEntry::new(self.name(), self.expression(d)))),
                1 => TableEntry::Index(Box::new(TableIndexEntry::new(
                    self.expression(d),
                    self.expression(d),
                ))),
                _ => TableEntry::Value(Box::new(self.expression(d))),
            });
        }
        TableExpression::new(entries)
    }

    /// a member of a union / intersection / optional: never one of those itself
    fn member_type(&mut self, depth: usize) -> Type {
        if depth == 0 {
            return TypeName::new(self.name()).into();
        }
        let d = depth - 1;
        match self.rng.below(12) {
            0 => TypeName::new(self.name()).with_type_parameter(self.rich_type(d)).into(),
            1 => TypeField::new(self.name(), TypeName::new(self.name())).into(),
            2 => Type::from(ArrayType::new(self.rich_type(d))),
            3 => {
                let mut table = TableType::default();
                for _ in 0..self.rng.below(3) {
                    table = table.with_property(TablePropertyType::new(self.name(), self.rich_type(d)));
                }
                if self.rng.chance(1, 3) {
                    table = table.with_indexer_type(TableIndexerType::new(self.member_type(d), self.rich_type(d)));
                }
                table.into()
            }
            4 => Type::from(ExpressionType::new(self.expression(d))),
            5 => Type::from(StringType::from_value("lit")),
            6 => Type::from(ParentheseType::new(self.rich_type(d))),
            7 => Type::nil(),
            8 => Type::from(true),
            _ => TypeName::new(self.name()).into(),
        }
    }

    pub fn rich_type(&mut self, depth: usize) -> Type {
        if depth == 0 {
            return TypeName::new(self.name()).into();
        }
        let d = depth - 1;
        match self.rng.below(10) {
            0 => Type::from(OptionalType::new(self.member_type(d))),
            1 => Type::from(UnionType::new(self.member_type(d), self.member_type(d))),
            2 => Type::from(IntersectionType::new(self.member_type(d), self.member_type(d))),
            3 | 4 => {
                let return_type: FunctionReturnType = match self.rng.below(4) {
                    0 => TypePack::default().with_type(self.rich_type(d)).with_type(self.rich_type(d)).into(),
                    1 => TypePack::default().into(),
                    2 => VariadicTypePack::new(self.member_type(d)).into(),
                    _ => self.member_type(d).into(),
                };
                let mut function = FunctionType::new(return_type);
                for _ in 0..self.rng.below(3) {
                    if self.rng.chance(1, 2) {
                        function = function.with_named_argument(self.name(), self.rich_type(d));
                    } else {
                        function = function.with_argument(self.rich_type(d));
                    }
                }
                if self.rng.chance(1, 4) {
                    function = function.with_variadic_type(VariadicTypePack::new(self.member_type(d)));
                }
                if self.rng.chance(1, 4) {
                    function = function.with_generic_parameters(GenericParameters::from_type_variable("T"));
                }
                function.into()
            }
            _ => self.member_type(depth),
        }
    }

    fn simple_type(&mut self) -> Type {
        if self.rich_types && self.rng.chance(2, 3) {
            return self.rich_type(2);
        }
        match self.rng.below(6) {
            0 => Type::from(OptionalType::new(TypeName::new(self.name()))),
            1 => Type::nil(),
            2 => Type::from(ArrayType::new(TypeName::new(self.name()))),
            3 => Type::from(true),
            _ => TypeName::new(self.name()).into(),
        }
    }

    pub fn expression(&mut self, depth: usize) -> Expression {
        if depth == 0 {
            return self.atom();
        }
        let d = depth - 1;
        match self.rng.below(24) {
            0 | 1 | 2 | 3 => self.atom(),
            4 | 5 | 6 | 7 | 8 | 9 => {
                let operator = BINARY_OPERATORS[self.rng.below(16)];
                BinaryExpression::new(operator, self.expression(d), self.expression(d)).into()
            }
            10 | 11 | 12 => {
                let operator = UNARY_OPERATORS[self.rng.below(3)];
                UnaryExpression::new(operator, self.expression(d)).into()
            }
            13 => ParentheseExpression::new(self.expression(d)).into(),
            14 | 15 => self.call(d).into(),
            16 => FieldExpression::new(self.prefix(d), self.name()).into(),
            17 => IndexExpression::new(self.prefix(d), self.expression(d)).into(),
            18 => self.table(d).into(),
            19 => {
                let mut if_expression =
                    IfExpression::new(self.expression(d), self.expression(d), self.expression(d));
                if self.rng.chance(1, 3) {
                    if_expression = if_expression.with_branch(self.expression(d), self.expression(d));
                }
                if_expression.into()
            }
            20 => {
                let mut function = FunctionExpression::default();
                for _ in 0..self.rng.below(3) {
                    function = function.with_parameter(self.name());
                }
                if self.rng.chance(1, 3) {
                    function = function.variadic();
                }
                if self.rng.chance(1, 2) {
                    function = FunctionExpression::from_block(self.block(d, false))
                        .with_parameters(function.get_parameters().to_vec());
                }
                function.into()
            }
            21 => {
                let mut interpolated = InterpolatedStringExpression::empty();
                for _ in 0..self.rng.below(4) {
                    if self.rng.chance(1, 2) {
                        let texts: [&[u8]; 5] = [b"a", b"x y", b"`", b"{", b"\n1"];
                        let text = texts[self.rng.below(5)];
                        interpolated = interpolated.with_segment(StringSegment::from_value(text.to_vec()));
                    } else {
                        interpolated = interpolated.with_segment(ValueSegment::new(self.expression(d)));
                    }
                }
                interpolated.into()
            }
            22 if self.types => TypeCastExpression::new(self.expression(d), self.simple_type()).into(),
            _ => self.atom(),
        }
    }

    fn variable(&mut self, depth: usize) -> Variable {
        match self.rng.below(4) {
            0 => FieldExpression::new(self.prefix(depth), self.name()).into(),
            1 => IndexExpression::new(self.prefix(depth), self.expression(depth)).into(),
            _ => Variable::new(self.name()),
        }
    }

    pub fn statement(&mut self, depth: usize, in_loop: bool) -> Statement {
        let d = depth.saturating_sub(1);
        let choice = if depth == 0 { self.rng.below(5) } else { self.rng.below(14) };
        if self.rich_types && self.rng.chance(1, 8) {
            let mut declaration = TypeDeclarationStatement::new(self.name(), self.rich_type(2));
            match self.rng.below(4) {
                0 => {
                    declaration = declaration
                        .with_generic_parameters(GenericParametersWithDefaults::from_type_variable("T"));
                }
                1 => {
                    declaration = declaration.with_generic_parameters(
                        GenericParametersWithDefaults::from_type_variable("T")
                            .with_type_variable_with_default(TypeVariableWithDefault::new("U", self.member_type(1)))
                            .expect("type variable after type variable"),
                    );
                }
                _ => {}
            }
            if self.rng.chance(1, 4) {
                declaration = declaration.export();
            }
            return declaration.into();
        }
        match choice {
            0 | 1 => {
                let n = 1 + self.rng.below(2);
                let variables = (0..n).map(|_| self.variable(d)).collect();
                let m = 1 + self.rng.below(2);
                let values = (0..m).map(|_| self.expression(depth)).collect();
                AssignStatement::new(variables, values).into()
            }
            2 => {
                let n = 1 + self.rng.below(2);
                let variables: Vec<TypedIdentifier> = (0..n)
                    .map(|_| {
                        let identifier = TypedIdentifier::new(self.name());
                        if self.types && self.rng.chance(1, 6) {
                            identifier.with_type(self.simple_type())
                        } else {
                            identifier
                        }
                    })
                    .collect();
                let m = self.rng.below(3);
                let values = (0..m).map(|_| self.expression(depth)).collect();
                VariableAssignment::new(variables, values).into()
            }
            3 | 4 => Statement::Call(self.call(depth)),
            5 => DoStatement::new(self.block(d, in_loop)).into(),
            6 => WhileStatement::new(self.block(d, true), self.expression(d)).into(),
            7 => RepeatStatement::new(self.block(d, true), self.expression(d)).into(),
            8 => {
                let mut if_statement = IfStatement::create(self.expression(d), self.block(d, in_loop));
                if self.rng.chance(1, 3) {
                    if_statement = if_statement.with_new_branch(self.expression(d), self.block(d, in_loop));
                }
                if self.rng.chance(1, 2) {
                    if_statement = if_statement.with_else_block(self.block(d, in_loop));
                }
                if_statement.into()
            }
            9 => {
                let step = if self.rng.chance(1, 3) { Some(self.expression(d)) } else { None };
                NumericForStatement::new(
                    self.name(),
                    self.expression(d),
                    self.expression(d),
                    step,
                    self.block(d, true),
                )
                .into()
            }
            10 => {
                let n = 1 + self.rng.below(2);
                let identifiers = (0..n).map(|_| TypedIdentifier::new(self.name())).collect();
                let m = 1 + self.rng.below(2);
                let expressions = (0..m).map(|_| self.expression(d)).collect();
                GenericForStatement::new(identifiers, expressions, self.block(d, true)).into()
            }
            11 => {
                let mut name = FunctionName::from_name(self.name());
                for _ in 0..self.rng.below(3) {
                    name = name.with_field(self.name());
                }
                if self.rng.chance(1, 3) {
                    name = name.with_method(self.name());
                }
                let mut function =
                    FunctionStatement::new(name, self.block(d, false), Vec::new(), self.rng.chance(1, 4));
                for _ in 0..self.rng.below(3) {
                    function = function.with_parameter(self.name());
                }
                function.into()
            }
            12 => {
                let mut function = FunctionAssignment::from_name(self.name(), self.block(d, false));
                for _ in 0..self.rng.below(3) {
                    function = function.with_parameter(self.name());
                }
                if self.rng.chance(1, 4) {
                    function = function.variadic();
                }
                function.into()
            }
            _ => CompoundAssignStatement::new(
                COMPOUND_OPERATORS[self.rng.below(8)],
                self.variable(d),
                self.expression(depth),
            )
            .into(),
        }
    }

    pub fn block(&mut self, depth: usize, in_loop: bool) -> Block {
        let n = self.rng.below(4);
        let statements: Vec<Statement> = (0..n).map(|_| self.statement(depth, in_loop)).collect();
        let last = match self.rng.below(6) {
            0 => {
                let m = self.rng.below(3);
                Some(LastStatement::Return(ReturnStatement::new(
                    (0..m).map(|_| self.expression(depth)).collect(),
                )))
            }
            1 if in_loop => Some(LastStatement::new_break()),
            2 if in_loop => Some(LastStatement::new_continue()),
            _ => None,
        };
        Block::new(statements, last)
    }
}
